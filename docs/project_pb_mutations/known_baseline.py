#!/usr/bin/env python3
"""Used only by the binding demonstration (bin/scratch-run with SCRATCH_CMD): marks the findings of the UNCHANGED
tree as known in the SCRATCH copy of known_findings.json, so that a mutation shows up as exit 1 with only its
own signatures.  Usage: known_baseline.py <signatures file (one per line: Cxx:...)>"""
import json, sys
f = "known_findings.json"
d = json.load(open(f))
for line in open(sys.argv[1]):
    sig = line.strip()
    if sig:
        d["findings"].append({"property": sig.split(":")[0], "status": "known", "signature": sig, "what": "baseline finding " + sig})
json.dump(d, open(f, "w"), indent=1)
