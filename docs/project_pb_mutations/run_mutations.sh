#!/bin/sh
# Binding demonstration, part 2: run every mutation patch against its property in a scratch worktree.
# The findings of the unchanged tree are marked known in the SCRATCH copy of known_findings.json, so exit 1
# means the mutation produced a NEW signature.   Usage: run_mutations.sh [m1 m2 ...]   (from /verif)
D=docs/project_pb_mutations
export VERIF_SCRATCH_TARGET=/verif/harness/target-scratch-pb
mkdir -p work/pb/logs
for p in ${@:-m1 m2 m3 m4 m5 m6 m7 m8 m9 m10 m11 m12}; do
  f=$(ls $D/${p}_*.diff); prop=$(echo $f | sed 's/.*_\(c[0-9][0-9]\)_.*/\1/' | tr c C)
  log=work/pb/logs/mut-$p.log
  SCRATCH_CMD="python3 $D/known_baseline.py $D/baseline_signatures.txt && PB_SKIP_DEMOS=1 VERIF_SEED=1 VERIF_TARGET_DIR=$VERIF_SCRATCH_TARGET bin/vcheck $prop --tier quick" \
    bin/scratch-run $f $prop > $log 2>&1
  echo "$p $prop rc=$? $(grep -c '^VIOLATION' $log) new violation line(s): $(grep 'signature:' $log | tr '\n' ' ')"
done
