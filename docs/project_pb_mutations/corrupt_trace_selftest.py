#!/usr/bin/env python3
"""Binding demonstration, part 1 (C09 C11 C12 C15): take GOOD recorded observations of the real compiler,
corrupt ONE recorded field, and show that the TLA+ predicate (TLC) rejects the corrupted record while it
accepts the original.   Run:  python3 docs/project_pb_mutations/corrupt_trace_selftest.py   (from /verif)"""
import copy
import json
import sys

sys.path.insert(0, "/verif/lib")
sys.path.insert(0, "/verif")
import vlib  # noqa: E402
from engines import proj_c09, proj_c11, proj_c12, proj_c15  # noqa: E402
from engines import proj_pb_common as pb  # noqa: E402


def sc(n, alias="", args=None, dirs=None):
    return {"name": n, "alias": alias, "args": args or [], "dirs": dirs or []}


def ln(n, sels, alias="", args=None):
    return {"name": n, "alias": alias, "args": args or [], "dirs": [], "sels": sels}


PROG = {"decls": [
    {"k": "field", "on": "Query", "name": "Home", "component": True, "vars": [{"name": "i", "type": {"k": "named", "n": "Int"}}],
     "sels": [ln("me", [sc("name"), sc("__refetch"), sc("score", args=[["round", {"t": "bool", "v": True}]])]),
              ln("pets", [sc("nickname")], args=[["first", {"t": "var", "n": "i"}]])]},
    {"k": "entrypoint", "on": "Query", "name": "Home"}]}
PROG2 = copy.deepcopy(PROG)
PROG2["decls"][0]["sels"][0]["sels"].reverse()


def whys(bads, key="bad"):
    out = set()
    for b in bads:
        for x in b.get(key, []):
            for e in (x["errs"] if "errs" in x else [x]):
                out.add(e["why"])
    return out


def main():
    chk = vlib.Check("C09", "quick", 1)
    results = []
    try:
        # ---- C09 -------------------------------------------------------------------------------------
        obs = pb.compile_programs(chk, [PROG], want=("ops", "js", "artifacts"))
        good = proj_c09.records_c09(obs)
        assert good and pb.judge(chk, "ObsC09.tla", good, tag="st09g") == []
        bad = copy.deepcopy(good)
        op = bad[0]["ops"][0]["op"] if bad[0]["ops"][0]["path"].endswith("/query_text.ts") else bad[0]["ops"][-1]["op"]
        op["vars"][0]["type"] = {"k": "named", "n": "String"}          # $i: Int  ->  $i: String
        w = whys(pb.judge(chk, "ObsC09.tla", bad, tag="st09b"))
        results.append(("C09 variable type corrupted in the recorded operation", sorted(w)))
        assert "variable-type-incompatible-with-position" in w
        bad = copy.deepcopy(good)
        for o in bad[0]["ops"]:
            o["op"]["selections"][0]["name"] = "nmae"                   # a root field renamed
        w = whys(pb.judge(chk, "ObsC09.tla", bad, tag="st09c"))
        results.append(("C09 field renamed in the recorded operation", sorted(w)))
        assert "field-undefined-on-type" in w

        # ---- C11 -------------------------------------------------------------------------------------
        good, _ = proj_c11.records_c11(obs)
        assert pb.judge(chk, "ObsC11.tla", good, tag="st11g") == []
        bad = copy.deepcopy(good)
        main_pair = [p for p in bad[0]["pairs"] if p["path"].endswith("/query_text.ts")][0]
        me = [n for n in main_pair["norm"]["selections"] if n["fieldName"] == "me"][0]
        me["selections"] = [n for n in me["selections"] if n["fieldName"] != "name"]     # one normalization node dropped
        w = whys(pb.judge(chk, "ObsC11.tla", bad, tag="st11b"))
        results.append(("C11 one node removed from the recorded normalization AST", sorted(w)))
        assert "operation-selection-without-counterpart-in-normalization-ast" in w
        bad = copy.deepcopy(good)
        main_pair = [p for p in bad[0]["pairs"] if p["path"].endswith("/query_text.ts")][0]
        me = [n for n in main_pair["norm"]["selections"] if n["fieldName"] == "me"][0]
        me["concrete"] = {"some": False, "name": ""}                     # concreteType: null on an object type
        w = whys(pb.judge(chk, "ObsC11.tla", bad, tag="st11c"))
        results.append(("C11 concreteType nulled for an object-typed field", sorted(w)))
        assert "concrete-type-missing-or-wrong-where-schema-type-is-an-object-type" in w

        # ---- C12 -------------------------------------------------------------------------------------
        items = [{"k": "replay", "prog": PROG}]
        obs12, node = proj_c12.observe(chk, [PROG])
        good, _, _ = proj_c12.records_c12(items, obs12, node)
        assert pb.judge_tags(chk, "ObsC12.tla", good, tag="st12g")["BAD"] == []
        bad = copy.deepcopy(good)
        main_pair = [p for p in bad[0]["pairs"] if p["main"]][0]
        pets = [n for n in main_pair["norm"]["selections"] if n["fieldName"] == "pets"][0]
        pets["rkey_cps"][-1] = ord("j")                                  # runtime key pets____first___v_j
        w = whys(pb.judge_tags(chk, "ObsC12.tla", bad, tag="st12b")["BAD"])
        results.append(("C12 one character of a recorded runtime key changed", sorted(w)))
        assert "compiler-key-and-runtime-key-disagree" in w
        bad = copy.deepcopy(good)
        main_pair = [p for p in bad[0]["pairs"] if p["main"]][0]
        f = [s for s in main_pair["op"]["selections"] if s["name"] == "pets"][0]
        f["key_cps"][4] = ord("-")                                       # recorded response key gets a '-'
        w = whys(pb.judge_tags(chk, "ObsC12.tla", bad, tag="st12c")["BAD"])
        results.append(("C12 a '-' put into a recorded response key", sorted(w)))
        assert "response-key-is-not-a-graphql-name" in w

        # ---- C15 -------------------------------------------------------------------------------------
        o2 = pb.compile_programs(chk, [PROG, PROG2], want=("artifacts",))
        rec = {"id": 0, "base": proj_c15.op_files(o2[0]), "cur": proj_c15.op_files(o2[1]), "curok": True, "curwhy": ""}
        assert pb.judge(chk, "ObsC15.tla", [rec], tag="st15g") == []
        bad = copy.deepcopy(rec)
        bad["cur"][0]["digest"] = "0" * 64                               # one digest corrupted
        b = pb.judge(chk, "ObsC15.tla", [bad], tag="st15b")
        w = {e["why"] for x in b for e in x["errs"]}
        results.append(("C15 one recorded digest changed", sorted(w)))
        assert "operation-artifact-changed" in w
    finally:
        import shutil
        shutil.rmtree(chk.work, ignore_errors=True)
    for name, w in results:
        print("REJECTED:", name, "->", ", ".join(w))
    print("corrupt-trace self-test: all", len(results), "corruptions rejected, all originals accepted")


if __name__ == "__main__":
    main()
