#!/usr/bin/env python3
"""Binding self-test (1): corrupt one recorded field of a good trace and show that TLC rejects it.
Run from /verif after the harness is built:  python3 docs/isogrammar_mutations/selftest_corrupt_trace.py"""
import copy, os, sys
sys.path.insert(0, '/verif/lib'); sys.path.insert(0, '/verif')
import vlib
from engines import isogrammar as E
chk = vlib.Check("C07", "quick", 1)
binp = vlib.cargo_build("h_isogrammar") / "h_isogrammar"
text = 'field Query.foo($a: [Int!]!) "d" {\n a: b(x: 1) { c, }\n}'
o = E.pump(binp, 'parse', [{"id": "good", "text": text}])[0]
good = {k: o[k] for k in ("id", "len", "nb", "outcome", "kind", "ast", "toks", "diag")}
recs = [good]
def variant(name, fn):
    r = copy.deepcopy(good); r["id"] = name; fn(r); recs.append(r)
variant("tok-end-past-len", lambda r: r["toks"][-1].__setitem__("e", r["len"] + 1))
variant("tok-overlap", lambda r: r["toks"][3].__setitem__("s", r["toks"][2]["s"]))
variant("ast-start-gt-end", lambda r: r["ast"][2].__setitem__("s", r["ast"][2]["e"] + 1))
variant("outcome-panic", lambda r: r.__setitem__("outcome", "panic"))
variant("diag-missing", lambda r: (r.__setitem__("outcome", "diag"), r.__setitem__("diag", [])))
variant("not-on-boundary", lambda r: r.__setitem__("nb", [r["ast"][1]["e"]]))
f, d = E.judge(chk, "IsoTrace.tla", E.SPEC / "IsoTrace.cfg", recs, "selftest")
print("C07 corrupt-trace self-test:")
for x in f: print("  ", x)
print("   good record flagged:", any(x["id"] == "good" for x in f))
o = E.pump(binp, 'resolve', [{"id": "good", "text": text}])[0]
good = {k: o[k] for k in ("id", "len", "outcome", "nodes", "res")}
recs = [good]
q = [i for i, x in enumerate(good["res"]) if x["o"] == 8][0]
variant("returned-parent-instead-of-leaf", lambda r: r["res"][q].__setitem__("chain", r["res"][q]["chain"][1:]))
variant("chain-skips-parent", lambda r: r["res"][-8].__setitem__("chain", [r["res"][-8]["chain"][0], r["res"][-8]["chain"][-1]]))
variant("node-span-shifted", lambda r: r["nodes"][r["res"][q]["chain"][0] - 1].__setitem__("s", 9))
variant("unknown-node", lambda r: r["res"][q].__setitem__("chain", [0] + r["res"][q]["chain"][1:]))
f, d = E.judge(chk, "IsoResolve.tla", E.SPEC / "IsoResolve.cfg", recs, "selftest32")
print("C32 corrupt-trace self-test:")
for x in f: print("  ", {k: x[k] for k in ("id", "clauses", "first")})
print("   good record flagged:", any(x["id"] == "good" for x in f))
import shutil; shutil.rmtree(chk.work, ignore_errors=True)
