#!/bin/sh
# verify_patch.sh <patch.diff> <tag> <Cxx> [<Cyy> ...]   (from /verif)
# scratch worktree of /repo HEAD + patch: (1) digests of all demo artifacts -> work/pb/digests-<tag>.json,
# (2) the quick checks of the given properties with every baseline signature marked known in the scratch copy:
#     KNOWN-FINDING lines show which baseline findings are still there, rc=0 = nothing new.
D=docs/project_pb_mutations
P=$1; TAG=$2; shift 2
export VERIF_SCRATCH_TARGET=/verif/harness/target-scratch-pb
mkdir -p work/pb
CMD="python3 $D/known_baseline.py $D/baseline_signatures.txt && VERIF_TARGET_DIR=$VERIF_SCRATCH_TARGET python3 docs/project_pb_patches/demo_digests.py /verif/work/pb/digests-$TAG.json"
for c in "$@"; do CMD="$CMD; VERIF_SEED=1 VERIF_TARGET_DIR=$VERIF_SCRATCH_TARGET bin/vcheck $c --tier quick; echo rc_$c=\$?"; done
SCRATCH_CMD="$CMD" bin/scratch-run $P $1
