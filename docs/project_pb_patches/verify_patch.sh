#!/bin/sh
# verify_patch.sh <patch.diff|empty> <Cxx> <tag>   (from /verif)
# scratch worktree of /repo HEAD + patch: (1) digests of all demo artifacts -> work/pb/digests-<tag>.json,
# (2) the check of <Cxx>, quick tier, with every baseline signature marked known in the scratch copy:
#     KNOWN-FINDING lines show which baseline findings are still there, exit 0 = nothing new.
D=docs/project_pb_mutations
export VERIF_SCRATCH_TARGET=/verif/harness/target-scratch-pb
mkdir -p work/pb
SCRATCH_CMD="python3 $D/known_baseline.py $D/baseline_signatures.txt && VERIF_TARGET_DIR=$VERIF_SCRATCH_TARGET python3 docs/project_pb_patches/demo_digests.py /verif/work/pb/digests-$3.json && VERIF_SEED=1 VERIF_TARGET_DIR=$VERIF_SCRATCH_TARGET bin/vcheck $2 --tier quick; echo rc=\$?" \
  bin/scratch-run $1 $2
