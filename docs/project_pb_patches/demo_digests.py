#!/usr/bin/env python3
"""Compile the four checked-in projects with the compiler of the current (scratch) tree and write
{project: {artifact path: sha256}} to the file given as argument.  Used to show that a repair changes the
demos' artifacts exactly where the repaired defect showed.  Run from a /verif copy (bin/scratch-run SCRATCH_CMD)."""
import hashlib, json, sys
sys.path.insert(0, "lib"); sys.path.insert(0, ".")
import vlib
from engines import proj_pb_common as pb

chk = vlib.Check("C09", "quick", 1)
out = {}
for name, (o, _) in pb.compile_demos(chk, ["artifacts"]).items():
    out[name] = {p: hashlib.sha256(t.encode()).hexdigest() for p, t in o["artifacts"].items()}
json.dump(out, open(sys.argv[1], "w"), indent=0, sort_keys=True)
import shutil; shutil.rmtree(chk.work, ignore_errors=True)
print("digests of", {k: len(v) for k, v in out.items()})
