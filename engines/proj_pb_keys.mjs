// C12 observer: run the REAL runtime key functions of libs/isograph-react/src/core/cache.ts on REAL generated
// artifacts, under Node (TypeScript types stripped by node:module.stripTypeScriptTypes / Node's own loader).
//
//   node proj_pb_keys.mjs <path to cache.ts>      stdin: one JSON per line {id, dir, pairs:[{qt, norm}]}
//   stdout: one JSON per line {id, results:[{qt, ok, error?, text_cps, norm}]}
//     text_cps : code points of the default export of the query text artifact (what the runtime sends)
//     norm     : the normalization AST, every Scalar/Linked node annotated with
//                rkey_cps = code points of getNetworkResponseKey(node)  (the real function)
// Nothing is judged here.
import { readFileSync } from 'node:fs';
import { stripTypeScriptTypes } from 'node:module';
import { pathToFileURL } from 'node:url';
import path from 'node:path';
import readline from 'node:readline';

process.removeAllListeners('warning');
process.on('warning', () => {});

const cachePath = process.argv[2];
const src = readFileSync(cachePath, 'utf8');

function cutRuntimeFunctions(src) {
  // the overloads + implementation of getNetworkResponseKey, getArgumentValueChunk and the three split keys are contiguous
  const start = src.indexOf('function getNetworkResponseKey(');
  const lastConst = src.indexOf('export const THIRD_SPLIT_KEY');
  if (start < 0 || lastConst < 0 || lastConst < start) {
    throw new Error('cannot locate getNetworkResponseKey .. THIRD_SPLIT_KEY in ' + cachePath);
  }
  const end = src.indexOf('\n', lastConst);
  let text = src.slice(start, end < 0 ? src.length : end);
  text = text.replace(/export const /g, 'const ');
  const js = stripTypeScriptTypes(text);
  return new Function(js + '\nreturn { getNetworkResponseKey, getArgumentValueChunk, FIRST_SPLIT_KEY, SECOND_SPLIT_KEY, THIRD_SPLIT_KEY };')();
}

const rt = cutRuntimeFunctions(src);
const cps = (s) => Array.from(s).map((c) => c.codePointAt(0));

function annotate(sels) {
  return (sels ?? []).map((n) => {
    if (n.kind === 'Scalar' || n.kind === 'Linked') {
      let rkey = null, err = null;
      try { rkey = rt.getNetworkResponseKey(n); } catch (e) { err = String(e); }
      const out = { kind: n.kind, fieldName: String(n.fieldName), nargs: n.arguments == null ? 0 : n.arguments.length,
                    rkey_ok: rkey != null && typeof rkey === 'string', rkey_cps: rkey == null ? [] : cps(String(rkey)) };
      if (err) out.error = err.slice(0, 200);
      out.selections = n.kind === 'Linked' ? annotate(n.selections) : [];
      return out;
    }
    if (n.kind === 'InlineFragment') {
      return { kind: n.kind, type: String(n.type), selections: annotate(n.selections) };
    }
    return { kind: String(n.kind), selections: [] };
  });
}

const rl = readline.createInterface({ input: process.stdin });
for await (const line of rl) {
  if (!line.trim()) continue;
  const job = JSON.parse(line);
  const results = [];
  for (const p of job.pairs) {
    const r = { qt: p.qt, ok: true };
    try {
      const q = await import(pathToFileURL(path.join(job.dir, p.qt)).href);
      if (typeof q.default !== 'string') throw new Error('query text default export is not a string');
      r.text_cps = cps(q.default);
      const m = await import(pathToFileURL(path.join(job.dir, p.norm)).href);
      let ast = m.default;
      if (ast && ast.kind !== 'NormalizationAst' && ast.networkRequestInfo) ast = ast.networkRequestInfo.normalizationAst;
      if (!ast || ast.kind !== 'NormalizationAst') throw new Error('no normalization AST in ' + p.norm);
      r.norm = { selections: annotate(ast.selections) };
    } catch (e) {
      r.ok = false;
      r.error = String(e && e.message ? e.message : e).slice(0, 300);
    }
    results.push(r);
  }
  process.stdout.write(JSON.stringify({ id: job.id, results }) + '\n');
}
