"""C12 — response keys are unique per field+arguments and agree with the runtime.

  1. TLC (spec/project/GenC12.tla over Keys.tla) enumerates (field, args) cases of the abstract value universe,
     pairs for which the design-level model predicts a failure of "same key <=> same field and arguments", and a
     seeded random sample of pairs for which it predicts none; it prints the program and the model's alias /
     runtime key for every case.
  2. every program is compiled by the real compiler (file extensions in imports on, so that Node can load the
     artifacts); Node loads the REAL artifacts and runs the REAL getNetworkResponseKey / getArgumentValueChunk cut
     out of libs/isograph-react/src/core/cache.ts on every normalization AST node (engines/proj_pb_keys.mjs).
  3. TLC judges layer A (spec/project/ObsC12.tla) on (operation text as Node evaluated it, annotated AST) and
     reports layer-B disagreements (Keys.tla vs. real alias / real key) as drift.
"""
from __future__ import annotations

import json
import shutil
from pathlib import Path

import vlib
from vlib import ToolError, log

from engines import projlib
from engines import proj_pb_common as pb

LEVEL = {"C12": "model_checking"}
OPTIONS = {"include_file_extensions_in_import_statements": True}


def observe(chk, programs: list[dict]):
    """compile + Node; -> (observations, {id: node results})"""
    projects = [pb.project_of(p, i, options=OPTIONS) for i, p in enumerate(programs)]
    obs = projlib.compile_all(chk, projects, want=["ops", "artifacts"])
    base = chk.work / "c12"
    base.mkdir(exist_ok=True)
    jobs = []
    for o in obs:
        if o["outcome"] != "ok":
            continue
        d = base / f"p{o['id']}"
        if d.exists():
            shutil.rmtree(d)
        for rel, content in o["artifacts"].items():
            f = d / rel
            f.parent.mkdir(parents=True, exist_ok=True)
            f.write_text(content)
        pairs = [{"qt": p, "norm": pb.norm_path_of(p)} for p in pb.op_paths(o)]
        jobs.append({"id": o["id"], "dir": str(d), "pairs": pairs})
    node = pb.run_node_keys(chk, jobs) if jobs else {}
    shutil.rmtree(base, ignore_errors=True)
    return obs, node


def _no_surrogates(tree):
    """the strict parser is Rust: a \\uD83D escape in a GraphQL string becomes U+FFFD there, a lone surrogate in python"""
    if isinstance(tree, dict):
        return {k: ([0xFFFD if isinstance(c, int) and 0xD800 <= c <= 0xDFFF else c for c in v] if k == "cps" else _no_surrogates(v))
                for k, v in tree.items()}
    if isinstance(tree, list):
        return [_no_surrogates(x) for x in tree]
    return tree


def records_c12(items, obs, node):
    recs, unreadable, selfcheck = [], 0, 0
    for it, o in zip(items, obs):
        if o["outcome"] != "ok":
            continue
        results = node.get(json.dumps(o["id"]))
        if results is None:
            raise ToolError(f"no Node observation for program {o['id']}")
        pairs = []
        for r in results:
            path = r["qt"]
            if not r["ok"] or "text_cps" not in r:
                # Node could not even load the artifact (e.g. the operation text broke the JavaScript literal)
                unreadable += 1
                pairs.append({"path": path, "main": path.endswith("/query_text.ts"), "op": {"readable": False, "selections": []},
                              "norm": {"ok": False, "selections": []}, "node_error": pb_ascii(r.get("error", ""))})
                continue
            text = "".join(chr(c) for c in r["text_cps"])
            op = pb.loose_operation(text)
            strict = o["ops"].get(path, {})
            if strict.get("ok") and op["readable"]:
                # self-check of the tolerant reader against the strict parser of h_compile (same text unless swc and
                # Node disagree on the JavaScript value, which only happens for surrogate escapes)
                if _no_surrogates(pb.strip_strict_tree(strict["selections"])) != _no_surrogates(pb.strip_strict_tree(op["selections"])):
                    if not any(c > 0xFFFF or c == 0xFFFD for c in r["text_cps"]):
                        dump = Path("/verif/work") / f"c12_selfcheck_{o['id']}.json"
                        dump.parent.mkdir(exist_ok=True)
                        dump.write_text(json.dumps({"program": it.get("prog"), "text": text, "strict": pb.strip_strict_tree(strict["selections"]),
                                                    "loose": pb.strip_strict_tree(op["selections"])}, indent=1))
                        raise ToolError(f"tolerant reader disagrees with the strict parser on {path} of program {o['id']} (both trees in {dump})")
                selfcheck += 1
            if not op["readable"]:
                unreadable += 1
                op = {"readable": False, "selections": []}
            else:
                op = {"readable": True, "selections": pb.strip_op(op["selections"], keep_cps=True)}
            norm = r.get("norm")
            pairs.append({"path": path, "main": path.endswith("/query_text.ts"), "op": op,
                          "norm": {"ok": True, "selections": norm["selections"]} if norm else {"ok": False, "selections": []}})
        pred = {"has": False, "f": "", "alias": [], "rkey": []}
        if it["k"] == "case":
            pred = {"has": True, "f": it["a"]["f"], "alias": it["a"]["alias"], "rkey": it["a"]["rkey"]}
        recs.append({"id": o["id"], "pairs": pairs, "pred": pred})
    return recs, unreadable, selfcheck


def pb_ascii(s):
    return s.encode("ascii", "replace").decode()


def consts_for(tier):
    return {"UnitSet": "small", "MaxLen": 2, "NGood": 40} if tier == "quick" else {"UnitSet": "full", "MaxLen": 2, "NGood": 400}


def dedupe_pairs(items):
    seen, out = set(), []
    for it in items:
        if it["k"] == "pair":
            key = json.dumps(sorted([json.dumps(it["a"], sort_keys=True), json.dumps(it["b"], sort_keys=True)]))
            if key in seen:
                continue
            seen.add(key)
        out.append(it)
    return out


def hits_from(bads, items):
    hits = []
    for b in bads:
        it = items[b["id"]]
        prog = it["prog"]
        for bad in b["bad"]:
            for e in bad["errs"]:
                hits.append({"why": e["why"], "feats": pb.feats_of(prog), "size": len(json.dumps(prog)),
                             "sampled": it.get("kind") == "model-predicts-no-failure",
                             "what": f"{bad['path']}: {e['why']} ({e['at']})",
                             "replay": pb.replay_doc("C12", "program", {"program": prog, "path": bad["path"], "why": e["why"], "at": e["at"]})})
    return hits


def run(chk):
    items = dedupe_pairs(projlib.generate(chk, "GenC12.tla", consts_for(chk.tier), name=chk.tier, timeout=900))
    programs = [it["prog"] for it in items]
    obs, node = observe(chk, programs)
    outcomes = {}
    for o in obs:
        outcomes[o["outcome"]] = outcomes.get(o["outcome"], 0) + 1
    recs, unreadable, selfcheck = records_c12(items, obs, node)
    if len(recs) < len(programs) // 2:
        raise ToolError(f"vacuous: only {len(recs)} of {len(programs)} generated programs compile ({outcomes})")
    res = pb.judge_tags(chk, "ObsC12.tla", recs, tag="c12", chunk=200)
    hits = hits_from(res["BAD"], items)
    sigs = pb.report_grouped(chk, "C12", hits)

    # ---- conformance of the design-level model (layer B): predictions vs. observations -----------------
    bad_ids = {b["id"]: {e["why"] for bad in b["bad"] for e in bad["errs"]} for b in res["BAD"]}
    n_case = n_pair = n_good = 0
    pred_mismatch = []
    readable = {r["id"]: all(p["op"]["readable"] and p["norm"]["ok"] for p in r["pairs"] if p["main"]) for r in recs}
    for it, o in zip(items, obs):
        if o["outcome"] != "ok" or not readable.get(o["id"], False):
            continue            # nothing was observed for this program (rejected, or its operation text cannot be read)
        whys = bad_ids.get(o["id"], set())
        if it["k"] == "case":
            n_case += 1
            if (not it["a"]["legal"]) != ("response-key-is-not-a-graphql-name" in whys):
                pred_mismatch.append({"id": o["id"], "what": "legal-name verdict differs from the model", "model_legal": it["a"]["legal"]})
            if (not it["a"]["agree"]) != ("compiler-key-and-runtime-key-disagree" in whys):
                pred_mismatch.append({"id": o["id"], "what": "compiler-key = runtime-key verdict differs from the model", "model_agree": it["a"]["agree"]})
        else:
            inj = whys & {"same-response-key-for-different-field-or-arguments", "different-response-keys-for-the-same-field-and-arguments"}
            predicted_bad = it["kind"] != "model-predicts-no-failure"
            if predicted_bad:
                n_pair += 1
            else:
                n_good += 1
            if predicted_bad != bool(inj):
                pred_mismatch.append({"id": o["id"], "what": f"injectivity verdict differs from the model ({it['kind']})", "observed": sorted(inj)})
    for d in res["DRIFT"]:
        chk.drift({"program": d["id"], "drift": d["drift"]})
    for m in pred_mismatch:
        chk.drift(m)

    n_sets = sum(len(r["pairs"]) for r in recs)
    chk.cov["evaluations"] = n_sets
    chk.cov["distinct_nontrivial"] = n_case
    chk.cov["rule"] = ("evaluations = (operation, normalization AST) pairs judged; nontrivial = (field, args) cases compiled in a tiny "
                       "program whose alias was read from the operation and whose runtime key was computed by the real TypeScript functions")
    chk.cov["exhaustive"] = True
    chk.cov["detail"] = {"generated": len(programs), "outcomes": outcomes, "cases": n_case, "model_predicted_bad_pairs": n_pair,
                           "random_pairs_predicted_fine": n_good, "operations_unreadable": unreadable,
                           "tolerant_reader_self_checks": selfcheck, "model_prediction_mismatches": len(pred_mismatch),
                           "alias_or_key_drift_records": len(res["DRIFT"]), "signatures": sigs}
    chk.cov["programs"] = len(programs)
    chk.cov["trusted_base"] = ["engines/isorender.py", "harness/h_compile", "Node 22 (module loading with type stripping) + engines/proj_pb_keys.mjs (walks the AST, calls the real functions)",
                               "engines/proj_pb_common.py loose_operation (tolerant reader of the operation text)", "TLC"]
    for it in items[:2]:
        chk.sample({"program": it["prog"], "model_alias_cps": it["a"]["alias"], "model_runtime_key_cps": it["a"]["rkey"]})
    chk.assumptions += [
        "the runtime key is computed by executing the text of getNetworkResponseKey/getArgumentValueChunk and the three split-key constants cut out of cache.ts (types stripped by Node) on the artifact as Node loads it",
        "operation text is the JavaScript value of the default export as Node evaluates it, read by a tolerant reader that accepts any characters in the alias position (self-checked against the strict parser on every operation that parses)",
        "non-BMP characters cannot be written in iso string literals (the lexer stops at U+FFFF); they are reached through \\uD83D\\uDE00 escapes",
        "operations whose text cannot be read (broken JavaScript literal / broken GraphQL string: C09 findings) yield no key observation",
    ]


def replay(prop, path, seed):
    doc = json.loads(Path(path).read_text())
    chk = pb.ReplayCheck(prop, seed)
    try:
        items = [{"k": "replay", "prog": doc["program"]}]
        obs, node = observe(chk, [doc["program"]])
        recs, _, _ = records_c12(items, obs, node)
        if not recs:
            return 0
        res = pb.judge_tags(chk, "ObsC12.tla", recs, tag="replay")
        whys = {e["why"] for b in res["BAD"] for bad in b["bad"] for e in bad["errs"]}
        return 1 if doc["why"] in whys else 0
    finally:
        chk.close()
