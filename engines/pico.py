"""Engine `pico` — decides C01, C02, C03, C04 (crates/pico, crates/pico_macros).

Pipeline of one check (see DESIGN.md section 3 and docs/pico.md):
  1. build harness/h_pico against /repo's working tree
  2. TLC model-checks MCPico (layer B = transcription of pico, with the layer-A monitor PicoA folded
     over the events B produces): B => A exhaustively within the bounds of each configuration,
     emitting one REPLAY (shortest history + B's prediction for the last operation) per transition
  3. spec -> impl: every replay runs on the real crate; observations equal to B's prediction are
     covered by step 2 (B => A); every other replay is re-judged by layer A in step 5
  4. TLC -simulate produces long random histories; the real crate runs them
  5. impl -> spec: TLC validates the recorded histories (mismatches, all simulation runs, and a
     seed-chosen sample of matching replays) against PicoTrace (layer A only); each BAD line naming
     this check's property is a violation observed on the real code.
"""
from __future__ import annotations

import json
import random
from pathlib import Path

import vlib
from vlib import SPEC, ToolError, log

LEVEL = {"C01": "model_checking", "C02": "model_checking", "C03": "model_checking", "C04": "model_checking"}
SP = SPEC / "pico"

ALL_NODES = ["leaf:A", "leaf:B", "single", "top", "tsum", "outer", "tsumL", "outerL", "byKey:0", "byKey:1", "byRef:x",
             "ofMemo", "pair", "twin:a", "twin:b", "twin:c", "twin:d"]

# The switches describe the code in /repo as repaired by the fix: commits (known_findings.json).
FIXES = {"FixAbsent": "TRUE", "FixEqWrite": "TRUE", "FixTopLevel": "TRUE", "FixVerifyRegs": "TRUE", "SharedKeys": "FALSE"}


# shadow variant per configuration: which single repair is undone in the shadow design
SHADOW_OF = {"rmgc": "absent", "dyn": "absent", "dyn6": "absent", "trk": "absent", "memo": "absent", "outer": "absent",
             "eqw": "eqwrite", "eqw5": "eqwrite",
             "gc1": "toplevel", "gc1v": "toplevel", "gc2": "toplevel", "gc2w": "toplevel", "gc3": "toplevel",
             "twin": "shared", "twin5": "shared", "twin6": "shared", "outl": "verifyregs", "outl6": "verifyregs"}


def cfg_text(nodes, vals, maxops, capacity, maxretain=1, emit="all", shadow=None, wkeys=("A", "B", "S")):
    wk = ", ".join(f'"{k}"' for k in wkeys)
    nd = ", ".join(f'"{n}"' for n in nodes)
    vs = ", ".join(str(v) for v in vals)
    return f"""SPECIFICATION Spec
CONSTANTS
  Keys = {{"A", "B"}}
  KeyOrder <- KeyOrderAB
  Nodes = {{{nd}}}
  Capacity = {capacity}
  FixAbsent = {FIXES['FixAbsent']}
  FixEqWrite = {FIXES['FixEqWrite']}
  FixTopLevel = {FIXES['FixTopLevel']}
  FixVerifyRegs = {FIXES['FixVerifyRegs']}
  SharedKeys = {FIXES['SharedKeys']}
  Vals = {{{vs}}}
  WriteKeys = {{{wk}}}
  MaxOps = {maxops}
  MaxRetain = {maxretain}
  Shadow = {"TRUE" if shadow else "FALSE"}
  SFixAbsent = {"FALSE" if shadow == "absent" else "TRUE"}
  SFixEqWrite = {"FALSE" if shadow == "eqwrite" else "TRUE"}
  SFixTopLevel = {"FALSE" if shadow == "toplevel" else "TRUE"}
  SFixVerifyRegs = {"FALSE" if shadow == "verifyregs" else "TRUE"}
  SShared = {"TRUE" if shadow == "shared" else "FALSE"}
  Emit = "{emit}"
VIEW View
INVARIANT HoldsC01 HoldsC02 HoldsC03
ACTION_CONSTRAINT EmitReplay
"""


# name -> (nodes, vals, maxops, capacity, maxretain)
CONFIGS = {
    # absent singleton, removal, dynamic dependencies, backdating through Half
    "dyn":    (["leaf:A", "leaf:B", "single", "top"], [0, 2], 4, 1, 0),
    "eqw":    (["leaf:A", "byRef:x", "single"], [0, 1], 5, 2, 0),
    "eqw5":   (["leaf:A", "byRef:x", "single"], [0, 1, 2], 5, 2, 0),
    # tracked field + three levels
    "trk":    (["tsum", "single", "byKey:0"], [1], 5, 2, 0),
    # LRU / retain / lookup
    "gc1":    (["single", "byKey:0"], [1], 5, 1, 1),
    "gc1v":   (["single", "byKey:0", "byKey:1"], [1, 2], 5, 1, 1),
    "gc2":    (["single", "pair", "leaf:B"], [2], 5, 2, 1),
    "gc2w":   (["single", "byKey:0", "pair", "leaf:B"], [2], 5, 2, 1),
    # MemoRef parameter
    "memo":   (["leaf:B", "ofMemo"], [0, 2], 5, 1, 1),
    # C04
    "twin":   (["twin:a", "twin:b", "twin:c", "twin:d", "single"], [1], 4, 1, 1, ("S",)),
    "twin5":  (["twin:a", "twin:b", "twin:c", "twin:d", "single"], [1], 5, 1, 1, ("S",)),
    # removal + unrelated write + collection (seeded change C01-gc-prunes-removal-epochs needs 6 operations)
    "rmgc":   (["single", "byKey:0"], [1], 6, 1, 0),
    # chain byRef:x -> leaf:A -> A with an unrelated source S: verification in a later epoch, collection, another
    # epoch (seeded change C02-gc-copies-time-verified needs: set A; call Q; set S; call Q; gc; set S'; call Q)
    "gcts":   (["leaf:A", "byRef:x"], [0, 1], 7, 2, 0, ("A", "S")),
    # intern_ref: a MemoRef into another memoized value (the scenario of intern_ref's doc comment)
    "iref":   (["tup", "refMaker"], [0, 1, 2], 6, 1, 1, ("A",)),
    "iref3":  (["tup", "refMaker", "refUser"], [0, 1, 2], 6, 1, 1, ("A",)),
    # deeper / wider variants (thorough)
    # (names are historical: depth 6 of dyn6 / gc3 has 1.5e6 distinct states and 2.8e6 replays, which does not finish in
    # any reasonable time once every transition is replayed through the real crate; depth 5 does)
    "dyn6":   (["leaf:A", "leaf:B", "single", "top"], [0, 2], 5, 1, 1),
    "outer":  (["leaf:A", "leaf:B", "single", "top", "tsum", "outer"], [0, 2], 5, 2, 1),
    "gc3":    (["single", "byKey:0", "byKey:1", "top", "leaf:A", "leaf:B"], [0, 2], 5, 2, 1),
    # memoized per-key leaves under a tracked map, with a caller that has another dependency (isograph's functions over
    # iso_literal_map): layer B's registration of VERIFIED dependencies in the caller's frame was first seen here
    "outl":   (["leaf:A", "leaf:B", "single", "tsumL", "outerL"], [2], 5, 2, 0, ("A", "S")),
    "outl6":  (["leaf:A", "leaf:B", "single", "tsumL", "outerL"], [2], 6, 2, 0, ("A", "S")),
    "twin6":  (["twin:a", "twin:b", "single", "byKey:0"], [1], 6, 1, 1),      # ([1, 2]: > 1e6 states, does not finish in 25 min)
}

PLAN = {
    ("C01", "quick"): ["dyn", "trk", "memo", "rmgc", "outl"],
    ("C02", "quick"): ["eqw", "dyn", "gcts"],
    ("C03", "quick"): ["gc1", "gc2", "iref"],
    ("C04", "quick"): ["twin"],
    # (each configuration belongs to the property whose mechanism it exercises; every check still judges all three
    #  layer-A predicates on what it replays and reports the other properties' failures in its evidence)
    ("C01", "thorough"): ["dyn", "trk", "memo", "rmgc", "eqw5", "dyn6", "outer", "iref3", "outl6"],
    ("C02", "thorough"): ["eqw5", "dyn", "trk", "dyn6", "outer", "iref3", "gcts", "outl6"],
    ("C03", "thorough"): ["gc1v", "gc2w", "memo", "gc3", "iref", "iref3", "gcts"],
    ("C04", "thorough"): ["twin5"],      # (twin6, depth 6, does not finish in 45 min on a loaded machine)
}
SIM_NODESETS = [ALL_NODES,
                ["leaf:A", "byRef:x", "single", "byKey:0"],
                ["leaf:A", "leaf:B", "single", "top", "tsum", "outer"]]
SIM = {  # simulation walks per node set: (vals, depth, capacity, maxretain, num)
    "quick": ([0, 1, 2], 30, 2, 2, 120),
    "thorough": ([0, 1, 2], 60, 2, 2, 800),
}


def _prop_of(bad_id: str, prop: str, nodes) -> bool:
    """Does a layer-A violation id count for this check's property?  C04 is C01 restricted to
    programs whose only point is the twin functions (distinct functions sharing results)."""
    if prop == "C04":
        return bad_id == "C01"
    return bad_id == prop


def _feed(binp, lines, valgrind):
    import subprocess
    cmd = [str(binp / "h_pico"), "--markers"]
    if valgrind:
        cmd = ["valgrind", "-q", "--error-exitcode=9", "--exit-on-first-error=yes"] + cmd
    try:
        return subprocess.run(cmd, input="\n".join(lines) + "\n", stdout=subprocess.PIPE, stderr=subprocess.PIPE,
                              text=True, timeout=3000)
    except subprocess.TimeoutExpired:
        raise ToolError("h_pico timed out")


def run_harness(binp: Path, program: dict, capacity: int, replays: list[dict], chk, valgrind: bool = False) -> list[dict]:
    """Runs every replay on the real crate.  A death of the process (signal, or the memory checker's
    first error when `valgrind`) is attributed to the operation in progress: that replay is observed as
    its prefix (re-run in a clean process) plus the operation with res {"t":"ub"}; the rest continue."""
    head = json.dumps({"program": program, "capacity": capacity})
    results: dict[int, dict] = {}
    todo = list(range(len(replays)))
    while todo:
        lines = [head] + [json.dumps({"ops": replays[i]["ops"], "id": i}) for i in todo]
        p = _feed(binp, lines, valgrind)
        cur = None
        for l in p.stdout.splitlines():
            if not l.strip():
                continue
            o = json.loads(l)
            if "begin" in o:
                cur = (o["begin"], o["op"])
                continue
            results[o["id"]] = o
            cur = None
        if p.returncode == 0 and cur is None:
            break
        if p.returncode == 3 or cur is None:
            raise ToolError(f"h_pico failed rc={p.returncode}: {p.stderr[-1500:]}")
        rid, opi = cur
        ops = replays[rid]["ops"]
        prefix = []
        if opi > 0:
            q = _feed(binp, [head, json.dumps({"ops": ops[:opi], "id": rid})], False)
            outs = [json.loads(l) for l in q.stdout.splitlines() if l.strip() and "begin" not in json.loads(l)]
            if q.returncode != 0 or not outs:
                raise ToolError(f"could not re-run the prefix of a crashed replay: rc={q.returncode}")
            prefix = outs[0]["ops"]
        bad_op = {k: v for k, v in ops[opi].items()}
        bad_op["res"] = {"t": "ub"}
        if bad_op["op"] in ("call", "retain"):
            bad_op["evs"] = []
        bad_op["ub_report"] = (p.stderr[-600:] if valgrind else f"process terminated by signal {-p.returncode}").encode("ascii", "replace").decode()
        results[rid] = {"id": rid, "ops": prefix + [bad_op]}
        todo = todo[todo.index(rid) + 1:]
    out = [results.get(i) for i in range(len(replays))]
    if any(o is None for o in out):
        raise ToolError("h_pico returned fewer results than replays")
    return out


def validate_traces(chk, traces: list[tuple[int, list]], capacity: int, tag: str):
    """traces: (id, observed ops).  Returns list of (id, at, bad-ids, op) from TLC's layer-A fold."""
    if not traces:
        return []
    bads = []
    for part_no, part in enumerate(vlib.chunks(traces, 400)):
        path = chk.work / f"trace-{tag}-{part_no}.ndjson"
        rows = []
        for tid, ops in part:
            rows.append({"op": "reset", "id": tid})
            rows.extend(ops)
        vlib.write_ndjson(path, rows)
        cfg = chk.work / f"PicoTrace-{tag}.cfg"
        cfg.write_text(f"""SPECIFICATION Spec
CONSTANTS
  Keys = {{"A", "B"}}
  KeyOrder <- KeyOrderAB
  Nodes <- AllNodes
  Capacity = {capacity}
POSTCONDITION AllConsumed
""")
        r = vlib.tlc(SP / "PicoTrace.tla", cfg, workers=1, timeout=900, env={"TRACE": str(path)}, dfs=True, heap="3g")
        chk.add_tlc(f"trace-{tag}-{part_no}", r, count_states=False)
        if r.violated:
            raise ToolError(f"trace validation did not consume all records ({tag}):\n{r.out[-1500:]}")
        for t, v in r.printed:
            if t == "BAD":
                bads.append((v["id"], v["at"], v["bad"], v["op"]))
            elif t == "PRECONDITION":
                # only possible for a history on which the implementation already deviated from layer B
                chk.drift({"left_domain": v, "origin": tag})
            elif t == "UNCONSUMED":
                raise ToolError(f"trace validation stopped early ({v}) in {path}")
        chk.cov["traces_validated_against_impl"] += len(part)
    return bads


def strip_obs(ops):
    return [{k: v for k, v in o.items() if k not in ("evs", "res", "panic_msg", "ub_report")} for o in ops]


def signature(prop, ops):
    last = ops[-1] if ops else {}
    kind = last.get("res", {}).get("t")
    if last.get("op") == "lookup":
        # reading a MemoRef the user holds: identified by the node and by what went wrong
        return f"{prop}:lookup({last.get('n', '')}):" + ("invalid-memory-access" if kind == "ub" else "panic" if kind == "panic" else "wrong-value")
    if kind == "ub":
        # an invalid memory access is identified by the operation that performs it
        return f"{prop}:ub:{last['op']}({last.get('n', '')})"
    return prop + ":" + ",".join(o["op"] + ("(" + str(o.get("n", o.get("k", ""))) + ")" if ("n" in o or "k" in o) else "") for o in ops)


def run(chk: vlib.Check):
    prop, tier = chk.prop, chk.tier
    rng = random.Random(chk.seed)
    binp = vlib.cargo_build("h_pico")
    chk.assumptions += [
        "the memoized functions exercised are the family in spec/pico/PicoProgram.tla (leaf/top/tsum/outer/by_key/by_ref/of_memo/pair/twins) interpreted by real #[memo] functions in harness/h_pico",
        "histories respect pico's documented contracts: no db.get of a removed source, MemoRef arguments obtained by a call in the same epoch, lookups only of results a collection had to keep",
        "bounds: 2 keyed sources + singleton + one tracked map, values 0..2, LRU capacity 1-2, history depth per configuration (see tlc_runs)",
        "C03: freedom from undefined behaviour is observed only as wrong values / panics of the safe API (no Miri/valgrind run in this check)",
    ]
    total_replays = 0
    mismatching = 0
    nontrivial = set()
    violations: dict[str, tuple] = {}

    def judge(bads, traces_by_id, capacity, program, nodes, origin):
        for tid, at, bad_ids, opk in bads:
            mine = [b for b in bad_ids if _prop_of(b, prop, nodes)]
            other = [b for b in bad_ids if not _prop_of(b, prop, nodes)]
            if other:
                chk.cov.setdefault("other_property_violations", [])
                if len(chk.cov["other_property_violations"]) < 10:
                    chk.cov["other_property_violations"].append({"ids": other, "origin": origin, "ops": strip_obs(traces_by_id[tid][:at])})
            if not mine:
                continue
            ops = traces_by_id[tid]
            # `at` counts the reset record: records 1..at of this trace => ops[:at-?]; recompute from trace-local index
            cut = ops[: min(len(ops), at)]
            sig = signature(prop, [dict(o) for o in strip_obs(cut[:-1])] + [{k: v for k, v in cut[-1].items() if k not in ("evs", "panic_msg", "ub_report")}])
            if sig not in violations or len(cut) < len(violations[sig][0]):
                violations[sig] = (cut, capacity, program, origin)

    # ---- model checking + edge-coverage replays -------------------------------------------------
    for name in PLAN[(prop, tier)]:
        nodes, vals, maxops, capacity, maxretain = CONFIGS[name][:5]
        wkeys = CONFIGS[name][5] if len(CONFIGS[name]) > 5 else ("A", "B", "S")
        cfg = chk.work / f"MC_{name}.cfg"
        cfg.write_text(cfg_text(nodes, vals, maxops, capacity, maxretain, emit="all", shadow=SHADOW_OF.get(name), wkeys=wkeys))
        # (no -coverage here: TLC's coverage bookkeeping runs out of memory on the recursive interpreter;
        #  non-vacuity is measured below from the operations that actually occur in the emitted transitions)
        r = vlib.tlc(SP / "MCPico.tla", cfg, workers=6, timeout=1500, heap="8g", seed=chk.seed)
        chk.add_tlc(f"mc-{name}", r)
        if r.violated:
            # the design model itself violates layer A: B no longer transfers; the replays decide
            chk.drift({"config": name, "model_violates": r.violated})
        program = next((v for t, v in r.printed if t == "PROGRAM"), None)
        if program is None:
            raise ToolError("MCPico did not print PROGRAM")
        replays = [v for t, v in r.printed if t == "REPLAY"]
        if not replays:
            raise ToolError(f"no replays generated for {name}")
        kinds_seen: dict[str, int] = {}
        for rp in replays:
            k = rp["ops"][-1]["op"]
            kinds_seen[k] = kinds_seen.get(k, 0) + 1
        chk.cov.setdefault("actions_taken", {})[name] = kinds_seen
        need = {"call", "set", "remove", "gc"} | ({"retain", "clear", "lookup"} if maxretain > 0 else set())
        if not r.violated and not need <= set(kinds_seen):
            raise ToolError(f"vacuous model run {name}: actions never taken: {sorted(need - set(kinds_seen))}")
        obs = run_harness(binp, program, capacity, replays, chk)
        total_replays += len(replays)
        chk.cov["evaluations"] += len(replays)
        to_validate = []
        traces_by_id = {}
        for i, (rp, ob) in enumerate(zip(replays, obs)):
            last = ob["ops"][-1] if ob["ops"] else {}
            pred = rp["pred"]
            if last.get("res", {}).get("t") == "ub":
                chk.cov["ub_observed_native"] = chk.cov.get("ub_observed_native", 0) + 1
            same = (len(ob["ops"]) == len(rp["ops"]) and last.get("evs", []) == pred["evs"]
                    and last.get("res", {"t": "val", "v": 0}) == pred["res"]) if last.get("op") in ("call", "retain", "gc", "lookup") \
                else len(ob["ops"]) == len(rp["ops"])
            kinds = {o["op"] for o in rp["ops"]}
            if ("call" in kinds or "retain" in kinds) and (kinds & {"set", "remove", "minsert", "mremove", "gc"}):
                nontrivial.add(json.dumps(strip_obs(rp["ops"]), sort_keys=True))
            if not same:
                mismatching += 1
                chk.drift({"config": name, "ops": strip_obs(rp["ops"]), "predicted": pred, "observed": {"evs": last.get("evs"), "res": last.get("res")}})
                to_validate.append(i)
        sample_n = 150 if tier == "quick" else 600
        pool = [i for i in range(len(replays)) if i not in set(to_validate)]
        rng.shuffle(pool)
        to_validate += pool[:sample_n]
        for i in to_validate:
            traces_by_id[i] = obs[i]["ops"]
        bads = validate_traces(chk, [(i, obs[i]["ops"]) for i in to_validate], capacity, f"mc-{name}")
        judge(bads, traces_by_id, capacity, program, nodes, f"mc-{name}")
        if any(n in ("refMaker", "refUser") for n in nodes):
            # C03, "no history reads freed or uninitialised memory": the histories that look something up
            # after a collection run again under valgrind memcheck (first error aborts and is attributed)
            cand = [i for i, rp in enumerate(replays)
                    if any(o["op"] == "gc" for o in rp["ops"][:-1]) and rp["ops"][-1]["op"] in ("lookup", "call", "retain")]
            rng.shuffle(cand)
            cand = sorted(cand[: (2500 if tier == "quick" else 6000)])
            vobs = run_harness(binp, program, capacity, [replays[i] for i in cand], chk, valgrind=True)
            chk.cov["valgrind_replays"] = chk.cov.get("valgrind_replays", 0) + len(cand)
            ub = [(cand[j], o) for j, o in enumerate(vobs) if o["ops"] and o["ops"][-1].get("res", {}).get("t") == "ub"]
            tb = {i: o["ops"] for i, o in ub}
            vb = validate_traces(chk, [(i, o["ops"]) for i, o in ub], capacity, f"vg-{name}")
            judge(vb, tb, capacity, program, nodes, f"valgrind-{name}")
        if len(chk.cov["samples"]) < 2:
            chk.sample({"kind": "replay (TLC transition -> real crate)", "config": name, "history": obs[pool[0] if pool else 0]["ops"]})

    # ---- directed histories ----------------------------------------------------------------------
    # counterexamples TLC found on the model of an earlier design at a depth beyond what the registered configurations
    # replay transition by transition (spec/pico/directed.json): each runs through the real crate on every run and is
    # judged by layer A, so the defect is reported again if it returns
    for d in json.loads((SP / "directed.json").read_text()):
        if prop not in d["props"]:
            continue
        cfg = chk.work / f"MC_dir_{d['name']}.cfg"
        cfg.write_text(cfg_text(d["nodes"], d["vals"], 0, d["capacity"], 0, emit="none", wkeys=tuple(d["wkeys"])))
        r = vlib.tlc(SP / "MCPico.tla", cfg, workers=1, timeout=600, heap="2g", seed=chk.seed)
        program = next((v for t, v in r.printed if t == "PROGRAM"), None)
        if program is None:
            raise ToolError("MCPico did not print PROGRAM (directed)")
        dobs = run_harness(binp, program, d["capacity"], [{"ops": d["ops"]}], chk)
        dbads = validate_traces(chk, [(0, dobs[0]["ops"])], d["capacity"], f"directed-{d['name']}")
        judge(dbads, {0: dobs[0]["ops"]}, d["capacity"], program, d["nodes"], f"directed-{d['name']}")
        chk.cov["directed_histories"] = chk.cov.get("directed_histories", 0) + 1
        chk.cov["evaluations"] += 1

    # ---- simulation: long random histories -----------------------------------------------------
    if prop != "C04":
        vals, depth, capacity, maxretain, num = SIM[tier]
        total_walks = 0
        for si, nodes in enumerate(SIM_NODESETS):
            cfg = chk.work / f"MC_sim{si}.cfg"
            cfg.write_text(cfg_text(nodes, vals, depth, capacity, maxretain, emit="final").replace("INVARIANT HoldsC01 HoldsC02 HoldsC03\n", ""))
            r = vlib.tlc(SP / "MCPico.tla", cfg, workers=1, timeout=900, simulate=f"num={num}", depth=depth + 2, heap="4g", seed=chk.seed + si)
            chk.add_tlc(f"simulate-{si}", r, count_states=False)
            program = next((v for t, v in r.printed if t == "PROGRAM"), None)
            walks = [v for t, v in r.printed if t == "REPLAY"]
            if not walks:
                continue
            obs = run_harness(binp, program, capacity, walks, chk)
            chk.cov["evaluations"] += len(walks)
            total_walks += len(walks)
            for w in walks:
                nontrivial.add(json.dumps(strip_obs(w["ops"]), sort_keys=True))
            traces_by_id = {i: o["ops"] for i, o in enumerate(obs)}
            bads = validate_traces(chk, [(i, o["ops"]) for i, o in enumerate(obs)], capacity, f"sim{si}")
            judge(bads, traces_by_id, capacity, program, nodes, f"simulate-{si}")
            if si == 0:
                chk.sample({"kind": "recorded random history (TLC -simulate walk -> real crate -> PicoTrace)", "history": obs[0]["ops"][:12]})
        chk.cov["simulation_walks"] = total_walks
        chk.cov["simulation_depth"] = depth

    chk.cov["replays_from_tlc_transitions"] = total_replays
    chk.cov["replays_not_matching_layerB"] = mismatching
    chk.cov["distinct_nontrivial"] = len(nontrivial)
    chk.cov["rule"] = ("cases = one replay per transition TLC generated from a distinct state of MCPico (shortest history) "
                       "plus TLC -simulate walks; non-trivial = distinct histories containing at least one memoized call and "
                       "at least one write / tracked mutation / collection")
    chk.cov["exhaustive"] = all(not t.get("violated") for t in chk.cov["tlc_runs"] if t["name"].startswith("mc-"))
    chk.cov["checker_cmd"] = "tlc MCPico.tla (B => A, replay emission); tlc PicoTrace.tla (layer A over recorded histories)"

    for sig, (cut, capacity, program, origin) in sorted(violations.items(), key=lambda kv: len(kv[1][0]))[:5]:
        last = cut[-1]
        chk.violation(sig, f"history from {origin}: layer A (PicoA) rejects what the real pico did at `{last.get('op')} {last.get('n', '')}`",
                      {"engine": "pico", "capacity": capacity, "program": program, "ops": strip_obs(cut), "observed": cut})


def replay(prop: str, path: Path, seed: int) -> int:
    rp = json.loads(Path(path).read_text())
    chk = vlib.Check(prop, "quick", seed)
    binp = vlib.cargo_build("h_pico")
    obs = run_harness(binp, rp["program"], rp["capacity"], [{"ops": rp["ops"]}], chk)
    bads = validate_traces(chk, [(0, obs[0]["ops"])], rp["capacity"], "replay")
    nodes = list(rp["program"].keys())
    bad = any(_prop_of(b, prop, nodes) for _, _, ids, _ in bads for b in ids)
    print(json.dumps({"observed": obs[0]["ops"], "layerA_bad": bads}, indent=1))
    import shutil
    shutil.rmtree(chk.work, ignore_errors=True)
    return 1 if bad else 0
