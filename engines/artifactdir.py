"""Engine `artifactdir`: the artifact directory and the in-memory FileSystemState (C17 C18 C19).

  spec/artifactdir/ArtifactDirCore.tla   vocabulary: disk, operations with std::fs semantics, recreate_all / diff as
                                         sets of admissible operation sequences, the layer-A predicates
  spec/artifactdir/ArtifactDir.tla       the state machine (Begin / Plan / Step / Fail / Fault / Finish / Restart / Invalid)
  spec/artifactdir/MCArtifactDir.tla     finite universes
  spec/artifactdir/ArtifactDirTrace.tla  trace specification: layer A (FAIL) and layer B (DRIFT) on recorded observations

Every check:
  1. model run   TLC explores the bounded state machine exhaustively, checks B => A (conditioned on the named
                 deviations the code is known to carry, see docs/artifactdir.md) and prints one history per macro
                 transition (REPLAY lines);
  2. spec->impl  harness/h_fs replays every history through the REAL get_file_system_operations /
                 apply_file_system_operations on fresh temp directories (h_fs), and a projection of the histories
                 through the REAL compiler on tiny real projects (h_fs_e2e: create_config, CompilerState::new,
                 compile, update_sources); C17's invalid compiles only exist end to end;
  3. impl->spec  the recorded observations (+ seeded random, longer histories) are validated by TLC against
                 ArtifactDirTrace; FAIL lines (layer A false on an observation of the real code) decide VIOLATION,
                 DRIFT lines (layer B does not predict what the code did) are only recorded.
"""
from __future__ import annotations

import json
import subprocess
from concurrent.futures import ThreadPoolExecutor
from pathlib import Path

import vlib

LEVEL = {"C17": "model_checking", "C18": "model_checking", "C19": "model_checking"}
SPEC = vlib.SPEC / "artifactdir"
CRATE = "h_fs"
PROCS = 4


# ------------------------------------------------------------------------------------------------
# TLC configurations
# ------------------------------------------------------------------------------------------------

def write_model_cfg(chk, name, *, universe, init, faults, restart, invalid, variant, onefault, cond,
                    emit=True, invariants=("WellFormed", "PostOk", "WriteMinimal"), maxnested=4, maxroot=2):
    b = lambda x: "TRUE" if x else "FALSE"
    lines = ["SPECIFICATION Spec", "CONSTANTS",
             f"  AllArtifacts <- {universe}", f"  MaxNested = {maxnested}", f"  MaxRoot = {maxroot}",
             f"  InitDisks <- {init}", f"  FaultKinds <- {faults}",
             f"  AllowRestart = {b(restart)}", f"  AllowInvalid = {b(invalid)}",
             f"  H8Mode = \"{variant['h8']}\"", f"  H9Mode = \"{variant['h9']}\"",
             f"  OneFault = {b(onefault)}", f"  CondOnTaint = {b(cond)}",
             "VIEW view"]
    if emit:
        lines.append("ACTION_CONSTRAINT Emit")
    lines.append("INVARIANTS " + " ".join(invariants))
    lines.append("PROPERTY InvalidUntouched")
    p = chk.work / f"{name}.cfg"
    p.write_text("\n".join(lines) + "\n")
    return p


def write_trace_cfg(work: Path, variant) -> Path:
    p = work / "ArtifactDirTrace.cfg"
    p.write_text("SPECIFICATION Spec\nCONSTANTS\n"
                 f"  H8Mode = \"{variant['h8']}\"\n  H9Mode = \"{variant['h9']}\"\n")
    return p


# ------------------------------------------------------------------------------------------------
# harness plumbing
# ------------------------------------------------------------------------------------------------

def run_cases(bindir: Path, binname: str, work: Path, cases: list[dict], *, tag: str, timeout=1500) -> list[dict]:
    """Run `cases` through a harness binary, PROCS processes in parallel; returns all records in case order."""
    if not cases:
        return []
    n = min(PROCS, len(cases))
    chunks = [cases[i::n] for i in range(n)]
    procs = []
    for ci, ch in enumerate(chunks):
        inp = work / f"{tag}-in-{ci}.ndjson"
        outp = work / f"{tag}-out-{ci}.ndjson"
        vlib.write_ndjson(inp, ch)
        wd = work / f"{tag}-fs-{ci}"
        args = [str(bindir / binname)] + (["replay"] if binname == "h_fs" else []) + [str(wd)]
        procs.append((subprocess.Popen(args, stdin=open(inp), stdout=open(outp, "w"), stderr=subprocess.PIPE), outp, ci))
    by_case: dict = {}
    for p, outp, ci in procs:
        try:
            _, err = p.communicate(timeout=timeout)
        except subprocess.TimeoutExpired:
            p.kill()
            raise vlib.ToolError(f"{binname} timed out")
        if p.returncode != 0:
            raise vlib.ToolError(f"{binname} rc={p.returncode}: {err.decode(errors='replace')[-2000:]}")
        for line in open(outp):
            if line.strip():
                r = json.loads(line)
                by_case.setdefault(r["case"], []).append(r)
    out = []
    for c in cases:
        rs = by_case.get(c["id"])
        if not rs:
            raise vlib.ToolError(f"{binname}: no records for case {c['id']}")
        out.extend(rs)
    return out


def run_random(bindir: Path, work: Path, seed: int, cases: int, steps: int, faults: bool, id_base: int):
    """Seeded random driver of h_fs (PROCS processes, different derived seeds). Returns (records, inputs by case id)."""
    per = max(1, cases // PROCS)
    procs = []
    for ci in range(PROCS):
        wd = work / f"rand-fs-{ci}"
        args = [str(bindir / "h_fs"), "random", str(wd), str(seed * 1000 + ci), str(per), str(steps), "1" if faults else "0"]
        procs.append(subprocess.Popen(args, stdout=subprocess.PIPE, stderr=subprocess.PIPE, text=True))
    records, inputs = [], {}
    for ci, p in enumerate(procs):
        out, err = p.communicate(timeout=1500)
        if p.returncode != 0:
            raise vlib.ToolError(f"h_fs random rc={p.returncode}: {err[-2000:]}")
        for line in out.splitlines():
            if not line.strip():
                continue
            r = json.loads(line)
            r["case"] = id_base + ci * per + r["case"]
            if r["t"] == "case":
                inp = r["input"]
                inp["id"] = r["case"]
                inputs[r["case"]] = inp
            else:
                records.append(r)
    return records, inputs


def validate(chk, records: list[dict], variant, *, name: str, timeout=1500):
    """TLC trace validation.  Returns (fails, drifts): lists of (record index, what).  Chunks are cut at case
    boundaries (the trace specification's FileSystemState model is reset by `init`)."""
    if not records:
        return [], []
    cfg = write_trace_cfg(chk.work, variant)
    target = max(1, -(-len(records) // PROCS))
    chunks, cur, start = [], [], 0
    for ix, r in enumerate(records):
        if r["t"] == "init" and len(cur) >= target:
            chunks.append((start, cur))
            cur, start = [], ix
        cur.append(r)
    chunks.append((start, cur))

    def one(job):
        ci, (start, recs) = job
        path = chk.work / f"{name}-trace-{ci}.ndjson"
        vlib.write_ndjson(path, recs)
        r = vlib.tlc(SPEC / "ArtifactDirTrace.tla", cfg, workers=1, dfs=True, timeout=timeout,
                     env={"TRACE": str(path)}, metadir=chk.work / f"meta-{name}-{ci}", heap="3g")
        return start, len(recs), r

    fails, drifts = [], []
    with ThreadPoolExecutor(max_workers=PROCS) as ex:
        results = list(ex.map(one, enumerate(chunks)))
    for start, cnt, r in results:
        if r.violated:
            raise vlib.ToolError(f"trace validation stopped: {r.violated}\n{r.out[-2000:]}")
        done = [v for t, v in r.printed if t == "DONE"]
        if not done or done[0].get("n") != cnt:
            raise vlib.ToolError(f"trace validation did not walk all {cnt} records ({name}):\n{r.out[-2000:]}")
        for t, v in r.printed:
            if t == "FAIL":
                fails.append((start + v["l"] - 1, v["what"]))
            elif t == "DRIFT":
                drifts.append((start + v["l"] - 1, v["what"]))
        chk.add_tlc(f"trace:{name}", r, count_states=False)
    return sorted(fails), sorted(drifts)


# ------------------------------------------------------------------------------------------------
# layer-B variant of the code under test (which of the named deviations it carries)
# ------------------------------------------------------------------------------------------------

def detect_variant(bindir: Path, work: Path) -> dict:
    """Ask the real code which documented transcription applies (the switches H8Mode / H9Mode of the specifications):
    does recreate_all re-create the artifact directory itself (current code: only when there is no nested artifact),
    and what FileSystemState does a session hold after a failed apply (current code: None).  Anything that none of the
    switches describes shows up as DRIFT in the trace validation."""
    A = [{"p": ["r1"], "c": "c1"}, {"p": ["e1", "s1", "f1"], "c": "c1"}]
    B = [{"p": ["r1"], "c": "c2"}, {"p": ["e1", "s1", "f1"], "c": "c1"}]
    cases = [
        {"id": 0, "init": [], "steps": [{"t": "compile", "a": [{"p": ["r1"], "c": "c1"}], "fk": "none", "at": 0}]},
        {"id": 2, "init": [], "steps": [{"t": "compile", "a": A, "fk": "none", "at": 0}]},
        {"id": 1, "init": [{"p": [], "k": "d", "c": "-"}],
         "steps": [{"t": "compile", "a": A, "fk": "none", "at": 0}, {"t": "compile", "a": B, "fk": "ioerr", "at": 1},
                   {"t": "compile", "a": B, "fk": "none", "at": 0}]},
    ]
    recs = run_cases(bindir, "h_fs", work, cases, tag="probe")
    c0 = [r for r in recs if r["case"] == 0 and r["t"] == "compile"][0]
    c1 = [r for r in recs if r["case"] == 1 and r["t"] == "compile"]
    c2 = [r for r in recs if r["case"] == 2 and r["t"] == "compile"][0]
    mk = lambda r: any(o["o"] == "mkdir" and o["p"] == [] for o in r["ops"])
    h8 = "always" if mk(c2) else ("when_no_nested" if mk(c0) else "asis")
    last = c1[2]
    if last["first"]:
        h9 = "none_on_error"
    elif not last["ops"]:
        h9 = "asis"
    else:
        h9 = "keep_old"
    return {"h8": h8, "h9": h9}


def deviations(variant) -> list[str]:
    d = []
    if variant["h8"] == "asis":
        d.append("H8 recreate_all does not re-create the artifact directory")
    if variant["h9"] != "none_on_error":
        d.append(f"H9 FileSystemState after a failed apply: {variant['h9']}")
    return d


# ------------------------------------------------------------------------------------------------
# histories
# ------------------------------------------------------------------------------------------------

def histories_of(result) -> list[dict]:
    """Distinct REPLAY histories printed by the model run, as harness cases."""
    seen, out = set(), []
    for tag, body in result.printed:
        if tag != "REPLAY" or not isinstance(body, dict):
            continue
        key = json.dumps(body, sort_keys=True)
        if key in seen:
            continue
        seen.add(key)
        out.append({"init": body["init"], "steps": body["steps"]})
    out.sort(key=lambda c: (len(c["steps"]), json.dumps(c, sort_keys=True)))
    for ix, c in enumerate(out):
        c["id"] = ix
    return out


def has_fault(case) -> bool:
    return any(s.get("fk", "none") != "none" for s in case["steps"])


def has_invalid(case) -> bool:
    return any(s["t"] == "invalid" for s in case["steps"])


# ---- projection of abstract histories onto real projects (h_fs_e2e) --------------------------------

SCHEMA = ("type Query {\n  me: User\n  viewer: User\n  node(id: ID!): User\n}\n\n"
          "type User {\n  id: ID!\n  name: String\n  email: String\n  nick(upper: Boolean): String\n}\n")


def _ts(body: str) -> str:
    return "import { iso } from '@iso';\n" + body


def _field(parent, name, sel, fn):
    return (f"export const {fn} = iso(`\n  field {parent}.{name} {{\n{sel}\n  }}\n`)(function {fn}C({{ data }}) {{\n"
            f"  return data;\n}});\n")


def _fieldv(parent, name, vars_, sel, fn):
    return (f"export const {fn} = iso(`\n  field {parent}.{name}{vars_} {{\n{sel}\n  }}\n`)(function {fn}C({{ data }}) {{\n"
            f"  return data;\n}});\n")


SRC = {
    ("e1", "s1", "f1"): ("src/a.ts", {"c1": _ts(_field("User", "Name", "    name", "Name")),
                                     "c2": _ts(_field("User", "Name", "    name\n    email", "Name"))}),
    ("e1", "s2", "f1"): ("src/c.ts", {"c1": _ts(_field("User", "Mail", "    email", "Mail")),
                                     "c2": _ts(_field("User", "Mail", "    email\n    id", "Mail"))}),
    ("e2", "s1", "f1"): ("src/b.ts", {"c1": _ts(_field("Query", "Home", "    me {\n      id\n    }", "Home")
                                                   + "export const ep = iso(`entrypoint Query.Home`);\n"),
                                     "c2": _ts(_field("Query", "Home", "    viewer {\n      id\n    }", "Home")
                                                   + "export const ep = iso(`entrypoint Query.Home`);\n")}),
}

# classes of invalid programs: (name, [(path, text | None = remove)], [revert edits computed from the valid variant])
INVALID_CLASSES = [
    ("undefined-field", "src/a.ts", _ts(_field("User", "Name", "    nonexistent", "Name"))),
    ("iso-literal-parse-error", "src/a.ts", _ts("export const Name = iso(`\n  field User.Name {\n    name\n`)(function NameC({ data }) {\n  return data;\n});\n")),
    ("undefined-entrypoint", "src/z.ts", _ts("export const ep2 = iso(`entrypoint Query.Missing`);\n")),
    ("schema-syntax-error", "schema.graphql", "type Query {\n  me: User\n"),
    ("duplicate-client-field", "src/z.ts", _ts(_field("User", "Dup", "    name", "Dup") + _field("User", "Dup", "    email", "Dup2"))),
    ("undefined-parent-type", "src/z.ts", _ts(_field("Nope", "X", "    id", "X"))),
    ("undefined-variable", "src/z.ts", _ts(_field("Query", "Arg", "    node(id: $missing) {\n      id\n    }", "Arg"))),
    ("schema-file-removed", "schema.graphql", None),      # CompilerState::new / update_sources fail ("sources" stage)
    # one class per remaining rule of the validators (added after seeded/C17-unused-variable-lint-after-write: a change
    # that demotes ONE diagnostic class to "report after writing" is invisible to classes that fail elsewhere)
    ("unused-variable", "src/z.ts", _ts(_fieldv("Query", "Arg", "($id: ID!)", "    me {\n      id\n    }", "Arg"))),
    ("undeclared-variable", "src/z.ts", _ts(_field("Query", "Arg", "    node(id: $missing) {\n      id\n    }", "Arg"))),
    ("missing-required-argument", "src/z.ts", _ts(_field("Query", "Arg", "    node {\n      id\n    }", "Arg"))),
    ("undefined-argument", "src/z.ts", _ts(_field("User", "Arg", "    name(foo: 1)", "Arg"))),
    ("incompatible-argument-type", "src/z.ts", _ts(_field("User", "Arg", "    nick(upper: 3)", "Arg"))),
    ("scalar-with-selection-set", "src/z.ts", _ts(_field("User", "Arg", "    name {\n      id\n    }", "Arg"))),
    ("object-without-selection-set", "src/z.ts", _ts(_field("Query", "Arg", "    me", "Arg"))),
    ("duplicate-response-name", "src/z.ts", _ts(_field("User", "Arg", "    name\n    name", "Arg"))),
    ("entrypoint-of-server-field", "src/z.ts", _ts("export const ep2 = iso(`entrypoint Query.me`);\n")),
    ("cyclic-client-field", "src/z.ts", _ts(_field("User", "Cyc", "    Cyc", "Cyc"))),
    ("client-field-named-like-server-field", "src/z.ts", _ts(_field("User", "name", "    id", "Shadow"))),
    ("pointer-to-undefined-type", "src/z.ts", _ts("export const P = iso(`\n  pointer User.best to Nope {\n    id\n  }\n`)(function PC({ data }) {\n  return data;\n});\n")),
    ("schema-undefined-type", "schema.graphql", SCHEMA + "\ntype Extra {\n  x: Missing\n}\n"),
]


def sources_of(a: list[dict]) -> dict:
    """abstract artifact set -> {path: text} of the iso source files of the real project"""
    files = {}
    for x in a:
        key = tuple(x["p"])
        if key in SRC:
            path, by_content = SRC[key]
            files[path] = by_content.get(x["c"], by_content["c1"])
    return files


def e2e_case(case: dict, cid: int, invalid_class=None, at_scale: int = 1) -> dict:
    """Project an abstract history onto a real project.  compile(A) becomes the edits that turn the sources into
    sources_of(A) followed by a compile (watch-mode recompile when a session is live, else a new process);
    `invalid` becomes an edit of class `invalid_class`, a compile, the reverting edit and another compile."""
    steps = [{"t": "write", "path": "schema.graphql", "text": SCHEMA}]
    if case["init"]:
        steps.append({"t": "mkinit", "entries": case["init"]})
    cur: dict = {}
    for s in case["steps"]:
        if s["t"] == "restart":
            steps.append({"t": "restart"})
        elif s["t"] == "compile":
            new = sources_of(s["a"])
            for path in sorted(set(cur) - set(new)):
                steps.append({"t": "remove", "path": path})
            for path in sorted(new):
                if cur.get(path) != new[path]:
                    steps.append({"t": "write", "path": path, "text": new[path]})
            cur = new
            steps.append({"t": "live", "fk": s.get("fk", "none"), "at": s.get("at", 0) * at_scale})
        elif s["t"] == "invalid":
            name, path, text = invalid_class
            steps.append({"t": "write", "path": path, "text": text} if text is not None else {"t": "remove", "path": path})
            steps.append({"t": "live", "fk": "none", "at": 0, "cls": name})
            if path == "schema.graphql":
                steps.append({"t": "write", "path": path, "text": SCHEMA})
            elif path in cur:
                steps.append({"t": "write", "path": path, "text": cur[path]})
            else:
                steps.append({"t": "remove", "path": path})
            steps.append({"t": "live", "fk": "none", "at": 0})
    return {"id": cid, "steps": steps, "abstract": {"init": case["init"], "steps": case["steps"]},
            "cls": invalid_class[0] if invalid_class else None}


# ------------------------------------------------------------------------------------------------
# verdicts
# ------------------------------------------------------------------------------------------------

def nested_count(a) -> int:
    return sum(1 for x in a if len(x["p"]) == 3)


def classify(prop: str, recs: list[dict], ix: int, what: str) -> tuple[str, str]:
    """Canonical signature of a layer-A failure at record `ix` of the case `recs` (root cause = the earliest
    failed compile of the session in which the failing compile ran)."""
    r = recs[ix]
    if what == "Untouched":
        return (f"{prop}:failed-compile-modifies-artifact-directory",
                f"a compile that reported an error diagnostic ({r.get('mode', '?')} mode, {r.get('stage', '?')}) "
                "created, modified or deleted entries of the artifact directory")
    if what == "WriteMinimal":
        return (f"{prop}:later-compile-rewrites-unchanged-artifact",
                "a later compile of a session wrote an artifact whose content on disk was already the generated content")
    if what == "CompileSucceeds":
        if r.get("first") and nested_count(r["a"]) == 0:
            return (f"{prop}:first-compile-no-nested-artifacts-root-write-fails",
                    "first compile of a session with no nested artifact (a project without client fields): recreate_all "
                    "deletes the artifact directory and nothing re-creates it, so writing the root files fails although "
                    "nobody interfered; the compile can never succeed")
        return (f"{prop}:compile-fails-writing-artifacts-although-nobody-interfered",
                f"a {'first' if r.get('first') else 'later'} compile of a session failed with an I/O error of its own "
                f"making (no fault injected, healthy file system): {str(r.get('err', ''))[:160]}")
    # PostOk: find the start of the session
    start = ix
    while start > 0:
        q = recs[start - 1]
        if q["t"] in ("init", "restart", "panic"):
            break
        if q["t"] == "compile" and q.get("fired") and str(q.get("fk", "")).endswith("kill"):
            break
        if q["t"] == "invalid" and q.get("stage") == "sources":
            break
        if recs[start].get("mode") == "batch":
            break
        start -= 1
    failed = [q for q in recs[start:ix] if q["t"] == "compile" and q.get("res") == "err"]
    if not failed:
        when = "first" if r.get("first") else "later"
        return (f"{prop}:successful-{when}-compile-leaves-directory-different-from-artifacts",
                f"a successful {when} compile of a session (no failed compile before it in the session) left the "
                "artifact directory different from the generated artifacts")
    e = failed[0]
    if e.get("fired"):
        return (f"{prop}:same-session-compile-after-io-error-diffs-against-unwritten-state",
                "after an I/O error part-way through writing artifacts, the next successful compile of the same "
                "session left the directory different from the artifacts: get_file_system_operations had already "
                "replaced the in-memory FileSystemState by the state that was never fully written")
    if e.get("first") and nested_count(e["a"]) == 0:
        return (f"{prop}:first-compile-no-nested-artifacts-root-write-fails",
                "first compile of a session with no nested artifact (no client field): recreate_all deletes the "
                "artifact directory and never re-creates it, so writing the root files fails; the in-memory state is "
                "replaced anyway and the next compile of the session succeeds with an empty plan, leaving the "
                "directory without the artifacts")
    return (f"{prop}:same-session-compile-after-failed-compile-diffs-against-unwritten-state",
            "after a compile failed while writing artifacts, the next successful compile of the same session left the "
            "directory different from the artifacts")


def slim(r: dict) -> dict:
    def tree(t):
        return ["/".join(e["p"]) + ("/" if e["k"] == "d" else "=" + e["c"]) for e in t]
    out = {k: v for k, v in r.items() if k not in ("pre", "post", "tree", "ops", "ops_seen", "a")}
    for k in ("pre", "post", "tree"):
        if k in r:
            out[k] = tree(r[k])
    if "a" in r:
        out["a"] = ["/".join(x["p"]) + "=" + x["c"] for x in r["a"]]
    if "ops" in r:
        out["ops"] = [o["o"] + " " + "/".join(o["p"]) for o in r["ops"]]
    if "ops_seen" in r:
        out["ops_seen"] = [o["o"] + " " + "/".join(o["p"]) for o in r["ops_seen"]]
    return out


def judge(chk, records, fails, drifts, case_of: dict, kind_of: dict):
    """Turn FAIL / DRIFT lines into violations / drift entries.  case_of: case id -> replayable input."""
    by_case: dict = {}
    pos: dict = {}
    for gi, r in enumerate(records):
        lst = by_case.setdefault(r["case"], [])
        pos[gi] = (r["case"], len(lst))
        lst.append(r)
    seen_cases = set()
    for gi, what in fails:
        cid, ix = pos[gi]
        recs = by_case[cid]
        sig, text = classify(chk.prop, recs, ix, what)
        if (sig, cid) in seen_cases:
            continue
        seen_cases.add((sig, cid))
        chk.violation(sig, text, {"engine": "artifactdir", "kind": kind_of[cid], "case": case_of[cid],
                                  "failed_predicate": what, "failing_record": ix,
                                  "observed": [slim(x) for x in recs[:ix + 1]]})
    nd = 0
    for gi, what in drifts:
        cid, ix = pos[gi]
        if what == "panic":      # a panic of the code under test is data, and not this engine's properties' business
            chk.cov["panics_observed"] = chk.cov.get("panics_observed", 0) + 1
            if chk.cov["panics_observed"] == 1:
                chk.cov["panic_sample"] = slim(by_case[cid][ix])
            continue
        nd += 1
        chk.drift({"what": what, "kind": kind_of[cid], "record": slim(by_case[cid][ix])})
    return nd


# ------------------------------------------------------------------------------------------------
# the checks
# ------------------------------------------------------------------------------------------------

PREDICATES = {"C17": {"Untouched"}, "C18": {"PostOk", "WriteMinimal", "CompileSucceeds"}, "C19": {"PostOk"}}

TIERS = {
    # prop: tier: model universe / initial disks / faults, random driver size, e2e universe
    "C18": {"quick": dict(universe="U_tiny", init="InitFew", faults="NoFaults", onefault=False, rand=(200, 30), timeout=1500),
            # thorough: the larger universe on the 6 initial directory shapes, plus ALL 193 initial trees on U_micro
            "thorough": dict(universe="U_tiny2", init="InitFew", faults="NoFaults", onefault=False, rand=(400, 40), timeout=3000,
                             extra=[dict(universe="U_micro", init="InitAll")])},
    "C19": {"quick": dict(universe="U_micro", init="InitFew", faults="AllFaults", onefault=True, rand=(200, 30), timeout=1500),
            "thorough": dict(universe="U_tiny", init="InitFew", faults="AllFaults", onefault=True, rand=(400, 40), timeout=3000)},
    "C17": {"quick": dict(universe="U_e2e", init="InitAll", faults="NoFaults", onefault=False, rand=(0, 0), timeout=1500),
            # thorough: invalid compiles also on top of directories left behind by interrupted compiles
            "thorough": dict(universe="U_e2e", init="InitAll", faults="IoAndKill", onefault=False, rand=(0, 0), timeout=3000)},
}


def model_run(chk, variant, t, *, invalid: bool, tag: str = ""):
    devs = deviations(variant)
    inv = ("WellFormed", "PostOk", "WriteMinimal") + (() if devs else ("NoSpuriousFailure",))
    cfg = write_model_cfg(chk, f"MC_{chk.prop}{tag}", universe=t["universe"], init=t["init"], faults=t["faults"],
                          restart=True, invalid=invalid, variant=variant, onefault=t["onefault"], cond=bool(devs),
                          invariants=inv,
                          maxroot=0 if t["universe"] == "U_e2e" else 2)
    r = vlib.tlc(SPEC / "MCArtifactDir.tla", cfg, workers=4, timeout=t["timeout"], coverage=True, seed=chk.seed,
                 metadir=chk.work / f"meta-model{tag}", heap="6g")
    chk.add_tlc("model" + tag, r)
    if r.violated:
        raise vlib.ToolError(f"model run: layer B violates layer A ({r.violated}) although conditioned on the named "
                             f"deviations - the transcription or the deviation list is wrong:\n{r.out[-3000:]}")
    need = ["BeginAny", "Plan", "Step", "Finish", "Ack", "Restart"]
    if t["faults"] != "NoFaults":
        need.append("Fault")
    if invalid:
        need.append("Invalid")
    if variant["h8"] == "asis" and t["universe"] != "U_e2e":     # the projection universe has no root files
        need.append("Fail")
    chk.require_coverage(r, need)
    chk.cov["exhaustive_model"] = True
    chk.cov["layer_b_variant"] = variant
    chk.cov["named_deviations"] = devs
    return r


def model_asis(chk, variant, t):
    """With deviations present: the same model WITHOUT conditioning must exhibit the violation (the model predicts
    what the replays observe).  Informational; recorded in the evidence."""
    if not deviations(variant):
        return
    cfg = write_model_cfg(chk, f"MC_{chk.prop}_unconditioned", universe=t["universe"], init="InitFew",
                          faults=t["faults"], restart=True, invalid=False, variant=variant, onefault=t["onefault"],
                          cond=False, emit=False, maxroot=0 if t["universe"] == "U_e2e" else 2)
    r = vlib.tlc(SPEC / "MCArtifactDir.tla", cfg, workers=4, timeout=t["timeout"], seed=chk.seed,
                 metadir=chk.work / "meta-model-asis", heap="6g")
    chk.add_tlc("model-unconditioned", r, count_states=False)
    chk.cov["model_unconditioned"] = {"violated": r.violated, "counterexample_states": len(r.error_trace)}


def _lap(chk, what):
    import time
    now = time.time()
    last = getattr(chk, "_lap", chk.t0)
    vlib.log(f"[artifactdir] {what}: {now - last:.1f}s")
    chk._lap = now


def run(chk: vlib.Check) -> None:
    bindir = vlib.cargo_build(CRATE)
    variant = detect_variant(bindir, chk.work)
    vlib.log(f"[artifactdir] layer-B variant of the code: {variant}")
    t = TIERS[chk.prop][chk.tier]
    chk.assumptions += [
        "std::fs semantics as transcribed in ArtifactDirCore.ApplyOp (checked against the real file system by the DRIFT predicates on every replay)",
        "a process kill between two operations is simulated by stopping the loop through the fault hook and dropping the in-memory FileSystemState",
        "HashMap iteration order of the real code cannot be chosen: the model explores every admissible order, each replay observes the order the real HashMap produced",
        "content hashes (md5) are collision-free on the generated contents",
        "the artifact directory path itself is absent or a directory (not a regular file / symlink)",
        "snapshots, mtime sentinels and the FNV content digest of harness/h_fs are trusted",
    ]
    chk.cov["trusted_base"] = ["harness/h_fs (driver + snapshot projection)", "TLC", "ArtifactDirTrace layer-A predicates"]

    invalid = chk.prop == "C17"
    r = model_run(chk, variant, t, invalid=invalid)
    hist = histories_of(r)
    for k, ex in enumerate(t.get("extra", [])):
        t2 = dict(t)
        t2.update(ex)
        seen = {json.dumps({"init": c["init"], "steps": c["steps"]}, sort_keys=True) for c in hist}
        for c in histories_of(model_run(chk, variant, t2, invalid=invalid, tag=f"-extra{k}")):
            if json.dumps({"init": c["init"], "steps": c["steps"]}, sort_keys=True) not in seen:
                hist.append(c)
    if chk.prop == "C19":
        hist = [c for c in hist if has_fault(c)]
    if chk.prop == "C17":
        hist_inv = [c for c in hist if has_invalid(c)]
    for ix, c in enumerate(hist):
        c["id"] = ix
    vlib.log(f"[artifactdir] {len(hist)} histories from the model")
    _lap(chk, "build + model run")

    records: list[dict] = []
    case_of: dict = {}
    kind_of: dict = {}

    # ---- spec -> impl, FileSystemState level ----
    if chk.prop in ("C18", "C19"):
        recs = run_cases(bindir, "h_fs", chk.work, hist, tag="replay")
        records += recs
        for c in hist:
            case_of[c["id"]] = c
            kind_of[c["id"]] = "fs"
        chk.cov["replayed_histories_fs"] = len(hist)

    _lap(chk, f"fs replays ({len(hist)})")
    # ---- spec -> impl, end to end through the real compiler ----
    base = 10_000_000
    e2e_cases = []
    if chk.prop == "C17":
        for c in hist_inv:
            for cls in INVALID_CLASSES:
                e2e_cases.append(e2e_case(c, base + len(e2e_cases), cls))
    else:
        # the e2e universe is a projection: only histories whose artifact paths have a source mapping
        cfg_u = dict(t)
        cfg_u.update(universe="U_e2e", init="InitFew", faults="IoAndKill" if chk.prop == "C19" else "NoFaults")
        cfg = write_model_cfg(chk, f"MC_{chk.prop}_e2e", universe="U_e2e", init="InitFew", faults=cfg_u["faults"],
                              restart=True, invalid=False, variant=variant, onefault=t["onefault"],
                              cond=bool(deviations(variant)), maxroot=0)
        r2 = vlib.tlc(SPEC / "MCArtifactDir.tla", cfg, workers=4, timeout=t["timeout"], seed=chk.seed,
                      metadir=chk.work / "meta-model-e2e", heap="6g")
        chk.add_tlc("model-e2e-universe", r2)
        if r2.violated:
            raise vlib.ToolError(f"model (e2e universe) violates {r2.violated}")
        h2 = histories_of(r2)
        if chk.prop == "C19":
            h2 = [c for c in h2 if has_fault(c)]
        limit = 600 if chk.tier == "quick" else 20000
        chk.cov["e2e_universe_histories"] = len(h2)
        chk.cov["e2e_universe_histories_replayed"] = min(len(h2), limit)
        for c in h2[:limit]:
            e2e_cases.append(e2e_case(c, base + len(e2e_cases)))
            if chk.prop == "C19":      # the real operation lists are longer: also interrupt later
                e2e_cases.append(e2e_case(c, base + len(e2e_cases), at_scale=3))
    if e2e_cases:
        recs = run_cases(bindir, "h_fs_e2e", chk.work, e2e_cases, tag="e2e")
        records += recs
        for c in e2e_cases:
            case_of[c["id"]] = c
            kind_of[c["id"]] = "e2e"
        chk.cov["replayed_histories_e2e"] = len(e2e_cases)
        if chk.prop == "C17":
            inv = [x for x in recs if x["t"] == "invalid"]
            per_cls: dict = {}
            cls_of_case = {c["id"]: c["cls"] for c in e2e_cases}
            for x in inv:
                k = f"{cls_of_case[x['case']]}/{x['mode']}/{x['stage']}"
                per_cls[k] = per_cls.get(k, 0) + 1
            chk.cov["invalid_compiles_observed"] = per_cls
            modes = {x["mode"] for x in inv}
            with_files = [x for x in inv if any(e["k"] == "f" for e in x["pre"])]
            seen_cls = {k.split("/")[0] for k in per_cls}
            missing_cls = [c[0] for c in INVALID_CLASSES if c[0] not in seen_cls]
            if missing_cls:
                raise vlib.ToolError(f"vacuous C17 run: classes never observed as a compile that reports an error: {missing_cls}")
            if not {"batch", "live"} <= modes or not with_files:
                raise vlib.ToolError(f"vacuous C17 run: invalid compiles observed per class/mode: {per_cls}")

    _lap(chk, f"e2e replays ({len(e2e_cases)})")
    # ---- impl -> spec: seeded random driver, longer histories ----
    n_rand, steps = t["rand"]
    if n_rand:
        recs, inputs = run_random(bindir, chk.work, chk.seed, n_rand, steps, chk.prop == "C19", 20_000_000)
        records += recs
        for cid, inp in inputs.items():
            case_of[cid] = inp
            kind_of[cid] = "fs"
        chk.cov["random_traces"] = len(inputs)
        chk.cov["random_trace_steps"] = steps

    # ---- layer A / layer B on every observation ----
    _lap(chk, "random driver")
    fails, drifts = validate(chk, records, variant, name=chk.prop, timeout=t["timeout"])
    # each property is decided by its own predicates; failures of the other predicates belong to the other checks
    mine = PREDICATES[chk.prop]
    other = [(gi, w) for gi, w in fails if w not in mine]
    fails = [(gi, w) for gi, w in fails if w in mine]
    chk.cov["failures_of_other_properties_predicates"] = len(other)
    _lap(chk, f"trace validation of {len(records)} records")
    nd = judge(chk, records, fails, drifts, case_of, kind_of)

    judged = [x for x in records if x["t"] in ("compile", "invalid")]
    chk.cov["evaluations"] = len(judged)
    chk.cov["traces_validated_against_impl"] = len(case_of)
    chk.cov["layer_a_failures"] = len(fails)
    chk.cov["layer_b_drift_records"] = nd
    if chk.prop == "C18":
        nontrivial = {json.dumps([x["a"], x["pre"] and [(e["p"], e["k"], e["c"]) for e in x["pre"]]], sort_keys=True)
                      for x in judged if x["t"] == "compile" and x.get("res") == "ok" and (not x["first"] or x["pre"])}
        chk.cov["rule"] = ("histories = every macro transition of the model's reachable graph (shortest history each) + "
                           "seeded random histories; non-trivial = distinct (artifact set, directory before) pairs of "
                           "successful compiles that either ran on a non-empty directory or were a later compile of a session")
    elif chk.prop == "C19":
        nontrivial = set()
        by_case: dict = {}
        for x in records:
            by_case.setdefault(x["case"], []).append(x)
        for cid, rs in by_case.items():
            faulted = False
            for x in rs:
                if x["t"] == "compile" and x.get("res") == "err":
                    faulted = True
                elif x["t"] == "compile" and x.get("res") == "ok" and faulted:
                    nontrivial.add(json.dumps([x["a"], [(e["p"], e["k"], e["c"]) for e in x["pre"]], x["first"]], sort_keys=True))
                    faulted = False
        chk.cov["rule"] = ("histories = clean compiles, one interrupted compile (every operation index x fault kind), then "
                           "compiles/restarts up to the next success; non-trivial = distinct (artifact set, directory "
                           "before, same-session?) triples of successful compiles that follow a failed one")
    else:
        nontrivial = {json.dumps([x.get("diag"), x["mode"], [(e["p"], e["c"]) for e in x["pre"]]], sort_keys=True)
                      for x in judged if x["t"] == "invalid" and any(e["k"] == "f" for e in x["pre"])}
        chk.cov["rule"] = ("histories = model histories ending in an invalid compile x " + str(len(INVALID_CLASSES)) + " classes of invalid programs, run "
                           "through the real compiler in batch and watch mode; non-trivial = distinct (diagnostic, mode, "
                           "directory before) triples where the directory held files")
    chk.cov["distinct_nontrivial"] = len(nontrivial)
    # the bounded model was explored completely and every printed history of the main model was replayed through
    # the real compile(); the end-to-end projection is a (possibly truncated, see e2e_universe_histories*) second binding
    chk.cov["exhaustive"] = True
    for c in (hist[:1] + hist[len(hist) // 2: len(hist) // 2 + 1] + hist[-1:]):
        chk.sample({"history": {k: v for k, v in c.items() if k != "id"}})
    if e2e_cases:
        chk.sample({"e2e_history": e2e_cases[len(e2e_cases) // 2]["steps"]}, limit=6)
    if n_rand and records:
        chk.sample({"random_trace_record": slim(records[-1])}, limit=6)

    model_asis(chk, variant, t)
    if chk.prop == "C18" and chk.tier == "thorough":
        # the two formulations of planning (enumerated linearisations / predicate Admissible) coincide
        r3 = vlib.tlc(SPEC / "MCPlanForms.tla", SPEC / "MCPlanForms.cfg", workers=2, timeout=t["timeout"],
                      metadir=chk.work / "meta-planforms", heap="4g")
        chk.add_tlc("plan-formulations-agree (ASSUME)", r3, count_states=False)
        if r3.violated:
            raise vlib.ToolError(f"ArtifactDirCore: RecreateAllLin/DiffLin and Admissible disagree:\n{r3.out[-2000:]}")


# ------------------------------------------------------------------------------------------------
# replay of one stored violation
# ------------------------------------------------------------------------------------------------

def replay(prop: str, path: Path, seed: int) -> int:
    rep = json.loads(Path(path).read_text())
    chk = vlib.Check(prop + "-replay", "quick", seed)
    try:
        bindir = vlib.cargo_build(CRATE)
        variant = detect_variant(bindir, chk.work)
        case = dict(rep["case"])
        case["id"] = 0
        binname = "h_fs_e2e" if rep.get("kind") == "e2e" else "h_fs"
        recs = run_cases(bindir, binname, chk.work, [case], tag="replay1")
        fails, _ = validate(chk, recs, variant, name="replay1")
        for gi, what in fails:
            vlib.log(f"replay: record {gi} violates {what}: {json.dumps(slim(recs[gi]))[:600]}")
        return 1 if fails else 0
    finally:
        import shutil
        shutil.rmtree(chk.work, ignore_errors=True)


# ------------------------------------------------------------------------------------------------
# binding self-test (1): a corrupted observation must be rejected by the trace specification
# ------------------------------------------------------------------------------------------------

def selftest_corrupt(seed: int = 1) -> dict:
    """Record a good history from the real code, check it validates, then corrupt one recorded field at a time and
    check that the layer-A predicate concerned rejects it.  Returns {corruption: [FAIL names]}."""
    import copy
    import shutil
    chk = vlib.Check("C18-selftest", "quick", seed)
    try:
        bindir = vlib.cargo_build(CRATE)
        variant = detect_variant(bindir, chk.work)
        A = [{"p": ["r1"], "c": "c1"}, {"p": ["e1", "s1", "f1"], "c": "c1"}, {"p": ["e1", "s2", "f1"], "c": "c1"}]
        B = [{"p": ["r1"], "c": "c1"}, {"p": ["e1", "s1", "f1"], "c": "c2"}]
        case = {"id": 0, "init": [{"p": [], "k": "d", "c": "-"}, {"p": ["x"], "k": "f", "c": "c0"}],
                "steps": [{"t": "compile", "a": A, "fk": "none", "at": 0}, {"t": "compile", "a": B, "fk": "none", "at": 0}]}
        good = run_cases(bindir, "h_fs", chk.work, [case], tag="st")
        e2e = e2e_case({"init": [], "steps": [{"t": "compile", "a": [{"p": ["e1", "s1", "f1"], "c": "c1"}], "fk": "none", "at": 0},
                                              {"t": "invalid"}]}, 1, INVALID_CLASSES[0])
        good_e2e = run_cases(bindir, "h_fs_e2e", chk.work, [e2e], tag="st2")
        out = {}

        def fails_of(recs, name):
            f, _ = validate(chk, recs, variant, name=name)
            return sorted({w for _, w in f})

        out["uncorrupted"] = fails_of(good + good_e2e, "good")
        # (a) a file content in the final snapshot differs from the artifact
        r = copy.deepcopy(good)
        for e in r[2]["post"]:
            if e["p"] == ["e1", "s1", "f1"]:
                e["c"] = "c1"
        out["post content of a changed artifact replaced by the old content"] = fails_of(r, "ca")
        # (b) a leftover directory in the final snapshot
        r = copy.deepcopy(good)
        r[2]["post"].append({"p": ["e1", "s2"], "k": "d", "c": "-", "ino": "1", "mt": "0.0"})
        out["leftover directory e1/s2 added to the final snapshot"] = fails_of(r, "cb")
        # (c) an unchanged file shows a new mtime after the later compile
        r = copy.deepcopy(good)
        for e in r[2]["post"]:
            if e["p"] == ["r1"]:
                e["mt"] = "1234567890.000000001"
        out["mtime of the unchanged r1 altered after the later compile"] = fails_of(r, "cc")
        # (d) invalid compile: one file's inode differs afterwards
        r = copy.deepcopy(good_e2e)
        inv = [x for x in r if x["t"] == "invalid"][0]
        files = [e for e in inv["post"] if e["k"] == "f"]
        files[0]["ino"] = "424242"
        out["inode of one file altered after an invalid compile"] = fails_of(r, "cd")
        # (e) invalid compile: one file dropped from the snapshot after
        r = copy.deepcopy(good_e2e)
        inv = [x for x in r if x["t"] == "invalid"][0]
        inv["post"] = [e for e in inv["post"] if e["p"] != ["tsconfig.json"]]
        out["tsconfig.json dropped from the snapshot after an invalid compile"] = fails_of(r, "ce")
        return out
    finally:
        shutil.rmtree(chk.work, ignore_errors=True)
