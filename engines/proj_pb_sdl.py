"""SDL -> schema-as-data (the format of spec/project/schema1.json) for the checked-in projects, cut down to the
part that the judged operations mention.  Trusted reshaping: it only reads type definitions; no rule of the
property is decided here (spec/project/Operation.tla decides, from the data this produces).

Subset: schema / scalar / type / interface / union / enum / input definitions and `extend type|interface`
with fields; descriptions, comments and directives are skipped (directive definitions too).
"""
from __future__ import annotations

import re

_TOKEN = re.compile(r'''
    (?P<ws>[\s,﻿]+) |
    (?P<comment>\#[^\n\r]*) |
    (?P<block>"""(?:\\"""|[^"]|"(?!""))*""") |
    (?P<str>"(?:\\.|[^"\\\n\r])*") |
    (?P<spread>\.\.\.) |
    (?P<float>-?(?:0|[1-9][0-9]*)(?:\.[0-9]+(?:[eE][+-]?[0-9]+)?|[eE][+-]?[0-9]+)) |
    (?P<int>-?(?:0|[1-9][0-9]*)) |
    (?P<name>[_A-Za-z][_0-9A-Za-z]*) |
    (?P<punct>[!$()\[\]{}:=@|&])
''', re.X)


def tokenize(text: str):
    out, i = [], 0
    while i < len(text):
        m = _TOKEN.match(text, i)
        if not m:
            raise ValueError(f"SDL: unexpected character {text[i]!r} at {i}")
        i = m.end()
        k = m.lastgroup
        if k in ("ws", "comment"):
            continue
        out.append((k, m.group()))
    out.append(("eof", ""))
    return out


class _P:
    def __init__(self, toks):
        self.t, self.i = toks, 0

    @property
    def tok(self):
        return self.t[self.i]

    def bump(self):
        self.i += 1

    def is_p(self, s):
        return self.tok == ("punct", s)

    def is_name(self, s=None):
        return self.tok[0] == "name" and (s is None or self.tok[1] == s)

    def expect_p(self, s):
        if not self.is_p(s):
            raise ValueError(f"SDL: expected {s!r}, found {self.tok} at token {self.i}")
        self.bump()

    def name(self):
        if self.tok[0] != "name":
            raise ValueError(f"SDL: expected name, found {self.tok} at token {self.i}")
        n = self.tok[1]
        self.bump()
        return n

    def skip_description(self):
        if self.tok[0] in ("str", "block"):
            self.bump()

    def type_ref(self):
        if self.is_p("["):
            self.bump()
            inner = {"k": "list", "of": self.type_ref()}
            self.expect_p("]")
        else:
            inner = {"k": "named", "n": self.name()}
        if self.is_p("!"):
            self.bump()
            return {"k": "nonnull", "of": inner}
        return inner

    def value(self):
        k, s = self.tok
        if k == "int":
            self.bump()
            return {"t": "int", "v": s}
        if k == "float":
            self.bump()
            return {"t": "float", "v": s}
        if k in ("str", "block"):
            self.bump()
            body = s[3:-3] if k == "block" else s[1:-1]
            return {"t": "str", "cps": [ord(c) for c in body]}
        if k == "name":
            self.bump()
            if s in ("true", "false"):
                return {"t": "bool", "v": s == "true"}
            if s == "null":
                return {"t": "null"}
            return {"t": "enum", "v": s}
        if self.is_p("["):
            self.bump()
            items = []
            while not self.is_p("]"):
                items.append(self.value())
            self.bump()
            return {"t": "list", "items": items}
        if self.is_p("{"):
            self.bump()
            fields = []
            while not self.is_p("}"):
                n = self.name()
                self.expect_p(":")
                fields.append([n, self.value()])
            self.bump()
            return {"t": "obj", "fields": fields}
        if self.is_p("$"):
            self.bump()
            return {"t": "var", "n": self.name()}
        raise ValueError(f"SDL: expected value, found {self.tok}")

    def directives(self):
        while self.is_p("@"):
            self.bump()
            self.name()
            if self.is_p("("):
                self.bump()
                while not self.is_p(")"):
                    self.name()
                    self.expect_p(":")
                    self.value()
                self.bump()

    def input_values(self, close):
        out = {}
        while not self.is_p(close):
            self.skip_description()
            n = self.name()
            self.expect_p(":")
            d = {"type": self.type_ref()}
            if self.is_p("="):
                self.bump()
                d["default"] = self.value()
            self.directives()
            out[n] = d
        self.bump()
        return out

    def fields(self):
        out = {}
        self.expect_p("{")
        while not self.is_p("}"):
            self.skip_description()
            n = self.name()
            args = {}
            if self.is_p("("):
                self.bump()
                args = self.input_values(")")
            self.expect_p(":")
            ty = self.type_ref()
            self.directives()
            out[n] = {"type": ty, "args": args}
        self.bump()
        return out

    def implements(self):
        out = []
        if self.is_name("implements"):
            self.bump()
            if self.is_p("&"):
                self.bump()
            out.append(self.name())
            while self.is_p("&"):
                self.bump()
                out.append(self.name())
        return out


def parse_sdl(text: str) -> dict:
    p = _P(tokenize(text))
    types: dict = {}
    roots = {}
    while p.tok[0] != "eof":
        p.skip_description()
        extend = False
        if p.is_name("extend"):
            extend = True
            p.bump()
        kw = p.name()
        if kw == "schema":
            p.directives()
            p.expect_p("{")
            while not p.is_p("}"):
                op = p.name()
                p.expect_p(":")
                roots[op] = p.name()
            p.bump()
        elif kw == "scalar":
            n = p.name()
            p.directives()
            types.setdefault(n, {"kind": "scalar"})
        elif kw in ("type", "interface"):
            n = p.name()
            impl = p.implements()
            p.directives()
            fs = p.fields() if p.is_p("{") else {}
            t = types.setdefault(n, {"kind": "object" if kw == "type" else "interface", "implements": [], "fields": {}})
            t["implements"] = list(dict.fromkeys(t["implements"] + impl))
            t["fields"].update(fs)
        elif kw == "union":
            n = p.name()
            p.directives()
            members = []
            if p.is_p("="):
                p.bump()
                if p.is_p("|"):
                    p.bump()
                members.append(p.name())
                while p.is_p("|"):
                    p.bump()
                    members.append(p.name())
            t = types.setdefault(n, {"kind": "union", "members": []})
            t["members"] = list(dict.fromkeys(t["members"] + members))
        elif kw == "enum":
            n = p.name()
            p.directives()
            vals = []
            if p.is_p("{"):
                p.bump()
                while not p.is_p("}"):
                    p.skip_description()
                    vals.append(p.name())
                    p.directives()
                p.bump()
            t = types.setdefault(n, {"kind": "enum", "values": []})
            t["values"] += vals
        elif kw == "input":
            n = p.name()
            p.directives()
            fs = {}
            if p.is_p("{"):
                p.bump()
                fs = p.input_values("}")
            t = types.setdefault(n, {"kind": "input", "fields": {}})
            t["fields"].update(fs)
        elif kw == "directive":
            p.expect_p("@")
            p.name()
            if p.is_p("("):
                p.bump()
                p.input_values(")")
            if p.is_name("repeatable"):
                p.bump()
            if not p.is_name("on"):
                raise ValueError("SDL: expected 'on' in directive definition")
            p.bump()
            if p.is_p("|"):
                p.bump()
            p.name()
            while p.is_p("|"):
                p.bump()
                p.name()
        else:
            raise ValueError(f"SDL: unexpected definition keyword {kw!r}")
        _ = extend
    out = {"name": "sdl", "types": types, "scalars": ["ID", "String", "Int", "Float", "Boolean"]}
    if roots:
        out["roots"] = roots
    return out


def _base(t):
    while t["k"] != "named":
        t = t["of"]
    return t["n"]


def _names_in_ops(ops):
    fields, types = set(), set()

    def ty(t):
        types.add(_base(t))

    def sels(ss):
        for s in ss or []:
            if s.get("t") == "field":
                fields.add(s["name"])
                sels(s.get("selections"))
            elif s.get("t") == "inline":
                if s.get("on"):
                    types.add(s["on"])
                sels(s.get("selections"))
    for op in ops:
        if not op.get("ok"):
            continue
        for v in op.get("vars", []):
            ty(v["type"])
        sels(op.get("selections"))
    return fields, types


def project_schema(sdl_text: str, ops: list[dict]) -> dict:
    """The schema as data, restricted to what the operations can touch: object/interface fields whose NAME
    occurs as a field name in some operation, the types reachable through them (and through variable types and
    type conditions), every implementer of a reachable interface (as a stub when not itself reachable)."""
    full = parse_sdl(sdl_text)
    T = full["types"]
    fnames, tnames = _names_in_ops(ops)
    roots = full.get("roots") or {}
    start = set(tnames) | {roots.get("query", "Query"), roots.get("mutation", "Mutation"), roots.get("subscription", "Subscription")}
    keep: dict = {}
    todo = [n for n in start if n in T]
    while todo:
        n = todo.pop()
        if n in keep:
            continue
        t = T[n]
        k = t["kind"]
        if k in ("object", "interface"):
            fs = {f: d for f, d in t["fields"].items() if f in fnames}
            keep[n] = {"kind": k, "implements": t.get("implements", []), "fields": fs}
            for d in fs.values():
                todo.append(_base(d["type"]))
                for a in d["args"].values():
                    todo.append(_base(a["type"]))
            todo += t.get("implements", [])
            if k == "interface":
                for m, mt in T.items():
                    if mt["kind"] == "object" and n in mt.get("implements", []) and m not in keep:
                        keep.setdefault("\0stub:" + m, m)
        elif k == "union":
            keep[n] = t
            todo += t["members"]
        elif k == "input":
            keep[n] = t
            for a in t["fields"].values():
                todo.append(_base(a["type"]))
        else:
            keep[n] = t
        todo = [x for x in todo if x in T and x not in keep]
    out_types = {}
    for n, t in keep.items():
        if n.startswith("\0stub:"):
            continue
        out_types[n] = t
    for n, m in keep.items():
        if n.startswith("\0stub:") and m not in out_types:
            out_types[m] = {"kind": "object", "implements": T[m].get("implements", []), "fields": {}}
    out = {"name": "sdl-projection", "types": out_types, "scalars": full["scalars"]}
    if roots:
        out["roots"] = roots
    return out
