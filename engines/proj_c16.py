"""C16 — invalid selections are rejected and valid ones accepted.

  spec/project/Validity.tla   the reference type checker (one predicate per rule of the property statement)
  spec/project/GenC16.tla     TLC enumerates well-typed base programs (feature units) and single-fault mutants
  spec/project/ObsC16.tla     layer A, evaluated by TLC on the recorded compiler outcome:  Rejected(P) <=> ~Valid(P)

spec -> impl: every program TLC generates is rendered (engines/isorender.py) and compiled by the real compiler
(harness/h_compile); impl -> spec: the recorded outcomes are judged by TLC with Validity as the reference."""
from __future__ import annotations

import collections
import json
from pathlib import Path

import vlib
from vlib import ToolError, log
from engines import isorender, projlib
from engines import proj_pa_common as pc

LEVEL = {"C16": "model_checking"}
SCHEMA = "schema_c16"
ACTIONS = ["BreakRule"]      # TLC attributes the nine Break<Rule> disjuncts to their common body; per-rule counts are checked below
RULE_TEXT = {"undef_field": "undefined-field", "obj_no_sels": "object-field-without-selection-set",
             "scalar_with_sels": "scalar-field-with-selection-set", "undef_arg": "undefined-argument",
             "missing_arg": "missing-required-argument", "undecl_var": "undeclared-variable", "unused_var": "unused-variable",
             "type": "incompatible-type", "dup_name": "duplicate-response-name"}
SUBSET = [
    "schema spec/project/schema_c16.json (objects, interface Node, union, enum, nested/recursive input objects, list and "
    "non-null wrappers incl. nested lists, argument and input-field defaults)",
    "declarations: client fields (with/without @component) with variables (with/without defaults), a client pointer, "
    "entrypoints on Query/Mutation; several client fields with variables selected with arguments (client-field parameters)",
    "selections: server scalar/object fields, aliases, asType refinements on interface and union, client fields, client pointer, "
    "__typename, __link, @loadable on client fields",
    "argument values: $variable, integer (incl. negative), string, true/false, null, nested {object} literals (the iso syntax has no "
    "enum/list/float literals); variables of scalar, enum, input-object, list, non-null and nested-list types",
    "iso convention (confirmed): a selection marked @loadable may omit required arguments -- they are supplied when the field is "
    "loaded -- so `missing-required-argument` is only claimed for selections that are not @loadable",
    "mutants: exactly one BreakRule(r) edit per program, at every applicable position of the edited declarations, r in "
    + ", ".join(RULE_TEXT.values()),
    "NOT covered: literals in list-typed positions (GraphQL list input coercion), directives other than @loadable, exposeField-generated "
    "fields, __refetch, custom scalars, duplicate argument / variable names, entrypoint-specific rules, @updatable",
]


def pos_kind(t) -> str:
    s = projlib.schema(SCHEMA)
    if not isinstance(t, dict) or t.get("k") == "unknown":
        return "unknown"
    lst = False
    while t["k"] != "named":
        lst = lst or t["k"] == "list"
        t = t["of"]
    if lst:
        return "list"
    n = t["n"]
    if n in s["scalars"]:
        return "scalar"
    return s["types"].get(n, {}).get("kind", "unknown")


def signature(why: str, item: dict) -> str:
    """Canonical, root-cause level signature of a disagreement (stable across runs and seeds)."""
    rule, shape, units = item["rule"], item.get("shape", {}), item.get("units", [])
    if why.startswith("valid-"):
        return f"C16:{why}:{'+'.join(units) or 'scaffold'}"
    verdict = why[len("invalid-"):]
    rt = RULE_TEXT.get(rule, rule)
    if rule == "undef_arg":
        return f"C16:{verdict}:{rt}:named-{shape['arg']}"
    if rule == "missing_arg":
        return f"C16:{verdict}:{rt}:on-{'object' if shape['linked'] else 'scalar'}-selection-of-{shape['on']}-field"
    if rule == "type" and "pos" in shape:
        return f"C16:{verdict}:{rt}:{shape['now']}-literal-in-{pos_kind(shape['pos'])}-position"
    if rule == "type" and "var" in shape:
        return f"C16:{verdict}:{rt}:variable-declared-{pc.type_str(shape['now'])}-instead-of-{pc.type_str(shape['var'])}"
    keep = {k: v for k, v in shape.items() if k not in ("nested", "was", "depth")}
    return f"C16:{verdict}:{rt}:{pc.shape_str(keep)}"


def compile_and_judge(chk, items):
    schema = projlib.schema(SCHEMA)
    projs = [isorender.project(schema, it["prog"], ident=i) for i, it in enumerate(items)]
    obs = projlib.compile_all(chk, projs, want=[])
    recs = [{"id": i, "prog": it["prog"], "rule": it["rule"], **pc.slim(o)} for i, (it, o) in enumerate(zip(items, obs))]
    bads = pc.judge(chk, "ObsC16.tla", recs, consts={"SchemaFile": f"{SCHEMA}.json"}, tag="c16")
    return projs, obs, bads


def run(chk):
    quick = chk.tier == "quick"
    consts = {"UnitMode": "single" if quick else "pairs", "UnitFilter": set(), "SchemaFile": f"{SCHEMA}.json"}
    items, r = pc.generate(chk, "GenC16.tla", consts, name=chk.tier, invariants=("TagSound", "Emit"), actions=ACTIONS,
                           timeout=1500 if quick else 3000)
    chk.cov["exhaustive"] = True
    by_rule = collections.Counter(it["rule"] for it in items)
    for rname in RULE_TEXT:
        if by_rule[rname] == 0:
            raise ToolError(f"vacuous: no mutant for rule {rname}")
    log(f"[C16] {len(items)} programs: {dict(by_rule)}")
    projs, obs, bads = compile_and_judge(chk, items)

    outside = [b for b in bads if b["why"] == "outside-subset"]
    if outside:
        raise ToolError(f"generator produced programs outside the modelled subset: ids {[b['id'] for b in outside][:5]}")

    chk.cov["samples"] = [{"rule": items[i]["rule"], "units": items[i]["units"], "source": pc.iso_literals(items[i]["prog"])[-600:],
                           "outcome": obs[i]["outcome"], "first_diagnostic": pc.first_diag(obs[i])}
                          for i in (0, len(items) // 3, 2 * len(items) // 3, len(items) - 1)]
    chk.cov["distinct_nontrivial"] = sum(1 for it in items if it["rule"] != "none")
    chk.cov["rule"] = "programs that break exactly one rule of the statement (single-fault mutants); the rest are well-typed base programs"
    chk.cov["programs_by_rule"] = dict(by_rule)
    chk.cov["outcomes"] = dict(collections.Counter(o["outcome"] for o in obs))
    chk.cov["feature_units"] = sorted({u for it in items for u in it["units"]})
    chk.cov["subset_boundary"] = SUBSET
    chk.assumptions += [
        "Validity.tla (GraphQL June 2018 validation rules + the iso conventions listed in its header) is the reference; "
        "the property is claimed only inside Validity!InSubset, which every generated program satisfies (checked by TLC)",
        "trusted base: engines/isorender.py (abstract program -> iso literal text), harness/h_compile (drives compile(), counts diagnostics)",
        "one batch compile per program (the watch-mode recompile of the statement's sibling properties is not exercised here)",
    ]

    # group disagreements by root-cause signature; a mutant of a unit whose base program already fails is attributed to the base
    base_bad = {}
    for b in bads:
        it = items[b["id"]]
        if it["rule"] == "none" and len(it["units"]) <= 1:
            base_bad[tuple(it["units"])] = b
    groups: dict[str, list] = collections.OrderedDict()
    for b in sorted(bads, key=lambda b: (len(items[b["id"]]["units"]), len(json.dumps(items[b["id"]]["prog"])))):
        it = items[b["id"]]
        if it["rule"] == "none" and len(it["units"]) == 2 and any((u,) in base_bad for u in it["units"]):
            continue                       # explained by a failing single-unit program
        if it["rule"] != "none" and b["why"] == "invalid-crashed" and tuple(it["units"]) in base_bad:
            continue                       # the unmutated program crashes already
        groups.setdefault(signature(b["why"], it), []).append(b)
    chk.cov["disagreements"] = {sig: len(v) for sig, v in groups.items()}
    for sig, v in groups.items():
        b = v[0]
        i = b["id"]
        it = items[i]
        what = (f"{b['why']}: Validity says broken rules = {b['broken']} but the compiler's outcome is {obs[i]['outcome']}"
                f" ({pc.first_diag(obs[i])}); {len(v)} program(s) with this signature; smallest:\n{pc.iso_literals(it['prog'])}")
        chk.violation(sig, what, {"engine": "proj_c16", "schema": SCHEMA, "item": it,
                                  "observed": {"outcome": obs[i]["outcome"], "diagnostics": obs[i].get("diagnostics", [])[:3],
                                               "panic_msg": obs[i].get("panic_msg")},
                                  "judged": b, "source": pc.source_text(projs[i])})


def replay(prop: str, path: Path, seed: int) -> int:
    rp = json.loads(Path(path).read_text())
    chk = vlib.Check(prop, "quick", seed)
    try:
        projs, obs, bads = compile_and_judge(chk, [rp["item"]])
        print(json.dumps({"outcome": obs[0]["outcome"], "diagnostics": obs[0].get("diagnostics", [])[:3], "judged": bads})[:3000])
        return 1 if bads else 0
    finally:
        import shutil
        shutil.rmtree(chk.work, ignore_errors=True)
