"""Helpers shared by the engines of C14 (determinism.py), C24 (proj_c24.py) and C26 (proj_c26.py).

Trusted base kept here (all of it dumb data shuffling, no verdicts):
  * render_files / literal_text   abstract declarations -> source files with STABLE const export names (the name of
                                  the exported const depends on the declaration, never on its position, so that the
                                  order of literals can be permuted without changing what the artifacts import) and
                                  with explicit control over the whitespace inside the literal header (C24)
  * checked_in_projects           the checked-in isograph projects of the repository (demos/* and libs/* that carry an
                                  isograph.config.json) as h_compile project dicts
  * compile_fresh                 ONE fresh OS process of h_compile per project (own std::collections RandomState keys)
  * digests, gql_tokens, cps      sha256 per artifact; a GraphQL tokeniser (ignored tokens dropped); code points
"""
from __future__ import annotations

import hashlib
import json
import os
import shutil
import subprocess
from concurrent.futures import ThreadPoolExecutor
from pathlib import Path

import vlib
from engines import isorender
from vlib import ToolError


def cps(s: str) -> list[int]:
    return [ord(c) for c in s]


def from_cps(a) -> str:
    return "".join(chr(c) for c in a)


# --------------------------------------------------------------------------------------------
# rendering
# --------------------------------------------------------------------------------------------

def const_name(decl: dict) -> str:
    if decl.get("const"):
        return decl["const"]
    return f"c{decl['k'][0]}_{decl.get('on', 'x')}_{decl.get('name', 'x')}{decl.get('tag', '')}"


def header_text(decl: dict) -> str:
    """keyword / type / '.' / name with the whitespace given in decl["hdr"] = {lead, kw, pre, post} (code point lists).
    Defaults are the conventional layout (newline + two spaces before field/pointer, nothing before entrypoint)."""
    h = decl.get("hdr") or {}
    k = decl["k"]

    def part(name, default):
        return from_cps(h[name]) if name in h else default

    lead = part("lead", "" if k == "entrypoint" else "\n  ")
    return lead + k + part("kw", " ") + decl["on"] + part("pre", "") + "." + part("post", "") + decl["name"]


def literal_text(decl: dict) -> str:
    """The exact text between the back-ticks of iso(`...`)."""
    k = decl["k"]
    if k == "raw":
        return decl["text"]
    head = header_text(decl)
    if k == "entrypoint":
        for d in decl.get("dirs", []):
            head += " " + isorender.directive(d)
        return head + from_cps(decl.get("trail", []))
    if k == "pointer":
        head += f" to {decl['to']}"
    head += isorender.variables(decl.get("vars", []))
    if decl.get("component"):
        head += " @component"
    for d in decl.get("dirs", []):
        head += " " + isorender.directive(d)
    lines = [head + (' """' + decl["desc"] + '"""' if decl.get("desc") else "") + " {"]
    for s in decl.get("sels", []):
        lines += isorender.selection(s, 2)
    lines.append("  }")
    lines.append("")
    return "\n".join(lines)


def decl_source(decl: dict) -> str:
    lit = isorender.js_escape_template(literal_text(decl))
    name = const_name(decl)
    with_fn = decl["k"] in ("field", "pointer") or (decl["k"] == "raw" and decl.get("call", True))
    if with_fn:
        return f"export const {name} = iso(`{lit}`)(function {name}_impl() {{ return null; }});\n"
    return f"export const {name} = iso(`{lit}`);\n"


def render_files(decls: list[dict], layout: list[str]) -> list[dict]:
    """-> [{"path", "content"}] in order of first use of each path; literals in the order given."""
    files: dict[str, list[str]] = {}
    for d, path in zip(decls, layout):
        files.setdefault(path, []).append(decl_source(d))
    return [{"path": p, "content": "import { iso } from '@iso';\n" + "".join(parts)} for p, parts in files.items()]


def project(schema: dict, decls: list[dict], layout: list[str], *, options: dict | None = None, ident=None,
            config: dict | None = None) -> dict:
    proj = {"schema": isorender.render_schema(schema), "files": render_files(decls, layout)}
    if schema.get("extension"):
        proj["extensions"] = [schema["extension"]]
    cfg = dict(config or {})
    if options:
        cfg["options"] = options
    if cfg:
        proj["config"] = cfg
    if ident is not None:
        proj["id"] = ident
    return proj


# --------------------------------------------------------------------------------------------
# checked-in projects
# --------------------------------------------------------------------------------------------

_SRC_EXT = (".ts", ".tsx", ".js", ".jsx")


def checked_in_projects() -> dict[str, dict]:
    """id -> h_compile project for every checked-in isograph project (demos/*, libs/*).  File order: sorted."""
    out = {}
    cfgs = sorted((vlib.REPO / "demos").glob("*/isograph.config.json")) + sorted((vlib.REPO / "libs").glob("*/isograph.config.json"))
    for c in cfgs:
        d = c.parent
        cfg = json.loads(c.read_text())
        root = (d / cfg["project_root"]).resolve()
        files = []
        for p in sorted(root.rglob("*")):
            if p.is_file() and p.suffix in _SRC_EXT and "__isograph" not in str(p):
                try:
                    files.append({"path": str(p.relative_to(d.resolve())), "content": p.read_text()})
                except UnicodeDecodeError:
                    continue
        opts = {k: v for k, v in cfg.get("options", {}).items() if k != "open_telemetry"}
        proj = {"id": "demo:" + d.name, "schema": (d / cfg["schema"]).read_text(),
                "extensions": [(d / e).read_text() for e in cfg.get("schema_extensions", [])],
                "files": files, "config": {"project_root": cfg["project_root"], "options": opts}}
        if "artifact_directory" in cfg:
            proj["config"]["artifact_directory"] = cfg["artifact_directory"]
        out[proj["id"]] = proj
    return out


# --------------------------------------------------------------------------------------------
# running the compiler
# --------------------------------------------------------------------------------------------

def h_compile_bin() -> Path:
    return vlib.cargo_build("h_compile") / "h_compile"


def tmpfs_base(tag: str) -> Path | None:
    """A scratch directory on a tmpfs (readdir order = reverse creation order there, so the harness controls the
    directory enumeration order the compiler sees); None when the machine has no writable /dev/shm."""
    root = Path(os.environ.get("VERIF_SHM", "/dev/shm"))
    try:
        if not root.is_dir():
            return None
        p = root / f"verif-{tag}-{os.getpid()}"
        shutil.rmtree(p, ignore_errors=True)
        p.mkdir(parents=True)
        return p
    except OSError:
        return None


def compile_fresh(binp: Path, base: Path, proj: dict, timeout: int = 300) -> dict:
    """One project, one fresh process.  Process death is data (outcome "abort")."""
    try:
        p = subprocess.run([str(binp), str(base)], input=json.dumps(proj) + "\n", stdout=subprocess.PIPE,
                           stderr=subprocess.PIPE, text=True, timeout=timeout)
    except subprocess.TimeoutExpired:
        raise ToolError(f"h_compile timed out on project {proj.get('id')}")
    obs = None
    for line in p.stdout.splitlines():
        if line.strip():
            o = json.loads(line)
            if not ("begin" in o and len(o) == 1):
                obs = o
    if obs is None:
        if p.returncode == 0:
            raise ToolError(f"h_compile produced no observation for {proj.get('id')}: {p.stderr[-500:]}")
        obs = {"id": proj.get("id"), "outcome": "abort", "rc": p.returncode}
    return obs


def compile_many_fresh(binp: Path, base: Path, projects: list[dict], jobs: int = 4, post=None) -> list:
    """compile_fresh for each project, `jobs` processes at a time; `post(project, obs)` reduces each observation
    at once (keeps memory small).  Order of results = order of projects."""
    def one(p):
        o = compile_fresh(binp, base, p)
        return post(p, o) if post else o
    with ThreadPoolExecutor(max_workers=jobs) as ex:
        return list(ex.map(one, projects))


def digests(artifacts: dict) -> list[dict]:
    return [{"path": k, "digest": hashlib.sha256(v.encode("utf-8", "surrogatepass")).hexdigest()[:24]}
            for k, v in sorted(artifacts.items())]


# --------------------------------------------------------------------------------------------
# GraphQL tokeniser (lexical grammar of the October-2021 specification; ignored tokens dropped)
# --------------------------------------------------------------------------------------------

_PUNCT = set("!$&()[]{}:=@|")


def gql_tokens(text: str) -> list[str] | None:
    """Token sequence of a GraphQL document: punctuators, names, numbers, strings (verbatim).
    Whitespace, line terminators, commas, BOM and comments are insignificant and dropped.  None when the text does
    not tokenise."""
    out, i, n = [], 0, len(text)
    while i < n:
        c = text[i]
        if c in " \t\r\n,\ufeff":
            i += 1
        elif c == "#":
            while i < n and text[i] not in "\r\n":
                i += 1
        elif c in _PUNCT:
            out.append(c)
            i += 1
        elif text.startswith("...", i):
            out.append("...")
            i += 3
        elif c == '"':
            if text.startswith('"""', i):
                j = i + 3
                while True:
                    k = text.find('"""', j)
                    if k < 0:
                        return None
                    if text[k - 1] == "\\":
                        j = k + 3
                        continue
                    break
                out.append(text[i:k + 3])
                i = k + 3
            else:
                j = i + 1
                while j < n and text[j] != '"':
                    if text[j] == "\\":
                        j += 1
                    if j < n and text[j] in "\r\n":
                        return None
                    j += 1
                if j >= n:
                    return None
                out.append(text[i:j + 1])
                i = j + 1
        elif c.isascii() and (c.isalpha() or c == "_"):
            j = i
            while j < n and text[j].isascii() and (text[j].isalnum() or text[j] == "_"):
                j += 1
            out.append(text[i:j])
            i = j
        elif c == "-" or c.isdigit():
            j = i + 1
            while j < n and (text[j].isdigit() or text[j] in ".eE+-"):
                j += 1
            out.append(text[i:j])
            i = j
        else:
            return None
    return out


# --------------------------------------------------------------------------------------------
# minimisation (delta debugging, batched so that one TLC run judges a whole round of candidates)
# --------------------------------------------------------------------------------------------

def minimise_list(items: list, fails_batch, keep=lambda x: False) -> list:
    """Greedy removal of single elements while the failure persists.  fails_batch(candidates) -> [bool] judges many
    candidate lists at once (one compile batch + one TLC run).  Elements with keep(x) are never removed."""
    cur = list(items)
    while True:
        idx = [i for i in range(len(cur)) if not keep(cur[i])]
        if not idx:
            return cur
        singles = [cur[:i] + cur[i + 1:] for i in idx]
        removable = [i for i, bad in zip(idx, fails_batch(singles)) if bad]
        if not removable:
            return cur
        if len(removable) > 1:
            combined = [x for j, x in enumerate(cur) if j not in removable]
            if combined and fails_batch([combined])[0]:
                cur = combined
                continue
        cur = cur[:removable[0]] + cur[removable[0] + 1:]
