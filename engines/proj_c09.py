"""C09 — every generated operation is valid GraphQL for the schema.

TLC enumerates programs (spec/project/GenC09.tla), the real compiler compiles each, the operation texts
(default-export strings of query_text.ts / __refetch__query_text__N.ts evaluated as JavaScript and parsed by
the independent parser in harness/h_compile) are judged by TLC with the validation rules of
spec/project/Operation.tla (ObsC09.tla) against the schema given as data.  The four checked-in projects
are compiled from disk and judged against a JSON projection of their SDL (engines/proj_pb_sdl.py).
"""
from __future__ import annotations

import json
from pathlib import Path

import vlib
from vlib import ToolError, log

from engines import projlib
from engines import proj_pb_common as pb

LEVEL = {"C09": "model_checking"}


def records_c09(observations):
    recs = []
    for o in observations:
        if o["outcome"] != "ok":
            continue
        recs.append({"id": o["id"], "ops": [{"path": p, "op": pb.strip_op(o["ops"][p])} for p in pb.op_paths(o)]})
    return recs


def hits_from_bads(prop, bads, programs, kind="program"):
    hits = []
    for b in bads:
        prog = programs[b["id"]]
        for bad in b["bad"]:
            for e in bad["errs"]:
                hits.append({"why": e["why"], "feats": pb.feats_of(prog), "size": len(json.dumps(prog)),
                             "what": f"{bad['path']}: {e['why']} ({e['at']})",
                             "replay": pb.replay_doc(prop, kind, {"program": prog, "path": bad["path"], "why": e["why"], "at": e["at"]})})
    return hits


def run(chk):
    fam = "quick" if chk.tier == "quick" else "thorough"
    programs = projlib.generate(chk, "GenC09.tla", {"Family": fam}, name=fam, timeout=900)
    obs, demos = pb.compile_programs_and_demos(chk, programs, ("ops",))
    outcomes = {}
    for o in obs:
        outcomes[o["outcome"]] = outcomes.get(o["outcome"], 0) + 1
    recs = records_c09(obs)
    if len(recs) < len(programs) // 2:
        raise ToolError(f"vacuous: only {len(recs)} of {len(programs)} generated programs compile ({outcomes})")
    bads = pb.judge(chk, "ObsC09.tla", recs, tag="c09")
    n_ops = sum(len(r["ops"]) for r in recs)
    hits = hits_from_bads("C09", bads, programs)
    demo_hits, demo_ops = run_demos(chk, demos)
    sigs = pb.report_grouped(chk, "C09", hits + demo_hits)
    chk.cov["evaluations"] = n_ops + demo_ops
    chk.cov["distinct_nontrivial"] = sum(1 for r in recs if len(r["ops"]) >= 1)
    chk.cov["rule"] = "programs accepted by the compiler with at least one generated operation; evaluations = operations judged"
    chk.cov["exhaustive"] = True
    chk.cov["detail"] = {"generated": len(programs), "outcomes": outcomes, "operations": n_ops, "demo_operations": demo_ops,
                           "programs_with_invalid_operation": len(bads), "signatures": sigs}
    chk.cov["programs"] = len(programs) + len(demos)
    chk.cov["trusted_base"] = ["engines/isorender.py (program -> text)", "harness/h_compile (swc evaluation of the default export, strict GraphQL parser)",
                               "engines/proj_pb_sdl.py (SDL -> schema data for the checked-in projects)", "TLC"]
    for r in recs[:3]:
        chk.sample({"program": programs[r["id"]], "operations": [o["path"] for o in r["ops"]]})
    chk.assumptions += [
        "operations are observed as the JavaScript value of the default export (swc) parsed by the independent strict GraphQL parser in h_compile",
        "Int literal range, custom scalar literals and fragment definitions are outside Operation.tla",
        "programs rejected by the compiler are not judged here (C16 decides whether the rejection is right)",
    ]


def run_demos(chk, demos=None):
    from engines import proj_pb_sdl as sdl
    hits, n_ops = [], 0
    for name, (o, text) in (demos or pb.compile_demos(chk, ["ops"])).items():
        rec = records_c09([o])[0]
        n_ops += len(rec["ops"])
        sch = sdl.project_schema(text, [x["op"] for x in rec["ops"]])
        sf = chk.work / f"schema-{name}.json"
        sf.write_text(json.dumps(sch))
        bads = pb.judge(chk, "ObsC09.tla", [rec], schema_file=sf, tag=f"c09-{name}")
        for b in bads:
            for bad in b["bad"]:
                for e in bad["errs"]:
                    hits.append({"why": e["why"], "feats": frozenset([f"demo-{name}", "at-" + str(e["at"])]), "size": 10**9,
                                 "what": f"{name}: {bad['path']}: {e['why']} ({e['at']})",
                                 "replay": pb.replay_doc("C09", "demo", {"demo": name, "path": bad["path"], "why": e["why"], "at": e["at"]})})
    return hits, n_ops


def replay(prop, path, seed):
    doc = json.loads(Path(path).read_text())
    chk = pb.ReplayCheck(prop, seed)
    try:
        if doc.get("kind") == "demo":
            hits, _ = run_demos(chk)
            return 1 if any(h["why"] == doc["why"] and h["replay"]["demo"] == doc["demo"] for h in hits) else 0
        prog = doc["program"]
        obs = pb.compile_programs(chk, [prog], want=("ops",))
        recs = records_c09(obs)
        if not recs:
            return 0
        bads = pb.judge(chk, "ObsC09.tla", recs, tag="replay")
        whys = {e["why"] for b in bads for bad in b["bad"] for e in bad["errs"]}
        return 1 if doc["why"] in whys else 0
    finally:
        chk.close()
