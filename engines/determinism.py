"""Engine `determinism`: C14 — compilation output is deterministic.

  TLC (GenC14.tla: states = (project, environment); transitions = the environment actions of Determinism.tla)
     --RUN/PROJECT-->  materialise the project under that environment (creation order of files, order of literals,
                       file of the entrypoint literals)  -->  ONE FRESH OS PROCESS of harness/h_compile per state
     --ndjson (project, env, enumeration order seen, outcome, artifact digests, printed diagnostics)-->
  TLC (ObsC14.tla: layer A of Determinism.tla, SameOutput against the first run of the same project)  --BAD--> verdict.

Trusted base: engines/proj_pd_common.py (renderer with position-independent const names, sha-256 digests),
harness/h_compile (drives compile(), prints diagnostics in the order compile() returned them).
"""
from __future__ import annotations

import hashlib
import json
import os
import random
import shutil
import subprocess
import time
from concurrent.futures import ThreadPoolExecutor
from pathlib import Path

import vlib
from engines import projlib
from engines import proj_pd_common as pd
from vlib import ToolError, log

LEVEL = {"C14": "model_checking"}
SP = vlib.SPEC / "project"

ALL_FEATURES = ["nobabel", "sameName", "refetch", "pet", "loadable", "mutation", "dupEp", "dupEpWs", "xField", "xEp", "xParse", "xParse2",
                "xDup", "xLazy", "xType", "xDupSame", "xUnused3", "xMissing2", "xExtra2", "xMany"]
TIERS = {
    "quick": dict(MaxFeat=2, PairWith=["nobabel", "xField"], FullPermFiles=3, Reps=5, DevReps=1, MaxDev=1, SwapBudget=1,
                  DemoReps=3, MaxShuf=1),
    "thorough": dict(MaxFeat=2, PairWith=ALL_FEATURES, FullPermFiles=3, Reps=6, DevReps=3, MaxDev=1, SwapBudget=1,
                     DemoReps=5, MaxShuf=3),
}
ACTIONS = ["NewProcess", "PermuteDir", "ReverseDir", "Shuffle", "PermuteLiterals", "MoveEntrypoints"]
JOBS = int(os.environ.get("VERIF_JOBS", "4"))
MIN_REPS = 12         # fresh processes per environment while confirming / minimising (two orders: miss prob. 2^-11)


# --------------------------------------------------------------------------------------------
# (project, env) -> concrete project for h_compile
# --------------------------------------------------------------------------------------------

def _options(p: dict) -> dict:
    return {"no_babel_transform": True} if p.get("opt") == "nobabel" else {}


def materialise(p: dict, env: dict, schema: dict, demos: dict, seed: int) -> dict:
    """The concrete files of project p in environment env; project["files"] is in CREATION order."""
    if p["class"] == "demo":
        proj = json.loads(json.dumps(demos[p["id"]]))
        if env["shuf"]:
            random.Random(f"{seed}:{p['id']}:{env['shuf']}").shuffle(proj["files"])
        proj["want"] = ["artifacts"]
        return proj
    decls, layout = list(p["decls"]), list(p["layout"])
    base_files = list(dict.fromkeys(layout))
    # ep: where the entrypoint literals live
    if env["ep"] != "home":
        for i, d in enumerate(decls):
            if d["k"] == "entrypoint":
                layout[i] = (f"src/ep_{d['on']}_{d['name']}{d.get('tag', '')}.ts" if env["ep"] == "own" else "src/zz/deep/ep.ts")
    by_file: dict[str, list] = {}
    for d, path in zip(decls, layout):
        by_file.setdefault(path, []).append(d)
    # lit: order of the literals inside each file
    for path, ds in by_file.items():
        if env["lit"] == "rev":
            ds.reverse()
        elif env["lit"] == "rot" and len(ds) > 1:
            ds.append(ds.pop(0))
    # order: creation order of the (base) files; files that only exist in this environment come last
    order = [base_files[i - 1] for i in env["order"]] if env["order"] else base_files
    order = [f for f in order if f in by_file] + [f for f in by_file if f not in base_files]
    files = []
    for path in order:
        files += pd.render_files(by_file[path], [path] * len(by_file[path]))
    proj = {"schema": pd.isorender.render_schema(schema), "files": files, "want": ["artifacts"]}
    if schema.get("extension"):
        proj["extensions"] = [schema["extension"]]
    if _options(p):
        proj["config"] = {"options": _options(p)}
    return proj


def _enum_order(root: Path) -> str:
    """Digest of the raw readdir order of the source tree (what the compiler's directory walk sees)."""
    seen = []

    def walk(d: Path, rel: str):
        try:
            names = os.listdir(d)
        except OSError:
            return
        for n in names:
            if n == "__isograph":
                continue
            seen.append(rel + n)
            if (d / n).is_dir():
                walk(d / n, rel + n + "/")
    walk(root, "")
    return hashlib.sha1("\n".join(seen).encode()).hexdigest()[:10]


def run_one(binp: Path, base: Path, proj: dict, root_rel: str) -> dict:
    """One fresh process.  Returns the reduced observation (no artifact text)."""
    p = subprocess.Popen([str(binp), str(base)], stdin=subprocess.PIPE, stdout=subprocess.PIPE, stderr=subprocess.PIPE, text=True)
    try:
        out, err = p.communicate(json.dumps(proj) + "\n", timeout=600)
    except subprocess.TimeoutExpired:
        p.kill()
        raise ToolError("h_compile timed out")
    obs = None
    for line in out.splitlines():
        if line.strip():
            o = json.loads(line)
            if not ("begin" in o and len(o) == 1):
                obs = o
    pdir = base / f"p{p.pid}"
    enum = _enum_order(pdir / root_rel)
    shutil.rmtree(pdir, ignore_errors=True)
    if obs is None:
        if p.returncode == 0:
            raise ToolError(f"h_compile: no observation: {err[-400:]}")
        obs = {"outcome": "abort"}
    return {"outcome": obs["outcome"], "arts": pd.digests(obs.get("artifacts", {})),
            "diags": obs.get("diagnostics", []) + ([obs["panic_msg"]] if obs.get("panic_msg") else []), "enum": enum}


class Runner:
    def __init__(self, chk):
        self.chk = chk
        self.binp = pd.h_compile_bin()
        self.shm = pd.tmpfs_base("c14")
        self.base = self.shm or (chk.work / "hc")
        self.base.mkdir(parents=True, exist_ok=True)
        self.schema = projlib.schema()
        self.demos = pd.checked_in_projects()
        self.n = 0

    def close(self):
        if self.shm:
            shutil.rmtree(self.shm, ignore_errors=True)

    def run(self, pairs: list[tuple[dict, dict]]) -> list[dict]:
        """pairs of (abstract project, env) -> records for ObsC14."""
        def one(pe):
            p, env = pe
            proj = materialise(p, env, self.schema, self.demos, self.chk.seed)
            root_rel = (proj.get("config") or {}).get("project_root", "./src")
            o = run_one(self.binp, self.base, proj, root_rel)
            o.update({"project": p["id"], "env": env})
            return o
        with ThreadPoolExecutor(max_workers=JOBS) as ex:
            recs = list(ex.map(one, pairs))
        for r in recs:
            self.n += 1
            r["id"] = self.n
        return recs


def judge(chk, records: list[dict], tag: str) -> list[dict]:
    """ObsC14 over the records; records of one project never straddle two TLC runs."""
    groups: dict[str, list] = {}
    for r in records:
        groups.setdefault(r["project"], []).append(r)
    bads, batch, k = [], [], 0
    for g in list(groups.values()) + [None]:
        if g is not None:
            batch += g
        if batch and (g is None or len(batch) >= 600):
            bads += projlib.judge(chk, "ObsC14.tla", batch, tag=f"{tag}{k}", chunk=len(batch))
            batch, k = [], k + 1
    return bads


# --------------------------------------------------------------------------------------------
# minimisation + canonical signature
# --------------------------------------------------------------------------------------------

def _desc(d: dict) -> tuple:
    """(blank descriptor, names) of a declaration."""
    if d["k"] == "raw":
        return ("raw", ())
    extra = ""
    for x in d.get("dirs", []):
        extra += " @" + x["name"]
    if d.get("component"):
        extra += " @component"
    if d.get("hdr"):
        extra += " ~ws"
    return (d["k"] + " {}.{}" + extra, (d["on"], d["name"]))


def signature(p: dict, aspect: str, what: str) -> str:
    by_file: dict[str, list] = {}
    for d, path in zip(p["decls"], p["layout"]):
        by_file.setdefault(path, []).append(_desc(d))
    files = sorted((sorted(v) for v in by_file.values()), key=lambda v: [x[0] for x in v])
    ren_t, ren_n = {}, {}
    out = []
    for v in files:
        parts = []
        for blank, names in v:
            if names:
                t = ren_t.setdefault(names[0], "T%d" % (len(ren_t) + 1))
                n = ren_n.setdefault(names, "n%d" % (len(ren_n) + 1))
                parts.append(blank.format(t, n))
            else:
                parts.append(blank)
        out.append("+".join(parts))
    w = what.rsplit("/", 1)[-1] if aspect.startswith("artifact") else ""
    return f"C14:{aspect}:{w}:{p.get('opt', 'std')}:" + "|".join(out)


def detail_key(aspect: str, bad: dict, a: dict, b: dict):
    """What exactly differs, coarse enough to survive minimisation: used ONLY to keep the minimiser on the same
    defect (never for a verdict).  diagnostics: the messages (first lines) present in one run and not in the other."""
    if aspect.startswith("artifact"):
        return bad.get("what", "").rsplit("/", 1)[-1]
    if aspect == "diagnostics":
        da, db = list(a["diags"]), list(b["diags"])
        for x in list(da):
            if x in db:
                da.remove(x)
                db.remove(x)
        return tuple(sorted({d.split("\n")[0] for d in da + db}))
    return ""


def fails_batch(chk, runner: Runner, cands: list[tuple[dict, list[dict]]], aspect: str, tag: str, key=None):
    """Each candidate (project, envs) is compiled in MIN_REPS fresh processes per environment; ONE ObsC14 run judges
    them all.  -> ([BAD object | None per candidate], records)"""
    pairs = []
    for i, (p, envs) in enumerate(cands):
        q = dict(p, id=f"{p['id']}#{tag}{i}")
        pairs += [(q, dict(e, rep=k + 1)) for e in envs for k in range(MIN_REPS)]
    recs = runner.run(pairs)
    by_id = {r["id"]: r for r in recs}
    hit: dict[str, dict] = {}
    for b in judge(chk, recs, tag):
        if b["aspect"] == aspect and b["project"] not in hit:
            b["key"] = detail_key(aspect, b, by_id[b["id"]], by_id[b["against"]])
            if key is None or b["key"] == key:
                hit[b["project"]] = b
    return [hit.get(f"{p['id']}#{tag}{i}") for i, (p, _) in enumerate(cands)], recs


def still_fails(chk, runner: Runner, p: dict, envs: list[dict], aspect: str, tag: str, key=None):
    res, recs = fails_batch(chk, runner, [(p, envs)], aspect, tag, key)
    return res[0], recs


def _fit(envs: list[dict], decls: list, layout: list) -> list[dict]:
    n = len(dict.fromkeys(layout))
    return [dict(e, order=list(range(1, n + 1))) if len(e["order"]) != n else e for e in envs]


def minimise(chk, runner: Runner, p: dict, envs: list[dict], aspect: str, key):
    """Greedy removal of declarations (then of the option) while the same difference is still observed; every round
    of candidates is judged by one TLC run."""
    rnd = [0]
    proven: dict[str, tuple] = {}      # content of a candidate -> (BAD object, records) of the round that showed it failing
    content = lambda decls, layout: json.dumps([decls, layout], sort_keys=True)

    def batch(cands):
        rnd[0] += 1
        cs = [(dict(p, decls=[d for d, _ in c], layout=[l for _, l in c]), _fit(envs, c, [l for _, l in c])) for c in cands]
        res, recs = fails_batch(chk, runner, cs, aspect, f"min{rnd[0]}-", key)
        for (c, _), x in zip(cs, res):
            if x is not None:
                proven[content(c["decls"], c["layout"])] = (x, recs)
        return [x is not None for x in res]

    kept = pd.minimise_list(list(zip(p["decls"], p["layout"])), batch)
    cur = dict(p, id=p["id"] + "#min", decls=[d for d, _ in kept], layout=[l for _, l in kept])
    envs = _fit(envs, cur["decls"], cur["layout"])
    # last round: the minimised project itself and, when it sets an option, the same without the option
    finals = [cur] + ([dict(cur, opt="std")] if cur.get("opt") == "nobabel" else [])
    res, recs = fails_batch(chk, runner, [(f, envs) for f in finals], aspect, "final-", key)
    if len(finals) == 2 and res[1] is not None:
        return finals[1], envs, res[1], recs
    if res[0] is None and content(cur["decls"], cur["layout"]) in proven:
        # the difference is probabilistic: this round did not show it, the round that accepted the candidate did
        bad, recs = proven[content(cur["decls"], cur["layout"])]
        return cur, envs, bad, recs
    return cur, envs, res[0], recs


def report(chk, runner: Runner, p: dict, bad: dict, recs_by_id: dict):
    a, b = recs_by_id[bad["id"]], recs_by_id[bad["against"]]
    ea, eb = dict(a["env"], rep=1), dict(b["env"], rep=1)
    envs = [eb] if ea == eb else [eb, ea]
    aspect = bad["aspect"]
    if p["class"] == "demo":
        confirm, recs = still_fails(chk, runner, p, envs, aspect, "confirm-")
        if not confirm:
            chk.drift(f"{p['id']}: difference ({aspect}) between runs {bad['id']} and {bad['against']} did not reproduce")
            return
        sig, minp = f"C14:{aspect}:demo:{p['id']}", {"id": p["id"], "class": "demo"}
        what = f"checked-in project {p['id']}: {aspect} differs between fresh compiles of the same files"
        chk.violation(sig, what, {"engine": "determinism", "project": minp, "envs": envs, "aspect": aspect,
                                  "detail": confirm})
        return
    confirm, _ = still_fails(chk, runner, p, envs, aspect, "confirm-")
    if not confirm:
        chk.drift(f"{p['id']}: difference ({aspect}) between runs {bad['id']} and {bad['against']} did not reproduce "
                  f"in {MIN_REPS} fresh processes per environment")
        return
    minp, menvs, final, recs = minimise(chk, runner, p, envs, aspect, confirm["key"])
    if not final:          # probabilistic miss on the minimised project: fall back to the confirmed one
        minp, menvs, final = p, envs, confirm
    sig = signature(minp, aspect, final.get("what", ""))
    files = materialise(minp, menvs[0], runner.schema, runner.demos, chk.seed)["files"]
    ra = next(r for r in recs if r["id"] == final["id"]) if final is not confirm else None
    rb = next(r for r in recs if r["id"] == final["against"]) if final is not confirm else None
    what = (f"{aspect} differ between compiles of the same files ({'; '.join(f['path'] for f in files)}); "
            f"environments {menvs}")
    chk.violation(sig, what, {"engine": "determinism", "project": minp, "envs": menvs, "aspect": aspect,
                              "files": files, "run_a": ra, "run_b": rb, "found_in": p["id"]})


# --------------------------------------------------------------------------------------------
# run / replay
# --------------------------------------------------------------------------------------------

def generate(chk, consts: dict):
    cfg = chk.work / "GenC14.cfg"
    cfg.write_text(projlib.cfg_from_consts(consts, "INVARIANT Emit\n"))
    r = vlib.tlc(SP / "GenC14.tla", cfg, workers=4, timeout=900, seed=chk.seed, coverage=True, heap="6g")
    chk.add_tlc("gen-GenC14", r)
    if r.violated:
        raise ToolError(f"GenC14 reported {r.violated}:\n{r.out[-1500:]}")
    chk.require_coverage(r, ACTIONS)
    projects, runs, seen = {}, [], set()
    for t, v in r.printed:
        if t == "PROJECT":
            projects[v["id"]] = v
        elif t == "RUN":
            k = json.dumps(v, sort_keys=True)
            if k not in seen:
                seen.add(k)
                runs.append(v)
    if len(runs) != r.distinct:
        raise ToolError(f"GenC14: {r.distinct} states but {len(runs)} RUN lines")
    return projects, runs


def run(chk: vlib.Check) -> None:
    runner = Runner(chk)
    try:
        consts = dict(TIERS[chk.tier])
        consts["DemoIds"] = sorted(runner.demos)
        projects, runs = generate(chk, consts)
        for d in runner.demos:
            projects[d] = {"id": d, "class": "demo", "nfiles": 0}
        pairs = [(projects[r["project"]], r["env"]) for r in runs]
        log(f"[C14] {len(projects)} projects, {len(pairs)} (project, env) states, base={runner.base}")
        t0 = time.time()
        recs = runner.run(pairs)
        log(f"[C14] {len(recs)} fresh-process compiles in {time.time() - t0:.0f}s")
        by_id = {r["id"]: r for r in recs}
        t0 = time.time()
        bads = judge(chk, recs, "obs")
        log(f"[C14] judged in {time.time() - t0:.0f}s")
        # --- accounting ---------------------------------------------------------------------------
        per: dict[str, list] = {}
        for r in recs:
            per.setdefault(r["project"], []).append(r)
        enum_orders = {k: len({r["enum"] for r in v}) for k, v in per.items()}
        chk.cov["evaluations"] = len(recs) - len(per)
        chk.cov["distinct_nontrivial"] = sum(1 for k, v in per.items() if enum_orders[k] >= 2 and len(v) >= consts["Reps"])
        chk.cov["rule"] = ("projects compiled in >= Reps fresh processes AND under >= 2 different directory enumeration "
                           "orders actually observed (readdir of the source tree recorded per run)")
        chk.cov["exhaustive"] = True
        chk.cov["projects"] = len(per)
        chk.cov["runs_fresh_processes"] = len(recs)
        chk.cov["invalid_projects"] = sum(1 for k in per if projects[k]["class"] == "invalid")
        chk.cov["projects_with_2plus_diagnostics"] = sum(1 for v in per.values() if len(v[0]["diags"]) >= 2)
        chk.cov["max_enumeration_orders_of_one_project"] = max(enum_orders.values())
        chk.cov["scratch_on_tmpfs"] = bool(runner.shm)
        chk.cov["constants"] = consts
        for k in list(per)[:2] + [d for d in per if d.startswith("demo:")][:2]:
            r = per[k][0]
            chk.sample({"project": k, "env": r["env"], "outcome": r["outcome"], "artifacts": len(r["arts"]),
                        "diagnostics": [d.split("\n")[0] for d in r["diags"]][:4], "runs": len(per[k]),
                        "enumeration_orders_seen": enum_orders[k]})
        for k, v in per.items():
            cls = projects[k]["class"]
            if (cls == "valid" and v[0]["outcome"] != "ok") or (cls == "invalid" and v[0]["outcome"] == "ok"):
                chk.drift(f"feature model: project {k} is {cls} in GenC14 but the compiler answered {v[0]['outcome']}: "
                          f"{[d.splitlines()[0] for d in v[0]['diags']][:2]}")
        chk.assumptions += [
            "bytes are compared through sha-256 digests computed by the driver; diagnostics are the strings "
            "Diagnostic::printable produced, in the order compile() returned them (h_compile)",
            "a fresh OS process per run stands for a fresh hash seed (std RandomState keys are drawn per process)",
            ("the directory enumeration order is steered through the creation order of files on a tmpfs scratch "
             "directory (readdir = reverse creation order)" if runner.shm else
             "no tmpfs available: directory enumeration order only varies through file names (entrypoint moves)"),
            "literal order / entrypoint placement are applied to projects of class valid only; diagnostics are compared "
            "between runs over the very same files only (Determinism.tla, SameFiles)",
        ]
        # --- verdicts -----------------------------------------------------------------------------
        first_bad: dict[tuple, dict] = {}
        keysets: dict[tuple, set] = {}
        for b in bads:
            k = (b["project"], b["aspect"])
            first_bad.setdefault(k, b)
            dk = detail_key(b["aspect"], b, by_id[b["id"]], by_id[b["against"]])
            keysets.setdefault(k, set()).update(dk if isinstance(dk, tuple) else [dk])
        log(f"[C14] {len(bads)} differing runs in {len({b['project'] for b in bads})} projects: "
            f"{sorted({(b['project'], b['aspect']) for b in bads})}")
        chk.cov["projects_with_differing_runs"] = sorted({b["project"] for b in bads})
        # smallest projects first, so that a defect is reported from its simplest carrier.  A project is not minimised
        # again when everything that differs in it (the differing diagnostic messages / artifact names) was already
        # reported from projects whose features are a subset of its features.
        order = sorted(first_bad.items(), key=lambda kv: (len(projects[kv[0][0]].get("decls", [])) if projects[kv[0][0]]["class"] != "demo" else 10**6))
        budget = 6 if chk.tier == "quick" else 20
        explained: list = []
        for (pid, aspect), b in order:
            p = projects[pid]
            feats = frozenset(p.get("feats", [pid]))
            covered = set().union(*[ks for (f, a, ks) in explained if a == aspect and f <= feats]) if explained else set()
            if keysets[(pid, aspect)] <= covered:
                continue
            if budget == 0:
                chk.drift(f"unminimised difference ({aspect}) in project {pid} (minimisation budget exhausted)")
                continue
            budget -= 1
            report(chk, runner, p, b, by_id)
            explained.append((feats, aspect, keysets[(pid, aspect)]))
    finally:
        runner.close()


def replay(prop: str, path: Path, seed: int) -> int:
    rp = json.loads(Path(path).read_text())
    chk = vlib.Check(prop, "quick", seed)
    runner = Runner(chk)
    try:
        p = rp["project"]
        bad, _ = still_fails(chk, runner, p, rp["envs"], rp["aspect"], "replay-")
        if not bad:      # a second batch: the difference is probabilistic (hash seeds)
            bad, _ = still_fails(chk, runner, p, rp["envs"], rp["aspect"], "replay2-")
        if bad:
            print(f"replay: still violates {prop}: {bad}")
            return 1
        print(f"replay: {prop} holds on this input now ({2 * MIN_REPS} fresh processes per environment)")
        return 0
    finally:
        runner.close()
        shutil.rmtree(chk.work, ignore_errors=True)
