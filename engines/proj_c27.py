"""C27 — generated TypeScript types describe the data actually provided.

  TLC enumerates programs (spec/project/GenC27.tla over schema_c27.json)  ->  the real compiler  ->  one record per
  accepted program with the TS type trees of every param_type.ts / raw_response_type.ts (h_compile `types`
  projection, swc) and the parsed operation of every entrypoint  ->  TLC evaluates spec/project/ObsC27.tla
  (predicates in Types.tla).
"""
from __future__ import annotations

import json
import posixpath
import time
from pathlib import Path

import vlib
from vlib import ToolError, log
from engines import isorender, projlib
from engines import proj_pc_common as pc

LEVEL = {"C27": "model_checking"}
PROP = "C27"
SCHEMA = "schema_c27"

ALL_CARD = set(range(1, 20))
SCOPES = {
    "quick": [("t", dict(MaxCard=2, CardChoice=ALL_CARD, HomeChoice={1, 2})),
              ("h", dict(MaxCard=1, CardChoice={1, 7, 9, 11, 14, 18}, HomeChoice={3, 4}))],
    "thorough": [("t", dict(MaxCard=3, CardChoice=ALL_CARD, HomeChoice={1, 2})),
                 ("h", dict(MaxCard=2, CardChoice=ALL_CARD, HomeChoice={3, 4}))],
}


def record_of(obs: dict, prog: dict, pid) -> dict:
    js, ops = obs.get("js") or {}, obs.get("ops") or {}
    params, raws = [], []
    for p in sorted(js):
        m = js[p]
        d = posixpath.dirname(p)
        parts = d.split("/")
        if len(parts) < 2:
            continue
        on, name = parts[-2], parts[-1]
        if p.endswith("/param_type.ts"):
            t = (m.get("types") or {}).get(f"{on}__{name}__param")
            params.append({"on": on, "name": name, "type": t if t is not None else {"k": "other", "what": "missing alias"}})
        elif p.endswith("/raw_response_type.ts"):
            t = (m.get("types") or {}).get(f"{on}__{name}__raw_response_type")
            op = ops.get(d + "/query_text.ts", {"ok": False, "error": "no query text"})
            raws.append({"key": d, "type": t if t is not None else {"k": "other", "what": "missing alias"},
                         "op": pc.prune_op(op)})
    return {"id": pid, "schema": SCHEMA, "prog": prog, "params": params, "raws": raws}


def signature(b: dict) -> list[tuple[str, str]]:
    out = []
    for x in b["bad"]:
        kind = "param" if x["art"].endswith("param_type") else "raw"
        out.append((f"C27|{kind}|{x['why']}", f"{x['art']} at {'.'.join(x['at'])}: {x['why']}"))
    return out


def compile_and_judge(chk, progs, tag, count=True):
    S = projlib.schema(SCHEMA)
    projects = [isorender.project(S, p, ident=i) for i, p in enumerate(progs)]
    obs = projlib.compile_all(chk, projects, want=["js", "ops"])
    recs = [record_of(o, progs[i], i) for i, o in enumerate(obs) if o.get("outcome") == "ok"]
    printed = pc.judge_all(chk, "ObsC27.tla", recs, tag=tag, count=count, coverage_probe=count) if recs else []
    return obs, recs, printed


def bad_signatures(printed) -> dict:
    out: dict = {}
    for t, v in printed:
        if t == "BAD":
            for s, _ in signature(v):
                out.setdefault(v["id"], set()).add(s)
    return out


def minimise_for(chk, prog, sig, deadline=None):
    n = [0]

    def still_bad(cands):
        n[0] += 1
        _, _, printed = compile_and_judge(chk, cands, f"min{n[0]}", count=False)
        sigs = bad_signatures(printed)
        return [sig in sigs.get(i, set()) for i in range(len(cands))]
    return pc.minimise(prog, still_bad, deadline=deadline)


def run(chk: vlib.Check) -> None:
    progs, seen = [], set()
    for name, consts in SCOPES[chk.tier]:
        for p in projlib.generate(chk, "GenC27.tla", consts, name=name, timeout=900):
            k = json.dumps(p, sort_keys=True)
            if k not in seen:
                seen.add(k)
                progs.append(p)
    log(f"[C27] {len(progs)} programs")
    obs, recs, printed = compile_and_judge(chk, progs, "gen")
    outcomes: dict = {}
    for o in obs:
        outcomes[o["outcome"]] = outcomes.get(o["outcome"], 0) + 1
    chk.cov["programs"] = len(progs)
    chk.cov["outcomes"] = outcomes
    if outcomes.get("ok", 0) * 2 < len(progs):
        bad = [o for o in obs if o["outcome"] != "ok"][:2]
        raise ToolError(f"most generated programs were not accepted: {outcomes}; e.g. "
                        f"{[(o.get('diagnostics') or [o.get('panic_msg')])[0][:300] for o in bad]}")
    rej = [o for o in obs if o["outcome"] != "ok"]
    if rej:
        chk.cov["rejected_sample"] = [str((o.get("diagnostics") or [o.get("panic_msg", o["outcome"])])[0])[:300] for o in rej[:3]]
    stats = [v for t, v in printed if t == "STAT"]
    chk.cov["evaluations"] = sum(s["params"] + s["raws"] for s in stats)
    chk.cov["param_types_judged"] = sum(s["params"] for s in stats)
    chk.cov["raw_response_types_judged"] = sum(s["raws"] for s in stats)
    chk.cov["distinct_nontrivial"] = sum(1 for s in stats if s["params"] >= 2 and s["raws"] >= 1)
    chk.cov["rule"] = "accepted programs with at least two parameter types and one raw response type judged"
    chk.cov["exhaustive"] = True
    if chk.cov["param_types_judged"] == 0 or chk.cov["raw_response_types_judged"] == 0:
        raise ToolError("vacuous: no type artifact was judged")
    chk.assumptions += [
        "trusted base: engines/isorender.py, h_compile `types` projection (swc TypeScript AST -> JSON), strict GraphQL op parser",
        "schema: spec/project/schema_c27.json (schema1 + list-of-list / nullable-list fields); base scalar spellings (string/number) are not judged",
        "raw response types: at a selection set with inline fragments one object type per fragment type is required; a member for "
        "'none of the fragment types' is not required",
    ]
    grouped: dict = {}
    for t, v in printed:
        if t == "BAD":
            for s, what in signature(v):
                grouped.setdefault(s, []).append((v["id"], what, v))
    budget = time.time() + (240 if chk.tier == "quick" else 600)
    for s, hits in sorted(grouped.items()):
        i, what, b = min(hits, key=lambda h: pc.prog_size(progs[h[0]]))
        prog = progs[i]
        if vlib.finding_for(PROP, s) is None:
            try:
                small = minimise_for(chk, prog, s, deadline=budget)
                if small is not prog:
                    _, _, pr = compile_and_judge(chk, [small], "minfinal", count=False)
                    bs = [v for t, v in pr if t == "BAD" and any(x == s for x, _ in signature(v))]
                    if bs:
                        prog, b = small, bs[0]
                        what = [w for x, w in signature(b) if x == s][0]
            except ToolError as e:
                log(f"[C27] minimisation failed: {e}")
        chk.violation(s, f"{what} ({len(hits)} programs)",
                      {"engine": "proj_c27", "schema": SCHEMA, "program": prog, "source": isorender.render_program(prog),
                       "bad": b, "programs_with_signature": len(hits)})
    for s in stats[:2]:
        chk.sample({"record": s})
    if progs:
        chk.sample({"program": progs[0]})


def replay(prop: str, path: Path, seed: int) -> int:
    rp = json.loads(Path(path).read_text())
    chk = vlib.Check(prop, "replay", seed)
    try:
        _, _, printed = compile_and_judge(chk, [rp["program"]], "replay", count=False)
        sigs = bad_signatures(printed).get(0, set())
        hit = rp.get("signature") in sigs
        print(f"replay {path}: signature {'reproduced' if hit else 'not reproduced'}; now: {sorted(sigs)}")
        return 1 if hit else 0
    finally:
        import shutil
        shutil.rmtree(chk.work, ignore_errors=True)
