"""Shared helpers of engines/proj_c10.py, proj_c25.py, proj_c27.py (program-space properties about
what the generated artifacts mean to the TypeScript runtime).

Everything here is dumb reshaping of h_compile's projections into self-contained records that the
TLA+ predicates (spec/project/Runtime.tla, Refetch.tla, Types.tla) judge:

  * `$ref`s between artifacts are followed through the importing module's `imports`
    (`User__Card__resolver_reader` -> the default export of ../../User/Card/resolver_reader.ts);
  * a JSON `null` property is OMITTED (TLC's Json module rejects null); `() => x` is replaced by x;
  * `{kind: "Literal", value: v}` gets `value` replaced by the JSON text of v ("3", "true", "null"),
    because TLC cannot compare a number with a boolean or a string;
  * `resolver` properties (user code) are dropped; for the compiler-generated type-refinement readers
    (`X/asY/resolver_reader.ts`) the type name Y' tested by the generated resolver text
    (`data.__typename === "Y'"`) is recorded as `refineTo`;
  * references to entrypoint artifacts (loadable selections) are cut and recorded as {"$entrypoint": "T/F"}
    so that every entrypoint becomes one `bundle`.
"""
from __future__ import annotations

import hashlib
import json
import posixpath
import re
from pathlib import Path

import vlib

# --------------------------------------------------------------------------------------------
# artifact graph -> bundles
# --------------------------------------------------------------------------------------------

_REFINE_RE = re.compile(r'data\.__typename\s*===\s*"([A-Za-z_][A-Za-z_0-9]*)"')


def _target(path: str, rel: str, js: dict) -> str | None:
    base = posixpath.dirname(path)
    p = posixpath.normpath(posixpath.join(base, rel))
    for cand in (p, p + ".ts", p + ".js"):
        if cand in js:
            return cand
    return None


def _split_artifact_path(p: str) -> dict:
    parts = p.split("/")
    if len(parts) >= 3:
        return {"on": parts[-3], "name": parts[-2], "file": parts[-1]}
    return {"on": "", "name": "", "file": parts[-1]}


class Resolver:
    def __init__(self, obs: dict):
        self.js = obs.get("js") or {}
        self.text = obs.get("artifacts") or {}
        self.ops = obs.get("ops") or {}
        self._cache: dict = {}

    # ---- values -----------------------------------------------------------------------------
    def value(self, path: str, v):
        if isinstance(v, list):
            return [self.value(path, x) for x in v]
        if isinstance(v, dict):
            if "$null" in v:
                return None
            if "$ref" in v:
                return self.ref(path, v["$ref"])
            if "$arrow" in v:
                return self.value(path, v["$arrow"])
            if "$import" in v:
                t = _target(path, v["$import"], self.js) if isinstance(v["$import"], str) else None
                return {"$import": t or str(v["$import"])}
            out = {}
            for k, x in v.items():
                if k == "resolver":
                    continue
                y = self.value(path, x)
                if y is None:
                    continue
                out[k] = y
            if out.get("kind") == "Literal":
                raw = v.get("value")
                if isinstance(raw, dict) and "$null" in raw:
                    out["value"] = "null"
                elif isinstance(raw, dict) and "$num" in raw:
                    out["value"] = str(raw["$num"])
                else:
                    out["value"] = json.dumps(raw)
            return out
        return v

    def ref(self, path: str, name: str):
        m = self.js.get(path) or {}
        consts = m.get("consts") or {}
        if name in consts:
            return self.value(path, consts[name])
        for imp in m.get("imports") or []:
            if imp.get("default") == name or name in (imp.get("names") or []):
                t = _target(path, imp["from"], self.js)
                if t is None:
                    return {"$ext": imp["from"]}
                if t.endswith("/entrypoint.ts"):
                    return {"$entrypoint": posixpath.dirname(t)}
                return self.module_default(t)
        return {"$unresolved": name}

    def module_default(self, t: str):
        if t in self._cache:
            return self._cache[t]
        m = self.js[t]
        d = m.get("default")
        val = self.value(t, d)
        if isinstance(val, dict):
            val = dict(val)
            val.update({"on": _split_artifact_path(t)["on"], "name": _split_artifact_path(t)["name"]})
            txt = self.text.get(t, "")
            mm = _REFINE_RE.search(txt)
            if mm and "/as" in t:
                val["refineTo"] = mm.group(1)
        self._cache[t] = val
        return val

    # ---- readers ------------------------------------------------------------------------------
    @staticmethod
    def _reader(val: dict) -> dict:
        """{"kind","fieldName","readerAst", on, name, refineTo?} -> keep what the predicates need"""
        out = {"kind": val.get("kind", ""), "fieldName": val.get("fieldName", ""), "on": val.get("on", ""),
               "name": val.get("name", ""), "ast": val.get("readerAst", [])}
        if "refineTo" in val:
            out["refineTo"] = val["refineTo"]
        return out

    def _shape_ast(self, ast, eps: set):
        out = []
        for n in ast:
            n = dict(n)
            n.pop("isUpdatable", None)
            n.pop("isFallible", None)
            k = n.get("kind")
            if k == "Linked":
                if "condition" in n:
                    c = self._reader(n["condition"])
                    c["ast"] = self._shape_ast(c["ast"], eps)
                    n["condition"] = c
                n["selections"] = self._shape_ast(n.get("selections", []), eps)
            elif k == "Resolver":
                r = self._reader(n.get("readerArtifact", {}))
                r["ast"] = self._shape_ast(r["ast"], eps)
                n["readerArtifact"] = r
            elif k == "ImperativelyLoadedField":
                r = self._reader(n.get("refetchReaderArtifact", {}))
                r["ast"] = self._shape_ast(r["ast"], eps)
                n["refetchReaderArtifact"] = r
            elif k == "LoadablySelectedField":
                n["refetchReaderAst"] = self._shape_ast(n.get("refetchReaderAst", []), eps)
                e = n.get("entrypoint", {})
                if "$entrypoint" in e:
                    n["entrypoint"] = {"key": e["$entrypoint"], "lazy": False}
                else:
                    imp = _find_key(e, "$import")
                    key = posixpath.dirname(imp) if isinstance(imp, str) else ""
                    n["entrypoint"] = {"key": key, "lazy": True}
                eps.add(n["entrypoint"]["key"])
            out.append(n)
        return out

    # ---- bundles ------------------------------------------------------------------------------
    def op_of(self, module_path: str):
        """the parsed operation a module's `queryText` import points to (pruned)"""
        m = self.js.get(module_path) or {}
        for imp in m.get("imports") or []:
            if imp.get("default") == "queryText":
                t = _target(module_path, imp["from"], self.js)
                if t and t in self.ops:
                    return prune_op(self.ops[t])
        return {"ok": False, "error": "no query text"}

    def bundle(self, key: str, eps: set) -> dict | None:
        p = key + "/entrypoint.ts"
        if p not in self.js:
            return None
        art = self.value(p, self.js[p].get("default"))
        rwr = art.get("readerWithRefetchQueries", {})
        reader = rwr.get("readerArtifact")
        if not isinstance(reader, dict) or "readerAst" not in reader:
            # lazily loaded reader: { kind: "ReaderWithRefetchQueriesLoader", loader: () => import('./resolver_reader') ... }
            rp = key + "/resolver_reader.ts"
            reader = self.module_default(rp) if rp in self.js else {}
        r = self._reader(reader)
        r["ast"] = self._shape_ast(r["ast"], eps)
        nested_src = rwr.get("nestedRefetchQueries")
        if not isinstance(nested_src, list):
            nested_src = self.value(p, (self.js[p].get("consts") or {}).get("nestedRefetchQueries", [])) or []
        nested = []
        for i, w in enumerate(nested_src):
            a = w.get("artifact", {})
            mp = self._import_path(p, f"refetchQuery{i}")
            nri = a.get("networkRequestInfo", {})
            norm = nri.get("normalizationAst", {})
            nested.append({"allowed": w.get("allowedVariables", []), "concreteType": a.get("concreteType", ""),
                           "kind": a.get("kind", ""), "norm": shape_norm(norm.get("selections", [])),
                           "op": self.op_of(mp) if mp else {"ok": False, "error": "unresolved"}})
        nri = art.get("networkRequestInfo", {})
        norm = nri.get("normalizationAst", {})
        if "selections" not in norm:
            np_ = key + "/normalization_ast.ts"
            norm = self.module_default(np_) if np_ in self.js else {}
        sp = _split_artifact_path(p)
        return {"on": sp["on"], "name": sp["name"], "concreteType": art.get("concreteType", ""), "reader": r,
                "norm": shape_norm(norm.get("selections", [])), "op": self.op_of(p), "nested": nested}

    def _import_path(self, path, name):
        for imp in (self.js.get(path) or {}).get("imports") or []:
            if imp.get("default") == name:
                return _target(path, imp["from"], self.js)
        return None

    def entrypoint_keys(self) -> list[str]:
        return sorted(posixpath.dirname(p) for p in self.js if p.endswith("/entrypoint.ts"))

    def bundles(self) -> dict:
        """every entrypoint artifact of the compile (declared entrypoints and the ones generated for
        loadably selected fields) -> bundle"""
        out = {}
        for k in self.entrypoint_keys():
            eps: set = set()
            b = self.bundle(k, eps)
            if b is not None:
                b["loadables"] = sorted(eps)
                out[k] = b
        return out


def _find_key(v, key):
    if isinstance(v, dict):
        if key in v:
            return v[key]
        for x in v.values():
            r = _find_key(x, key)
            if r is not None:
                return r
    elif isinstance(v, list):
        for x in v:
            r = _find_key(x, key)
            if r is not None:
                return r
    return None


def shape_norm(sels):
    out = []
    for n in sels:
        n = dict(n)
        n.pop("isFallible", None)
        if "selections" in n:
            n["selections"] = shape_norm(n["selections"])
        out.append(n)
    return out


def prune_op(op):
    if not op.get("ok", False):
        return {"ok": False, "error": str(op.get("error", ""))[:200]}

    def sel(s):
        if s.get("t") == "inline":
            return {"t": "inline", "on": s.get("on", ""), "selections": [sel(x) for x in s.get("selections", [])]}
        return {"t": "field", "alias": s.get("alias", ""), "name": s["name"], "key": s.get("key", s["name"]),
                "args": s.get("args", []), "selections": [sel(x) for x in s.get("selections", [])]}
    return {"ok": True, "kind": op.get("kind", ""), "name": op.get("name", ""),
            "vars": [{"name": v["name"], "type": v["type"]} for v in op.get("vars", [])],
            "selections": [sel(s) for s in op.get("selections", [])]}


# --------------------------------------------------------------------------------------------
# @exposeField table (trusted, dumb parse of the schema extension text)
# --------------------------------------------------------------------------------------------

_EXT_TYPE_RE = re.compile(r"extend\s+type\s+(\w+)((?:\s*@exposeField\s*\((?:[^()]|\([^()]*\))*\))+)", re.S)
_EXPOSE_RE = re.compile(r"@exposeField\s*\(((?:[^()]|\([^()]*\))*)\)", re.S)


def expose_table(extension_text: str, type_names) -> dict:
    """name -> {root, path: [{"f": field} | {"on": Type}], last}: the fields an `extend type R @exposeField(field:
    "a.b.asT", as: "n")` adds.  The parent type of the exposed field is not computed here."""
    out = {}
    text = re.sub(r"#[^\n]*", "", extension_text)
    for m in _EXT_TYPE_RE.finditer(text):
        root = m.group(1)
        for e in _EXPOSE_RE.finditer(m.group(2)):
            body = e.group(1)
            f = re.search(r'field\s*:\s*"([^"]*)"', body)
            a = re.search(r'\bas\s*:\s*"([^"]*)"', body)
            if not f:
                continue
            parts = f.group(1).split(".")
            name = a.group(1) if a else parts[0]
            path = []
            for p in parts:
                if p.startswith("as") and p[2:] in type_names:
                    path.append({"on": p[2:]})
                else:
                    path.append({"f": p})
            out[name] = {"root": root, "path": path, "first": parts[0]}
    return out


# --------------------------------------------------------------------------------------------
# demos
# --------------------------------------------------------------------------------------------

DEMOS = ["pet-demo", "github-demo", "vite-demo"]


def demo_project(name: str) -> dict | None:
    """A checked-in demo as an h_compile project (its own schema, extensions, options; every source
    file under project_root except generated ones)."""
    d = vlib.REPO / "demos" / name
    cfgp = d / "isograph.config.json"
    if not cfgp.exists():
        return None
    cfg = json.loads(cfgp.read_text())
    root = (d / cfg.get("project_root", "./src")).resolve()
    files = []
    for p in sorted(root.rglob("*")):
        if p.is_file() and p.suffix in (".ts", ".tsx", ".js", ".jsx") and "__isograph" not in p.parts:
            try:
                files.append({"path": str(Path("src") / p.relative_to(root)), "content": p.read_text()})
            except UnicodeDecodeError:
                continue
    proj = {"id": f"demo:{name}", "schema": (d / cfg["schema"]).read_text(), "files": files,
            "extensions": [(d / e).read_text() for e in cfg.get("schema_extensions", [])]}
    opts = dict(cfg.get("options") or {})
    opts.pop("open_telemetry", None)
    proj["config"] = {"options": opts, "project_root": "./src"}
    return proj


def sdl_type_names(sdl: str) -> set:
    return set(re.findall(r"^\s*(?:type|interface|union)\s+(\w+)", sdl, re.M))


# --------------------------------------------------------------------------------------------
# misc
# --------------------------------------------------------------------------------------------

def digest(text: str) -> str:
    return hashlib.sha256(text.encode()).hexdigest()[:16]


def function_bodies(src: str, names: list[str]) -> dict:
    """name -> text of `function name(...) {...}` cut out of a TypeScript source by brace matching
    (the last declaration with a body when there are overload signatures)."""
    out = {}
    for n in names:
        best = None
        for m in re.finditer(r"(?:export\s+)?function\s+" + re.escape(n) + r"\b", src):
            i = m.end()
            # skip to the body: first '{' at paren depth 0 after the parameter list
            depth, j, seen_paren = 0, i, False
            while j < len(src):
                c = src[j]
                if c == "(":
                    depth += 1
                    seen_paren = True
                elif c == ")":
                    depth -= 1
                elif c == ";" and depth == 0 and seen_paren:
                    j = -1
                    break
                elif c == "{" and depth == 0 and seen_paren and _is_body_brace(src, j):
                    break
                j += 1
            if j < 0 or j >= len(src):
                continue
            k, d = j, 0
            while k < len(src):
                if src[k] == "{":
                    d += 1
                elif src[k] == "}":
                    d -= 1
                    if d == 0:
                        break
                k += 1
            best = src[m.start():k + 1]
        if best is not None:
            out[n] = best
    return out


def _is_body_brace(src: str, j: int) -> bool:
    """a '{' that opens the function body (preceded by ')' or a return type), not an object type in
    the return type annotation: heuristic — the text between the closing paren and this brace does
    not end with ':' or '|' or '<' or ','"""
    k = j - 1
    while k >= 0 and src[k] in " \t\r\n":
        k -= 1
    return src[k] not in ":|<,&("


# --------------------------------------------------------------------------------------------
# judging (TLC evaluates the TLA+ predicates on ndjson records) — like projlib.judge, but returns
# every printed tuple so that the engines can also read the STAT lines (non-vacuity counters)
# --------------------------------------------------------------------------------------------

def judge_all(chk, module: str, records: list, *, consts: dict | None = None, tag="judge", chunk=700, timeout=1200,
              count=True, heap="6g", coverage_probe=True):
    """TLC evaluates the predicate spec `module` on every record.  `-coverage` makes TLC several times slower, so
    the non-vacuity run with coverage is done on the first record only (the action `Next` must be taken);
    that every record was judged is the POSTCONDITION AllConsumed of every run."""
    from engines import projlib
    printed = []
    if coverage_probe and records:
        path = chk.work / f"{tag}-cov.ndjson"
        vlib.write_ndjson(path, records[:1])
        cfg = chk.work / f"{Path(module).stem}-{tag}-cov.cfg"
        cfg.write_text(projlib.cfg_from_consts(consts or {}, "POSTCONDITION AllConsumed\n"))
        r = vlib.tlc(projlib.SP / module, cfg, workers=1, timeout=timeout, env={"TRACE": str(path)}, dfs=True,
                     heap=heap, coverage=True)
        chk.add_tlc(f"{tag}-coverage", r, count_states=False)
        if r.violated:
            raise vlib.ToolError(f"{module} did not consume all records of {path}:\n{r.out[-2500:]}")
        chk.require_coverage(r, ["Next"])
    for n, part in enumerate(vlib.chunks(records, chunk)):
        path = chk.work / f"{tag}-{n}.ndjson"
        vlib.write_ndjson(path, part)
        cfg = chk.work / f"{Path(module).stem}-{tag}.cfg"
        cfg.write_text(projlib.cfg_from_consts(consts or {}, "POSTCONDITION AllConsumed\n"))
        r = vlib.tlc(projlib.SP / module, cfg, workers=1, timeout=timeout, env={"TRACE": str(path)}, dfs=True,
                     heap=heap)
        chk.add_tlc(f"{tag}-{n}", r, count_states=False)
        if r.violated:
            raise vlib.ToolError(f"{module} did not consume all records of {path}:\n{r.out[-2500:]}")
        printed += r.printed
        if count:
            chk.cov["traces_validated_against_impl"] += len(part)
    return printed


# --------------------------------------------------------------------------------------------
# program minimisation (delta debugging over the abstract program)
# --------------------------------------------------------------------------------------------

def _sel_paths(sels, prefix=()):
    for i, s in enumerate(sels):
        yield prefix + (i,)
        if "sels" in s:
            yield from _sel_paths(s["sels"], prefix + (i, "sels"))


def _remove_at(sels, path):
    sels = [dict(s) for s in sels]
    if len(path) == 1:
        del sels[path[0]]
        return sels
    i = path[0]
    sels[i] = dict(sels[i])
    sels[i]["sels"] = _remove_at(sels[i]["sels"], path[2:])
    return sels


def reductions(prog: dict) -> list[dict]:
    """all programs obtained by one removal: a declaration, a selection (at any depth), an argument
    of a selection, a variable definition, a directive"""
    out = []
    decls = prog["decls"]
    for i in range(len(decls)):
        out.append({**prog, "decls": decls[:i] + decls[i + 1:]})
        d = decls[i]
        if d["k"] == "field":      # a field together with the entrypoint declaration that names it
            rest = [x for j, x in enumerate(decls) if j != i and not (x["k"] == "entrypoint" and x["on"] == d["on"] and x["name"] == d["name"])]
            if len(rest) < len(decls) - 1:
                out.append({**prog, "decls": rest})
    for i, d in enumerate(decls):
        if "sels" not in d:
            continue
        for p in _sel_paths(d["sels"]):
            nd = {**d, "sels": _remove_at(d["sels"], p)}
            out.append({**prog, "decls": decls[:i] + [nd] + decls[i + 1:]})
        for vi in range(len(d.get("vars", []))):
            nd = {**d, "vars": d["vars"][:vi] + d["vars"][vi + 1:]}
            out.append({**prog, "decls": decls[:i] + [nd] + decls[i + 1:]})

        def edit_sels(sels, fn):
            res = []
            for k, s in enumerate(sels):
                for ns in fn(s):
                    res.append(sels[:k] + [ns] + sels[k + 1:])
                if "sels" in s:
                    for sub in edit_sels(s["sels"], fn):
                        res.append(sels[:k] + [{**s, "sels": sub}] + sels[k + 1:])
            return res

        def drop_one(s):
            r = []
            for a in range(len(s.get("args", []))):
                r.append({**s, "args": s["args"][:a] + s["args"][a + 1:]})
            for a in range(len(s.get("dirs", []))):
                r.append({**s, "dirs": s["dirs"][:a] + s["dirs"][a + 1:]})
            if s.get("alias"):
                r.append({**s, "alias": ""})
            return r
        for ns in edit_sels(d["sels"], drop_one):
            out.append({**prog, "decls": decls[:i] + [{**d, "sels": ns}] + decls[i + 1:]})
    return out


def prog_size(prog) -> int:
    return len(json.dumps(prog))


def minimise(prog: dict, still_bad, max_rounds=40, deadline: float | None = None) -> dict:
    """greedy: repeatedly replace prog by its smallest one-step reduction for which still_bad holds.
    still_bad(list of programs) -> list of bool (batched: one compile run + one TLC run per round).
    Stops at `deadline` (time.time() value) with the best program so far."""
    import time
    cur = prog
    for _ in range(max_rounds):
        if deadline is not None and time.time() > deadline:
            break
        cands = reductions(cur)
        if not cands:
            break
        verdicts = still_bad(cands)
        good = [c for c, v in zip(cands, verdicts) if v]
        if not good:
            break
        cur = min(good, key=prog_size)
    return cur
