"""Trusted renderer: abstract schema / iso program (JSON, as chosen by TLC) -> concrete text.

Schema JSON: see spec/project/schema1.json.  Type refs {k:"named",n} | {k:"list",of} | {k:"nonnull",of}.
Program JSON:
  {"decls": [ {"k":"field",   "on":T, "name":N, "component":bool, "vars":[VAR], "desc":"", "sels":[SEL]},
              {"k":"pointer", "on":T, "name":N, "to":T2, "vars":[VAR], "sels":[SEL]},
              {"k":"entrypoint", "on":T, "name":N, "dirs":[...]} ],
   "layout": optional list (same length as decls) of file paths; default: one file src/main.ts }
  SEL = {"name":N, "alias":"" | A, "args":[[name, VALUE]], "dirs":[{"name":D,"args":[[k,VALUE]]}], "sels":[SEL] | absent}
        (a linked selection is one that has a "sels" key, even when it is empty)
  VAR = {"name":N, "type":TYPEREF, "default": VALUE (optional)}
  VALUE = {"t":"var","n"} | {"t":"int","v":"3"} | {"t":"str","cps":[code points]} | {"t":"bool","v":true}
        | {"t":"null"} | {"t":"enum","v":"CAT"} | {"t":"obj","fields":[[k,VALUE]]} | {"t":"raw","text":"..."}
"""
from __future__ import annotations


def type_ref(t) -> str:
    if t["k"] == "named":
        return t["n"]
    if t["k"] == "list":
        return "[" + type_ref(t["of"]) + "]"
    return type_ref(t["of"]) + "!"


def sdl_value(v) -> str:
    return value(v)


def render_schema(schema: dict) -> str:
    out = []
    for name, t in schema["types"].items():
        k = t["kind"]
        if k in ("object", "interface"):
            impl = (" implements " + " & ".join(t["implements"])) if t.get("implements") else ""
            kw = "type" if k == "object" else "interface"
            out.append(f"{kw} {name}{impl} {{")
            for fname, f in t["fields"].items():
                if f.get("desc"):
                    out.append(f'  "{f["desc"]}"')
                args = ""
                if f.get("args"):
                    args = "(" + ", ".join(
                        f"{an}: {type_ref(a['type'])}" + (f" = {value(a['default'])}" if "default" in a else "")
                        for an, a in f["args"].items()) + ")"
                out.append(f"  {fname}{args}: {type_ref(f['type'])}")
            out.append("}\n")
        elif k == "union":
            out.append(f"union {name} = " + " | ".join(t["members"]) + "\n")
        elif k == "enum":
            out.append(f"enum {name} {{\n" + "\n".join("  " + v for v in t["values"]) + "\n}\n")
        elif k == "input":
            out.append(f"input {name} {{")
            for fname, a in t["fields"].items():
                out.append(f"  {fname}: {type_ref(a['type'])}" + (f" = {value(a['default'])}" if "default" in a else ""))
            out.append("}\n")
        elif k == "scalar":
            out.append(f"scalar {name}\n")
    return "\n".join(out)


def value(v) -> str:
    t = v["t"]
    if t == "var":
        return "$" + v["n"]
    if t in ("int", "float"):
        return str(v["v"])
    if t == "str":
        return '"' + "".join(chr(c) for c in v["cps"]) + '"'
    if t == "bool":
        return "true" if v["v"] else "false"
    if t == "null":
        return "null"
    if t == "enum":
        return v["v"]
    if t == "obj":
        return "{" + ", ".join(f"{k}: {value(x)}" for k, x in v["fields"]) + "}"
    if t == "list":
        return "[" + ", ".join(value(x) for x in v["items"]) + "]"
    if t == "raw":
        return v["text"]
    raise ValueError(t)


def directive(d) -> str:
    s = "@" + d["name"]
    if d.get("args"):
        s += "(" + ", ".join(f"{k}: {value(x)}" for k, x in d["args"]) + ")"
    return s


def selection(sel, indent) -> list[str]:
    pad = "  " * indent
    head = (sel["alias"] + ": " if sel.get("alias") else "") + sel["name"]
    if sel.get("args"):
        head += "(" + ", ".join(f"{k}: {value(x)}" for k, x in sel["args"]) + ")"
    for d in sel.get("dirs", []):
        head += " " + directive(d)
    if "sels" in sel:
        lines = [pad + head + " {"]
        for s in sel["sels"]:
            lines += selection(s, indent + 1)
        lines.append(pad + "}")
        return lines
    return [pad + head]


def variables(vs) -> str:
    if not vs:
        return ""
    return "(" + ", ".join("$" + v["name"] + ": " + type_ref(v["type"]) + (" = " + value(v["default"]) if "default" in v else "")
                           for v in vs) + ")"


def literal(decl) -> str:
    """The text inside iso(`...`)."""
    k = decl["k"]
    if k == "entrypoint":
        s = f"entrypoint {decl['on']}.{decl['name']}"
        for d in decl.get("dirs", []):
            s += " " + directive(d)
        if decl.get("multiline"):
            return "\n  " + s + "\n"
        return s
    head = f"{k} {decl['on']}.{decl['name']}"
    if k == "pointer":
        head += f" to {decl['to']}"
    head += variables(decl.get("vars", []))
    if decl.get("component"):
        head += " @component"
    for d in decl.get("dirs", []):
        head += " " + directive(d)
    lines = ["", "  " + head + (' """' + decl["desc"] + '"""' if decl.get("desc") else "") + " {"]
    for s in decl.get("sels", []):
        lines += selection(s, 2)
    lines.append("  }")
    lines.append("")
    return "\n".join(lines)


def js_escape_template(text: str) -> str:
    return text.replace("\\", "\\\\").replace("`", "\\`").replace("${", "\\${")


def decl_source(decl, i) -> str:
    lit = js_escape_template(literal(decl))
    name = f"d{i}_{decl['name']}"
    if decl["k"] == "entrypoint":
        return f"export const {name} = iso(`{lit}`);\n"
    return f"export const {name} = iso(`{lit}`)(function {name}_impl() {{ return null; }});\n"


def render_program(program: dict) -> list[dict]:
    """-> [{"path", "content"}]"""
    decls = program["decls"]
    layout = program.get("layout") or ["src/main.ts"] * len(decls)
    files: dict[str, list[str]] = {}
    for i, (d, path) in enumerate(zip(decls, layout)):
        files.setdefault(path, []).append(decl_source(d, i))
    return [{"path": p, "content": "import { iso } from '@iso';\n" + "".join(parts)} for p, parts in files.items()]


def project(schema: dict, program: dict, options: dict | None = None, extensions: bool = True, ident=None) -> dict:
    proj = {"schema": render_schema(schema), "files": render_program(program)}
    if extensions and schema.get("extension"):
        proj["extensions"] = [schema["extension"]]
    if options:
        proj["config"] = {"options": options}
    if ident is not None:
        proj["id"] = ident
    return proj
