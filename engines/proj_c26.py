"""C26 — persisted document ids match the documents they name.

  TLC (GenC26.tla: (program, {algorithm, include_extra_info, file}) states; transitions add a feature / change the
       configuration)  --PROGRAM-->  render  -->  TWO real compiles per case (persisted documents off / on; h_compile)
     --record (what every artifact with a networkRequestInfo sends in each build; the persisted documents file entry by
               entry with the re-computed hash; token sequences of the texts)-->
  TLC (ObsC26.tla + Persisted.tla, layer A)  --BAD--> verdict.        Plus the checked-in projects.

Trusted base: h_compile's swc projection of the artifacts (default export, imports), python hashlib (md5 / sha256),
the GraphQL tokeniser in proj_pd_common, json with object_pairs_hook (duplicate keys are kept).
"""
from __future__ import annotations

import hashlib
import json
import posixpath
import shutil
from pathlib import Path

import vlib
from engines import projlib
from engines import proj_pd_common as pd
from vlib import ToolError, log

LEVEL = {"C26": "model_checking"}
TIERS = {"quick": dict(MaxFeat=2), "thorough": dict(MaxFeat=4)}
ACTIONS = ["AddFeature", "SetAlgorithm", "SetExtraInfo", "SetFile"]
DEMO_CFGS = {
    "quick": [{"algorithm": "md5", "extra": True, "file": "default"}, {"algorithm": "sha256", "extra": False, "file": "my_docs.json"}],
    "thorough": [{"algorithm": a, "extra": e, "file": f} for a in ("md5", "sha256") for e in (False, True) for f in ("default", "my_docs.json")],
}
DEFAULT_FILE = "persisted_documents.json"


def pd_options(cfg: dict) -> dict:
    o = {"algorithm": cfg["algorithm"], "include_extra_info": bool(cfg["extra"])}
    if cfg["file"] != "default":
        o["file"] = cfg["file"]
    return o


def safe(tok: str) -> str:
    """Equality-preserving ASCII form of a token (TLC's JSON reader mangles non-ASCII)."""
    return tok if tok.isascii() else "u:" + tok.encode("utf-8").hex()


def tokens(text: str):
    t = pd.gql_tokens(text)
    return ["<untokenisable>", hashlib.sha1(text.encode()).hexdigest()] if t is None else [safe(x) for x in t]


def senders(obs: dict) -> list[dict]:
    """Every artifact whose default export carries networkRequestInfo.operation, with what it sends."""
    out = []
    js = obs.get("js", {})
    for path in sorted(js):
        m = js[path]
        if not m.get("parses") or not isinstance(m.get("default"), dict):
            continue
        nri = m["default"].get("networkRequestInfo")
        if not isinstance(nri, dict) or not isinstance(nri.get("operation"), dict):
            continue
        op = nri["operation"]
        rec = {"path": path, "kind": op.get("kind") if isinstance(op.get("kind"), str) else "?", "id": "", "tokens": []}
        if isinstance(op.get("operationId"), str):
            rec["id"] = op["operationId"]
        text = op.get("text")
        if isinstance(text, dict) and "$ref" in text:       # follow `import queryText from './query_text'`
            imp = next((i for i in m.get("imports", []) if i.get("default") == text["$ref"]), None)
            if imp is None:
                raise ToolError(f"{path}: operation text {text['$ref']} is not an imported default")
            target = posixpath.normpath(posixpath.join(posixpath.dirname(path), imp["from"]))
            tm = next((js[c] for c in (target, target + ".ts", target + ".js") if c in js), None)
            if tm is None or not isinstance(tm.get("default"), str):
                raise ToolError(f"{path}: cannot resolve the imported operation text {imp['from']}")
            rec["tokens"] = tokens(tm["default"])
        elif isinstance(text, str):
            rec["tokens"] = tokens(text)
        out.append(rec)
    return out


def persisted_file(obs: dict, cfg: dict) -> dict:
    name = DEFAULT_FILE if cfg["file"] == "default" else cfg["file"]
    raw = obs.get("artifacts", {}).get(name)
    if raw is None:
        return {"present": False, "name": name, "entries": []}
    try:
        pairs = json.loads(raw, object_pairs_hook=lambda ps: ps)
    except Exception:
        return {"present": False, "name": name, "entries": []}
    entries = []
    for k, v in (pairs if isinstance(pairs, list) else []):
        if not isinstance(v, str):
            entries.append({"id": k, "tokens": ["<not a string>"], "hash_ok": False})
            continue
        h = hashlib.new(cfg["algorithm"], v.encode("utf-8")).hexdigest()
        entries.append({"id": k, "tokens": tokens(v), "hash_ok": h == k})
    return {"present": True, "name": name, "entries": entries}


def make_record(ident, cfg, off: dict, on: dict) -> dict:
    rec = {"id": ident, "outcome_off": off["outcome"], "outcome_on": on["outcome"], "cfg": cfg, "off": [], "on": [],
           "file": {"present": False, "name": "", "entries": []}}
    if off["outcome"] == "ok" and on["outcome"] == "ok":
        rec["off"] = [{"path": s["path"], "kind": s["kind"], "tokens": s["tokens"]} for s in senders(off)]
        rec["on"] = [{"path": s["path"], "kind": s["kind"], "id": s["id"]} for s in senders(on)]
        rec["file"] = persisted_file(on, cfg)
    return rec


def with_cfg(project: dict, cfg: dict | None, ident) -> dict:
    p = json.loads(json.dumps(project))
    p["id"] = ident
    c = p.setdefault("config", {})
    o = c.setdefault("options", {})
    o.pop("persisted_documents", None)
    if cfg is not None:
        o["persisted_documents"] = pd_options(cfg)
    p["want"] = ["artifacts", "js"]
    return p


def observe_cases(chk, cases: list[dict]) -> list[dict]:
    """cases: [{"key": program key, "project": base project, "cfg": cfg}] -> records.  The non-persisted build is
    compiled once per program."""
    jobs, off_index = [], {}
    for c in cases:
        if c["key"] not in off_index:
            off_index[c["key"]] = len(jobs)
            jobs.append(with_cfg(c["project"], None, f"off:{c['key']}"))
    on_index = []
    for i, c in enumerate(cases):
        on_index.append(len(jobs))
        jobs.append(with_cfg(c["project"], c["cfg"], f"on:{i}"))
    obs = projlib.compile_all(chk, jobs, want=["artifacts", "js"])
    recs = []
    for i, c in enumerate(cases):
        recs.append(make_record(c.get("id", i), c["cfg"], obs[off_index[c["key"]]], obs[on_index[i]]))
        obs[on_index[i]] = {"outcome": obs[on_index[i]]["outcome"]}     # free memory
    return recs


def generate(chk, consts):
    cfg = chk.work / "GenC26.cfg"
    cfg.write_text(projlib.cfg_from_consts(consts, "INVARIANT Emit\n"))
    r = vlib.tlc(projlib.SP / "GenC26.tla", cfg, workers=4, timeout=900, seed=chk.seed, coverage=True, heap="6g")
    chk.add_tlc("gen-GenC26", r)
    if r.violated:
        raise ToolError(f"GenC26 reported {r.violated}:\n{r.out[-1500:]}")
    chk.require_coverage(r, ACTIONS)
    seen, out = set(), []
    for t, v in r.printed:
        if t == "PROGRAM":
            k = json.dumps(v, sort_keys=True)
            if k not in seen:
                seen.add(k)
                out.append(v)
    if len(out) != r.distinct:
        raise ToolError(f"GenC26: {r.distinct} states but {len(out)} PROGRAM lines")
    return out


def case_of(state: dict, schema) -> dict:
    decls = state["decls"]
    proj = pd.project(schema, decls, ["src/main.ts"] * len(decls))
    return {"key": state["program"], "project": proj, "cfg": state["cfg"], "decls": decls}


def minimise(chk, case: dict, why: str, schema):
    """Drop declarations one at a time while the same clause still fails (generated programs only)."""
    step = [0]

    def fails(decls):
        step[0] += 1
        c = {"key": f"min{step[0]}", "project": pd.project(schema, decls, ["src/main.ts"] * len(decls)), "cfg": case["cfg"],
             "id": 10_000_000 + step[0]}
        recs = observe_cases(chk, [c])
        bads = projlib.judge(chk, "ObsC26.tla", recs, tag=f"min{step[0]}")
        return next((b for b in bads if b["why"] == why), None)

    cur = list(case["decls"])
    changed = True
    while changed:
        changed = False
        for i in range(len(cur) - 1, -1, -1):
            cand = cur[:i] + cur[i + 1:]
            if cand and fails(cand):
                cur, changed = cand, True
                break
    return cur, fails(cur)


def run(chk: vlib.Check) -> None:
    schema = projlib.schema()
    states = generate(chk, TIERS[chk.tier])
    cases = [case_of(s, schema) for s in states]
    n_gen = len(cases)
    demos = pd.checked_in_projects()
    for did, proj in demos.items():
        for cfg in DEMO_CFGS[chk.tier]:
            cases.append({"key": did, "project": proj, "cfg": cfg, "decls": None})
    for i, c in enumerate(cases):
        c["id"] = i
    log(f"[C26] {n_gen} generated cases ({len({c['key'] for c in cases[:n_gen]})} programs) + {len(cases) - n_gen} checked-in cases")
    recs = []
    for part in vlib.chunks(cases, 150):
        recs += observe_cases(chk, part)
    bads = projlib.judge(chk, "ObsC26.tla", recs, chunk=150)
    judged = [r for r in recs if r["outcome_off"] == "ok" and r["outcome_on"] == "ok"]
    chk.cov["evaluations"] = sum(len(r["on"]) + len(r["file"]["entries"]) for r in judged)
    chk.cov["distinct_nontrivial"] = sum(1 for r in judged if len(r["file"]["entries"]) >= 2)
    chk.cov["rule"] = "accepted cases (two real compiles each) whose persisted documents file records at least two documents"
    chk.cov["exhaustive"] = True
    chk.cov["cases"] = len(recs)
    chk.cov["cases_judged"] = len(judged)
    chk.cov["checked_in_cases"] = len(cases) - n_gen
    chk.cov["max_documents_in_one_file"] = max((len(r["file"]["entries"]) for r in judged), default=0)
    chk.cov["cases_with_refetch_senders"] = sum(1 for r in judged if any("__refetch__" in s["path"] for s in r["on"]))
    chk.cov["constants"] = TIERS[chk.tier]
    for r in judged[:1] + [x for x in judged if len(x["on"]) >= 3][:1] + judged[n_gen:n_gen + 1]:
        chk.sample({"id": r["id"], "cfg": r["cfg"], "senders": [(s["path"], s["id"][:12]) for s in r["on"]][:6],
                    "file": r["file"]["name"], "documents": len(r["file"]["entries"])})
    for r in recs:
        if r["outcome_off"] != "ok" or r["outcome_on"] != "ok":
            chk.drift(f"case {r['id']} ({cases[r['id']]['key']}, {r['cfg']}): builds answered off={r['outcome_off']} on={r['outcome_on']}")
    if not judged:
        raise ToolError("no case was accepted by the compiler")
    chk.assumptions += [
        "hash_ok is recomputed by python hashlib (md5 / sha256 of the UTF-8 bytes of the recorded document)",
        "documents are compared as GraphQL token sequences (tokeniser in engines/proj_pd_common.py; commas, white space, "
        "comments are insignificant)",
        "what an artifact sends is read from the swc projection of its default export (networkRequestInfo.operation) and, "
        "for the non-persisted build, the default export of the module its `text` identifier is imported from",
    ]
    log(f"[C26] {len(bads)} cases violate the property")
    done = set()
    budget = 6 if chk.tier == "quick" else 20
    bads.sort(key=lambda b: (cases[b["id"]]["decls"] is None, len(cases[b["id"]]["decls"] or []), b["id"]))
    for b in bads:
        c = cases[b["id"]]
        if (b["why"],) in done:
            continue
        if budget == 0:
            chk.drift(f"unminimised C26 counterexample: {b}")
            continue
        budget -= 1
        if c["decls"] is None:
            sig = f"C26:{b['why']}:checked-in"
            chk.violation(sig, f"checked-in project {c['key']} with {c['cfg']}: {b['why']} at {b['at']}",
                          {"engine": "proj_c26", "demo": c["key"], "cfg": c["cfg"], "bad": b})
            done.add((b["why"],))
            continue
        decls, still = minimise(chk, c, b["why"], schema)
        if not still:
            raise ToolError(f"C26 counterexample did not reproduce: {b}")
        heads = sorted(f"{d['k']} {d['on']}.{d['name']}" for d in decls)
        sig = f"C26:{b['why']}:" + "|".join(heads)
        done.add((b["why"],))
        chk.violation(sig, f"{b['why']} at {still['at']} with persisted_documents {pd_options(c['cfg'])}",
                      {"engine": "proj_c26", "decls": decls, "cfg": c["cfg"], "bad": still,
                       "files": pd.project(schema, decls, ["src/main.ts"] * len(decls))["files"]})


def replay(prop: str, path: Path, seed: int) -> int:
    rp = json.loads(Path(path).read_text())
    chk = vlib.Check(prop, "quick", seed)
    try:
        if rp.get("demo"):
            proj = pd.checked_in_projects()[rp["demo"]]
        else:
            proj = pd.project(projlib.schema(), rp["decls"], ["src/main.ts"] * len(rp["decls"]))
        recs = observe_cases(chk, [{"key": "replay", "project": proj, "cfg": rp["cfg"], "id": 0}])
        bads = projlib.judge(chk, "ObsC26.tla", recs, tag="replay")
        if bads:
            print(f"replay: still violates {prop}: {bads[0]}")
            return 1
        print(f"replay: {prop} holds on this input now")
        return 0
    finally:
        shutil.rmtree(chk.work, ignore_errors=True)
