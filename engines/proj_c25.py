"""C25 — refetch references resolve to the refetch query for that field.

  TLC enumerates programs (spec/project/GenC25.tla: one client field with refetchable selections reused
  under several parents / entrypoints / depths / arguments)  ->  the real compiler (h_compile)  ->
  one record per entrypoint artifact (self-contained `bundle`: reader ASTs with nested readers inlined,
  normalization AST, refetch query artifacts + their parsed operations)  ->  TLC evaluates the layer-A
  predicate of spec/project/ObsC25.tla / Refetch.tla on every record.  Plus the checked-in demos.
"""
from __future__ import annotations

import json
from pathlib import Path

import vlib
from vlib import ToolError, log
from engines import isorender, projlib
from engines import proj_pc_common as pc

LEVEL = {"C25": "model_checking"}
PROP = "C25"

# read.ts functions whose index composition Refetch.tla's Walk transcribes
PINNED_FNS = ["readData", "readResolverFieldData", "readImperativelyLoadedField", "readClientPointerData",
              "readLinkedFieldData", "readLoadablySelectedFieldData"]
PIN_FILE = projlib.SP / "runtime_pin.json"

SCOPES = {
    "quick": [
        ("card", dict(MaxCard=2, MaxUses=1, InnerChoice={3}, CardChoice={1, 2, 3, 4, 5, 6, 7, 8, 9, 10}, HomeChoice={3})),
        ("uses", dict(MaxCard=2, MaxUses=2, InnerChoice={4}, CardChoice={3, 6, 9}, HomeChoice={2, 4, 5, 6, 7})),
    ],
    "thorough": [
        ("card", dict(MaxCard=3, MaxUses=1, InnerChoice={2, 3}, CardChoice={1, 2, 3, 4, 5, 6, 7, 8, 9, 10}, HomeChoice={1, 3, 6})),
        ("uses", dict(MaxCard=2, MaxUses=2, InnerChoice={1, 4}, CardChoice={1, 2, 3, 6, 9}, HomeChoice={1, 2, 3, 4, 5, 6, 7})),
    ],
}


def check_pin(chk, fns=PINNED_FNS, key="read.ts"):
    """drift (never a violation): the runtime functions the TLA+ transcription follows changed"""
    src = (vlib.REPO / "libs/isograph-react/src/core" / key).read_text()
    bodies = pc.function_bodies(src, fns)
    now = {n: pc.digest(bodies.get(n, "")) for n in fns}
    pins = json.loads(PIN_FILE.read_text()) if PIN_FILE.exists() else {}
    pinned = pins.get(key, {})
    changed = [n for n in fns if pinned.get(n) != now[n]]
    chk.cov.setdefault("runtime_pin", {})[key] = now
    if changed:
        chk.drift(f"{key}: function bodies differ from the pinned transcription: {changed}")
    return now


def records_of(obs: dict, prog: dict | None, expose: dict, pid, declared: set | None = None) -> list[dict]:
    R = pc.Resolver(obs)
    B = R.bundles()
    out = []
    for b in B.values():
        for q in [b] + b["nested"]:
            q["op"] = {k: v for k, v in q["op"].items() if k != "selections"}     # the predicate reads name/kind/vars only
    for k, b in B.items():
        r = {"id": pid, "key": k, "bundles": {k: b, **{x: B[x] for x in b["loadables"] if x in B}}, "expose": expose}
        if prog is not None:
            r["prog"] = prog
        out.append(r)
    return out


def classify(problems: list[str]) -> str:
    """defect class of one refetchable selection (canonical, independent of names and positions)"""
    ps = set(problems)
    if any("does not exist" in p for p in ps):
        return "no-such-query"                      # index out of range: the runtime throws
    if "(a) operation is not named for the field" in ps:
        return "query-of-another-field"             # cross-wired: a refetch query generated for another field
    only_c = {p for p in ps if p.startswith("(c)")}
    if only_c and only_c == ps:
        return "query-of-another-position"          # right field, wrong sub-tree
    return "+".join(sorted(ps))


def signature(b: dict) -> list[tuple[str, str]]:
    """canonical signatures (one per defect class) of a BAD object + a human text"""
    sigs = []
    for f in b.get("bad", []):
        ctx = "cond" if "$cond" in f["path"] else "plain"
        # inside a client pointer's own reader every mis-resolution has one cause (read.ts hands the parent's list to the
        # condition reader): one signature
        cls = "wrong-query" if ctx == "cond" else classify(f["problems"])
        sigs.append((f"C25|{f['kind']}|{ctx}|{cls}",
                     f"{f['kind']} field `{f['name']}` on {f['on']} at {'.'.join(f['path'])} -> __refetch__{f['sel']}: "
                     + "; ".join(sorted(f["problems"]))))
    for f in b.get("missing", []):
        sigs.append((f"C25|{f['kind']}|missing", f"{f['kind']} selection `{f['name']}` at {'.'.join(f['path'])} of the program is not reachable in the reader artifacts"))
    for f in b.get("extra", []):
        sigs.append((f"C25|{f['kind']}|extra", f"reader artifacts contain a {f['kind']} selection `{f['name']}` at {'.'.join(f['path'])} that the program does not have"))
    return sigs


def compile_and_judge(chk, progs: list[dict], tag: str, count=True):
    """-> (obs list, printed tuples); records carry id = index in progs"""
    S = projlib.schema()
    expose = pc.expose_table(S.get("extension", ""), set(S["types"]))
    projects = [isorender.project(S, p, ident=i) for i, p in enumerate(progs)]
    obs = projlib.compile_all(chk, projects, want=["artifacts", "js", "ops"])
    recs = []
    for i, o in enumerate(obs):
        if o.get("outcome") == "ok":
            recs += records_of(o, progs[i], expose, i)
    printed = pc.judge_all(chk, "ObsC25.tla", recs, tag=tag, count=count, coverage_probe=count) if recs else []
    return obs, recs, printed


def bad_signatures(printed) -> dict:
    """id -> set of signatures"""
    out: dict = {}
    for t, v in printed:
        if t == "BAD":
            for s, _ in signature(v):
                out.setdefault(v["id"], set()).add(s)
    return out


def minimise_for(chk, prog: dict, sig: str, deadline=None) -> dict:
    n = [0]

    def still_bad(cands):
        n[0] += 1
        _, _, printed = compile_and_judge(chk, cands, f"min{n[0]}", count=False)
        sigs = bad_signatures(printed)
        return [sig in sigs.get(i, set()) for i in range(len(cands))]
    return pc.minimise(prog, still_bad, deadline=deadline)


def run(chk: vlib.Check) -> None:
    check_pin(chk)
    S = projlib.schema()
    progs, seen = [], set()
    for name, consts in SCOPES[chk.tier]:
        for p in projlib.generate(chk, "GenC25.tla", consts, name=name, timeout=900):
            k = json.dumps(p, sort_keys=True)
            if k not in seen:
                seen.add(k)
                progs.append(p)
    log(f"[C25] {len(progs)} programs")
    obs, recs, printed = compile_and_judge(chk, progs, "gen")
    outcomes: dict = {}
    for o in obs:
        outcomes[o["outcome"]] = outcomes.get(o["outcome"], 0) + 1
    chk.cov["programs"] = len(progs)
    chk.cov["outcomes"] = outcomes
    if outcomes.get("ok", 0) == 0:
        raise ToolError(f"no generated program was accepted by the compiler: {outcomes}; first: "
                        f"{[o.get('diagnostics') or o.get('panic_msg') for o in obs[:2]]}")
    rejected = [(i, o) for i, o in enumerate(obs) if o["outcome"] != "ok"]
    if rejected:
        chk.cov["rejected_sample"] = [str((o.get("diagnostics") or [o.get("panic_msg", o["outcome"])])[0])[:300] for _, o in rejected[:3]]

    # ---- demos ---------------------------------------------------------------------------------
    demo_recs = []
    demo_projects = [p for p in (pc.demo_project(d) for d in pc.DEMOS) if p is not None]
    dobs = projlib.compile_all(chk, demo_projects, want=["artifacts", "js", "ops"]) if demo_projects else []
    demo_out = {}
    for p, o in zip(demo_projects, dobs):
        demo_out[p["id"]] = o["outcome"]
        if o["outcome"] == "ok":
            types = pc.sdl_type_names(p["schema"])
            expose = pc.expose_table("\n".join(p.get("extensions", [])), types)
            demo_recs += records_of(o, None, expose, p["id"])
    chk.cov["demos"] = demo_out
    dprinted = pc.judge_all(chk, "ObsC25.tla", demo_recs, tag="demo", chunk=40, coverage_probe=False) if demo_recs else []

    # ---- verdicts ------------------------------------------------------------------------------
    stats = [v for t, v in printed + dprinted if t == "STAT"]
    kinds = set()
    for s in stats:
        kinds |= set(s["kinds"])
    chk.cov["evaluations"] = len(stats)
    chk.cov["refetchable_selections_followed"] = sum(s["n"] for s in stats)
    chk.cov["distinct_nontrivial"] = sum(1 for s in stats if s["n"] >= 1)
    chk.cov["rule"] = "entrypoint records in which the runtime walk reaches at least one refetchable selection"
    chk.cov["kinds_followed"] = sorted(kinds)
    chk.cov["exhaustive"] = True
    for need in ("imperative", "pointer", "loadable"):
        if need not in kinds:
            raise ToolError(f"vacuous: no {need} selection was reached in any record")
    chk.assumptions += [
        "trusted base: engines/isorender.py (program -> text), h_compile projections (swc object literals, strict GraphQL op parser), "
        "engines/proj_pc_common.py ($ref resolution between artifacts, null-dropping, @exposeField table parse)",
        "the runtime's index composition is transcribed from read.ts (digest pinned in spec/project/runtime_pin.json; a change is reported as drift)",
        "(c) compares sets of field paths with variable-substituted arguments modulo id/__typename scalars",
        "demos: judged from artifacts only (no abstract program): Expected-set comparison and pointer target / argument type checks are skipped",
    ]
    by_id = {}
    for t, v in printed:
        if t == "BAD":
            by_id.setdefault(v["id"], []).append(v)
    grouped: dict = {}
    for i, bl in by_id.items():
        for b in bl:
            for s, what in signature(b):
                grouped.setdefault(s, []).append((i, what, b))
    import time
    budget = time.time() + (240 if chk.tier == "quick" else 600)      # minimisation of NEW findings only
    for s, hits in sorted(grouped.items()):
        i, what, b = min(hits, key=lambda h: pc.prog_size(progs[h[0]]))
        prog = progs[i]
        if vlib.finding_for(PROP, s) is None:
            try:
                small = minimise_for(chk, prog, s, deadline=budget)
                if small is not prog:
                    _, _, pr = compile_and_judge(chk, [small], "minfinal", count=False)
                    bs = [v for t, v in pr if t == "BAD" and any(x == s for x, _ in signature(v))]
                    if bs:
                        prog, b = small, bs[0]
            except ToolError as e:
                log(f"[C25] minimisation failed: {e}")
        S_ = projlib.schema()
        chk.violation(s, f"{what} ({len(hits)} records)",
                      {"engine": "proj_c25", "schema": "schema1", "program": prog, "source": isorender.render_program(prog),
                       "bad": b, "records_with_signature": len(hits)})
    for t, v in dprinted:
        if t == "BAD":
            for s, what in signature(v):
                chk.violation(s + "|demo", f"{v['id']} {v['key']}: {what}",
                              {"engine": "proj_c25", "demo": v["id"], "key": v["key"], "bad": v})
    for s in stats[:2]:
        chk.sample({"record": s})
    if progs:
        chk.sample({"program": progs[0]})


def replay(prop: str, path: Path, seed: int) -> int:
    rp = json.loads(Path(path).read_text())
    chk = vlib.Check(prop, "replay", seed)
    try:
        if "program" in rp:
            _, _, printed = compile_and_judge(chk, [rp["program"]], "replay", count=False)
            sigs = bad_signatures(printed).get(0, set())
        else:
            p = pc.demo_project(rp["demo"].split(":", 1)[1])
            o = projlib.compile_all(chk, [p], want=["artifacts", "js", "ops"])[0]
            expose = pc.expose_table("\n".join(p.get("extensions", [])), pc.sdl_type_names(p["schema"]))
            recs = records_of(o, None, expose, p["id"]) if o["outcome"] == "ok" else []
            printed = pc.judge_all(chk, "ObsC25.tla", recs, tag="replay", count=False, coverage_probe=False) if recs else []
            sigs = {s + "|demo" for t, v in printed if t == "BAD" for s, _ in signature(v)}
        hit = rp.get("signature") in sigs
        print(f"replay {path}: signature {'reproduced' if hit else 'not reproduced'}; now: {sorted(sigs)}")
        return 1 if hit else 0
    finally:
        import shutil
        shutil.rmtree(chk.work, ignore_errors=True)
