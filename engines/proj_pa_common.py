"""Shared pieces of the program-space engines proj_c16 / proj_c08 / proj_c13 (builder "pa").

Python here only shuttles data: TLC generates (spec/project/Gen*.tla), the real compiler runs
(harness/h_compile through projlib.compile_all), TLC judges (spec/project/Obs*.tla)."""
from __future__ import annotations

import json
from pathlib import Path

import vlib
from vlib import ToolError, log
from engines import isorender, projlib

SP = projlib.SP


def type_str(t) -> str:
    if not isinstance(t, dict) or "k" not in t:
        return str(t)
    if t["k"] == "named":
        return t["n"]
    if t["k"] == "list":
        return "[" + type_str(t["of"]) + "]"
    if t["k"] == "nonnull":
        return type_str(t["of"]) + "!"
    return "?"


def shape_str(shape: dict) -> str:
    parts = []
    for k in sorted(shape):
        v = shape[k]
        if isinstance(v, dict):
            v = type_str(v)
        elif isinstance(v, bool):
            v = "yes" if v else "no"
        parts.append(f"{k}={v}")
    return ",".join(parts)


def generate(chk, module: str, consts: dict, *, name="gen", invariants=("Emit",), actions=(), timeout=900, workers=4,
             simulate=None, depth=None, tag="PROGRAM", coverage=True, dedup=True, spec="Spec"):
    """Run a generator spec (its states are programs) and return the printed items in order.
    `actions`: names that must have been taken at least once (non-vacuity)."""
    extra = "".join(f"INVARIANT {i}\n" for i in invariants)
    cfg = chk.work / f"{Path(module).stem}-{name}.cfg"
    cfg.write_text(projlib.cfg_from_consts(consts, extra).replace("SPECIFICATION Spec", f"SPECIFICATION {spec}", 1))
    r = vlib.tlc(SP / module, cfg, workers=workers, timeout=timeout, seed=chk.seed, simulate=simulate, depth=depth,
                 heap="6g", coverage=coverage and not simulate)
    chk.add_tlc(f"gen-{Path(module).stem}-{name}", r)
    if r.violated:
        raise ToolError(f"generator {module} ({name}) reported {r.violated}:\n{r.out[-2500:]}")
    if actions and not simulate:
        chk.require_coverage(r, list(actions))
    seen, out = set(), []
    for t, v in r.printed:
        if t != tag:
            continue
        if dedup:
            key = json.dumps(v, sort_keys=True)
            if key in seen:
                continue
            seen.add(key)
        out.append(v)
    if not out:
        raise ToolError(f"generator {module} ({name}) produced nothing:\n{r.out[-1500:]}")
    return out, r


def source_text(project: dict) -> str:
    return "\n".join(f"// {f['path']}\n{f['content']}" for f in project.get("files", []))


def first_diag(o: dict) -> str:
    d = o.get("diagnostics") or []
    if d:
        return d[0].splitlines()[0][:200]
    return (o.get("panic_msg") or o.get("stderr") or "")[-200:]


def slim(o: dict) -> dict:
    """the part of an h_compile observation the C08/C16 predicates look at (ASCII only)."""
    r = {"outcome": o["outcome"], "ndiag": len(o.get("diagnostics") or [])}
    return r


def iso_literals(program: dict) -> str:
    return "\n".join(isorender.literal(d).strip("\n") for d in program["decls"])


def judge(chk, module: str, records: list[dict], *, consts: dict | None = None, tag="judge", chunk=250, timeout=900, procs=3,
          trace_const=True):
    """Write records as ndjson chunks, run the predicate spec over each chunk (TLC processes in parallel),
    return the printed BAD objects.  With trace_const the predicate spec declares CONSTANT TraceFile (so that TLC
    reads the file once; needed for big records), otherwise it reads IOEnv.TRACE and must consume every record (POSTCONDITION AllConsumed)."""
    from concurrent.futures import ThreadPoolExecutor
    parts = list(vlib.chunks(records, chunk))

    def one(n_part):
        n, part = n_part
        path = chk.work / f"{tag}-{n}.ndjson"
        vlib.write_ndjson(path, part)
        cfg = chk.work / f"{Path(module).stem}-{tag}-{n}.cfg"
        c = dict(consts or {})
        if trace_const:
            c["TraceFile"] = str(path)
        cfg.write_text(projlib.cfg_from_consts(c, "POSTCONDITION AllConsumed\n"))
        r = vlib.tlc(SP / module, cfg, workers=1, timeout=timeout, dfs=True, heap="3g", env={"TRACE": str(path)},
                     metadir=vlib.WORK / f"tlc-{chk.work.name}-{tag}-{n}")
        return n, path, r, len(part)

    bads = []
    with ThreadPoolExecutor(max_workers=procs) as ex:
        results = list(ex.map(one, enumerate(parts)))
    for n, path, r, k in results:
        chk.add_tlc(f"{tag}-{n}", r, count_states=False)
        if r.violated:
            raise ToolError(f"{module} did not consume all records of {path}:\n{r.out[-2000:]}")
        for t, v in r.printed:
            if t == "BAD":
                bads.append(v)
        chk.cov["traces_validated_against_impl"] += k
        chk.cov["evaluations"] += k
    return bads


def _run_shard(binp, base: Path, projects: list[dict], timeout: int, per_project_timeout: int = 300) -> dict:
    """One child-process chain of h_compile, fed ONE project at a time (so that a crash costs a process start, not a
    re-send of the remaining input).  A process death (abort, stack overflow) is attributed to the project that was
    running (outcome "abort"); a compile that does not finish within per_project_timeout is killed (outcome "timeout")."""
    import queue
    import subprocess
    import threading
    base.mkdir(parents=True, exist_ok=True)
    errpath = base / "stderr.txt"
    results: dict = {}

    def start():
        errf = open(errpath, "w")
        proc = subprocess.Popen([str(binp), str(base)], stdin=subprocess.PIPE, stdout=subprocess.PIPE, stderr=errf, text=True,
                                encoding="utf-8", bufsize=1)
        q: queue.Queue = queue.Queue()

        def pump():
            for line in proc.stdout:             # iteration splits at "\n" only
                q.put(line)
            q.put(None)
        threading.Thread(target=pump, daemon=True).start()
        return proc, q, errf

    def stop(proc, errf):
        try:
            proc.stdin.close()
        except Exception:
            pass
        try:
            proc.wait(timeout=10)
        except Exception:
            proc.kill()
        errf.close()

    proc, q, errf = start()
    try:
        for pr in projects:
            key = json.dumps(pr.get("id"))
            dead = False
            try:
                proc.stdin.write(json.dumps(pr) + "\n")
                proc.stdin.flush()
            except (BrokenPipeError, OSError):
                dead = True
            obs = None
            while not dead:
                try:
                    line = q.get(timeout=per_project_timeout)
                except queue.Empty:
                    proc.kill()
                    obs = {"id": pr.get("id"), "outcome": "timeout"}
                    break
                if line is None:
                    dead = True
                    break
                if not line.strip():
                    continue
                o = json.loads(line)
                if "begin" in o and len(o) == 1:
                    continue
                obs = o
                break
            if obs is None:                      # the process died while this project was being compiled
                proc.wait()
                errf.close()
                tail = errpath.read_text(errors="replace")[-400:].encode("ascii", "replace").decode()
                obs = {"id": pr.get("id"), "outcome": "abort", "rc": proc.returncode, "stderr": tail}
            results[key] = obs
            if obs["outcome"] in ("abort", "timeout"):
                stop(proc, errf)
                proc, q, errf = start()
    finally:
        stop(proc, errf)
    return results


def compile_parallel(chk, projects: list[dict], *, want=None, shards=4, timeout=2400) -> list[dict]:
    """Run the real compiler on every project (each needs a unique "id"), in `shards` child-process chains."""
    from concurrent.futures import ThreadPoolExecutor
    binp = vlib.cargo_build("h_compile") / "h_compile"
    if want is not None:
        for p in projects:
            p.setdefault("want", want)
    parts = [projects[i::shards] for i in range(shards)]
    results: dict = {}
    with ThreadPoolExecutor(max_workers=shards) as ex:
        for r in ex.map(lambda a: _run_shard(binp, chk.work / f"hc{a[0]}", a[1], timeout), enumerate(parts)):
            results.update(r)
    out = []
    for q in projects:
        k = json.dumps(q.get("id"))
        if k not in results:
            raise ToolError(f"no observation for project {k}")
        out.append(results[k])
    return out


# ---- the checked-in demo projects as h_compile projects -------------------------------------------------------
DEMOS = ["pet-demo", "github-demo", "vite-demo", "disposable-state-ajax-demo"]


def load_demo(name: str) -> dict | None:
    """Read demos/<name> of the repository under test (vlib.REPO) into h_compile's project format."""
    root = vlib.REPO / "demos" / name
    cfgp = root / "isograph.config.json"
    if not cfgp.exists():
        return None
    cfg = json.loads(cfgp.read_text())
    pr = cfg.get("project_root", "./src")
    proj = {"schema": (root / cfg["schema"]).read_text(), "extensions": [(root / e).read_text() for e in cfg.get("schema_extensions", [])],
            "files": [], "config": {"project_root": pr}}
    opts = {k: v for k, v in (cfg.get("options") or {}).items() if k != "open_telemetry"}
    if opts:
        proj["config"]["options"] = opts
    base = (root / pr).resolve()
    for f in sorted(base.rglob("*")):
        if f.is_file() and f.suffix in (".ts", ".tsx", ".js", ".jsx") and "__isograph" not in f.parts and "node_modules" not in f.parts:
            try:
                text = f.read_text()
            except UnicodeDecodeError:
                continue
            if "iso(" not in text:
                continue
            proj["files"].append({"path": str(Path(pr) / f.relative_to(base)), "content": text})
    return proj
