"""Shared pieces of the program-space engines proj_c16 / proj_c08 / proj_c13 (builder "pa").

Python here only shuttles data: TLC generates (spec/project/Gen*.tla), the real compiler runs
(harness/h_compile through projlib.compile_all), TLC judges (spec/project/Obs*.tla)."""
from __future__ import annotations

import json
from pathlib import Path

import vlib
from vlib import ToolError, log
from engines import isorender, projlib

SP = projlib.SP


def type_str(t) -> str:
    if not isinstance(t, dict) or "k" not in t:
        return str(t)
    if t["k"] == "named":
        return t["n"]
    if t["k"] == "list":
        return "[" + type_str(t["of"]) + "]"
    if t["k"] == "nonnull":
        return type_str(t["of"]) + "!"
    return "?"


def shape_str(shape: dict) -> str:
    parts = []
    for k in sorted(shape):
        v = shape[k]
        if isinstance(v, dict):
            v = type_str(v)
        elif isinstance(v, bool):
            v = "yes" if v else "no"
        parts.append(f"{k}={v}")
    return ",".join(parts)


def generate(chk, module: str, consts: dict, *, name="gen", invariants=("Emit",), actions=(), timeout=900, workers=4,
             simulate=None, depth=None, tag="PROGRAM", coverage=True, dedup=True):
    """Run a generator spec (its states are programs) and return the printed items in order.
    `actions`: names that must have been taken at least once (non-vacuity)."""
    extra = "".join(f"INVARIANT {i}\n" for i in invariants)
    cfg = chk.work / f"{Path(module).stem}-{name}.cfg"
    cfg.write_text(projlib.cfg_from_consts(consts, extra))
    r = vlib.tlc(SP / module, cfg, workers=workers, timeout=timeout, seed=chk.seed, simulate=simulate, depth=depth,
                 heap="6g", coverage=coverage and not simulate)
    chk.add_tlc(f"gen-{Path(module).stem}-{name}", r)
    if r.violated:
        raise ToolError(f"generator {module} ({name}) reported {r.violated}:\n{r.out[-2500:]}")
    if actions and not simulate:
        chk.require_coverage(r, list(actions))
    seen, out = set(), []
    for t, v in r.printed:
        if t != tag:
            continue
        if dedup:
            key = json.dumps(v, sort_keys=True)
            if key in seen:
                continue
            seen.add(key)
        out.append(v)
    if not out:
        raise ToolError(f"generator {module} ({name}) produced nothing:\n{r.out[-1500:]}")
    return out, r


def source_text(project: dict) -> str:
    return "\n".join(f"// {f['path']}\n{f['content']}" for f in project.get("files", []))


def first_diag(o: dict) -> str:
    d = o.get("diagnostics") or []
    if d:
        return d[0].splitlines()[0][:200]
    return (o.get("panic_msg") or o.get("stderr") or "")[-200:]


def slim(o: dict) -> dict:
    """the part of an h_compile observation the C08/C16 predicates look at (ASCII only)."""
    r = {"outcome": o["outcome"], "ndiag": len(o.get("diagnostics") or [])}
    return r


def iso_literals(program: dict) -> str:
    return "\n".join(isorender.literal(d).strip("\n") for d in program["decls"])
