"""Engine `swc`: C28 — the SWC transform resolves each iso literal to the artifact the compiler wrote.

  TLC (SwcGen: headers of IsoGrammar under profile "hdr" x layout schemes; universe of placements / module
  kinds / call shapes from SwcPath)  --REPLAY/UNIVERSE-->  render  -->  harness h_swc (real visitor + real
  iso-literal parser, in-process)  --ndjson-->  TLC (SwcTrace: layer-A predicates)  --FAIL lines--> verdict.
"""
from __future__ import annotations

import json
import random
import re
import shutil
from pathlib import Path

import vlib
from engines import isogrammar as iso

LEVEL = {"C28": "model_checking"}
SPEC = vlib.SPEC / "isogrammar"


def gen_headers(chk: vlib.Check):
    d = iso.spec_copy(chk)
    max_tok = 12 if chk.tier == "quick" else 13
    (d / "RunSwc.tla").write_text(
        "---- MODULE RunSwc ----\nEXTENDS SwcGen\n"
        f"RunMaxTok == [hdr |-> {max_tok}]\n====\n")
    cfg = d / "RunSwc.cfg"
    cfg.write_text(iso.BASE_CONST + """  Profiles = {"hdr"}
  MaxTok <- RunMaxTok
  SentSchemes <- HdrSentSchemes
  MutMax = 0
  MutSchemes = {"plain"}
INIT Init
NEXT Next
INVARIANTS SentencesAccepted EmitSent EmitUniverse
""")
    # no -coverage (see engines/isogrammar.py run_generators): action counts are measured from the output
    r = vlib.tlc(d / "RunSwc.tla", cfg, workers=4, timeout=900, heap="6g", seed=chk.seed, metadir=chk.work / "meta-swcgen")
    if r.violated:
        raise vlib.ToolError(f"SwcGen: {r.violated}\n{r.out[-2000:]}")
    headers = [o for t, o in r.printed if t == "REPLAY" and isinstance(o, dict) and o["fam"] == "sent"]
    uni = [o for t, o in r.printed if t == "UNIVERSE" and isinstance(o, dict)]
    if not headers or not uni:
        raise vlib.ToolError("SwcGen emitted no headers / no universe")
    r.coverage = {"Expand": (r.distinct, r.generated), "Finish": (len(headers),) * 2}
    chk.add_tlc("swcgen", r)
    chk.require_coverage(r, ["Expand", "Finish"])
    return headers, uni[0]


# extra literal texts that the grammar generator cannot spell (python-made, impl -> spec direction only)
EXTRA_LITERALS = [
    "\n  entrypoint Query.HomeRoute\n",
    "entrypoint Query.HomeRoute @lazyLoad",
    "field Query . foo \"see entrypoint Other.thing\" {}",
    "field Query.foo \"\"\"\n  pointer A.b\n\"\"\" {\n}",
    "entrypoint Query.field",
    "entrypoint entrypoint.entrypoint",
    "pointer pointer.pointer to pointer {}",
    "field fieldX.fieldY { }",
    "field Query.foo($id: ID!) @component {\n  id\n}",
    "field Query.foo(\n  $id: ID!\n) {\n  node(id: $id) {\n    id\n  }\n}",
    "entrypoint\tQuery.Foo",
    "entrypoint\nQuery\n.\nFoo",
    "entrypoint Query.Foo\n@lazyLoad",
]


def run(chk: vlib.Check) -> None:
    bindir = vlib.cargo_build("h_swc", timeout=6000)
    binpath = bindir / "h_swc"
    for m in ["SwcPath.tla", "SwcGen.tla", "SwcTrace.tla"]:
        vlib.sany(SPEC / m)
    headers, uni = gen_headers(chk)
    rng = random.Random(chk.seed)
    paths, modules, shapes = uni["paths"], sorted(uni["modules"]), sorted(uni["shapes"])
    literals = []
    seen = set()
    for i, h in enumerate(headers):
        text = iso.render(h["toks"], rng)
        if "`" in text or "${" in text or "\\" in text or text in seen:
            continue
        seen.add(text)
        literals.append({"hid": f"h{i}", "sch": h["sch"], "text": text, "kinds": [t["k"] for t in h["toks"]]})
    for i, t in enumerate(EXTRA_LITERALS):
        literals.append({"hid": f"x{i}", "sch": "extra", "text": t, "kinds": []})
    per = len(paths) if chk.tier == "thorough" else 3
    cases = []
    for li, lit in enumerate(literals):
        for j in range(per):
            pc = paths[(li + j * 4) % len(paths)] if per < len(paths) else paths[j]
            for m in modules:
                for sh in shapes:
                    cases.append({"id": f"{lit['hid']}-p{paths.index(pc)}-{m}-{sh}", "literal": lit["text"],
                                  "file_dir": pc["file"], "project_root": pc["proj"],
                                  "artifact_dir": None if pc["art"] == "none" else pc["art"],
                                  "module": m, "shape": sh, "sch": lit["sch"]})
    inp = "".join(json.dumps({k: c[k] for k in ("id", "literal", "file_dir", "project_root", "artifact_dir", "module", "shape")}) + "\n"
                  for c in cases)
    p = vlib.run_bin(binpath, [], input=inp, timeout=900)
    outs = [json.loads(ln) for ln in p.stdout.splitlines() if ln.strip()]
    if len(outs) != len(cases):
        raise vlib.ToolError(f"h_swc answered {len(outs)} of {len(cases)} cases")
    recs = []
    for c, o in zip(cases, outs):
        obs = o["obs"]
        if obs.get("t") != "ok":
            obs = {"t": obs.get("t", "?"), "errors": 0, "in": [], "out": [], "iso_item": 0, "added": 0, "imports": [],
                   "replaced": {"t": "none"}}
        recs.append({"id": c["id"], "parser": o["parser"], "file_dir": c["file_dir"],
                     "art_root": c["artifact_dir"] if c["artifact_dir"] is not None else c["project_root"],
                     "module": c["module"], "shape": c["shape"], "obs": obs})
    by_id = {c["id"]: c for c in cases}
    rec_by_id = {r["id"]: r for r in recs}
    fails, drifts = iso.judge(chk, "SwcTrace.tla", SPEC / "SwcTrace.cfg", recs, "c28")

    accepted = [r for r in recs if r["parser"]["outcome"] == "decl"]
    chk.cov["traces_validated_against_impl"] = len(recs)
    chk.cov["exhaustive"] = chk.tier == "thorough"
    chk.cov["literals"] = len(literals)
    chk.cov["accepted_by_compiler"] = len(accepted)
    chk.cov["by_kind"] = {k: sum(1 for r in accepted if r["parser"]["kind"] == k) for k in ("entrypoint", "field", "pointer")}
    chk.cov["replaced_histogram"] = {}
    for r in accepted:
        t = r["obs"]["replaced"]["t"]
        chk.cov["replaced_histogram"][t] = chk.cov["replaced_histogram"].get(t, 0) + 1
    chk.cov["distinct_nontrivial"] = sum(1 for r in accepted if r["parser"]["kind"] == "entrypoint" and r["obs"]["replaced"]["t"] in ("ident", "require"))
    chk.cov["rule"] = "accepted entrypoint literals that the visitor turned into an import/require (import-path clause non-vacuous)"
    if chk.cov["distinct_nontrivial"] == 0 or not all(chk.cov["by_kind"].values()):
        raise vlib.ToolError(f"vacuous: {chk.cov['by_kind']} {chk.cov['replaced_histogram']}")
    for r in accepted[:2] + accepted[len(accepted) // 2: len(accepted) // 2 + 1]:
        c = by_id[r["id"]]
        chk.sample({"id": r["id"], "literal": c["literal"][:120], "file_dir": c["file_dir"], "art_root": r["art_root"],
                    "module": c["module"], "shape": c["shape"], "parser": r["parser"],
                    "replaced": r["obs"]["replaced"], "imports": r["obs"]["imports"]})
    dc = {}
    for d in drifts:
        for w in d["what"]:
            dc.setdefault(w, []).append(d["id"])
    for w, ids in sorted(dc.items()):
        chk.drift({"what": w, "count": len(ids), "example": by_id[ids[0]]["literal"][:100]})
    chk.assumptions += [
        "the module template of h_swc (one iso literal in `export const T = iso(`...`)(fn)`) and its projection are trusted",
        "the real iso-literal parser's verdict on the same text is the reference for 'the compiler accepts' and for the kind",
        "artifact location = (artifact_directory | project_root)/__isograph/Type/field/entrypoint.ts (isograph_config, artifact_content)",
        "literals containing a backtick, `${` or a backslash are not generated (template-literal raw text = literal text)",
    ]

    # ---- violations: one signature per cause
    groups = {}
    for f in fails:
        c, r = by_id[f["id"]], rec_by_id[f["id"]]
        sig = c28_signature(f, r, c["literal"])
        # prefer an example that shows this cause only (the customary spelling unless the cause is the spelling)
        plain = 0 if (c["sch"] in ("canon", "extra") or "not-transformed" in sig or "swallows" in sig) else 1
        groups.setdefault(sig, []).append(((plain, len(c["literal"]) + len(c["file_dir"])), f, c, r))
    for sig, items in sorted(groups.items()):
        items.sort(key=lambda x: x[0])
        _, f, c, r = items[0]
        chk.violation(sig, f"SWC transform on accepted literal {c['literal']!r} ({r['parser']['kind']} {r['parser']['ptype']}.{r['parser']['fname']}, "
                           f"file dir {'/'.join(c['file_dir']) or '.'}, artifact root {'/'.join(r['art_root']) or '.'}, {c['module']}): "
                           f"clauses {sorted(f['clauses'])}, replaced by {r['obs']['replaced']}, imports {r['obs']['imports']}; {len(items)} case(s)",
                      {"engine": "swc", "case": {k: c[k] for k in ("id", "literal", "file_dir", "project_root", "artifact_dir", "module", "shape")},
                       "clauses": sorted(f["clauses"]), "observed": r["obs"], "parser": r["parser"]})


def c28_signature(f: dict, r: dict, lit: str) -> str:
    """Canonical signature = the cause, not the instance (module kind, placement and names are abstracted away)."""
    rep = r["obs"]["replaced"]
    kind = r["parser"]["kind"]
    if r["obs"]["t"] != "ok":
        return f"C28:visitor-{r['obs']['t']}"
    if "classify" in f["clauses"]:
        if rep["t"] == "untouched":
            m = re.match(r"^[\s\ufeff]*(entrypoint|field|pointer)[\s\ufeff]*[A-Za-z_]\w*([\s\ufeff]*)\.([\s\ufeff]*)[A-Za-z_]\w*", lit)
            cause = "blank-around-dot" if m and (m.group(2) or m.group(3)) else "other"
            return f"C28:accepted-literal-not-transformed:{cause}"
        want = "entrypoint" if kind == "entrypoint" else "field-or-pointer"
        got = "entrypoint" if rep["t"] in ("ident", "require") else ("field-or-pointer" if rep["t"] in ("fnarg", "identity") else rep["t"])
        m = re.match(r"^[\s\ufeff]*(entrypoint|field|pointer)[\s\ufeff]*[A-Za-z_]\w*([\s\ufeff]*)\.([\s\ufeff]*)[A-Za-z_]\w*", lit)
        cause = "keyword-found-later-after-blank-around-dot" if m and (m.group(2) or m.group(3)) else "other"
        return f"C28:misclassified:{want}-as-{got}:{cause}"
    if "import-path" in f["clauses"]:
        got = r["obs"]["imports"][0]["path"] if r["obs"]["imports"] else rep.get("path", [])
        if not got or got[0] not in (".", ".."):
            return "C28:import-path:not-a-relative-specifier"
        names_ok = len(got) >= 3 and got[-3] == r["parser"]["ptype"] and got[-2] == r["parser"]["fname"]
        if not names_ok:
            if len(got) >= 3 and got[-3] == r["parser"]["ptype"] and got[-2].startswith(r["parser"]["fname"]):
                return "C28:import-path:field-segment-swallows-following-tokens"
            return "C28:import-path:type-or-field-segment-is-not-the-name"
        return "C28:import-path:wrong-directory"
    return "C28:" + "+".join(sorted(f["clauses"]))


def replay(prop: str, path: Path, seed: int) -> int:
    rp = json.loads(Path(path).read_text())
    chk = vlib.Check(prop, "quick", seed)
    try:
        binpath = vlib.cargo_build("h_swc", timeout=6000) / "h_swc"
        c = rp["case"]
        p = vlib.run_bin(binpath, [], input=json.dumps(c) + "\n", timeout=300)
        o = json.loads(p.stdout.splitlines()[0])
        obs = o["obs"]
        if obs.get("t") != "ok":
            obs = {"t": obs.get("t", "?"), "errors": 0, "in": [], "out": [], "iso_item": 0, "added": 0, "imports": [],
                   "replaced": {"t": "none"}}
        rec = {"id": c["id"], "parser": o["parser"], "file_dir": c["file_dir"],
               "art_root": c["artifact_dir"] if c["artifact_dir"] is not None else c["project_root"],
               "module": c["module"], "shape": c["shape"], "obs": obs}
        fails, _ = iso.judge(chk, "SwcTrace.tla", SPEC / "SwcTrace.cfg", [rec], "replay")
        if fails:
            print(f"replay: still violates {prop}: {fails[0]}")
            return 1
        print(f"replay: {prop} holds on this input now")
        return 0
    finally:
        shutil.rmtree(chk.work, ignore_errors=True)
