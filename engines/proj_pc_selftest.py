"""Binding self-test (1) for C10 / C25 / C27: corrupt ONE recorded field of a good observation and show that the
TLA+ predicate rejects it.   usage:  python3-vt engines/proj_pc_selftest.py        (results on stdout)

For each property one small accepted program is compiled with the real compiler, the recorded observation is
judged (must be clean), then copies with exactly one corrupted field are judged (each must be BAD)."""
from __future__ import annotations

import copy
import json
import sys
from pathlib import Path

ROOT = Path(__file__).resolve().parents[1]
sys.path.insert(0, str(ROOT / "lib"))
sys.path.insert(0, str(ROOT))
import vlib  # noqa: E402
from engines import isorender, projlib, proj_c10, proj_c25, proj_c27  # noqa: E402
from engines import proj_pc_common as pc  # noqa: E402


def sc(n, alias="", args=None, dirs=None):
    return {"name": n, "alias": alias, "args": args or [], "dirs": dirs or []}


def ln(n, sels, alias="", args=None, dirs=None):
    d = sc(n, alias, args, dirs)
    d["sels"] = sels
    return d


def F(on, name, sels, vars=None, comp=True):
    return {"k": "field", "on": on, "name": name, "component": comp, "vars": vars or [], "sels": sels}


def EP(on, name):
    return {"k": "entrypoint", "on": on, "name": name}


INT = {"k": "named", "n": "Int"}
V = lambda n: {"t": "var", "n": n}       # noqa: E731
I = lambda v: {"t": "int", "v": str(v)}  # noqa: E731

PROG = {"decls": [
    F("Pet", "Inner", [sc("nickname"), sc("feed"), sc("__refetch")]),
    F("User", "Card", [sc("name"), sc("age", alias="years"), ln("bestPet", [sc("Inner")]),
                       ln("pets", [sc("kind"), sc("tags")], alias="p", args=[["first", V("n")]])],
      vars=[{"name": "n", "type": INT}]),
    F("Query", "Home", [ln("me", [sc("Card", args=[["n", I(1)]])])]),
    EP("Query", "Home")]}


def bads(printed):
    return [v for t, v in printed if t == "BAD"]


def main():
    chk = vlib.Check("C25", "selftest", 1)
    out = []
    try:
        # ---- C25 -------------------------------------------------------------------------------------
        S = projlib.schema()
        expose = pc.expose_table(S["extension"], set(S["types"]))
        o = projlib.compile_all(chk, [isorender.project(S, PROG, ident=0)], want=["artifacts", "js", "ops"])[0]
        assert o["outcome"] == "ok", o
        recs = [r for r in proj_c25.records_of(o, PROG, expose, 0) if r["key"] == "Query/Home"]
        good = copy.deepcopy(recs[0])
        c1 = copy.deepcopy(good)     # the entrypoint hands the Card reader its refetch queries in another order
        card = c1["bundles"]["Query/Home"]["reader"]["ast"][0]["selections"][0]
        card["usedRefetchQueries"] = list(reversed(card["usedRefetchQueries"]))
        c2 = copy.deepcopy(good)     # a leaf index off by one
        inner = c2["bundles"]["Query/Home"]["reader"]["ast"][0]["selections"][0]["readerArtifact"]["ast"][2]["selections"][0]
        inner["readerArtifact"]["ast"][1]["refetchQueryIndex"] += 1
        c3 = copy.deepcopy(good)     # a refetch query loses one field of its sub-tree
        q = c3["bundles"]["Query/Home"]["nested"][0]
        def drop_leaf(sels):
            for n in sels:
                if n.get("selections"):
                    if drop_leaf(n["selections"]):
                        return True
            for i, n in enumerate(sels):
                if n["kind"] == "Scalar" and n["fieldName"] not in ("id", "__typename"):
                    del sels[i]
                    return True
            return False
        assert drop_leaf(q["norm"])
        for name, r in (("good", good), ("usedRefetchQueries reversed", c1), ("refetchQueryIndex + 1", c2), ("refetch query sub-tree minus one field", c3)):
            r = dict(r, id=name)
            b = bads(pc.judge_all(chk, "ObsC25.tla", [r], tag="st25", count=False, coverage_probe=False))
            out.append(("C25", name, "BAD" if b else "clean", json.dumps(b)[:160]))
        # ---- C27 -------------------------------------------------------------------------------------
        S27 = projlib.schema("schema_c27")
        o = projlib.compile_all(chk, [isorender.project(S27, PROG, ident=0)], want=["js", "ops"])[0]
        good = proj_c27.record_of(o, PROG, 0)
        def param(r, on, name):
            return [p for p in r["params"] if p["on"] == on and p["name"] == name][0]
        def data(r, on, name):
            return [p for p in param(r, on, name)["type"]["props"] if p["name"] == "data"][0]["type"]
        c1 = copy.deepcopy(good)     # nullable field typed non-null
        [p for p in data(c1, "User", "Card")["props"] if p["name"] == "years"][0]["type"] = {"k": "kw", "n": "number"}
        c2 = copy.deepcopy(good)     # property named by the field name instead of the alias
        [p for p in data(c2, "User", "Card")["props"] if p["name"] == "years"][0]["name"] = "age"
        c3 = copy.deepcopy(good)     # raw response type loses a key
        c3["raws"][0]["type"]["props"][0]["type"]["props"].pop()
        for name, r in (("good", good), ("nullable field typed number", c1), ("property named by field name", c2), ("raw response type minus one key", c3)):
            r = dict(r, id=name)
            b = bads(pc.judge_all(chk, "ObsC27.tla", [r], tag="st27", count=False, coverage_probe=False))
            out.append(("C27", name, "BAD" if b else "clean", json.dumps(b)[:160]))
        # ---- C10 -------------------------------------------------------------------------------------
        o = projlib.compile_all(chk, [isorender.project(S, PROG, ident=0)], want=["artifacts", "js", "ops"])[0]
        good = proj_c10.records_of(o, PROG, 0)[0]
        c1 = copy.deepcopy(good)     # the normalization AST loses one scalar below `me`
        me = c1["E"]["norm"][0]
        me["selections"] = [n for n in me["selections"] if not (n["kind"] == "Scalar" and n["fieldName"] == "age")]
        c2 = copy.deepcopy(good)     # the reader passes no argument to Card (n undefined at runtime)
        c2["E"]["reader"]["ast"][0]["selections"][0].pop("arguments")
        c3 = copy.deepcopy(good)     # a reader argument literal differs from the normalization AST's
        c3["E"]["reader"]["ast"][0]["selections"][0]["arguments"][0][1]["value"] = "2"
        for name, r in (("good", good), ("normalization AST minus me.age", c1), ("Resolver without arguments", c2), ("Resolver argument 2 instead of 1", c3)):
            r = dict(r, id=name)
            b = bads(proj_c10.judge(chk, [r], "st10", "quick", count=False))
            out.append(("C10", name, "BAD" if b else "clean", json.dumps(b)[:160]))
    finally:
        import shutil
        shutil.rmtree(chk.work, ignore_errors=True)
    ok = True
    for prop, name, verdict, detail in out:
        expect = "clean" if name == "good" else "BAD"
        ok &= verdict == expect
        print(f"{prop}  {name:45s} -> {verdict:5s} (expected {expect})  {detail if verdict == 'BAD' else ''}")
    return 0 if ok else 1


if __name__ == "__main__":
    sys.exit(main())
