"""C10 — readers only read data that the entrypoint fetches and normalizes.

  TLC enumerates programs (spec/project/GenC10*.tla)  ->  the real compiler  ->  one record per declared
  entrypoint (bundle: reader AST with nested readers inlined through the importing modules' imports,
  normalization AST, parsed operation)  ->  TLC (spec/project/ObsC10.tla over Runtime.tla, a TLA+ transcription
  of cache.ts normalizeData and read.ts readData) enumerates every conforming response and variable
  valuation, normalizes, reads, and reports MissingData / throws.
"""
from __future__ import annotations

import json
import time
from pathlib import Path

import vlib
from vlib import ToolError, log
from engines import isorender, projlib
from engines import proj_pc_common as pc

LEVEL = {"C10": "model_checking"}
PROP = "C10"
PIN_FILE = projlib.SP / "runtime_pin.json"


def check_pins(chk):
    """drift (never a violation): the runtime functions Runtime.tla transcribes changed"""
    pins = json.loads(PIN_FILE.read_text()) if PIN_FILE.exists() else {}
    for key in ("read.ts", "cache.ts"):
        src = (vlib.REPO / "libs/isograph-react/src/core" / key).read_text()
        names = list(pins.get(key, {}))
        bodies = pc.function_bodies(src, names)
        now = {n: pc.digest(bodies.get(n, "")) for n in names}
        chk.cov.setdefault("runtime_pin", {})[key] = now
        changed = [n for n in names if pins[key].get(n) != now[n]]
        if changed:
            chk.drift(f"{key}: function bodies differ from the pinned transcription (Runtime.tla): {changed}")


def records_of(obs: dict, prog: dict, pid) -> list[dict]:
    R = pc.Resolver(obs)
    out = []
    declared = {(d["on"], d["name"]) for d in prog["decls"] if d["k"] == "entrypoint"}
    for k in R.entrypoint_keys():
        on, name = k.split("/")[-2:]
        if (on, name) not in declared:
            continue            # entrypoints generated for loadably selected fields are read from a node(id) response: not in scope
        b = R.bundle(k, set())
        if b is None:
            continue
        b.pop("nested", None)
        decl = [d for d in prog["decls"] if d["k"] == "field" and (d["on"], d["name"]) == (on, name)]
        b["vars"] = [{"name": v["name"], "type": v["type"]} for v in (decl[0].get("vars", []) if decl else [])]
        out.append({"id": pid, "key": k, "E": b})
    return out


def classify(x: dict) -> str:
    r = x["r"]
    if r["k"] == "throws":
        return "throws|" + "+".join(sorted(r["what"]))
    path = r.get("path", [])
    nested = "nested" if any(True for _ in path[1:]) and len(path) > 1 else "top"
    key = r.get("key", [])
    has_args = "args" if len(key) >= 2 and key[1] else "noargs"
    cond = "cond" if "$cond" in path else "plain"
    # the reader's key has an OBJECT-valued argument: a different defect class (variables inside object arguments)
    obj = "|object-arg" if len(key) >= 2 and any(isinstance(a, list) and len(a) == 2 and isinstance(a[1], list) and a[1][:1] == ["json"]
                                                  for a in key[1]) else ""
    # ... and it only fails when a variable inside the object is null: the runtime's own inconsistency
    # (generateChildVariableMap omits the key, getStoreKeyChunkForArgumentValue writes the string 'null')
    if obj and x.get("nullVars"):
        obj += "|null-variable"
    return f"{r['why']}|{has_args}|{cond}{obj}"


def signature(b: dict) -> list[tuple[str, str]]:
    out = []
    for x in b["bad"]:
        r = x["r"]
        what = (f"reading {'.'.join(r.get('path', []))}: {r.get('why')} {json.dumps(r.get('key'))}" if r["k"] == "missing"
                else f"normalization throws: {r.get('what')}")
        out.append((f"C10|{classify(x)}", f"{b['key']}: {what} (null variables {x['nullVars']}, nullable leaves {'null' if x['leafNulls'] else 'non-null'})"))
    return out


CONSTS = {"quick": dict(MaxLen0=2, MaxLen1=1, MaxLenDeep=1, MaxFail=3),
          "thorough": dict(MaxLen0=2, MaxLen1=2, MaxLenDeep=1, MaxFail=3)}


def judge(chk, recs, tag, tier, count=True):
    return pc.judge_all(chk, "ObsC10.tla", recs, consts=CONSTS.get(tier, CONSTS["quick"]), tag=tag, count=count,
                        coverage_probe=count, chunk=400)

ALL_CARD = set(range(1, 14))
SCOPES = {
    "quick": [
        ("chain", dict(MaxCard=2, MaxUses=1, CardChoice={3, 4, 5, 8, 9, 10, 13}, HomeChoice={1, 2, 3}, Defaults={0, 1}, Mutations={0})),
        ("abstract", dict(MaxCard=1, MaxUses=2, CardChoice={1, 3, 7, 11, 12}, HomeChoice={4, 5, 6, 7, 8}, Defaults={0}, Mutations={1})),
        ("objects", dict(MaxCard=1, MaxUses=2, CardChoice={1, 4}, HomeChoice={1, 9, 10}, Defaults={0}, Mutations={0, 2, 3})),
        ("refined", dict(MaxCard=1, MaxUses=2, CardChoice={1}, HomeChoice={2, 11, 12}, Defaults={0}, Mutations={0})),
    ],
    "thorough": [
        ("chain", dict(MaxCard=2, MaxUses=2, CardChoice=ALL_CARD, HomeChoice={1, 2, 3}, Defaults={0, 1}, Mutations={0})),
        ("abstract", dict(MaxCard=1, MaxUses=2, CardChoice=ALL_CARD, HomeChoice={3, 4, 5, 6, 7, 8}, Defaults={0, 1}, Mutations={0, 1})),
        ("objects", dict(MaxCard=2, MaxUses=2, CardChoice={1, 3, 4, 8}, HomeChoice={1, 2, 9, 10}, Defaults={0, 1}, Mutations={0, 2, 3})),
        ("refined", dict(MaxCard=1, MaxUses=3, CardChoice={1, 3, 8}, HomeChoice={1, 2, 4, 11, 12}, Defaults={0}, Mutations={0})),
    ],
}


def compile_and_judge(chk, progs, tag, tier, count=True):
    S = projlib.schema()
    projects = [isorender.project(S, p, ident=i) for i, p in enumerate(progs)]
    obs = projlib.compile_all(chk, projects, want=["artifacts", "js", "ops"])
    recs = []
    for i, o in enumerate(obs):
        if o.get("outcome") == "ok":
            recs += records_of(o, progs[i], i)
    printed = judge(chk, recs, tag, tier, count=count) if recs else []
    return obs, recs, printed


def bad_signatures(printed) -> dict:
    out: dict = {}
    for t, v in printed:
        if t == "BAD":
            for s, _ in signature(v):
                out.setdefault(v["id"], set()).add(s)
    return out


def minimise_for(chk, prog, sig, tier, deadline=None):
    n = [0]

    def still_bad(cands):
        n[0] += 1
        _, _, printed = compile_and_judge(chk, cands, f"min{n[0]}", tier, count=False)
        sigs = bad_signatures(printed)
        return [sig in sigs.get(i, set()) for i in range(len(cands))]
    return pc.minimise(prog, still_bad, deadline=deadline)


def run(chk: vlib.Check) -> None:
    check_pins(chk)
    progs, seen = [], set()
    for name, consts in SCOPES[chk.tier]:
        for p in projlib.generate(chk, "GenC10.tla", consts, name=name, timeout=900):
            k = json.dumps(p, sort_keys=True)
            if k not in seen:
                seen.add(k)
                progs.append(p)
    log(f"[C10] {len(progs)} programs")
    obs, recs, printed = compile_and_judge(chk, progs, "gen", chk.tier)
    outcomes: dict = {}
    for o in obs:
        outcomes[o["outcome"]] = outcomes.get(o["outcome"], 0) + 1
    chk.cov["programs"] = len(progs)
    chk.cov["outcomes"] = outcomes
    if outcomes.get("ok", 0) * 2 < len(progs):
        bad = [o for o in obs if o["outcome"] != "ok"][:2]
        raise ToolError(f"most generated programs were not accepted: {outcomes}; e.g. "
                        f"{[(o.get('diagnostics') or [o.get('panic_msg')])[0][:300] for o in bad]}")
    rej = [o for o in obs if o["outcome"] != "ok"]
    if rej:
        chk.cov["rejected_sample"] = [str((o.get("diagnostics") or [o.get("panic_msg", o["outcome"])])[0])[:300] for o in rej[:3]]
    stats = [v for t, v in printed if t == "STAT"]
    chk.cov["evaluations"] = sum(s["n"] for s in stats)
    chk.cov["responses_normalized_and_read"] = sum(s["n"] for s in stats)
    chk.cov["valuations_skipped_for_store_key_collisions"] = sum(s.get("skipped", 0) for s in stats)
    chk.cov["distinct_nontrivial"] = sum(1 for s in stats if s["n"] >= 4)
    chk.cov["rule"] = "entrypoint records with at least 4 (valuation, response) experiments"
    chk.cov["exhaustive"] = True
    chk.cov["response_bounds"] = CONSTS[chk.tier]
    if chk.cov["evaluations"] == 0:
        raise ToolError("vacuous: no response was normalized and read")
    chk.assumptions += [
        "the TypeScript runtime is MODELLED (spec/project/Runtime.tla, transcribed from cache.ts / read.ts; digests of the "
        "transcribed function bodies pinned in spec/project/runtime_pin.json, a change is reported as drift), not executed",
        "responses: every object has its own id; a nullable leaf is null in one mode and non-null in the other (all leaves together); "
        "list lengths 0..MaxLen per depth; every concrete type at abstract positions; non-null variables have values distinct from all "
        "literals, nullable variables are additionally tried as null/absent",
        "string arguments are restricted to word characters (getArgumentValueChunk's /\\\\W/g replacement is the identity)",
        "a client pointer's resolver (user code) may return null or any Link its reader was given",
        "trusted base: engines/isorender.py, h_compile projections, engines/proj_pc_common.py ($ref resolution, null-dropping, refineTo from the generated resolver text)",
    ]
    grouped: dict = {}
    for t, v in printed:
        if t == "BAD":
            for s, what in signature(v):
                grouped.setdefault(s, []).append((v["id"], what, v))
    budget = time.time() + (240 if chk.tier == "quick" else 600)
    for s, hits in sorted(grouped.items()):
        i, what, b = min(hits, key=lambda h: pc.prog_size(progs[h[0]]))
        prog = progs[i]
        if vlib.finding_for(PROP, s) is None:
            try:
                small = minimise_for(chk, prog, s, chk.tier, deadline=budget)
                if small is not prog:
                    _, _, pr = compile_and_judge(chk, [small], "minfinal", chk.tier, count=False)
                    bs = [v for t, v in pr if t == "BAD" and any(x == s for x, _ in signature(v))]
                    if bs:
                        prog, b = small, bs[0]
                        what = [w for x, w in signature(b) if x == s][0]
            except ToolError as e:
                log(f"[C10] minimisation failed: {e}")
        chk.violation(s, f"{what} ({len({h[0] for h in hits})} programs)",
                      {"engine": "proj_c10", "schema": "schema1", "program": prog, "source": isorender.render_program(prog),
                       "bad": b, "programs_with_signature": len({h[0] for h in hits}), "bounds": CONSTS[chk.tier]})
    for s in stats[:2]:
        chk.sample({"record": s})
    if progs:
        chk.sample({"program": progs[0]})


def replay(prop: str, path: Path, seed: int) -> int:
    rp = json.loads(Path(path).read_text())
    chk = vlib.Check(prop, "replay", seed)
    try:
        _, _, printed = compile_and_judge(chk, [rp["program"]], "replay", "quick", count=False)
        sigs = bad_signatures(printed).get(0, set())
        hit = rp.get("signature") in sigs
        print(f"replay {path}: signature {'reproduced' if hit else 'not reproduced'}; now: {sorted(sigs)}")
        return 1 if hit else 0
    finally:
        import shutil
        shutil.rmtree(chk.work, ignore_errors=True)
