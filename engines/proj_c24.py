"""C24 — each iso literal resolves to its own generated overload.

  TLC (GenC24.tla: programs with prefix-related type / field names; GenC24ws.tla: header whitespace classes)
     --PROGRAM-->  proj_pd_common renderer (exact literal text under control)  -->  real compiler (h_compile)
     --record (iso.ts projected: WhitespaceCharacter union, template of MatchesWhitespaceAndString, ordered overloads
               with pattern + result type; every literal's text as code points)-->
  TLC (ObsC24.tla + HeaderMatch.tla: TypeScript template / overload semantics, layer A)  --BAD--> verdict.

Trusted base: h_compile's swc projection of iso.ts (`fns`, `types`), the two regular expressions below that read
the helper type aliases (a shape they do not recognise is a TOOL ERROR, never a verdict), the renderer.
"""
from __future__ import annotations

import json
import re
import shutil
from pathlib import Path

import vlib
from engines import projlib
from engines import proj_pd_common as pd
from vlib import ToolError, log

LEVEL = {"C24": "model_checking"}
SCHEMA = "schema_c24"
TIERS = {
    "quick": dict(names=dict(MaxNames=3, MaxDims=1), ws=dict(MaxWsDev=1)),
    "thorough": dict(names=dict(MaxNames=3, MaxDims=3), ws=dict(MaxWsDev=2)),
}
GEN_ACTIONS = ["AddName", "SetKind", "SetEntrypoints", "SetOtherType", "SetPointer", "SetOption"]
WS_ACTIONS = ["SetLead", "SetKw", "SetPre", "SetPost"]

# --------------------------------------------------------------------------------------------
# projection of iso.ts
# --------------------------------------------------------------------------------------------

_MATCHER = re.compile(
    r"type\s+MatchesWhitespaceAndString\s*<\s*(\w+)\s+extends\s+string\s*,\s*(\w+)\s*,?\s*>\s*=\s*"
    r"(Whitespace\s*<\s*(\w+)\s*>|\w+)\s+extends\s+`([^`]*)`\s*\?\s*(\w+)\s*:\s*(\w+)\s*;")
_STRIPPER = re.compile(
    r"type\s+Whitespace\s*<\s*(\w+)\s*>\s*=\s*\1\s+extends\s+`\$\{WhitespaceCharacter\}\$\{infer\s+(\w+)\}`\s*"
    r"\?\s*Whitespace\s*<\s*\2\s*>\s*:\s*\1\s*;")


def matcher_of(iso_ts: str, types: dict) -> dict:
    """{ws: [code points], strip: bool, parts: [...]} read off iso.ts; ToolError when the helper types are not of
    the family HeaderMatch.tla interprets."""
    m = _MATCHER.search(iso_ts)
    if not m:
        raise ToolError("iso.ts: MatchesWhitespaceAndString has a shape the C24 model does not cover")
    tstring, tparam, subject, inner, template, then, els = m.groups()
    if subject.startswith("Whitespace"):
        if inner != tparam:
            raise ToolError("iso.ts: Whitespace<..> is not applied to the literal type")
        strip = True
    elif subject == tparam:
        strip = False
    else:
        raise ToolError("iso.ts: unknown subject of the conditional type")
    if then != tparam or els != "never":
        raise ToolError("iso.ts: MatchesWhitespaceAndString does not answer T / never")
    if strip and not _STRIPPER.search(iso_ts):
        raise ToolError("iso.ts: Whitespace<In> has a shape the C24 model does not cover")
    parts, i = [], 0
    for ph in re.finditer(r"\$\{(\w+)\}", template):
        if ph.start() > i:
            parts.append({"t": "lit", "cps": pd.cps(template[i:ph.start()])})
        if ph.group(1) == tstring:
            parts.append({"t": "param"})
        elif ph.group(1) == "string":
            parts.append({"t": "any"})
        else:
            raise ToolError(f"iso.ts: placeholder ${{{ph.group(1)}}} in the template is not modelled")
        i = ph.end()
    if i < len(template):
        parts.append({"t": "lit", "cps": pd.cps(template[i:])})
    ws = []
    u = types.get("WhitespaceCharacter")
    members = u["of"] if u and u.get("k") == "union" else [u] if u else []
    for mem in members:
        if not mem or mem.get("k") != "lit" or not isinstance(mem.get("v"), str) or len(mem["v"]) != 1:
            raise ToolError("iso.ts: WhitespaceCharacter is not a union of one-character string literals")
        ws.append(ord(mem["v"]))
    if strip and not ws:
        raise ToolError("iso.ts: WhitespaceCharacter not found")
    return {"ws": ws, "strip": strip, "parts": parts}


def overloads_of(fns: list) -> list[dict]:
    out = []
    for f in fns:
        if f.get("fn") != "iso" or f.get("has_body"):
            continue
        ok = False
        if len(f["params"]) == 1 and f["params"][0].get("k") == "inter" and len(f["params"][0]["of"]) == 2:
            a, b = f["params"][0]["of"]
            if (a.get("k") == "ref" and b.get("k") == "ref" and b.get("n") == "MatchesWhitespaceAndString"
                    and len(b.get("args", [])) == 2 and b["args"][0].get("k") == "lit" and isinstance(b["args"][0].get("v"), str)
                    and b["args"][1] == a):
                pattern = b["args"][0]["v"]
                ret = f["ret"]
                if ret.get("k") == "typeof":
                    out.append({"pattern": pd.cps(pattern), "kind": "typeof", "name": ret["n"]})
                    ok = True
                elif ret.get("k") == "ref" and ret.get("args") and ret["args"][0].get("k") == "ref":
                    out.append({"pattern": pd.cps(pattern), "kind": ret["n"], "name": ret["args"][0]["n"]})
                    ok = True
        if not ok:
            raise ToolError(f"iso.ts: overload signature of a shape the C24 model does not cover: {json.dumps(f)[:300]}")
    return out


def record(ident, prog: dict, obs: dict) -> dict:
    rec = {"id": ident, "outcome": obs["outcome"], "M": {"ws": [], "strip": False, "parts": []}, "overloads": [], "literals": []}
    if obs["outcome"] != "ok":
        return rec
    iso = obs["js"].get("iso.ts")
    if not iso or not iso.get("parses"):
        raise ToolError(f"iso.ts missing or unparsable for program {ident}")
    rec["M"] = matcher_of(obs["artifacts"]["iso.ts"], iso.get("types", {}))
    rec["overloads"] = overloads_of(iso.get("fns", []))
    rec["literals"] = [{"k": d["k"], "on": d["on"], "name": d["name"], "component": bool(d.get("component")),
                        "text": pd.cps(pd.literal_text(d))}
                       for d in prog["decls"] if d["k"] in ("field", "pointer", "entrypoint")]
    return rec


# --------------------------------------------------------------------------------------------
# driving
# --------------------------------------------------------------------------------------------

def to_project(prog: dict, ident) -> dict:
    opts = {"no_babel_transform": True} if prog.get("opt") == "nobabel" else None
    return pd.project(projlib.schema(SCHEMA), prog["decls"], prog.get("layout") or ["src/main.ts"] * len(prog["decls"]),
                      options=opts, ident=ident)


def observe(chk, progs: list[dict], base_id=0) -> list[dict]:
    projects = [to_project(p, base_id + i) for i, p in enumerate(progs)]
    obs = projlib.compile_all(chk, projects, want=["artifacts", "js"])
    return [record(base_id + i, p, o) for i, (p, o) in enumerate(zip(progs, obs))]


def generate(chk, module, consts, actions, constraint=None):
    cfg = chk.work / f"{module}.cfg"
    extra = "INVARIANT Emit\n" + (f"CONSTRAINT {constraint}\n" if constraint else "")
    cfg.write_text(projlib.cfg_from_consts(consts, extra))
    r = vlib.tlc(projlib.SP / f"{module}.tla", cfg, workers=4, timeout=900, seed=chk.seed, coverage=True, heap="6g")
    chk.add_tlc(f"gen-{module}", r)
    if r.violated:
        raise ToolError(f"{module} reported {r.violated}:\n{r.out[-1500:]}")
    chk.require_coverage(r, actions)
    seen, out = set(), []
    for t, v in r.printed:
        if t == "PROGRAM":
            k = json.dumps(v, sort_keys=True)
            if k not in seen:
                seen.add(k)
                out.append(v)
    if not out:
        raise ToolError(f"{module} produced no program")
    if len(out) > r.distinct:
        raise ToolError(f"{module}: {len(out)} programs from {r.distinct} states")
    return out


CANON = {"lead": None, "kw": None, "pre": None, "post": None}


def minimise(chk, prog: dict, bad: dict):
    """Shrink the program around the offending literal: drop other declarations, then restore header gaps to the
    conventional layout, as long as ObsC24 still reports the same `why` for the same declaration.  Every round of
    candidates is compiled in one batch and judged by one TLC run."""
    target, why = bad["decl"], bad["why"]
    rnd = [0]
    head = lambda d: f"{d['k']} {d['on']}.{d['name']}"

    def judge_progs(cands: list[dict]) -> list:
        rnd[0] += 1
        base = 10_000_000 + 1000 * rnd[0]
        recs = observe(chk, cands, base_id=base)
        bads = projlib.judge(chk, "ObsC24.tla", recs, tag=f"min{rnd[0]}")
        hit = {b["id"]: b for b in bads if b["decl"] == target and b["why"] == why}
        return [hit.get(base + i) for i in range(len(cands))]

    all_decls = json.loads(json.dumps(prog["decls"]))
    tdecl = next(x for x in all_decls if head(x) == target)
    # first guess (one TLC run): the literal alone / an entrypoint together with its client field
    guesses = [[tdecl]]
    if tdecl["k"] == "entrypoint":
        guesses = [[x, tdecl] for x in all_decls if x["k"] == "field" and (x["on"], x["name"]) == (tdecl["on"], tdecl["name"])][:1]
    last = None
    decls = None
    if guesses and len(all_decls) > len(guesses[0]):
        res = judge_progs([dict(prog, decls=g) for g in guesses])
        if res[0] is not None:
            decls, last = guesses[0], res[0]
    if decls is None:
        last = None
        decls = pd.minimise_list(all_decls,
                                 lambda cs: [x is not None for x in judge_progs([dict(prog, decls=c) for c in cs])],
                                 keep=lambda d: head(d) == target)
    cur = dict(prog, decls=decls)
    d = next(x for x in cur["decls"] if head(x) == target)
    if d.get("hdr") and len(d["hdr"]) > 1:
        last = None
        gaps = pd.minimise_list(sorted(d["hdr"].items()),
                                lambda cs: [x is not None for x in judge_progs(
                                    [dict(cur, decls=[dict(x, hdr=dict(c)) if x is d else x for x in cur["decls"]]) for c in cs])])
        d["hdr"] = dict(gaps)
    if last is not None and cur.get("opt") != "nobabel":
        return cur, last
    final = [cur] + ([dict(cur, opt="std")] if cur.get("opt") == "nobabel" else [])
    res = judge_progs(final)
    if len(final) == 2 and res[1] is not None:
        return final[1], res[1]
    return cur, res[0]


def signature(minp: dict, bad: dict) -> str:
    target = bad["decl"]
    d = next(x for x in minp["decls"] if f"{x['k']} {x['on']}.{x['name']}" == target)
    if d.get("hdr"):
        return f"C24:{bad['why']}:header-whitespace:{'+'.join(sorted(d['hdr']))}"
    heads = sorted(f"{x['k']} {x['on']}.{x['name']}" + (" @component" if x.get("component") else "") for x in minp["decls"])
    return f"C24:{bad['why']}:{target}->{bad['chosen']}:" + "|".join(heads)


def run(chk: vlib.Check) -> None:
    t = TIERS[chk.tier]
    progs = generate(chk, "GenC24", t["names"], GEN_ACTIONS)
    n_names = len(progs)
    progs += generate(chk, "GenC24ws", t["ws"], WS_ACTIONS)
    log(f"[C24] {n_names} name programs + {len(progs) - n_names} whitespace programs")
    recs = observe(chk, progs)
    bads = projlib.judge(chk, "ObsC24.tla", recs)
    accepted = [r for r in recs if r["outcome"] == "ok"]

    def has_prefix_pair(r):
        ps = [tuple(o["pattern"]) for o in r["overloads"]]
        return any(a != b and a == b[:len(a)] for a in ps for b in ps)

    chk.cov["evaluations"] = sum(len(r["literals"]) for r in accepted)
    chk.cov["distinct_nontrivial"] = sum(1 for r in accepted if has_prefix_pair(r))
    chk.cov["rule"] = "accepted programs whose iso.ts has two overload patterns one of which is a prefix of the other"
    chk.cov["exhaustive"] = True
    chk.cov["programs"] = len(progs)
    chk.cov["accepted_programs"] = len(accepted)
    chk.cov["whitespace_programs"] = len(progs) - n_names
    chk.cov["whitespace_programs_accepted"] = sum(1 for r in recs[n_names:] if r["outcome"] == "ok")
    chk.cov["constants"] = t
    for r in accepted[:2] + accepted[n_names:n_names + 1]:
        chk.sample({"id": r["id"], "patterns": [pd.from_cps(o["pattern"]) for o in r["overloads"]],
                    "literals": [pd.from_cps(x["text"])[:40] for x in r["literals"]],
                    "ws": r["M"]["ws"], "template": r["M"]["parts"]})
    for i, r in enumerate(recs[:n_names]):      # GenC24ws does not predict acceptance; GenC24 programs should be accepted
        if r["outcome"] != "ok":
            chk.drift(f"program {i} of GenC24 was expected to be accepted but the compiler answered {r['outcome']}: "
                      f"{json.dumps(progs[i])[:200]}")
    if not accepted:
        raise ToolError("no generated program was accepted by the compiler")
    chk.assumptions += [
        "TypeScript semantics as modelled in HeaderMatch.tla (template value of the literal, Whitespace<T> strips leading "
        "members of the observed WhitespaceCharacter union, observed template of MatchesWhitespaceAndString, first "
        "accepting overload wins); T is inferred as the literal type of the argument",
        "iso.ts is observed through swc (function signatures, type aliases) and two regular expressions over the helper "
        "aliases; an unrecognised shape is a tool error",
        "an overload belongs to a declaration iff its result type names that declaration's generated types "
        "(On__Name__param / entrypoint_On__Name)",
    ]
    log(f"[C24] {len(bads)} literals do not resolve to their own overload")
    # one report per (why, whitespace position | name case); the simplest carriers are minimised first.  A literal
    # with several deviating gaps is not minimised again when one of those gaps, with the same value, already fails
    # on its own for the same literal in this run.
    head = lambda x: f"{x['k']} {x['on']}.{x['name']}"
    target_of = lambda b: next((x for x in progs[b["id"]]["decls"] if head(x) == b["decl"]), None)
    single_fail = set()
    for b in bads:
        d = target_of(b)
        if d and len(d.get("hdr", {})) == 1:
            (pos, val), = d["hdr"].items()
            single_fail.add((b["decl"], b["why"], pos, tuple(val)))
    done: set = set()
    budget = 12 if chk.tier == "quick" else 40
    bads.sort(key=lambda b: (len(progs[b["id"]]["decls"]), sum(len(d.get("hdr", {})) for d in progs[b["id"]]["decls"]), b["id"]))
    for b in bads:
        prog = progs[b["id"]]
        d = target_of(b)
        hdr = (d or {}).get("hdr") or {}
        coarse = (b["why"], tuple(sorted(hdr))) if hdr else (b["why"], b["decl"], b["chosen"])
        if coarse in done:
            continue
        if len(hdr) > 1 and any((b["decl"], b["why"], pos, tuple(val)) in single_fail for pos, val in hdr.items()):
            continue
        if budget == 0:
            chk.drift(f"unminimised C24 counterexample: {b}")
            continue
        budget -= 1
        minp, still = minimise(chk, prog, b)
        if not still:
            raise ToolError(f"C24 counterexample did not reproduce: {b}")
        sig = signature(minp, still)
        md = next(x for x in minp["decls"] if f"{x['k']} {x['on']}.{x['name']}" == b["decl"])
        done.add(coarse)
        if md.get("hdr"):
            done.add((b["why"], tuple(sorted(md["hdr"]))))
        else:
            done.add((b["why"], b["decl"], b["chosen"]))
        what = (f"literal {pd.literal_text(md)[:60]!r} of an accepted program: {still['why']} "
                f"(overload chosen: {still['chosen']})")
        chk.violation(sig, what, {"engine": "proj_c24", "program": minp, "bad": still,
                                  "files": to_project(minp, 0)["files"]})


def replay(prop: str, path: Path, seed: int) -> int:
    rp = json.loads(Path(path).read_text())
    chk = vlib.Check(prop, "quick", seed)
    try:
        recs = observe(chk, [rp["program"]])
        bads = projlib.judge(chk, "ObsC24.tla", recs, tag="replay")
        if bads:
            print(f"replay: still violates {prop}: {bads[0]}")
            return 1
        print(f"replay: {prop} holds on this input now (outcome {recs[0]['outcome']})")
        return 0
    finally:
        shutil.rmtree(chk.work, ignore_errors=True)
