"""Engine `gqlgrammar`: C29 (relay-crates/graphql-syntax) and C30 (crates/graphql_schema_parser).

Technique: the June 2018 GraphQL grammar written down as explicit TLA+ (spec/gqlgrammar): LL1.tla (generic
push-down machine), GqlExecGrammar.tla / SdlGrammar.tla (the grammars), GqlLex.tla / BlockString.tla (token values).

  generator direction   TLC (GqlGen.tla) derives documents from the grammar -- exhaustively up to a length bound and
                        by random simulation -- and applies single-token mutations; BlockStringGen.tla enumerates
                        block-string bodies.  This module only *concretises* token classes into text (seeded choice of
                        representatives and of the ignored text between tokens) and feeds the text to harness/h_gql,
                        which runs the real parsers and projects what they produced to JSON.
  recogniser direction  every observation (tokens the real lexer produced, verdict, tree, printed text re-parsed) is a
                        record of an ndjson trace that TLC judges with GqlTraceExec / GqlTraceSdl / GqlTraceIso: the
                        predicates (verdict = the LL(1) machine accepts, tree = the tree the machine builds, round trip)
                        are TLA+; a VIOLATION comes only from a BAD line printed by TLC.
Python decides nothing about the property: it renders, batches, and names the findings TLC reports.
"""
from __future__ import annotations

import json
import os
import random
from pathlib import Path

import vlib

SPEC = vlib.SPEC / "gqlgrammar"
LEVEL = {"C29": "model_checking", "C30": "model_checking"}

# ---------------------------------------------------------------------------------------------------------
# lexical classes (must agree with GqlLex.tla; GqlJudge.ToksOK re-checks every token in TLA+)
# ---------------------------------------------------------------------------------------------------------
PUNCT = ["!", "$", "(", ")", "...", ":", "=", "@", "[", "]", "{", "|", "}", "&"]
KEYWORDS = ["on", "true", "false", "null", "query", "mutation", "subscription", "fragment", "schema", "scalar", "type",
            "interface", "union", "enum", "input", "directive", "extend", "implements"]
LOCATIONS = ["QUERY", "MUTATION", "SUBSCRIPTION", "FIELD", "FRAGMENT_DEFINITION", "FRAGMENT_SPREAD", "INLINE_FRAGMENT",
             "SCHEMA", "SCALAR", "OBJECT", "FIELD_DEFINITION", "ARGUMENT_DEFINITION", "INTERFACE", "UNION", "ENUM",
             "ENUM_VALUE", "INPUT_OBJECT", "INPUT_FIELD_DEFINITION"]
PROBE_WORDS = ["repeatable", "VARIABLE_DEFINITION"]
RESERVED = set(KEYWORDS + LOCATIONS + PROBE_WORDS)

NAMES = ["a", "b", "c", "x", "y", "id", "name", "Foo", "Bar", "T", "U", "_", "_x", "__typename", "x1", "A_9", "user",
         "node", "onn", "True", "Null", "typed", "Query", "extends", "Int", "String"]
INTS = ["0", "-0", "7", "42", "-13", "2147483647", "-2147483648", "9007199254740993", "99999999999999999999",
        "-123456789012345678901"]
FLOATS = ["1.5", "-0.0", "0.25", "6.02e23", "1E-3", "-1.5e+2", "10e0", "1.0", "123.456e-2", "0e0", "1e10", "0.000",
          "-12.50E+1"]
STRINGS = ["", "abc", "a b", "hello, world # not a comment", "\u00e9t\u00e9", "\u4e2d\u6587", "x\uffffy", "tab\there",
           "a\\nb", "\\\"q\\\"", "back\\\\slash", "sl\\/ash", "\\b\\f\\r\\t", "\\u00e9", "\\u0041bc", "\\uABCD",
           "\\u00e9\\n\\\"", "{ } [ ] ( ) : ! $ @ | &", "'single'", "1.5e3", "...", "\\u000a"]
BLOCKS = ["", "abc", "  abc  ", "\n  a\n  b\n", "a\n    b\n  c", " \t\n x\n\n y \n  ", "say \\\"\"\" ok",
          "a \"quoted\" b", "a\\nb", "a\r\n  b\r\n  c", "a\r  b\r  c", "\ta\n\tb", "\u00e9\n  \u4e2d", "a\n    b\n \n    c",
          "\n\n  \n", "x\n  \\\"\"\"\n  y", "  first\n second\n   third", "# not a comment, \"\" two quotes",
          "a\\u0041 \\\\ b", "\n    deep\n  shallow\n"]
SEPS = [" ", " ", " ", " ", "\n", "\n", "\t", ",", ", ", "\r\n", "\r", "  ", " # c\u00e9 \"{\n", "\n#\n", "\ufeff", " ,\n ", ""]
EDGES = ["", "", "", " ", "\n", "# lead \"comment\"\n", "\ufeff", "# tail", ",", "\r\n"]
SINGLE_PUNCT = set(p for p in PUNCT if len(p) == 1)


def cps(s: str):
    return [ord(c) for c in s]


class Concretiser:
    """class sequence -> tokens [k, s, src] + text (code points).  Every choice comes from the seeded RNG."""

    def __init__(self, seed: int):
        self.rng = random.Random(seed)

    def token(self, k: str, src: str | None = None):
        r = self.rng
        if k in RESERVED or k in PUNCT:
            return {"k": k, "s": k, "src": []}, k
        if k == "NAME":
            n = r.choice(NAMES[:6]) if r.random() < 0.5 else r.choice(NAMES)
            return {"k": k, "s": n, "src": []}, n
        if k == "INT":
            v = src if src is not None else (r.choice(INTS[:5]) if r.random() < 0.6 else r.choice(INTS))
            return {"k": k, "s": "", "src": cps(v)}, v
        if k == "FLOAT":
            v = src if src is not None else r.choice(FLOATS)
            return {"k": k, "s": "", "src": cps(v)}, v
        if k == "STRING":
            v = src if src is not None else (r.choice(STRINGS[:4]) if r.random() < 0.4 else r.choice(STRINGS))
            return {"k": k, "s": "", "src": cps(v)}, '"' + v + '"'
        if k == "BLOCKSTRING":
            v = src if src is not None else (r.choice(BLOCKS[:3]) if r.random() < 0.3 else r.choice(BLOCKS))
            return {"k": k, "s": "", "src": cps(v)}, '"""' + v + '"""'
        raise vlib.ToolError(f"unknown token class {k!r}")

    def sep(self, left: str, right: str) -> str:
        while True:
            s = self.rng.choice(SEPS)
            if s == "" and not (left in SINGLE_PUNCT or right in SINGLE_PUNCT):
                continue            # two tokens may touch only when one of them is a one-character punctuator
            return s

    def render(self, classes, fixed: dict | None = None, plain: bool = False):
        """fixed: {index: source body} for value tokens whose body is prescribed (block-string enumeration)."""
        toks, lexemes = [], []
        for i, k in enumerate(classes):
            t, lx = self.token(k, (fixed or {}).get(i))
            toks.append(t)
            lexemes.append(lx)
        if plain:
            text = " ".join(lexemes)
        else:
            parts = [self.rng.choice(EDGES)]
            if parts[0] == "# tail":
                parts[0] = ""
            for i, lx in enumerate(lexemes):
                if i:
                    parts.append(self.sep(classes[i - 1], classes[i]))
                parts.append(lx)
            parts.append(self.rng.choice(EDGES))
            text = "".join(parts)
        return toks, cps(text)


# ---------------------------------------------------------------------------------------------------------
# TLC runs
# ---------------------------------------------------------------------------------------------------------
GEN_BOUNDS = {
    # (MaxLen, MaxMutLen, MaxProbeLen, MaxProbeInsLen, simulated documents, Fuel)
    ("exec", "quick"): (8, 4, 7, 0, 350, 12), ("exec", "thorough"): (10, 5, 8, 0, 2000, 18),
    ("sdl", "quick"): (6, 3, 5, 0, 350, 12), ("sdl", "thorough"): (7, 4, 6, 6, 2000, 18),
}
BLOCK_BOUND = {"quick": 3, "thorough": 5}
MUT_KINDS = {"drop", "dup", "swap", "trunc", "replace", "insert"}


def _write_cfg(path: Path, consts: dict, invariant: str):
    lines = ["CONSTANTS"]
    for k, v in consts.items():
        lines.append(f"  {k} = {json.dumps(v) if isinstance(v, str) else v}")
    lines += ["INIT Init", "NEXT Next", f"INVARIANT {invariant}"]
    path.write_text("\n".join(lines) + "\n")


def par(jobs: dict, limit: int = 5):
    """Run independent TLC invocations concurrently (they are separate JVMs).  jobs: name -> thunk."""
    from concurrent.futures import ThreadPoolExecutor
    with ThreadPoolExecutor(max_workers=max(1, min(limit, len(jobs)))) as ex:
        futs = {name: ex.submit(fn) for name, fn in jobs.items()}
        return {name: f.result() for name, f in futs.items()}


def tlc_gen(chk: vlib.Check, which: str, mode: str):
    max_len, max_mut, max_probe, max_ins, nsim, fuel = GEN_BOUNDS[(which, chk.tier)]
    cfg = chk.work / f"gen-{which}-{mode}.cfg"
    # (no -coverage here: TLC's coverage instrumentation of the recursive FIRST/FOLLOW fixpoints exhausts the heap;
    #  non-vacuity is established from what was emitted and, in judge(), from the productions exercised)
    if mode == "mc":
        _write_cfg(cfg, {"Which": which, "Mode": "mc", "MaxLen": max_len, "MaxMutLen": max_mut, "MaxProbeLen": max_probe,
                         "MaxProbeInsLen": max_ins, "Fuel": 0}, "Emitted")
        r = vlib.tlc(SPEC / "GqlGen.tla", cfg, workers=3, timeout=1500, seed=chk.seed,
                     metadir=chk.work / f"md-gen-{which}-mc")
    else:
        _write_cfg(cfg, {"Which": which, "Mode": "sim", "MaxLen": 0, "MaxMutLen": 0, "MaxProbeLen": 0, "MaxProbeInsLen": 0,
                         "Fuel": fuel}, "Emitted")
        r = vlib.tlc(SPEC / "GqlGen.tla", cfg, workers=1, timeout=1500, simulate=f"num={nsim}", depth=4000,
                     seed=chk.seed, metadir=chk.work / f"md-gen-{which}-sim")
    if r.violated:
        raise vlib.ToolError(f"GqlGen ({which}, {mode}) reported {r.violated}\n{r.out[-2000:]}")
    return r


def tlc_blockgen(chk: vlib.Check):
    cfg = chk.work / "blockgen.cfg"
    _write_cfg(cfg, {"MaxBody": BLOCK_BOUND[chk.tier]}, "Emitted")
    r = vlib.tlc(SPEC / "BlockStringGen.tla", cfg, workers=2, timeout=900, coverage=True, seed=chk.seed,
                 metadir=chk.work / "md-blockgen")
    if r.violated:
        raise vlib.ToolError(f"BlockStringGen reported {r.violated}")
    return r


def generate_all(chk: vlib.Check, grammars):
    """All generator runs of this check, concurrently.  Returns ({which: (docs, muts)}, block-string bodies)."""
    jobs = {"block": lambda: tlc_blockgen(chk)}
    for w in grammars:
        jobs[f"{w}:mc"] = (lambda w=w: tlc_gen(chk, w, "mc"))
        jobs[f"{w}:sim"] = (lambda w=w: tlc_gen(chk, w, "sim"))
    res = par(jobs)
    rb = res["block"]
    chk.add_tlc(f"BlockStringGen MaxBody={BLOCK_BOUND[chk.tier]}", rb)
    chk.require_coverage(rb, ["Next"])
    bodies = [v["b"] for t, v in rb.printed if t == "BS"]
    if not bodies:
        raise vlib.ToolError("BlockStringGen emitted nothing")
    chk.cov.setdefault("generated", {})["block_string_bodies"] = len(bodies)
    out = {}
    for which in grammars:
        max_len, max_mut, max_probe, max_ins, nsim, fuel = GEN_BOUNDS[(which, chk.tier)]
        docs, muts, n = {}, {}, {"mc": 0, "sim": 0}
        for mode in ("mc", "sim"):
            r = res[f"{which}:{mode}"]
            chk.add_tlc(f"GqlGen {which} mc MaxLen={max_len} MaxMutLen={max_mut}" if mode == "mc" else
                        f"GqlGen {which} simulate num={nsim} Fuel={fuel}", r, count_states=(mode == "mc"))
            for tag, val in r.printed:
                if tag == "DOC":
                    docs.setdefault(tuple(val), mode)
                    n[mode] += 1
                elif tag == "MUT":
                    muts.setdefault(tuple(val["t"]), val["m"] + (":probe" if val["probe"] else ""))
        if n["mc"] == 0 or n["sim"] == 0:
            raise vlib.ToolError(f"generator produced no documents ({which}: {n})")
        kinds = {k.split(":")[0] for k in muts.values()}
        if kinds != MUT_KINDS:
            raise vlib.ToolError(f"vacuous generator run ({which}): mutation kinds never applied: {MUT_KINDS - kinds}")
        for d in docs:
            muts.pop(d, None)
        chk.cov["generated"][which] = {"documents_mc": n["mc"], "documents_sim": n["sim"],
                                       "distinct_documents": len(docs), "distinct_mutants": len(muts),
                                       "exhaustive_up_to_tokens": max_len, "all_mutants_up_to_tokens": max_mut,
                                       "probe_word_replacements_up_to_tokens": max_probe,
                                       "probe_word_insertions_up_to_tokens": max_ins}
        out[which] = (docs, muts)
    return out, bodies


# ---------------------------------------------------------------------------------------------------------
# harness + judging
# ---------------------------------------------------------------------------------------------------------
TRACE_MODULE = {"relay_exec": "GqlTraceExec", "relay_sdl": "GqlTraceSdl", "iso_schema": "GqlTraceIso",
                "iso_ext": "GqlTraceIso"}
NONE_TREE = {"t": "none", "s": "", "v": [], "k": []}


def run_harness(bindir: Path, cases):
    """cases: list of dict(id, api, toks, text, origin).  Adds the harness' observation to each case."""
    inp = "\n".join(json.dumps({"id": c["id"], "api": c["api"], "text": c["text"]}, separators=(",", ":")) for c in cases)
    p = vlib.run_bin(bindir / "h_gql", input=inp + "\n", timeout=900)
    by_id = {}
    for line in p.stdout.splitlines():
        if line.strip():
            o = json.loads(line)
            by_id[o["id"]] = o
    if len(by_id) != len(cases):
        raise vlib.ToolError(f"h_gql answered {len(by_id)} of {len(cases)} requests\n{p.stderr[-2000:]}")
    for c in cases:
        c["obs"] = by_id[c["id"]]


def record_of(c):
    o = c["obs"]
    rt = o.get("rt") or {"ok": True, "tree": NONE_TREE}
    return {"id": c["id"], "api": c["api"], "toks": c["toks"], "lex": o["lex"], "accept": o["accept"],
            "panic": o["panic"], "tree": o["tree"], "errtok": o["errtok"],
            "rt": {"ok": rt["ok"], "tree": rt["tree"]}}


def tlc_judge(chk: vlib.Check, part, module: str, name: str):
    trace = chk.work / f"trace-{name}.ndjson"
    vlib.write_ndjson(trace, [record_of(c) for c in part])
    r = vlib.tlc(SPEC / f"{module}.tla", SPEC / f"{module}.cfg", workers=1, timeout=1500, dfs=True,
                 env={"TRACE": str(trace)}, metadir=chk.work / f"md-{name}", heap="4g")
    if r.violated:
        raise vlib.ToolError(f"{module} on {trace.name}: unexpected {r.violated}\n{r.out[-3000:]}")
    if r.distinct != len(part) + 1:
        raise vlib.ToolError(f"{module}: {r.distinct} states for {len(part)} records (trace not fully consumed)\n{r.out[-3000:]}")
    return r


def judge_all(chk: vlib.Check, groups: dict, batch: int = 8000, count: bool = True):
    """groups: label -> (module, cases).  Validates every observation with TLC (batches run concurrently).
    Returns label -> (bad, stats) with bad = list of (case, BAD payload)."""
    jobs, parts = {}, {}
    for label, (module, cases) in groups.items():
        for n, part in enumerate(vlib.chunks(cases, batch)):
            name = f"{label}-{n}"
            parts[name] = (label, module, part)
            jobs[name] = (lambda part=part, module=module, name=name: tlc_judge(chk, part, module, name))
    res = par(jobs) if jobs else {}
    out = {}
    for label, (module, cases) in groups.items():
        out[label] = ([], {"acceptBoth": 0, "rejectBoth": 0, "treesCompared": 0, "noVerdict": 0, "roundTrips": 0,
                           "_used": set(), "_all": set()})
    for name, r in res.items():
        label, module, part = parts[name]
        bad, stats = out[label]
        by_id = {c["id"]: c for c in part}
        chk.add_tlc(f"{module} {name} records={len(part)}", r, count_states=False)
        got_stats = False
        for tag, val in r.printed:
            if tag == "BAD":
                bad.append((by_id[val["id"]], val))
            elif tag == "STATS":
                got_stats = True
                for k in ("acceptBoth", "rejectBoth", "treesCompared", "noVerdict", "roundTrips"):
                    stats[k] += val[k]
                stats["_used"] |= {(a, b) for a, b in val["prodsUsed"]}
                stats["_all"] |= {(a, b) for a, b in val["prodsAll"]}
        if not got_stats:
            raise vlib.ToolError(f"{module}: no STATS line (trace validation did not reach the end)")
        if count:
            chk.cov["traces_validated_against_impl"] += len(part)
    for label, (bad, stats) in out.items():
        used, allp = stats.pop("_used"), stats.pop("_all")
        stats["productions_exercised"] = len(used)
        stats["productions_of_grammar"] = len(allp)
        stats["productions_never_exercised"] = sorted(f"{a}/{b}" for a, b in allp - used)
    return out


# ---------------------------------------------------------------------------------------------------------
# naming the findings TLC reports (classification only; the verdict is TLC's)
# ---------------------------------------------------------------------------------------------------------
def first_diff(exp, got, path=""):
    """path of tags to the first difference between two trees + which aspect differs."""
    here = f"{path}/{exp['t']}" if path else exp["t"]
    if exp["t"] != got["t"]:
        return path or "root", f"tag({exp['t']}!={got['t']})", exp, got
    if exp["s"] != got["s"]:
        return here, "name", exp, got
    if exp["v"] != got["v"]:
        return here, "value", exp, got
    ek, gk = exp["k"], got["k"]
    for i in range(min(len(ek), len(gk))):
        if ek[i]["t"] != gk[i]["t"]:
            if i + 1 < len(ek) and ek[i + 1]["t"] == gk[i]["t"] or len(ek) > len(gk):
                return here, f"missing({ek[i]['t']})", exp, got
            if i + 1 < len(gk) and gk[i + 1]["t"] == ek[i]["t"] or len(gk) > len(ek):
                return here, f"extra({gk[i]['t']})", exp, got
        d = first_diff(ek[i], gk[i], here)
        if d:
            return d
    if len(ek) != len(gk):
        if len(ek) > len(gk):
            return here, f"missing({ek[len(gk)]['t']})", exp, got
        return here, f"extra({gk[len(ek)]['t']})", exp, got
    return None


def value_feature(exp_v, got_v):
    i = 0
    while i < min(len(exp_v), len(got_v)) and exp_v[i] == got_v[i]:
        i += 1
    g = got_v[i:i + 5]
    if g[:1] == [92]:
        if g[1:4] == [34, 34, 34]:
            return "escaped-triple-quote-raw"
        if g[1:2] == [117]:
            return "unicode-escape-raw"
        return "escape-raw"
    if 13 in got_v:
        return "cr-line-terminator"
    return "differs"


GRAMMAR_OF = {"relay_exec": "exec", "relay_sdl": "sdl", "iso_schema": "sdl", "iso_ext": "sdl"}
PLAIN = {"NAME": "a", "INT": "7", "FLOAT": "1.5", "STRING": "abc", "BLOCKSTRING": "abc"}
VALUE_CTX = {"arg", "list", "objfield", "default"}
VALUE_CLASSES = {"INT", "FLOAT", "STRING", "BLOCKSTRING"}
STRINGISH = {"STRING": "<string>", "BLOCKSTRING": "<string>"}


def slug(msg: str, n: int = 48) -> str:
    out = "".join(c if c.isalnum() else "-" for c in msg.strip())[:n]
    while "--" in out:
        out = out.replace("--", "-")
    return out.strip("-")


def verdict_key(case, val):
    """(direction, where) of a verdict disagreement: the state of the grammar's machine at the token in question."""
    accepts = case["obs"]["accept"]
    w = val["stuck"] if accepts else val["probe"]
    return ("accepts-invalid" if accepts else "rejects-valid"), w


def at_name(case, w):
    la = w["la"]
    if la == "$":
        return "<end>"
    if la == "INT" and 1 <= w["pos"] <= len(case["toks"]) and len(case["toks"][w["pos"] - 1]["src"]) > 18:
        return "INT(beyond-i64)"
    return la


def in_name(w, at):
    inn = w["inn"] or "document"
    if inn == "root":
        inn = "document"
    if inn == "enumvalue":      # an enum value after its description: same place as one without
        inn = "values"
    if inn in VALUE_CTX and (at in VALUE_CLASSES or at.startswith("INT(")):
        return "value"
    return inn


def plain_text(toks):
    return cps(" ".join(lexeme(t) for t in toks))


def plain_token(t):
    v = PLAIN[t["k"]]
    return {"k": t["k"], "s": v if t["k"] == "NAME" else "", "src": [] if t["k"] == "NAME" else cps(v)}


def is_plain(t):
    if t["k"] not in PLAIN:
        return True
    return (t["s"] == PLAIN["NAME"]) if t["k"] == "NAME" else (t["src"] == cps(PLAIN[t["k"]]))


def payload_feature(t):
    """Name of the lexical matter, at the level of the token class (never the seed-chosen text)."""
    if t["k"] == "INT" and len(t["src"]) > 18:
        return "INT(beyond-i64)"
    return t["k"]


def raw_key(case, val):
    direction, w = verdict_key(case, val)
    return (case["api"], direction, w["inn"], w["la"], at_name(case, w))


def make_probes(bad, ids):
    """For one witness of every distinct verdict disagreement (direction + state of the grammar's machine):
      cut     the document cut just before the token in question -- if the cut document shows the same disagreement at
              its end, the finding is `a required part may be omitted / an optional part is required`, whatever follows;
      plain   the same tokens separated by single spaces -- if the disagreement disappears, the ignored text caused it;
      tok:i   additionally token i replaced by the plainest representative of its class -- if the disagreement
              disappears, that representative (a lexical matter) caused it, not the structure."""
    probes, owner = [], {}
    for case, val in bad:
        if "verdict" not in val["fails"] or case["obs"]["panic"]:
            continue
        key = raw_key(case, val)
        if key in owner:
            continue
        direction, w = verdict_key(case, val)
        mine = {}
        toks = case["toks"]

        def add(kind, tk):
            pc = {"id": next(ids), "api": case["api"], "toks": tk, "text": plain_text(tk), "origin": f"probe:{kind}"}
            mine[kind] = pc
            probes.append(pc)
        if w["la"] != "$" and w["pos"] <= len(toks):
            add("cut", toks[:w["pos"] - 1])
        add("plain", toks)
        if w["la"] in RESERVED and w["pos"] <= len(toks):
            # is it this word, or would any name do?  (the same document with a plain name in its place)
            i = w["pos"] - 1
            add("la-name", toks[:i] + [{"k": "NAME", "s": PLAIN["NAME"], "src": []}] + toks[i + 1:])
        for i, t in [(i, t) for i, t in enumerate(toks) if not is_plain(t)][:48]:
            add(f"tok:{i}", toks[:i] + [plain_token(t)] + toks[i + 1:])
        owner[key] = (case, mine)
    # tree disagreements that are not about a string value: is a numeric representative the cause?
    for case, val in bad:
        if "tree" not in val["fails"]:
            continue
        d = first_diff(val["expected"], case["obs"]["tree"])
        if d is None or (d[1] == "value" and d[0].split("/")[-1] in ("string", "desc")):
            continue
        key = ("tree", case["api"], d[0].split("/")[-1], d[1])
        if key in owner:
            continue
        mine = {}
        toks = case["toks"]
        for i, t in [(i, t) for i, t in enumerate(toks) if t["k"] in ("INT", "FLOAT") and not is_plain(t)][:24]:
            pc = {"id": next(ids), "api": case["api"], "toks": toks[:i] + [plain_token(t)] + toks[i + 1:],
                  "origin": f"probe:tok:{i}"}
            pc["text"] = plain_text(pc["toks"])
            mine[f"tok:{i}"] = pc
            probes.append(pc)
        owner[key] = (case, mine)
    return probes, owner


def lexeme(t):
    src = "".join(chr(c) for c in t["src"])
    if t["k"] == "STRING":
        return '"' + src + '"'
    if t["k"] == "BLOCKSTRING":
        return '"""' + src + '"""'
    if t["k"] in ("INT", "FLOAT"):
        return src
    return t["s"]


def message_category(msg: str) -> str:
    import re
    m = re.sub(r"\(.*?\)", "", msg.strip())
    m = re.split(r", found|\. | found |: <generated>|\n", m)[0]
    return slug(m, 40)


def signatures(prop: str, case, val, resolved: dict):
    """One canonical signature per failure tag TLC reported for this observation."""
    g = GRAMMAR_OF[case["api"]]
    out = []
    o = case["obs"]
    for f in sorted(val["fails"]):
        if f == "panic":
            out.append((f"{prop}:{g}:panic:{slug(o['err'])}", f"parser panicked: {o['err'][:160]!r}"))
        elif f == "verdict":
            if o["panic"]:
                continue            # reported as a panic
            direction, w = verdict_key(case, val)
            res = resolved.get(raw_key(case, val), ("structure", None))
            if res[0] == "ignored-text":
                out.append((f"{prop}:{g}:{direction}:ignored-text",
                            f"verdict differs from the grammar's only with this text between the tokens ({o['err'].strip()[:80]!r})"))
                continue
            if res[0] == "payload":
                out.append((f"{prop}:{g}:{direction}:payload={res[1]}",
                            f"verdict differs from the grammar's only for this representative of the token class: {res[1]} "
                            f"({o['err'].strip()[:80]!r})"))
                continue
            at = "<end>" if res[0] == "end" else "NAME" if res[0] == "any-name" else at_name(case, w)
            at = STRINGISH.get(at, at)
            if direction == "accepts-invalid":
                out.append((f"{prop}:{g}:accepts-invalid:in={in_name(w, at)}:at={at}",
                            f"accepts a document the June 2018 grammar rejects (inside `{w['inn'] or 'document'}` the "
                            f"grammar wants {w['want']} but token {w['pos']} is {w['la']})"))
            else:
                out.append((f"{prop}:{g}:rejects-valid:{message_category(o['err'])}:at={at}",
                            f"rejects a document the grammar accepts ({o['err'].strip()[:100]!r} at token "
                            f"{o['errtok']}, inside `{w['inn']}`)"))
        elif f == "tree":
            d = first_diff(val["expected"], o["tree"])
            if d is None:
                out.append((f"{prop}:{g}:tree:undiagnosed", "trees differ"))
                continue
            path, what, e, gt = d
            leaf = path.split("/")[-1]
            res = resolved.get(("tree", case["api"], leaf, what))
            if res:
                out.append((f"{prop}:{g}:tree:payload={res[1]}",
                            f"tree differs from the specification's ({path}: {what}) only for this representative of the "
                            f"token class: {res[1]}"))
            elif what == "value" and leaf in ("string", "desc"):
                out.append((f"{prop}:{g}:tree:{leaf}:{value_feature(e['v'], gt['v'])}",
                            f"{leaf} value differs from the specification's value at {path}: expected {e['v'][:24]} got {gt['v'][:24]}"))
            else:
                out.append((f"{prop}:{g}:tree:{leaf}:{what}", f"tree differs at {path}: {what}"))
        elif f == "roundtrip":
            rt = o["rt"]

            def strings(n):
                if n["t"] in ("string", "desc"):
                    yield n["v"]
                for k in n["k"]:
                    yield from strings(k)
            vs = list(strings(o["tree"]))
            # a string value that cannot be written verbatim between two quotes
            feat = ("quote" if any(34 in v for v in vs) else
                    "line-terminator" if any(10 in v or 13 in v for v in vs) else
                    "backslash" if any(92 in v for v in vs) else None)
            d = first_diff(o["tree"], rt["tree"]) if rt["ok"] else None
            if d and d[1].startswith("missing(desc"):
                out.append((f"{prop}:{g}:roundtrip:tree:{d[0].split('/')[-1]}:{d[1]}",
                            f"re-parsed tree differs from the first tree at {d[0]}: {d[1]}"))
            elif feat:
                how = "does not re-parse" if not rt["ok"] else f"re-parses to a different tree ({d[0]}: {d[1]})" if d else "?"
                out.append((f"{prop}:{g}:roundtrip:string-printed-verbatim:{feat}",
                            f"the printer writes a string value containing a {feat} verbatim between quotes; the printed text {how}"))
            elif not rt["ok"]:
                out.append((f"{prop}:{g}:roundtrip:printed-text-does-not-parse",
                            f"print(parse(doc)) does not re-parse: {rt['err'].strip()[:100]!r}"))
            else:
                path, what = (d[0], d[1]) if d else ("?", "?")
                out.append((f"{prop}:{g}:roundtrip:tree:{path.split('/')[-1]}:{what}",
                            f"re-parsed tree differs from the first tree at {path}: {what}"))
        elif f == "lex":
            out.append((f"{prop}:{g}:lexer-classes", "the real lexer did not cut the text into the intended token classes"))
        elif f == "generator":
            raise vlib.ToolError(f"generator produced an ill-formed token in case {case['id']}: {case['toks']}")
    return out


def classify(chk: vlib.Check, bindir: Path, bad, ids):
    """Second round (see make_probes), judged by the same TLA+ predicates.  Returns raw key -> resolution."""
    probes, owner = make_probes(bad, ids)
    resolved = {}
    if not probes:
        return resolved
    run_harness(bindir, probes)
    by_module = {}
    for pc in probes:
        by_module.setdefault(TRACE_MODULE[pc["api"]], []).append(pc)
    verdicts = {}
    judged = judge_all(chk, {f"probe-{m}": (m, pcs) for m, pcs in by_module.items()}, count=False)
    for pbad, _ in judged.values():
        for c, v in pbad:
            verdicts[c["id"]] = (c, v)

    def same(pc, direction):
        cv = verdicts.get(pc["id"])
        if not cv or "verdict" not in cv[1]["fails"] or cv[0]["obs"]["panic"]:
            return None
        d, w = verdict_key(*cv)
        return w if d == direction else None

    def where(w):
        return None if w is None else (w["pos"], w["la"], w["inn"])

    for key, (case, mine) in owner.items():
        if key[0] == "tree":
            culprit = [k for k in mine if mine[k]["id"] not in verdicts or "tree" not in verdicts[mine[k]["id"]][1]["fails"]]
            if culprit:
                resolved[key] = ("payload", payload_feature(case["toks"][int(culprit[0][4:])]))
            continue
        direction = key[1]
        w0 = same(mine["plain"], direction)
        if w0 is None:
            resolved[key] = ("ignored-text", None)
            continue
        # a representative is the cause if making it plain removes THIS disagreement (another one may remain elsewhere)
        culprit = [k for k in mine if k.startswith("tok:") and where(same(mine[k], direction)) != where(w0)]
        if culprit:
            resolved[key] = ("payload", payload_feature(case["toks"][int(culprit[0][4:])]))
            continue
        if "cut" in mine:
            w = same(mine["cut"], direction)
            if w is not None and w["la"] == "$":
                resolved[key] = ("end", None)
                continue
        if "la-name" in mine:
            w = same(mine["la-name"], direction)
            if w is not None and (w["pos"], w["inn"]) == (w0["pos"], w0["inn"]):
                resolved[key] = ("any-name", None)
    return resolved


def report(chk: vlib.Check, bindir: Path, bad, ids):
    """bad: list of (case, BAD payload).  One violation per signature, smallest witness first."""
    bad = sorted(bad, key=lambda cv: (len(cv[0]["toks"]), len(cv[0]["text"])))
    resolved = classify(chk, bindir, bad, ids)
    counts = {}
    for case, val in bad:
        for sig, what in signatures(chk.prop, case, val, resolved):
            counts[sig] = counts.get(sig, 0) + 1
            text = "".join(chr(c) for c in case["text"])
            chk.violation(sig, f"{what}; input: {text!r}",
                          {"engine": "gqlgrammar", "api": case["api"], "text": case["text"], "toks": case["toks"],
                           "origin": case["origin"], "observed": case["obs"], "tlc": val})
    chk.cov["disagreements_by_signature"] = dict(sorted(counts.items()))


# ---------------------------------------------------------------------------------------------------------
# case construction
# ---------------------------------------------------------------------------------------------------------
def make_cases(con: Concretiser, api: str, docs, muts, ids, variants: int = 1):
    cases = []
    for origin, seqs in (("doc", docs), ("mutant", muts)):
        for classes, how in seqs.items():
            for v in range(variants if origin == "doc" else 1):
                toks, text = con.render(list(classes))
                cases.append({"id": next(ids), "api": api, "toks": toks, "text": text, "origin": f"{origin}:{how}"})
    return cases


EXEC_WRAP = ["{", "NAME", "(", "NAME", ":", "BLOCKSTRING", ")", "}"]
SDL_WRAPS = [
    ["type", "NAME", "{", "BLOCKSTRING", "NAME", "(", "NAME", ":", "NAME", "=", "BLOCKSTRING", ")", ":", "NAME", "}"],
    ["BLOCKSTRING", "directive", "@", "NAME", "on", "FIELD"],
    ["BLOCKSTRING", "enum", "NAME", "{", "BLOCKSTRING", "NAME", "}"],
]


def block_cases(con: Concretiser, api: str, bodies, ids):
    """Every body inside an argument (exec) / inside descriptions and a default value (sdl).  Bodies of the maximal
    length (the bulk) go into one of the sdl documents each, in rotation; shorter ones into all three."""
    cases = []
    longest = max(len(b) for b in bodies)
    for n, b in enumerate(bodies):
        body = "".join(chr(c) for c in b)
        wraps = [EXEC_WRAP] if api == "relay_exec" else SDL_WRAPS
        if api != "relay_exec" and len(b) == longest and longest > 3:
            wraps = [SDL_WRAPS[n % len(SDL_WRAPS)]]
        for w in wraps:
            fixed = {i: body for i, k in enumerate(w) if k == "BLOCKSTRING"}
            toks, text = con.render(w, fixed=fixed, plain=True)
            cases.append({"id": next(ids), "api": api, "toks": toks, "text": text, "origin": "blockstring"})
    return cases


def classify_lexeme(lx: str):
    """Token record of one lexeme of the fixed corpus (GqlJudge.ToksOK / LexAgree re-check it in TLA+)."""
    if lx.startswith('"""'):
        return {"k": "BLOCKSTRING", "s": "", "src": cps(lx[3:-3])}
    if lx.startswith('"'):
        return {"k": "STRING", "s": "", "src": cps(lx[1:-1])}
    if lx[0].isdigit() or lx[0] == "-":
        return {"k": "FLOAT" if any(c in lx for c in ".eE") else "INT", "s": "", "src": cps(lx)}
    if lx in PUNCT or lx in RESERVED:
        return {"k": lx, "s": lx, "src": []}
    return {"k": "NAME", "s": lx, "src": []}


def corpus_cases(apis, ids):
    """The fixed corpus: one minimal document per known class of disagreement (spec/gqlgrammar/findings_corpus.json),
    judged on every run by the same TLA+ predicates, so that what is reported does not depend on the seed."""
    cases = []
    for e in json.loads((SPEC / "findings_corpus.json").read_text()):
        toks = [classify_lexeme(lx) for lx in e["lexemes"]]
        text = cps(" ".join(e["lexemes"]) + e.get("suffix", ""))
        for api in e["apis"]:
            if api in apis:
                cases.append({"id": next(ids), "api": api, "toks": toks, "text": text, "origin": f"corpus:{e['note']}"})
    return cases


def counter(start=1):
    n = start
    while True:
        yield n
        n += 1


def run(chk: vlib.Check) -> None:
    bindir = vlib.cargo_build("h_gql")
    con = Concretiser(chk.seed)
    ids = counter()
    variants = 1
    corpus_only = os.environ.get("VERIF_GQL_ONLY") == "corpus"      # development aid: judge the fixed corpus only
    grammars = ["exec", "sdl"] if chk.prop == "C29" else ["sdl"]
    if corpus_only:
        gens, bodies = {w: ({}, {}) for w in grammars}, []
    else:
        gens, bodies = generate_all(chk, grammars)
    if chk.prop == "C29":
        plan = [("exec", "relay_exec", "exec", True), ("sdl", "relay_sdl", "sdl", True)]
    else:
        plan = [("schema-doc", "iso_schema", "sdl", True), ("extension-doc", "iso_ext", "sdl", False)]
    groups, samples = {}, []
    for label, api, which, with_blocks in plan:
        docs, muts = gens[which]
        if api == "iso_ext":        # the second entry point shares all code below the document level: no probe-word mutants
            muts = {t: k for t, k in muts.items() if not k.endswith(":probe")}
        cases = make_cases(con, api, docs, muts, ids, variants=variants)
        if with_blocks and bodies:
            cases += block_cases(con, api, bodies, ids)
        cases += corpus_cases({api}, ids)
        run_harness(bindir, cases)
        groups[label] = (TRACE_MODULE[api], cases)
        for c in cases[:1] + cases[len(docs) * variants:len(docs) * variants + 1]:
            samples.append({"api": api, "origin": c["origin"], "text": "".join(chr(x) for x in c["text"]),
                            "classes": [t["k"] for t in c["toks"]], "accepted": c["obs"]["accept"]})
    judged = judge_all(chk, groups)
    all_bad, totals = [], {}
    for label, (bad, stats) in judged.items():
        all_bad.extend(bad)
        totals[label] = dict(stats, observations=len(groups[label][1]), disagreeing=len(bad))
    if chk.prop == "C29":
        chk.assumptions += [
            "reference = the June 2018 grammar written as TLA+ (GqlExecGrammar, SdlGrammar, GqlLex, BlockString); no second GraphQL implementation exists in the sandbox",
            "lexical fidelity is judged per class with seed-chosen representatives, not per code point; generated text stays inside the June 2018 SourceCharacter set",
            "a number is never rendered directly against a following name / dot (June 2018 has no lookahead restriction there and implementations differ); adjacent tokens touch only when one of them is a one-character punctuator",
            "relay's tree has no description slot on scalar/type/interface/union/enum/input/enum value/input value: descriptions are compared only where the tree can show them (field and directive definitions)",
            "tree equality is equality of the JSON projection (definitions, names, arguments, values, type annotations, directives); spans and tokens are not part of it",
            "trusted base: engines/gqlgrammar.py Concretiser (rendering of token classes to text), harness/h_gql (projection to JSON)",
        ]
    else:
        chk.cov["supported_subset"] = {
            "schema document (parse_schema)": "every June 2018 TypeSystemDefinition (schema, scalar, type, interface, union, enum, input, directive) with all parts; no TypeSystemExtension",
            "extension document (parse_schema_extensions)": "the same definitions plus `extend type` (ObjectTypeExtension) only",
            "no verdict demanded": "valid June 2018 SDL that uses extend schema/scalar/interface/union/enum/input (or extend type in a schema document); a root operation type given twice (grammatical, rejected by validation)",
            "must be rejected": "everything the June 2018 type-system grammar rejects",
        }
        chk.assumptions += [
            "reference = the June 2018 type-system grammar written as TLA+ (SdlGrammar with feature sets; the supported subset is SdlG({ext_type}), see GqlTraceIso.tla)",
            "lexical fidelity is judged per class with seed-chosen representatives, not per code point",
            "the order of root operation types inside a schema definition is not observable in GraphQLSchemaDefinition and is not compared",
            "trusted base: engines/gqlgrammar.py Concretiser, harness/h_gql projection",
        ]
    report(chk, bindir, all_bad, ids)
    chk.cov["per_run"] = totals
    chk.cov["evaluations"] = sum(t["observations"] for t in totals.values())
    chk.cov["distinct_nontrivial"] = sum(t["acceptBoth"] + t["rejectBoth"] for t in totals.values())
    chk.cov["rule"] = ("documents: every derivation of the June 2018 grammar up to the stated token bound (TLC, exhaustive) + "
                       "seeded random derivations (TLC -simulate); mutants: one drop/duplicate/swap/truncate/replace/insert "
                       "of a token; block-string bodies: every string over {space,tab,LF,CR,quote,backslash,a} up to the "
                       "stated length.  distinct_nontrivial = observations where specification and parser gave the same "
                       "definite verdict and (if accepted) equal trees were compared; class sequences are deduplicated")
    chk.cov["exhaustive"] = False
    chk.cov["samples"] = samples[:6]
    chk.cov["trusted_base"] = ["engines/gqlgrammar.py:Concretiser", "harness/h_gql (projection)", "TLC"]
    for label, t in totals.items():
        if corpus_only:
            break
        # non-vacuity: every production of the grammar must have been exercised (thorough); quick tolerates a few
        missing = t["productions_never_exercised"]
        if missing and (chk.tier == "thorough" or len(missing) * 10 > t["productions_of_grammar"]):
            raise vlib.ToolError(f"vacuous run ({label}): productions of the grammar never exercised: {missing}")
        if min(t["acceptBoth"], t["rejectBoth"]) == 0:
            raise vlib.ToolError(f"vacuous run ({label}): acceptBoth={t['acceptBoth']} rejectBoth={t['rejectBoth']}")


def replay(prop: str, path: Path, seed: int) -> int:
    """Re-run one replay file: same text through the harness, same TLA+ judgement.  0 = holds, 1 = still violates."""
    import shutil
    rp = json.loads(Path(path).read_text())
    chk = vlib.Check(prop, "quick", seed, level="model_checking")
    try:
        bindir = vlib.cargo_build("h_gql")
        ids = counter(2)
        case = {"id": 1, "api": rp["api"], "toks": rp["toks"], "text": rp["text"], "origin": rp.get("origin", "replay")}
        run_harness(bindir, [case])
        bad, _ = judge_all(chk, {"replay": (TRACE_MODULE[rp["api"]], [case])}, count=False)["replay"]
        resolved = classify(chk, bindir, bad, ids)
        sigs = [s for c, v in bad for s, _ in signatures(prop, c, v, resolved)]
        still = rp.get("signature") in sigs if rp.get("signature") else bool(sigs)
        if still:
            print(f"VIOLATION property={prop} replay={path}", flush=True)
        else:
            print(f"replay holds: {path} (signatures now: {sigs})", flush=True)
        return 1 if still else 0
    finally:
        shutil.rmtree(chk.work, ignore_errors=True)


def selftest(seed: int = 1) -> int:
    """Binding self-test (1): corrupt one recorded field of good observations and show that TLC rejects each.
    Prints one line per corruption; returns 0 when every corruption was rejected and the intact records were not."""
    import copy
    import shutil
    chk = vlib.Check("C29", "quick", seed)
    try:
        bindir = vlib.cargo_build("h_gql")
        con = Concretiser(seed)
        docs = {"relay_exec": ["{", "NAME", "(", "NAME", ":", "INT", ")", "{", "NAME", "}", "}"],
                "relay_sdl": ["type", "NAME", "implements", "NAME", "{", "NAME", ":", "[", "NAME", "!", "]", "}"],
                "iso_schema": ["enum", "NAME", "{", "NAME", "NAME", "}"]}
        cases, ids = [], counter()
        for api, classes in docs.items():
            toks, text = con.render(classes, plain=True)
            cases.append({"id": next(ids), "api": api, "toks": toks, "text": text, "origin": "selftest"})
        run_harness(bindir, cases)
        corrupted = []
        for c in cases:
            for what in ("verdict", "name", "dropped-node", "lexer-kind"):
                d = copy.deepcopy(c)
                d["id"] = next(ids)
                d["origin"] = f"corrupt:{what}"
                o = d["obs"]
                if what == "verdict":
                    o["accept"] = False
                elif what == "name":
                    o["tree"]["k"][0]["s"] = o["tree"]["k"][0]["s"] + "x"
                elif what == "dropped-node":
                    o["tree"]["k"][0]["k"].pop()
                else:
                    o["lex"][1]["k"] = "IntegerLiteral"
                corrupted.append(d)
        groups = {}
        for c in cases + corrupted:
            groups.setdefault(TRACE_MODULE[c["api"]], []).append(c)
        judged = judge_all(chk, {m: (m, cs) for m, cs in groups.items()}, count=False)
        flagged = {c["id"]: v["fails"] for bad, _ in judged.values() for c, v in bad}
        ok = True
        for c in cases:
            good = c["id"] not in flagged
            ok &= good
            print(f"intact    {c['api']:11s} {'accepted by TLC' if good else 'REJECTED ' + str(flagged[c['id']])}")
        for d in corrupted:
            hit = d["id"] in flagged
            ok &= hit
            print(f"{d['origin']:22s} {d['api']:11s} {'rejected by TLC: ' + str(flagged[d['id']]) if hit else 'NOT DETECTED'}")
        return 0 if ok else 1
    finally:
        shutil.rmtree(chk.work, ignore_errors=True)


if __name__ == "__main__":
    import sys
    sys.exit(selftest())
