"""Engine `watch` — decides C20 (watch mode == fresh batch compile, and the watcher keeps running).

  1. build harness/h_watch (hook export verif_categorize_and_filter_events in isograph_compiler::watch)
  2. TLC model-checks spec/watch/Watch.tla: every history of file-system edits (with the debounced
     events of the NotifyModel) against layer B (transcription of watch.rs + source_files.rs);
     every step in which B leaves layer A is explained by a NAMED DEVIATION; one replay per transition
  3. spec -> impl: each replay runs on the real code: real FS edits in a temp project, synthesised
     DebouncedEvents through the real categorisation + update_sources, then the live database's
     artifacts/diagnostics are compared with a fresh CompilerState on the same disk
  4. impl -> spec: TLC (WatchTrace.tla, layer A) judges every recorded history
  5. a history that layer A rejects is signed with the deviations layer B names for it
     (C20:<Dev...>) — listed genuine defects are KNOWN-FINDINGs, anything else a VIOLATION;
     a rejected history that B did not predict is signed C20:unexplained:<ops>.
"""
from __future__ import annotations

import json
import random
from pathlib import Path

import vlib
from vlib import SPEC, ToolError

LEVEL = {"C20": "model_checking"}
SP = SPEC / "watch"

# the switches describe /repo's current tree (fix: commits 25efe9b, 1fd4fb4)
FIXES = {"FixPrefix": "TRUE", "FixSourceFilter": "TRUE", "FixBoundaryMoves": "TRUE", "FixSchemaRename": "TRUE"}


def cfg_text(maxops, emit):
    return (f"SPECIFICATION Spec\nCONSTANTS\n  MaxOps = {maxops}\n  Emit = {'TRUE' if emit else 'FALSE'}\n"
            f"  FixPrefix = {FIXES['FixPrefix']}\n  FixSourceFilter = {FIXES['FixSourceFilter']}\n"
            f"  FixBoundaryMoves = {FIXES['FixBoundaryMoves']}\n  FixSchemaRename = {FIXES['FixSchemaRename']}\n"
            "VIEW View\nINVARIANT Explained\nACTION_CONSTRAINT EmitReplay\n")


def run_harness(binp, chk, replays):
    inp = "\n".join(json.dumps({"id": i, "ops": r["ops"]}) for i, r in enumerate(replays)) + "\n"
    p = vlib.run_bin(binp / "h_watch", [str(chk.work / "hw")], input=inp, timeout=1500)
    out = [json.loads(l) for l in p.stdout.splitlines() if l.strip()]
    if len(out) != len(replays):
        raise ToolError(f"h_watch returned {len(out)} of {len(replays)} results\n{p.stderr[-1500:]}")
    return out


def check_notify_model(chk, binp, replays, limit):
    """The NotifyModel assumption against the real watcher stack (notify + notify-debouncer-full): for a sample of
    (history prefix, edit) pairs the real debounced events are compared with the events the model attaches to the
    edit.  Informational: a difference is an ASSUMPTION difference (drift), never a violation."""
    seen, scen = set(), []
    for rp in replays:
        ops = [o for o in rp["ops"] if o["op"] in ("write", "delete", "rename", "rmdir", "mvdir", "batch", "movein", "moveout", "movein_dir", "moveout_dir", "atomic")]
        if len(ops) != len(rp["ops"]) or not ops:
            continue
        last = ops[-1]
        if any(o["op"] in ("batch", "movein", "moveout", "movein_dir", "moveout_dir", "atomic") for o in ops[:-1]):
            continue
        key = (last["op"], last.get("p"), last.get("q"), json.dumps(last.get("edits")), len(ops))
        if key in seen:
            continue
        seen.add(key)
        base = [{"op": "write", "p": "src/a/x.ts"}, {"op": "write", "p": "src/ab/y.ts"}, {"op": "write", "p": "src/top.ts"}]
        # what the boundary moves / the atomic save need to find on disk before the watcher starts
        prep = {"movein": [{"op": "write", "p": "outside/in.ts"}],
                "moveout": [{"op": "write", "p": "outside/keep.ts"}], "moveout_dir": [{"op": "write", "p": "outside/keep.ts"}],
                "movein_dir": [{"op": "write", "p": "outside/dir/x.ts"}, {"op": "write", "p": "outside/dir/n.md"}],
                "atomic": [{"op": "write", "p": str(last.get("p")) + ".tmp"}]}.get(last["op"], [])
        base = base + prep
        scen.append({"id": len(scen), "setup": base + [{k: v for k, v in o.items() if k != "evs"} for o in ops[:-1]],
                     "edit": {k: v for k, v in last.items() if k != "evs"}, "model": last["evs"]})
        if last["op"] == "batch":
            scen[-1]["edits"] = last["edits"]
        if len(scen) >= limit:
            break
    if not scen:
        return
    inp = "\n".join(json.dumps({k: v for k, v in s.items() if k != "model"}) for s in scen) + "\n"
    p = vlib.run_bin(binp / "h_notify", [str(chk.work / "hn")], input=inp, timeout=1200, check=False)
    got = {}
    for l in p.stdout.splitlines():
        if l.strip():
            o = json.loads(l)
            got[o["id"]] = o["events"]
    diffs = []
    for s in scen:
        model = [{k: v for k, v in e.items()} for e in s["model"]]
        real = got.get(s["id"])
        if real is None:
            continue
        if real != model:
            diffs.append({"edit": s["edit"], "model": model, "real_watcher": real})
    chk.cov["notify_model"] = {"scenarios_checked_against_real_watcher": len(got), "differences": diffs[:10]}
    for d in diffs[:5]:
        chk.drift({"notify_model_assumption_differs": d})


def strip(ops):
    return [{k: v for k, v in o.items() if k != "evs"} for o in ops]


def judge(chk, obs, tag):
    bads = {}
    for n, part in enumerate(vlib.chunks(obs, 1500)):
        path = chk.work / f"trace-{tag}-{n}.ndjson"
        rows = [{"id": o["id"], "steps": [{"alive": s["alive"], "same": s["same"]} for s in o["steps"]]} for o in part]
        vlib.write_ndjson(path, rows)
        cfg = chk.work / "WatchTrace.cfg"
        cfg.write_text("SPECIFICATION Spec\nPOSTCONDITION AllConsumed\n")
        r = vlib.tlc(SP / "WatchTrace.tla", cfg, workers=1, timeout=900, env={"TRACE": str(path)}, dfs=True, heap="3g")
        chk.add_tlc(f"trace-{tag}-{n}", r, count_states=False)
        if r.violated:
            raise ToolError(f"WatchTrace did not consume all records:\n{r.out[-1500:]}")
        for t, v in r.printed:
            if t == "BAD":
                bads[v["id"]] = v
        chk.cov["traces_validated_against_impl"] += len(part)
    return bads


def run(chk: vlib.Check):
    binp = vlib.cargo_build("h_watch")
    rng = random.Random(chk.seed)
    maxops = 3 if chk.tier == "quick" else 4
    chk.assumptions += [
        "NotifyModel: a user edit is delivered as the debounced notify events listed in EventsOf of spec/watch/Watch.tla "
        "(create/modify/remove of a file, remove of a folder, Name(Both) for renames inside the project root); "
        "the real debouncer/inotify is not run by this check",
        "watch-mode recompile is observed as get_artifact_path_and_content of the live database vs a fresh CompilerState on the same disk "
        "(artifact writing is C18's subject)",
        "scope: project with 2 sibling folders sharing a name prefix, 6 file paths incl. a non-source (.md) file and a non-UTF-8 content, "
        "schema edits/removal, garbage collections between batches; one batch per edit",
    ]
    cfg = chk.work / "MCWatch.cfg"
    cfg.write_text(cfg_text(maxops, True))
    r = vlib.tlc(SP / "Watch.tla", cfg, workers=4, timeout=1500, seed=chk.seed, heap="6g")
    chk.add_tlc("mc-watch", r)
    if r.violated:
        chk.drift({"model": f"layer B leaves layer A without a named deviation ({r.violated})"})
    replays = [v for t, v in r.printed if t == "REPLAY"]
    if not replays:
        raise ToolError("Watch.tla emitted no replays")
    kinds = {}
    for rp in replays:
        k = rp["ops"][-1]["op"]
        kinds[k] = kinds.get(k, 0) + 1
    chk.cov["actions_taken"] = kinds
    need = {"write", "delete", "rename", "rmdir", "mvdir", "schema", "rmschema", "gc", "batch"}
    if not need <= set(kinds):
        raise ToolError(f"vacuous model run: actions never taken: {sorted(need - set(kinds))}")
    obs = run_harness(binp, chk, replays)
    chk.cov["evaluations"] = len(replays)
    check_notify_model(chk, binp, replays, 10 if chk.tier == "quick" else 60)
    bads = judge(chk, obs, "mc")
    nontrivial = 0
    drift_n = 0
    found: dict[str, tuple] = {}
    for i, (rp, ob) in enumerate(zip(replays, obs)):
        if len(rp["ops"]) >= 2:
            nontrivial += 1
        last = ob["steps"][-1]
        real_ok = last["alive"] and last["same"]
        # layer B conformance (drift only): predicted source map / alive
        pred_db = {k: v for k, v in rp["db"].items() if v != "none"}
        if (last["alive"] != rp["alive"]) or (last["alive"] and last["srcmap"] != pred_db):
            drift_n += 1
            chk.drift({"ops": strip(rp["ops"]), "predicted": {"alive": rp["alive"], "db": pred_db},
                       "observed": {"alive": last["alive"], "srcmap": last["srcmap"]}})
        if i in bads and bads[i]["at"] == len(ob["steps"]):
            # first rejected step is the last one: this history is a shortest witness
            incr = ob["steps"][-1].get("incr") or {}
            if not rp["okA"] and rp["devs"]:
                sig = "C20:" + "+".join(sorted(rp["devs"]))
            elif incr.get("t") == "panic" and "Source node not found in database" in str(incr.get("msg")):
                # root cause below layer B (pico re-executes a memoized function whose SourceId parameter names a removed
                # source while it re-verifies a stale dependency list): one canonical signature, whatever the history
                sig = "C20:panic:removed-source-read-during-reverification"
            else:
                sig = "C20:unexplained:" + ",".join(
                    (o["op"] + "(" + str(o.get("p", o.get("c", ""))) + ")") if o["op"] != "batch"
                    else "batch[" + "+".join(e["op"] + "(" + str(e.get("p", "")) + ")" for e in o["edits"]) + "]"
                    for o in strip(rp["ops"]))
            if sig not in found or len(rp["ops"]) < len(found[sig][0]["ops"]):
                found[sig] = (rp, ob, bads[i]["why"])
        elif not real_ok and i not in bads:
            raise ToolError("inconsistent judgement between harness record and WatchTrace")
    chk.cov["distinct_nontrivial"] = nontrivial
    chk.cov["replays_not_matching_layerB"] = drift_n
    chk.cov["rule"] = ("one replay per transition TLC generated from a distinct state of Watch.tla (shortest history of edits); "
                       "non-trivial = histories of at least two edits")
    chk.cov["exhaustive"] = r.violated is None
    good = [o for i, o in enumerate(obs) if i not in bads]
    if good:
        j = rng.randrange(len(good))
        chk.sample({"kind": "replay accepted by layer A", "ops": strip(replays[good[j]["id"]]["ops"]), "steps": good[j]["steps"]})
    # listed (known) findings first, then the shortest unexplained histories (at most 5 lines of those)
    ordered = sorted(found.items(), key=lambda kv: (kv[0].startswith("C20:unexplained"), len(kv[1][0]["ops"]), kv[0]))
    unexplained = [kv for kv in ordered if kv[0].startswith("C20:unexplained")]
    chk.cov["unexplained_rejected_histories"] = len(unexplained)
    ordered = [kv for kv in ordered if not kv[0].startswith("C20:unexplained")] + unexplained[:5]
    for sig, (rp, ob, why) in ordered:
        chk.sample({"kind": "history rejected by layer A", "signature": sig, "ops": strip(rp["ops"]), "last_step": ob["steps"][-1]}, limit=8)
        chk.violation(sig, f"{why} after {json.dumps(strip(rp['ops']))}",
                      {"engine": "watch", "ops": rp["ops"], "observed": ob["steps"], "layerB_deviations": rp["devs"]})


def replay(prop: str, path: Path, seed: int) -> int:
    rp = json.loads(Path(path).read_text())
    chk = vlib.Check(prop, "quick", seed)
    binp = vlib.cargo_build("h_watch")
    obs = run_harness(binp, chk, [{"ops": rp["ops"]}])
    bads = judge(chk, obs, "replay")
    print(json.dumps({"observed": obs[0]["steps"], "layerA": list(bads.values())}, indent=1))
    import shutil
    shutil.rmtree(chk.work, ignore_errors=True)
    return 1 if bads else 0
