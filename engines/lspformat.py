"""Engine `lspformat` (C22): the iso-literal formatter of the language server.

  spec/textfn/IsoFormat.tla        the formatter as a token-driven printer over the semantic-token legend (layer B)
  spec/textfn/MCIsoFormat.tla      generator of iso literals (grammar x layout schemes); design-level checks
  spec/textfn/IsoFormatTrace.tla   layer A on observations: reparse / same declaration / idempotent / edit range

Flow: TLC enumerates sentences -> the driver concatenates token texts and separators, embeds the literal in a
document (ASCII / non-ASCII text before it) -> pass 1 of harness bin textfn_lsp: real parser (declaration),
real on_format (edit) -> the driver applies the edit at the extraction's byte span -> pass 2: real parser and
formatter on the formatted text -> TLC judges the joined records.
"""
from __future__ import annotations

import json
import random
import re
from pathlib import Path

import vlib
from engines import textfn

LEVEL = {"C22": "model_checking"}
WS = {"z": "", "s": " ", "ss": "  ", "n": "\n", "ns": "\n ", "t": "\t", "nn": "\n\n"}
PREFIXES = ["", "// é\n", "é ", "/* 你 */ ", "😀;", "x😀你\n y "]

# ------------------------------------------------------------------------------------------------
# Rust `{:?}` rendering -> tree -> positions stripped -> pre-order list of ASCII atoms
# ------------------------------------------------------------------------------------------------
_TOK = re.compile(r'\s*(?:(?P<str>"(?:[^"\\]|\\.)*")|(?P<id>[A-Za-z_][A-Za-z0-9_]*)|(?P<num>-?\d+)|(?P<p>[{}()\[\],:]))')
DROP_FIELDS = {"location", "span", "text_source", "semantic_tokens", "iso_literal_text", "entrypoint_keyword", "dot",
               "definition_path"}


def _parse_debug(s: str):
    toks = []
    pos = 0
    while pos < len(s):
        m = _TOK.match(s, pos)
        if not m:
            if s[pos:].strip() == "":
                break
            raise vlib.ToolError(f"cannot tokenise Debug text at {pos}: {s[pos:pos+40]!r}")
        toks.append((m.lastgroup, m.group(m.lastgroup)))
        pos = m.end()
    i = 0

    def value():
        nonlocal i
        kind, t = toks[i]
        if kind == "str":
            i += 1
            return ("str", t)
        if kind == "num":
            i += 1
            return ("num", t)
        if kind == "p" and t == "[":
            i += 1
            items = []
            while toks[i] != ("p", "]"):
                items.append(value())
                if toks[i] == ("p", ","):
                    i += 1
            i += 1
            return ("list", items)
        if kind == "p" and t == "{":          # map / set
            i += 1
            items = []
            while toks[i] != ("p", "}"):
                k1 = value()
                if toks[i] == ("p", ":"):
                    i += 1
                    items.append(("tuple", "entry", [k1, value()]))
                else:
                    items.append(k1)
                if toks[i] == ("p", ","):
                    i += 1
            i += 1
            return ("list", items)
        if kind == "p" and t == "(":          # anonymous tuple
            i += 1
            items = []
            while toks[i] != ("p", ")"):
                items.append(value())
                if toks[i] == ("p", ","):
                    i += 1
            i += 1
            return ("tuple", "", items)
        if kind == "id":
            name = t
            i += 1
            if i < len(toks) and toks[i] == ("p", "{"):
                i += 1
                fields = []
                while toks[i] != ("p", "}"):
                    fname = toks[i][1]
                    i += 1
                    assert toks[i] == ("p", ":"), toks[i]
                    i += 1
                    fields.append((fname, value()))
                    if toks[i] == ("p", ","):
                        i += 1
                i += 1
                return ("struct", name, fields)
            if i < len(toks) and toks[i] == ("p", "("):
                i += 1
                items = []
                while toks[i] != ("p", ")"):
                    items.append(value())
                    if toks[i] == ("p", ","):
                        i += 1
                i += 1
                return ("tuple", name, items)
            return ("id", name)
        raise vlib.ToolError(f"unexpected token {toks[i]} in Debug text")

    v = value()
    if i != len(toks):
        raise vlib.ToolError("trailing tokens in Debug text")
    return v


def _strip(v):
    k = v[0]
    if k == "struct":
        name, fields = v[1], v[2]
        fields = [(f, _strip(x)) for f, x in fields if f not in DROP_FIELDS]
        if name in ("WithGenericLocation", "WithSpan") and len(fields) == 1 and fields[0][0] == "item":
            return fields[0][1]
        return ("struct", name, fields)
    if k == "tuple":
        return ("tuple", v[1], [_strip(x) for x in v[2]])
    if k == "list":
        return ("list", [_strip(x) for x in v[1]])
    return v


def _flat(v, out):
    k = v[0]
    if k == "struct":
        out.append(v[1] + "{")
        for f, x in v[2]:
            out.append(f + ":")
            _flat(x, out)
        out.append("}")
    elif k == "tuple":
        out.append(v[1] + "(")
        for x in v[2]:
            _flat(x, out)
        out.append(")")
    elif k == "list":
        out.append("[")
        for x in v[1]:
            _flat(x, out)
        out.append("]")
    elif k == "str":
        out.append("".join(c if 32 <= ord(c) < 127 else f"\\u{{{ord(c):x}}}" for c in v[1]))
    else:
        out.append(v[1])


def decl_projection(debug_text: str) -> list[str]:
    out: list[str] = []
    _flat(_strip(_parse_debug(debug_text)), out)
    return out


# ------------------------------------------------------------------------------------------------

def concretise(tok_text: str) -> str:
    return tok_text.replace("{e}", "é").replace("{c}", "你")


def literal_text(toks: list[dict]) -> str:
    return "".join(concretise(t["t"]) + WS[t["ws"]] for t in toks)


def embed(kind: str, lit: str, prefix: str) -> str:
    if kind == "entrypoint":
        return f"{prefix}iso(`{lit}`)\n"
    name = "F1" if kind == "field" else "P1"
    return f"{prefix}export const {name} = iso(`{lit}`)(() => 0)\n"


def random_layout(case: dict, rng: random.Random) -> dict:
    """Same sentence, random legal separators per gap (white space classes, commas where the grammar allows)."""
    toks = []
    for t in case["toks"]:
        if t["k"] == "COMMA":
            continue
        req = t["req"]
        if req == "none":
            ws = rng.choice(["z", "z", "s", "n", "t"])
            if t["k"] in ("KW_DECL", "KW_USE", "TO") or (t["k"] == "CNAME" and ws == "z"):
                ws = ws if ws != "z" else "z"
        elif req == "space":
            ws = rng.choice(["s", "ss", "n", "t", "ns"])
        else:
            ws = None
        if ws is not None:
            toks.append({**t, "ws": ws})
            continue
        choice = rng.choice(["comma", "nl", "both", "none"] if req == "delim_opt" else ["comma", "nl", "both", "both2"])
        if choice == "nl":
            toks.append({**t, "ws": rng.choice(["n", "ns", "nn"])})
        elif choice == "none":
            toks.append({**t, "ws": rng.choice(["z", "s"])})
        else:
            toks.append({**t, "ws": rng.choice(["z", "s"]) if choice != "both2" else "n"})
            toks.append({"k": "COMMA", "t": ",", "req": "none", "ws": rng.choice(["z", "s"]) if choice == "comma"
                         else rng.choice(["n", "ns"])})
    # tokens that would glue together without white space keep at least a blank
    for a, b in zip(toks, toks[1:]):
        if a["ws"] == "z" and re.match(r"[A-Za-z0-9_]", concretise(b["t"])[:1] or " ") and \
                re.match(r"[A-Za-z0-9_\-]", concretise(a["t"])[-1:]):
            a["ws"] = "s"
    return {"kind": case["kind"], "scheme": "random", "toks": toks, "src": "random"}


SCHEME_RANK = {"lines": 0, "commas": 1, "mixed": 2, "wide": 3, "random": 4}


def sentence_of(rec: dict) -> str:
    return " ".join(t["t"].replace("\n", "\\n") + {"z": "", "s": "_", "ss": "__", "n": "/", "ns": "/_", "t": "\\t",
                                                     "nn": "//"}[t["ws"]] for t in rec["toks"])


def sig_of(rec: dict, conj: str) -> str:
    # tier-independent: the range conjunct depends on the text before the literal only, the others on the literal only
    if conj == "edit_range":
        return f"prefix={rec['prefix_id']}|sentence={sentence_of(rec)}"
    return "sentence=" + sentence_of(rec)


def order_of(rec: dict, conj: str):
    base = ({"probe": 0, "model": 1, "random": 2}[rec["src"]],)
    if conj == "edit_range":
        return base + (rec["prefix_id"], len(rec["toks"]), SCHEME_RANK[rec["scheme"]], sentence_of(rec))
    return base + (len(rec["toks"]), SCHEME_RANK[rec["scheme"]], sentence_of(rec), rec["prefix_id"])


def run(chk: vlib.Check) -> None:
    bindir = vlib.cargo_build(textfn.CRATE)
    rng = random.Random(chk.seed)
    r = textfn.model_run(chk, "MCIsoFormat", ["Choose"], timeout=2400)
    cases = [p for tag, p in r.printed if tag == "CASE"]
    if not cases:
        raise vlib.ToolError("MCIsoFormat emitted no CASE")
    for c in cases:
        c["src"] = "model"
    nmodel = len(cases)
    nrand = 400 if chk.tier == "quick" else 6000
    cases += [random_layout(rng.choice(cases[:nmodel]), rng) for _ in range(nrand)]
    # probes: two fixed sentences under every prefix, the same in both tiers, so that the smallest failing case of the
    # range conjunct (and with it the signature) does not depend on which prefix the enumeration happened to pair
    # with which sentence
    def is_probe(c):
        kinds = [t["k"] for t in c["toks"]]
        return (c["scheme"] == "lines" and kinds == ["KW_USE", "TYPE", "DOT", "CNAME"]) or \
               (c["scheme"] == "commas" and c["kind"] == "field" and "\n" not in c["toks"][4]["t"] and
                kinds == ["KW_DECL", "TYPE", "DOT", "CNAME", "COMMENT", "OBRACE", "SEL", "COMMA", "CBRACE"])
    probes = [c for c in cases[:nmodel] if is_probe(c)]
    if len(probes) != 2:
        raise vlib.ToolError("probe sentences not found among the generated sentences")
    for c in probes:
        for pid in range(len(PREFIXES)):
            cases.append({**c, "src": "probe", "force_prefix": pid})
    proj = textfn.lsp_project(chk)

    # pass 1
    pass1 = []
    for n, c in enumerate(cases):
        lit = literal_text(c["toks"])
        pid = c["force_prefix"] if c["src"] == "probe" else \
            n % len(PREFIXES) if c["src"] == "model" else rng.randrange(len(PREFIXES))
        doc = embed(c["kind"], lit, PREFIXES[pid])
        pass1.append({"doc": [ord(ch) for ch in doc], "want_decl": True, "want_diags": False, "n": n, "prefix_id": pid})
    out1 = textfn.run_harness(bindir, "textfn_lsp", pass1, args=[str(proj)], timeout=1500)
    accepted, rejected, noedit = [], 0, 0
    pass2 = []
    for c, o in zip(cases, out1):
        if len(o["extractions"]) != 1 or o["parse"][0]["t"] != "ok":
            rejected += 1                      # outside the statement: "for every iso literal the parser accepts"
            continue
        if o["fmt"]["t"] != "ok" or len(o["fmt"]["edits"]) != 1:
            noedit += 1
            chk.drift({"what": "parser accepted the literal but on_format returned no edit", "literal": literal_text(c["toks"])})
            continue
        ex = o["extractions"][0]
        e = o["fmt"]["edits"][0]
        raw = "".join(chr(x) for x in o["doc"]).encode()
        fmt1 = "".join(chr(x) for x in e["text"])
        doc2 = (raw[:ex["start"]] + fmt1.encode() + raw[ex["end"]:]).decode()
        accepted.append((c, o))
        pass2.append({"doc": [ord(ch) for ch in doc2], "want_decl": True, "want_diags": False})
    if not accepted:
        raise vlib.ToolError("the real parser accepted none of the generated literals (generator out of date?)")
    out2 = textfn.run_harness(bindir, "textfn_lsp", pass2, args=[str(proj)], timeout=1500)

    records = []
    for (c, o), o2 in zip(accepted, out2):
        e = o["fmt"]["edits"][0]
        ok2 = len(o2["extractions"]) == 1 and o2["parse"][0]["t"] == "ok"
        f2 = o2["fmt"]
        records.append({
            "kind": c["kind"], "scheme": c["scheme"], "src": c["src"], "prefix_id": o["prefix_id"],
            "toks": [{**t, "cp": [ord(ch) for ch in concretise(t["t"])]} for t in c["toks"]],
            "doc": o["doc"], "ex": o["extractions"][0], "edit": {k: e[k] for k in ("sl", "sc", "el", "ec")},
            "fmt1": e["text"], "before": decl_projection(o["parse"][0]["decl"]),
            "after": {"t": "ok", "decl": decl_projection(o2["parse"][0]["decl"])} if ok2 else {"t": "err"},
            "fmt2": {"t": "ok", "text": f2["edits"][0]["text"]} if f2["t"] == "ok" and len(f2["edits"]) == 1 else {"t": "none"},
        })
    fails, drifts = textfn.validate(chk, "IsoFormatTrace", records, name="isoformat", timeout=1500)
    if drifts:
        i0 = drifts[0][0]
        chk.drift({"what": drifts[0][1]["what"], "records": len(drifts), "example": literal_text(records[i0]["toks"]),
                   "real": "".join(chr(x) for x in records[i0]["fmt1"])})
    by_conj: dict = {}
    for idx, p in fails:
        by_conj.setdefault(p["conj"], []).append((idx, p))
    for conj in sorted(by_conj):
      textfn.report_failures(
        chk, records, by_conj[conj],
        group_key=lambda rec, p: (p["conj"], p["cls"]),
        order_key=lambda rec, conj=conj: order_of(rec, conj),
        signature=lambda rec, p: f"C22|{p['conj']}|{p['cls']}|{sig_of(rec, p['conj'])}",
        what=lambda rec, p, n: (f"formatter breaks '{p['conj']}' on {n} recorded literal(s) of class '{p['cls']}'; smallest literal: "
                                f"{literal_text(rec['toks'])!r} with {PREFIXES[rec['prefix_id']]!r} before the iso call -> formatted "
                                f"{''.join(chr(x) for x in rec['fmt1'])!r}, formatted again "
                                f"{(''.join(chr(x) for x in rec['fmt2']['text']) if rec['fmt2']['t'] == 'ok' else None)!r}, edit range {rec['edit']}"),
        kind="isoformat")
    chk.cov.update({
        "evaluations": len(cases), "exhaustive": True,
        "distinct_nontrivial": len({literal_text(x["toks"]) for x in records if len(x["toks"]) > 6}),
        "rule": "distinct literals accepted by the real parser with more than 6 tokens.  Model cases: header (field / pointer / "
                "entrypoint) x variable definitions (none, one, two with list type and defaults) x directives x description "
                "(none, string, multi-line block string, non-ASCII) x selection-set bodies (aliases, arguments with every value "
                "kind, directives, nested selection sets) x layout schemes; random cases: the same sentences with random "
                "separators per gap.",
        "model_cases": nmodel, "random_cases": nrand, "probe_cases": len(cases) - nmodel - nrand,
        "accepted_by_parser": len(records), "rejected_by_parser": rejected, "no_edit": noedit,
        "trusted_base": ["harness/h_textfn/src/bin/lsp.rs", "engines/lspformat.py: Rust Debug text -> tree -> positions stripped "
                         "(fields " + ", ".join(sorted(DROP_FIELDS)) + ") -> pre-order atoms; application of the edit at the "
                         "extraction's byte span", "the real parser (parse of the formatted text is the oracle for 'accepted' and "
                         "for the declaration)"],
    })
    for x in records[:2]:
        chk.sample({k: x[k] for k in ("kind", "scheme", "doc", "edit", "fmt1", "before", "after")})
    chk.assumptions += [
        "'denotes the same declaration' = equality of the parser's declaration with every location / span and the raw literal "
        "text removed",
        "the edit is applied at the byte span of the extraction (ground truth); whether the LSP range of the edit designates "
        "that span is the separate conjunct edit_range (LSP UTF-16 convention, spec/textfn/LspPos.tla)",
        "literals outside the generator's grammar (e.g. comments, which the iso lexer rejects) are not covered",
    ]


def replay(prop: str, path: Path, seed: int) -> int:
    rp = json.loads(Path(path).read_text())
    chk = vlib.Check(prop, "quick", seed)
    import shutil
    try:
        bindir = vlib.cargo_build(textfn.CRATE)
        proj = textfn.lsp_project(chk)
        rec = rp["case"]
        doc = "".join(chr(x) for x in rec["doc"])
        o = textfn.run_harness(bindir, "textfn_lsp", [{"doc": rec["doc"], "want_decl": True, "want_diags": False}], args=[str(proj)])[0]
        if len(o["extractions"]) != 1 or o["parse"][0]["t"] != "ok" or o["fmt"]["t"] != "ok" or len(o["fmt"]["edits"]) != 1:
            print("literal no longer accepted / formatted")
            return 0
        ex, e = o["extractions"][0], o["fmt"]["edits"][0]
        raw = doc.encode()
        doc2 = (raw[:ex["start"]] + "".join(chr(x) for x in e["text"]).encode() + raw[ex["end"]:]).decode()
        o2 = textfn.run_harness(bindir, "textfn_lsp", [{"doc": [ord(c) for c in doc2], "want_decl": True, "want_diags": False}],
                                args=[str(proj)])[0]
        ok2 = len(o2["extractions"]) == 1 and o2["parse"][0]["t"] == "ok"
        f2 = o2["fmt"]
        new = dict(rec)
        new.update({"ex": ex, "edit": {k: e[k] for k in ("sl", "sc", "el", "ec")}, "fmt1": e["text"],
                    "before": decl_projection(o["parse"][0]["decl"]),
                    "after": {"t": "ok", "decl": decl_projection(o2["parse"][0]["decl"])} if ok2 else {"t": "err"},
                    "fmt2": {"t": "ok", "text": f2["edits"][0]["text"]} if f2["t"] == "ok" and len(f2["edits"]) == 1 else {"t": "none"}})
        fails, _ = textfn.validate(chk, "IsoFormatTrace", [new], name="replay", procs=1)
        fails = [f for f in fails if f[1]["conj"] == rp["tlc"]["conj"]]
        print(json.dumps({"fails": [p for _, p in fails]}))
        return 1 if fails else 0
    finally:
        shutil.rmtree(chk.work, ignore_errors=True)
