"""C11 — normalization ASTs describe exactly the operation they accompany.

Same programs as C09 (spec/project/GenC09.tla) plus the checked-in projects; for every query text artifact
whose operation parses, TLC compares (spec/project/ObsC11.tla: Diff / SameTree) the operation tree with
the normalization AST artifact shipped with it (normalization_ast.ts, __refetch__N.ts, projected by swc).
"""
from __future__ import annotations

import json
from pathlib import Path

import vlib
from vlib import ToolError, log

from engines import projlib
from engines import proj_pb_common as pb

LEVEL = {"C11": "model_checking"}


def records_c11(observations):
    recs, skipped = [], 0
    for o in observations:
        if o["outcome"] != "ok":
            continue
        pairs = []
        for p in pb.op_paths(o):
            op = o["ops"][p]
            if not op.get("ok"):
                skipped += 1          # the operation text is not GraphQL: C09's finding; there is no tree to compare
                continue
            pairs.append({"path": p, "op": pb.strip_op(op), "norm": pb.norm_ast_of(o, p)})
        recs.append({"id": o["id"], "pairs": pairs})
    return recs, skipped


def hits_from_bads(prop, bads, programs):
    hits = []
    for b in bads:
        prog = programs[b["id"]]
        for bad in b["bad"]:
            for e in bad["errs"]:
                hits.append({"why": e["why"], "feats": pb.feats_of(prog), "size": len(json.dumps(prog)),
                             "what": f"{bad['path']}: {e['why']} ({e['at']})",
                             "replay": pb.replay_doc(prop, "program", {"program": prog, "path": bad["path"], "why": e["why"], "at": e["at"]})})
    return hits


def run(chk):
    fam = "quick" if chk.tier == "quick" else "thorough"
    programs = projlib.generate(chk, "GenC09.tla", {"Family": fam}, name=fam, timeout=900)
    obs, demos = pb.compile_programs_and_demos(chk, programs, ("ops", "js"))
    outcomes = {}
    for o in obs:
        outcomes[o["outcome"]] = outcomes.get(o["outcome"], 0) + 1
    recs, skipped = records_c11(obs)
    if len(recs) < len(programs) // 2:
        raise ToolError(f"vacuous: only {len(recs)} of {len(programs)} generated programs compile ({outcomes})")
    bads = pb.judge(chk, "ObsC11.tla", recs, tag="c11", chunk=150)
    hits = hits_from_bads("C11", bads, programs)
    demo_hits, demo_pairs = run_demos(chk, demos)
    sigs = pb.report_grouped(chk, "C11", hits + demo_hits)
    n_pairs = sum(len(r["pairs"]) for r in recs)
    chk.cov["evaluations"] = n_pairs + demo_pairs
    chk.cov["distinct_nontrivial"] = sum(1 for r in recs if any(p["path"].rsplit("/", 1)[1] != "query_text.ts" for p in r["pairs"]))
    chk.cov["rule"] = "evaluations = (operation, normalization AST) pairs compared; nontrivial = programs with at least one refetch query pair"
    chk.cov["exhaustive"] = True
    chk.cov["detail"] = {"generated": len(programs), "outcomes": outcomes, "pairs": n_pairs, "demo_pairs": demo_pairs,
                           "operations_not_graphql_skipped": skipped, "programs_with_divergence": len(bads), "signatures": sigs}
    chk.cov["programs"] = len(programs) + len(demos)
    chk.cov["trusted_base"] = ["engines/isorender.py", "harness/h_compile (swc projection of the normalization AST artifact, strict GraphQL parser)",
                               "engines/proj_pb_common.py norm_node (tagging of the projection)", "engines/proj_pb_sdl.py", "TLC"]
    for r in recs[:3]:
        chk.sample({"program": programs[r["id"]], "pairs": [p["path"] for p in r["pairs"]]})
    chk.assumptions += [
        "the normalization AST is observed through swc's parse of the artifact (object/array/string/number literals)",
        "`arguments: null` is read as no arguments; selection order, isFallible and response aliases are not compared",
        "operations that are not GraphQL syntax (C09 findings) have no tree and are skipped",
    ]


def run_demos(chk, demos=None):
    from engines import proj_pb_sdl as sdl
    hits, n = [], 0
    for name, (o, text) in (demos or pb.compile_demos(chk, ["ops", "js"])).items():
        recs, _ = records_c11([o])
        rec = recs[0]
        n += len(rec["pairs"])
        sch = sdl.project_schema(text, [x["op"] for x in rec["pairs"]])
        sf = chk.work / f"schema-{name}.json"
        sf.write_text(json.dumps(sch))
        # one pair per record keeps the records small
        small = [{"id": i, "pairs": [p]} for i, p in enumerate(rec["pairs"])]
        bads = pb.judge(chk, "ObsC11.tla", small, schema_file=sf, tag=f"c11-{name}", chunk=100)
        for b in bads:
            for bad in b["bad"]:
                for e in bad["errs"]:
                    hits.append({"why": e["why"], "feats": frozenset([f"demo-{name}", "at-" + str(e["at"])]), "size": 10**9,
                                 "what": f"{name}: {bad['path']}: {e['why']} ({e['at']})",
                                 "replay": pb.replay_doc("C11", "demo", {"demo": name, "path": bad["path"], "why": e["why"], "at": e["at"]})})
    return hits, n


def replay(prop, path, seed):
    doc = json.loads(Path(path).read_text())
    chk = pb.ReplayCheck(prop, seed)
    try:
        if doc.get("kind") == "demo":
            hits, _ = run_demos(chk)
            return 1 if any(h["why"] == doc["why"] and h["replay"]["demo"] == doc["demo"] for h in hits) else 0
        obs = pb.compile_programs(chk, [doc["program"]], want=("ops", "js"))
        recs, _ = records_c11(obs)
        if not recs:
            return 0
        bads = pb.judge(chk, "ObsC11.tla", recs, tag="replay")
        whys = {e["why"] for b in bads for bad in b["bad"] for e in bad["errs"]}
        return 1 if doc["why"] in whys else 0
    finally:
        chk.close()
