"""C15 — merged operations are independent of how selections are arranged.

TLC explores spec/project/GenC15.tla: states are (base program, edited program), transitions are the edits
Permute / DuplicateUnderAlias / ExtractIntoClientField / InlineClientField; the invariant NeedsPreserved
(the model-level theorem: every edit preserves Needs(e)) is checked on every reachable state, and every state
is printed.  The real compiler compiles base and edited program; TLC (spec/project/ObsC15.tla) compares the
sha-256 digests of the operation artifacts (query_text.ts, normalization_ast.ts, __refetch__query_text__N.ts,
__refetch__N.ts) of every directory that carries a query text in the base compile.
"""
from __future__ import annotations

import hashlib
import json
import re
from pathlib import Path

import vlib
from vlib import ToolError, log

from engines import projlib
from engines import proj_pb_common as pb

LEVEL = {"C15": "model_checking"}
ACTIONS = ["Permute", "DuplicateUnderAlias", "ExtractIntoClientField", "InlineClientField"]
_OPFILE = re.compile(r"(query_text\.ts|normalization_ast\.ts|__refetch__query_text__\d+\.ts|__refetch__\d+\.ts)\Z")
BASES = ["B1", "B2", "B3", "B4", "B5", "B6", "B7", "B8"]


def op_files(obs) -> list[dict]:
    out = []
    arts = obs.get("artifacts") or {}
    dirs = {p.rpartition("/")[0] for p in arts if p.endswith("/query_text.ts")}
    for p, text in sorted(arts.items()):
        d, _, name = p.rpartition("/")
        if d in dirs and _OPFILE.match(name):
            out.append({"path": p, "dir": d, "digest": hashlib.sha256(text.encode()).hexdigest()})
    return out


def explore(chk, max_edits, bases, *, simulate=None, depth=None, timeout=1500, name="model"):
    cfg = chk.work / f"GenC15-{name}.cfg"
    cfg.write_text(projlib.cfg_from_consts({"MaxEdits": max_edits, "BaseNames": bases}, "INVARIANT NeedsPreserved\nINVARIANT Emit\n"))
    r = vlib.tlc(projlib.SP / "GenC15.tla", cfg, workers=4, timeout=timeout, seed=chk.seed, coverage=True, heap="6g",
                 simulate=simulate, depth=depth)
    chk.add_tlc(f"GenC15-{name}", r)
    if r.violated:
        raise ToolError(f"GenC15: the model itself violates {r.violated} (an edit does not preserve Needs):\n{r.out[-3000:]}")
    if not simulate:
        chk.require_coverage(r, ACTIONS)
    seen, out = set(), []
    for t, v in r.printed:
        if t == "PROGRAM":
            k = json.dumps(v, sort_keys=True)
            if k not in seen:
                seen.add(k)
                out.append(v)
    return out, r


def run(chk):
    if chk.tier == "quick":
        states, _ = explore(chk, 1, BASES)
    else:
        states, _ = explore(chk, 1, BASES)
        more, _ = explore(chk, 3, BASES, simulate="num=150", depth=4, name="walks", timeout=900)
        known = {json.dumps(s, sort_keys=True) for s in states}
        more = [s for s in more if json.dumps(s, sort_keys=True) not in known]
        chk.cov["random_walk_states_checked_by_the_model"] = len(more)
        import random
        rnd = random.Random(chk.seed)
        rnd.shuffle(more)
        states += more[:800]          # every walk state was checked against NeedsPreserved; a seeded sample is compiled
    bases = {s["base"]: s for s in states if not s["edits"]}
    edited = [s for s in states if s["edits"]]
    if not edited or len(bases) < len(BASES):
        raise ToolError(f"vacuous exploration: {len(bases)} bases, {len(edited)} edited programs")
    order = list(bases.values()) + edited
    obs = pb.compile_programs(chk, [s["prog"] for s in order], want=("artifacts",))
    base_obs = {}
    for s, o in zip(order, obs):
        if not s["edits"]:
            if o["outcome"] != "ok":
                raise ToolError(f"base program {s['base']} is not accepted by the compiler: {o.get('diagnostics') or o.get('panic_msg')}")
            base_obs[s["base"]] = op_files(o)
    recs, by_id = [], {}
    for s, o in zip(order, obs):
        if not s["edits"]:
            continue
        rid = len(recs)
        by_id[rid] = s
        ok = o["outcome"] == "ok"
        why = "" if ok else pb_ascii(((o.get("diagnostics") or [o.get("panic_msg") or o["outcome"]])[0]).split("\n")[0][:160])
        recs.append({"id": rid, "base": base_obs[s["base"]], "cur": op_files(o) if ok else [], "curok": ok, "curwhy": why})
    bads = pb.judge(chk, "ObsC15.tla", recs, tag="c15", chunk=400)
    hits = []
    for b in bads:
        s = by_id[b["id"]]
        for e in b["errs"]:
            hits.append({"why": e["why"], "feats": pb.feats_of(s["prog"]), "size": len(json.dumps(s["prog"])),
                         "sampled": len(s["edits"]) > 1,        # random walks (thorough tier); single edits are exhaustive
                         "what": f"base {s['base']} after {'+'.join(s['edits'])}: {e['why']} ({e['at']})",
                         "replay": pb.replay_doc("C15", "pair", {"base": bases[s["base"]]["prog"], "program": s["prog"], "edits": s["edits"],
                                                                 "base_name": s["base"], "why": e["why"], "at": e["at"]})})
    sigs = pb.report_grouped(chk, "C15", hits)
    chk.cov["evaluations"] = len(recs)
    chk.cov["distinct_nontrivial"] = sum(1 for r in recs if r["curok"] and len(r["base"]) >= 2)
    chk.cov["rule"] = "pairs (base, edited) whose edited program compiles and whose base has at least two operation artifacts"
    chk.cov["exhaustive"] = True
    kinds = {}
    for s in edited:
        k = "+".join(s["edits"])
        kinds[k] = kinds.get(k, 0) + 1
    chk.cov["detail"] = {"bases": sorted(bases), "edited_programs": len(edited), "by_edit_sequence": kinds,
                           "pairs_with_difference": len(bads), "signatures": sigs,
                           "operation_artifacts_per_base": {b: len(f) for b, f in base_obs.items()}}
    chk.cov["programs"] = len(order)
    chk.cov["trusted_base"] = ["engines/isorender.py", "harness/h_compile (artifact text)", "sha-256 of artifact text (python hashlib)", "TLC"]
    for s in edited[:3]:
        chk.sample({"base": s["base"], "edits": s["edits"], "program": s["prog"]})
    chk.assumptions += [
        "universe: schema1, the eight base programs of GenC15.tla, no type refinements; edits inside `field` declarations",
        "operation artifacts are compared by the sha-256 of their text",
        "NeedsPreserved (every edit preserves the (path, field, substituted args) set of every entrypoint) is checked by TLC on every reachable state of the model",
    ]


def pb_ascii(s):
    return s.encode("ascii", "replace").decode()


def replay(prop, path, seed):
    doc = json.loads(Path(path).read_text())
    chk = pb.ReplayCheck(prop, seed)
    try:
        obs = pb.compile_programs(chk, [doc["base"], doc["program"]], want=("artifacts",))
        if obs[0]["outcome"] != "ok":
            return 0
        ok = obs[1]["outcome"] == "ok"
        rec = {"id": 0, "base": op_files(obs[0]), "cur": op_files(obs[1]) if ok else [], "curok": ok, "curwhy": "" if ok else "rejected"}
        bads = pb.judge(chk, "ObsC15.tla", [rec], tag="replay")
        whys = {e["why"] for b in bads for e in b["errs"]}
        return 1 if doc["why"] in whys else 0
    finally:
        chk.close()
