"""Shared pieces of the program-space checks C09, C11, C12, C15 (engines/proj_c09.py ...).

Python here only shuttles data: TLC generates programs (Gen*.tla), the trusted renderer turns them into
projects, harness/h_compile runs the real compiler and projects the artifacts, this module cuts the
relevant projections into small ndjson records, and TLC judges them with the TLA+ predicates
(Operation.tla / ObsC09.tla / ObsC11.tla / Keys.tla + ObsC12.tla / ObsC15.tla).
"""
from __future__ import annotations

import json
import re
import subprocess
from pathlib import Path

import vlib
from vlib import ToolError, log

from engines import isorender, projlib

SP = projlib.SP
SCHEMA1 = SP / "schema1.json"
RAW_BACKSLASH = 0xE000      # code point that stands for ONE backslash in the source text the compiler reads
                            # (isorender doubles real backslashes so that the JavaScript template literal cooks to one)


# ------------------------------------------------------------------------------------------------
# programs -> projects
# ------------------------------------------------------------------------------------------------

def project_of(program: dict, ident, schema=None, options=None) -> dict:
    p = isorender.project(schema or projlib.schema(), program, options=options, ident=ident)
    for f in p["files"]:
        if chr(RAW_BACKSLASH) in f["content"]:
            f["content"] = f["content"].replace(chr(RAW_BACKSLASH), "\\")
    return p


def compile_programs(chk, programs: list[dict], want=("js", "ops", "artifacts")) -> list[dict]:
    projects = [project_of(p, i) for i, p in enumerate(programs)]
    return projlib.compile_all(chk, projects, want=list(want))


# ------------------------------------------------------------------------------------------------
# projections (dumb reshaping of h_compile's observation)
# ------------------------------------------------------------------------------------------------

def strip_op(op, keep_cps=False):
    """Drop the bulky code-point arrays of an operation tree that a predicate does not look at."""
    if isinstance(op, dict):
        return {k: strip_op(v, keep_cps) for k, v in op.items()
                if k not in ("text_cps",) and (keep_cps or k != "key_cps")}
    if isinstance(op, list):
        return [strip_op(x, keep_cps) for x in op]
    return op


def op_paths(obs) -> list[str]:
    return sorted((obs.get("ops") or {}).keys())


def norm_path_of(query_text_path: str) -> str:
    """The artifact that carries the normalization AST shipped with a query text artifact."""
    d, _, name = query_text_path.rpartition("/")
    if name == "query_text.ts":
        return f"{d}/normalization_ast.ts"
    m = re.fullmatch(r"__refetch__query_text__(\d+)\.ts", name)
    if not m:
        raise ToolError(f"unexpected query text artifact name {query_text_path}")
    return f"{d}/__refetch__{m.group(1)}.ts"


def norm_ast_of(obs, query_text_path: str):
    """Projection of the normalization AST that accompanies a query text artifact, as parsed by swc
    (entrypoint: default export of normalization_ast.ts; refetch: const normalizationAst of __refetch__N.ts).
    Tagged unions are made uniform for TLC (see spec/project/ObsC11.tla for the format)."""
    p = norm_path_of(query_text_path)
    m = (obs.get("js") or {}).get(p)
    if m is None:
        return {"present": False, "parses": False, "shape": False, "path": p}
    if not m.get("parses"):
        return {"present": True, "parses": False, "shape": False, "path": p}
    node = m.get("consts", {}).get("normalizationAst")
    if node is None:
        node = m.get("default")
    if not isinstance(node, dict) or not isinstance(node.get("selections"), list):
        return {"present": True, "parses": True, "shape": False, "path": p}
    return {"present": True, "parses": True, "shape": True, "path": p, "selections": [norm_node(n) for n in node["selections"]]}


def _is_null(x):
    return isinstance(x, dict) and x.get("$null") is True


def norm_arg(a):
    if not isinstance(a, dict):
        return {"kind": "Unprojectable"}
    k = a.get("kind")
    if k == "Variable":
        return {"kind": k, "name": a.get("name")}
    if k == "Literal":
        v = a.get("value")
        if isinstance(v, bool):
            return {"kind": k, "lit": "bool", "text": "true" if v else "false"}
        if isinstance(v, int):
            return {"kind": k, "lit": "num", "text": str(v)}
        if isinstance(v, dict) and "$num" in v:
            return {"kind": k, "lit": "num", "text": str(v["$num"])}
        if _is_null(v):
            return {"kind": k, "lit": "null", "text": "null"}
        return {"kind": k, "lit": "other", "text": json.dumps(v)[:40]}
    if k == "String":
        v = a.get("value")
        return {"kind": k, "cps": cps(v)} if isinstance(v, str) else {"kind": "Unprojectable"}
    if k == "Enum":
        return {"kind": k, "value": a.get("value")}
    if k == "Object":
        return {"kind": k, "value": [[x[0], norm_arg(x[1])] for x in (a.get("value") or [])]}
    return {"kind": str(k)}


def norm_args(args):
    if args is None or _is_null(args):
        return []                       # printing convention: `arguments: null` = no arguments
    return [[x[0], norm_arg(x[1])] for x in args]


def norm_node(n):
    k = n.get("kind")
    if k == "Scalar":
        return {"kind": k, "fieldName": n.get("fieldName"), "arguments": norm_args(n.get("arguments"))}
    if k == "Linked":
        ct = n.get("concreteType")
        conc = {"some": True, "name": ct} if isinstance(ct, str) else {"some": False, "name": ""}
        return {"kind": k, "fieldName": n.get("fieldName"), "arguments": norm_args(n.get("arguments")), "concrete": conc,
                "selections": [norm_node(x) for x in (n.get("selections") or [])]}
    if k == "InlineFragment":
        return {"kind": k, "type": n.get("type"), "selections": [norm_node(x) for x in (n.get("selections") or [])]}
    return {"kind": str(k)}


def raw_norm_nodes(obs, query_text_path: str, name: str, nargs: int):
    """(C12) the Scalar/Linked nodes of the accompanying normalization AST with this field name and number
    of arguments, as the RAW swc projection (what the TypeScript runtime functions are run on)."""
    p = norm_path_of(query_text_path)
    m = (obs.get("js") or {}).get(p) or {}
    node = (m.get("consts") or {}).get("normalizationAst") or m.get("default")
    found = []

    def walk(sels):
        for n in sels or []:
            if isinstance(n, dict):
                if n.get("kind") in ("Scalar", "Linked") and n.get("fieldName") == name:
                    a = n.get("arguments")
                    if (0 if (a is None or _is_null(a)) else len(a)) == nargs:
                        found.append(n)
                walk(n.get("selections") if isinstance(n.get("selections"), list) else [])
    if isinstance(node, dict):
        walk(node.get("selections") if isinstance(node.get("selections"), list) else [])
    return found


def cps(s: str) -> list[int]:
    return [ord(c) for c in s]


# ------------------------------------------------------------------------------------------------
# judging + reporting
# ------------------------------------------------------------------------------------------------

def judge(chk, module, records, *, schema_file=SCHEMA1, tag="judge", chunk=250, consts=None, extra_env=None):
    env = {"SCHEMA": str(schema_file)}
    env.update(extra_env or {})
    return projlib.judge(chk, module, records, tag=tag, chunk=chunk, extra_env=env, consts=consts)


def feats_of(program: dict) -> frozenset:
    return frozenset(program.get("feats", []))


def report_grouped(chk, prop: str, hits: list[dict]):
    """hits: [{why, feats: frozenset, size, what, replay}].  One violation per (why, minimal feature set):
    a hit whose feature set strictly contains the feature set of another hit with the same `why` is
    explained by that smaller one and not reported separately.  The representative is the smallest input."""
    by_why: dict[str, dict[frozenset, dict]] = {}
    for h in hits:
        d = by_why.setdefault(h["why"], {})
        cur = d.get(h["feats"])
        if cur is None or h["size"] < cur["size"]:
            d[h["feats"]] = h
    out = []
    for why in sorted(by_why):
        fsets = by_why[why]
        minimal = [f for f in fsets if not any(g < f for g in fsets)]
        for f in sorted(minimal, key=lambda s: sorted(s)):
            h = fsets[f]
            sig = f"{prop}:{why}" + (":" + "+".join(sorted(f)) if f else "")
            n = sum(1 for g in fsets if f <= g)
            out.append((sig, h, n))
    for sig, h, n in out:
        chk.violation(sig, f"{h['what']} (seen in {n} feature group(s) of this run)", h["replay"])
    return [s for s, _, _ in out]


def replay_doc(prop, kind, payload: dict) -> dict:
    d = {"property": prop, "engine": "project", "kind": kind}
    d.update(payload)
    return d


class ReplayCheck:
    """A minimal stand-in for vlib.Check used by replay(): same work-dir / accounting surface, records
    the signatures that still violate instead of printing."""

    def __init__(self, prop, seed):
        import os, shutil, time
        self.prop, self.tier, self.seed = prop, "replay", seed
        self.work = vlib.WORK / f"{prop}-replay-{os.getpid()}"
        if self.work.exists():
            shutil.rmtree(self.work)
        self.work.mkdir(parents=True)
        self.cov = {"states": 0, "transitions": 0, "traces_validated_against_impl": 0, "samples": [], "evaluations": 0,
                    "distinct_nontrivial": 0, "rule": "", "exhaustive": False, "tlc_runs": [], "drift": [], "known_findings": []}
        self.assumptions = []
        self.sigs = []

    def add_tlc(self, name, r, count_states=True):
        pass

    def sample(self, *a, **k):
        pass

    def drift(self, *a):
        pass

    def require_coverage(self, *a):
        pass

    def violation(self, signature, what, replay):
        self.sigs.append(signature)

    def close(self):
        import shutil
        shutil.rmtree(self.work, ignore_errors=True)


# ------------------------------------------------------------------------------------------------
# the checked-in projects (demos): project files from disk + schema as data
# ------------------------------------------------------------------------------------------------

DEMOS = {
    "pet-demo": "demos/pet-demo",
    "github-demo": "demos/github-demo",
    "vite-demo": "demos/vite-demo",
    "isograph-react": "libs/isograph-react",
}


def demo_project(name: str) -> tuple[dict, str]:
    """-> (project dict for h_compile, full SDL text incl. extensions)."""
    root = vlib.REPO / DEMOS[name]
    cfg = json.loads((root / "isograph.config.json").read_text())
    pr = (root / cfg["project_root"]).resolve()
    files = []
    for p in sorted(pr.rglob("*")):
        if not p.is_file() or "__isograph" in p.parts or "node_modules" in p.parts:
            continue
        if p.suffix not in (".ts", ".tsx", ".js", ".jsx"):
            continue
        try:
            files.append({"path": "src/" + str(p.relative_to(pr)), "content": p.read_text()})
        except UnicodeDecodeError:
            continue
    sdl = (root / cfg["schema"]).read_text()
    exts = [(root / e).read_text() for e in cfg.get("schema_extensions", [])]
    opts = {k: v for k, v in (cfg.get("options") or {}).items() if k in ("on_invalid_id_type", "module", "include_file_extensions_in_import_statements", "no_babel_transform")}
    proj = {"id": f"demo:{name}", "schema": sdl, "extensions": exts, "files": files, "config": {"options": opts}}
    return proj, sdl + "\n" + "\n".join(exts)
