"""Shared pieces of the program-space checks C09, C11, C12, C15 (engines/proj_c09.py ...).

Python here only shuttles data: TLC generates programs (Gen*.tla), the trusted renderer turns them into
projects, harness/h_compile runs the real compiler and projects the artifacts, this module cuts the
relevant projections into small ndjson records, and TLC judges them with the TLA+ predicates
(Operation.tla / ObsC09.tla / ObsC11.tla / Keys.tla + ObsC12.tla / ObsC15.tla).
"""
from __future__ import annotations

import json
import os
import re
import subprocess
from pathlib import Path

import vlib
from vlib import ToolError, log

from engines import isorender, projlib

SP = projlib.SP
SCHEMA1 = SP / "schema1.json"
RAW_BACKSLASH = 0xE000      # code point that stands for ONE backslash in the source text the compiler reads
                            # (isorender doubles real backslashes so that the JavaScript template literal cooks to one)


# ------------------------------------------------------------------------------------------------
# programs -> projects
# ------------------------------------------------------------------------------------------------

def project_of(program: dict, ident, schema=None, options=None) -> dict:
    p = isorender.project(schema or projlib.schema(), program, options=options, ident=ident)
    for f in p["files"]:
        if chr(RAW_BACKSLASH) in f["content"]:
            f["content"] = f["content"].replace(chr(RAW_BACKSLASH), "\\")
    return p


def compile_programs(chk, programs: list[dict], want=("js", "ops", "artifacts")) -> list[dict]:
    projects = [project_of(p, i) for i, p in enumerate(programs)]
    return projlib.compile_all(chk, projects, want=list(want))


# ------------------------------------------------------------------------------------------------
# projections (dumb reshaping of h_compile's observation)
# ------------------------------------------------------------------------------------------------

def strip_op(op, keep_cps=False):
    """Drop the bulky code-point arrays of an operation tree that a predicate does not look at."""
    if isinstance(op, dict):
        return {k: strip_op(v, keep_cps) for k, v in op.items()
                if k not in ("text_cps",) and (keep_cps or k != "key_cps")}
    if isinstance(op, list):
        return [strip_op(x, keep_cps) for x in op]
    return op


def op_paths(obs) -> list[str]:
    return sorted((obs.get("ops") or {}).keys())


def norm_path_of(query_text_path: str) -> str:
    """The artifact that carries the normalization AST shipped with a query text artifact."""
    d, _, name = query_text_path.rpartition("/")
    if name == "query_text.ts":
        return f"{d}/normalization_ast.ts"
    m = re.fullmatch(r"__refetch__query_text__(\d+)\.ts", name)
    if not m:
        raise ToolError(f"unexpected query text artifact name {query_text_path}")
    return f"{d}/__refetch__{m.group(1)}.ts"


def norm_ast_of(obs, query_text_path: str):
    """Projection of the normalization AST that accompanies a query text artifact, as parsed by swc
    (entrypoint: default export of normalization_ast.ts; refetch: const normalizationAst of __refetch__N.ts).
    Tagged unions are made uniform for TLC (see spec/project/ObsC11.tla for the format)."""
    p = norm_path_of(query_text_path)
    m = (obs.get("js") or {}).get(p)
    if m is None:
        return {"present": False, "parses": False, "shape": False, "path": p}
    if not m.get("parses"):
        return {"present": True, "parses": False, "shape": False, "path": p}
    node = m.get("consts", {}).get("normalizationAst")
    if node is None:
        node = m.get("default")
    if not isinstance(node, dict) or not isinstance(node.get("selections"), list):
        return {"present": True, "parses": True, "shape": False, "path": p}
    return {"present": True, "parses": True, "shape": True, "path": p, "selections": [norm_node(n) for n in node["selections"]]}


def _is_null(x):
    return isinstance(x, dict) and x.get("$null") is True


def norm_arg(a):
    if not isinstance(a, dict):
        return {"kind": "Unprojectable"}
    k = a.get("kind")
    if k == "Variable":
        return {"kind": k, "name": a.get("name")}
    if k == "Literal":
        v = a.get("value")
        if isinstance(v, bool):
            return {"kind": k, "lit": "bool", "text": "true" if v else "false"}
        if isinstance(v, int):
            return {"kind": k, "lit": "num", "text": str(v)}
        if isinstance(v, dict) and "$num" in v:
            return {"kind": k, "lit": "num", "text": str(v["$num"])}
        if _is_null(v):
            return {"kind": k, "lit": "null", "text": "null"}
        return {"kind": k, "lit": "other", "text": json.dumps(v)[:40]}
    if k == "String":
        v = a.get("value")
        return {"kind": k, "cps": cps(v)} if isinstance(v, str) else {"kind": "Unprojectable"}
    if k == "Enum":
        return {"kind": k, "value": a.get("value")}
    if k == "Object":
        return {"kind": k, "value": [[x[0], norm_arg(x[1])] for x in (a.get("value") or [])]}
    return {"kind": str(k)}


def norm_args(args):
    if args is None or _is_null(args):
        return []                       # printing convention: `arguments: null` = no arguments
    return [[x[0], norm_arg(x[1])] for x in args]


def norm_node(n):
    k = n.get("kind")
    if k == "Scalar":
        return {"kind": k, "fieldName": n.get("fieldName"), "arguments": norm_args(n.get("arguments"))}
    if k == "Linked":
        ct = n.get("concreteType")
        conc = {"some": True, "name": ct} if isinstance(ct, str) else {"some": False, "name": ""}
        return {"kind": k, "fieldName": n.get("fieldName"), "arguments": norm_args(n.get("arguments")), "concrete": conc,
                "selections": [norm_node(x) for x in (n.get("selections") or [])]}
    if k == "InlineFragment":
        return {"kind": k, "type": n.get("type"), "selections": [norm_node(x) for x in (n.get("selections") or [])]}
    return {"kind": str(k)}


def raw_norm_nodes(obs, query_text_path: str, name: str, nargs: int):
    """(C12) the Scalar/Linked nodes of the accompanying normalization AST with this field name and number
    of arguments, as the RAW swc projection (what the TypeScript runtime functions are run on)."""
    p = norm_path_of(query_text_path)
    m = (obs.get("js") or {}).get(p) or {}
    node = (m.get("consts") or {}).get("normalizationAst") or m.get("default")
    found = []

    def walk(sels):
        for n in sels or []:
            if isinstance(n, dict):
                if n.get("kind") in ("Scalar", "Linked") and n.get("fieldName") == name:
                    a = n.get("arguments")
                    if (0 if (a is None or _is_null(a)) else len(a)) == nargs:
                        found.append(n)
                walk(n.get("selections") if isinstance(n.get("selections"), list) else [])
    if isinstance(node, dict):
        walk(node.get("selections") if isinstance(node.get("selections"), list) else [])
    return found


def cps(s: str) -> list[int]:
    return [ord(c) for c in s]


# ------------------------------------------------------------------------------------------------
# judging + reporting
# ------------------------------------------------------------------------------------------------

def judge(chk, module, records, *, schema_file=SCHEMA1, tag="judge", chunk=250, consts=None, extra_env=None):
    env = {"SCHEMA": str(schema_file)}
    env.update(extra_env or {})
    return projlib.judge(chk, module, records, tag=tag, chunk=chunk, extra_env=env, consts=consts)


def feats_of(program: dict) -> frozenset:
    return frozenset(program.get("feats", []))


def report_grouped(chk, prop: str, hits: list[dict]):
    """hits: [{why, feats: frozenset, size, what, replay, sampled?}].  One violation per (why, minimal feature set):
    a hit whose feature set contains the feature set of another hit with the same `why` is explained by that
    one and not reported separately.  The minimal sets (hence the signatures) are computed from the EXHAUSTIVE
    part of the run only; hits of seeded random samples (`sampled`) are reported only when no exhaustive hit
    explains them, so the set of signatures does not depend on the seed.  Representative = smallest input."""
    by_why: dict[str, dict[frozenset, dict]] = {}
    sampled: dict[str, dict[frozenset, dict]] = {}
    for h in hits:
        d = (sampled if h.get("sampled") else by_why).setdefault(h["why"], {})
        cur = d.get(h["feats"])
        if cur is None or (h["size"], json.dumps(h["replay"], sort_keys=True)) < (cur["size"], json.dumps(cur["replay"], sort_keys=True)):
            d[h["feats"]] = h
    out = []
    for why in sorted(set(by_why) | set(sampled)):
        fsets = by_why.get(why, {})
        minimal = [f for f in fsets if not any(g < f for g in fsets)]
        extra = {f: h for f, h in sampled.get(why, {}).items() if not any(g <= f for g in minimal)}
        minimal += [f for f in extra if not any(g < f for g in extra)]
        allsets = dict(extra)
        allsets.update(fsets)
        for f in sorted(minimal, key=lambda s: sorted(s)):
            h = allsets[f]
            sig = f"{prop}:{why}" + (":" + "+".join(sorted(f)) if f else "")
            n = sum(1 for g in allsets if f <= g)
            out.append((sig, h, n))
    for sig, h, n in out:
        chk.violation(sig, f"{h['what']} (seen in {n} feature group(s) of this run)", h["replay"])
    return [s for s, _, _ in out]


def replay_doc(prop, kind, payload: dict) -> dict:
    d = {"property": prop, "engine": "project", "kind": kind}
    d.update(payload)
    return d


class ReplayCheck:
    """A minimal stand-in for vlib.Check used by replay(): same work-dir / accounting surface, records
    the signatures that still violate instead of printing."""

    def __init__(self, prop, seed):
        import os, shutil, time
        self.prop, self.tier, self.seed = prop, "replay", seed
        self.work = vlib.WORK / f"{prop}-replay-{os.getpid()}"
        if self.work.exists():
            shutil.rmtree(self.work)
        self.work.mkdir(parents=True)
        self.cov = {"states": 0, "transitions": 0, "traces_validated_against_impl": 0, "samples": [], "evaluations": 0,
                    "distinct_nontrivial": 0, "rule": "", "exhaustive": False, "tlc_runs": [], "drift": [], "known_findings": []}
        self.assumptions = []
        self.sigs = []

    def add_tlc(self, name, r, count_states=True):
        pass

    def sample(self, *a, **k):
        pass

    def drift(self, *a):
        pass

    def require_coverage(self, *a):
        pass

    def violation(self, signature, what, replay):
        self.sigs.append(signature)

    def close(self):
        import shutil
        shutil.rmtree(self.work, ignore_errors=True)


# ------------------------------------------------------------------------------------------------
# the checked-in projects (demos): project files from disk + schema as data
# ------------------------------------------------------------------------------------------------

DEMOS = {
    "pet-demo": "demos/pet-demo",
    "github-demo": "demos/github-demo",
    "vite-demo": "demos/vite-demo",
    "isograph-react": "libs/isograph-react",
}


def demo_project(name: str) -> tuple[dict, str]:
    """-> (project dict for h_compile, full SDL text incl. extensions)."""
    root = vlib.REPO / DEMOS[name]
    cfg = json.loads((root / "isograph.config.json").read_text())
    pr = (root / cfg["project_root"]).resolve()
    files = []
    for p in sorted(pr.rglob("*")):
        if not p.is_file() or "__isograph" in p.parts or "node_modules" in p.parts:
            continue
        if p.suffix not in (".ts", ".tsx", ".js", ".jsx"):
            continue
        try:
            files.append({"path": "src/" + str(p.relative_to(pr)), "content": p.read_text()})
        except UnicodeDecodeError:
            continue
    sdl = (root / cfg["schema"]).read_text()
    exts = [(root / e).read_text() for e in cfg.get("schema_extensions", [])]
    opts = {k: v for k, v in (cfg.get("options") or {}).items() if k in ("on_invalid_id_type", "module", "include_file_extensions_in_import_statements", "no_babel_transform")}
    proj = {"id": f"demo:{name}", "schema": sdl, "extensions": exts, "files": files, "config": {"options": opts}}
    return proj, sdl + "\n" + "\n".join(exts)


# ------------------------------------------------------------------------------------------------
# judge returning several kinds of printed lines (BAD, DRIFT, ...)
# ------------------------------------------------------------------------------------------------

def judge_tags(chk, module, records, *, schema_file=SCHEMA1, tag="judge", chunk=250, tags=("BAD", "DRIFT"), timeout=900):
    out = {t: [] for t in tags}
    for n, part in enumerate(vlib.chunks(records, chunk)):
        path = chk.work / f"{tag}-{n}.ndjson"
        vlib.write_ndjson(path, part)
        cfg = chk.work / f"{Path(module).stem}-{tag}.cfg"
        cfg.write_text(projlib.cfg_from_consts({}, "POSTCONDITION AllConsumed\n"))
        r = vlib.tlc(SP / module, cfg, workers=1, timeout=timeout, env={"TRACE": str(path), "SCHEMA": str(schema_file)}, dfs=True, heap="4g")
        chk.add_tlc(f"{tag}-{n}", r, count_states=False)
        if r.violated:
            raise ToolError(f"{module} did not consume all records of {path}:\n{r.out[-2000:]}")
        for t, v in r.printed:
            if t in out:
                out[t].append(v)
        chk.cov["traces_validated_against_impl"] += len(part)
    return out


# ------------------------------------------------------------------------------------------------
# tolerant reader of operation text (C12): the GraphQL executable grammar for ONE operation, except that the
# alias position accepts any run of characters (so that an illegal response key can still be observed).
# Output format = harness/h_compile/src/gql.rs.
# ------------------------------------------------------------------------------------------------

_PUNCT = set("{}():$@!=[]|")


class _Unreadable(Exception):
    pass


def _lex_loose(text: str):
    toks, i, n = [], 0, len(text)
    while i < n:
        c = text[i]
        if c in " \t\n\r,﻿":
            i += 1
        elif c == "#":
            while i < n and text[i] not in "\n\r":
                i += 1
        elif text.startswith("...", i):
            toks.append(("p", "..."))
            i += 3
        elif c in _PUNCT:
            toks.append(("p", c))
            i += 1
        elif c == '"':
            if text.startswith('"""', i):
                raise _Unreadable("block string")
            i += 1
            out = []
            while True:
                if i >= n:
                    raise _Unreadable("unterminated string")      # (a line terminator inside a string is tolerated)
                ch = text[i]
                if ch == '"':
                    i += 1
                    break
                if ch == "\\":
                    if i + 1 >= n:
                        raise _Unreadable("unterminated escape")
                    e = text[i + 1]
                    m = {'"': '"', "\\": "\\", "/": "/", "b": "\b", "f": "\f", "n": "\n", "r": "\r", "t": "\t"}
                    if e in m:
                        out.append(m[e])
                        i += 2
                    elif e == "u" and re.fullmatch(r"[0-9A-Fa-f]{4}", text[i + 2:i + 6] or ""):
                        out.append(chr(int(text[i + 2:i + 6], 16)))
                        i += 6
                    else:
                        out.append(ch)          # an unknown escape is tolerated (kept as written): only the keys matter here
                        out.append(e)
                        i += 2
                else:
                    out.append(ch)
                    i += 1
            toks.append(("s", "".join(out)))
        else:
            j = i
            while j < n and text[j] not in " \t\n\r,﻿" and text[j] not in _PUNCT and text[j] != '"' and not text.startswith("...", j):
                j += 1
            toks.append(("w", text[i:j]))
            i = j
    toks.append(("eof", ""))
    return toks


_NAME = re.compile(r"[_A-Za-z][_0-9A-Za-z]*\Z")
_INT = re.compile(r"-?(0|[1-9][0-9]*)\Z")
_FLOAT = re.compile(r"-?(0|[1-9][0-9]*)(\.[0-9]+([eE][+-]?[0-9]+)?|[eE][+-]?[0-9]+)\Z")


def loose_operation(text: str) -> dict:
    """-> {"readable": True, "kind", "name", "selections"} or {"readable": False, "error"}"""
    try:
        toks = _lex_loose(text)
        pos = [0]

        def tok():
            return toks[pos[0]]

        def bump():
            pos[0] += 1

        def expect(p):
            if tok() != ("p", p):
                raise _Unreadable(f"expected {p}, found {tok()}")
            bump()

        def name():
            k, v = tok()
            if k != "w" or not _NAME.match(v):
                raise _Unreadable(f"expected name, found {tok()}")
            bump()
            return v

        def type_ref():
            if tok() == ("p", "["):
                bump()
                type_ref()
                expect("]")
            else:
                name()
            if tok() == ("p", "!"):
                bump()

        def value():
            k, v = tok()
            if k == "s":
                bump()
                return {"t": "str", "cps": cps(v)}
            if tok() == ("p", "$"):
                bump()
                return {"t": "var", "n": name()}
            if tok() == ("p", "["):
                bump()
                items = []
                while tok() != ("p", "]"):
                    items.append(value())
                bump()
                return {"t": "list", "items": items}
            if tok() == ("p", "{"):
                bump()
                fs = []
                while tok() != ("p", "}"):
                    n_ = name()
                    expect(":")
                    fs.append([n_, value()])
                bump()
                return {"t": "obj", "fields": fs}
            if k == "w":
                bump()
                if _INT.match(v):
                    return {"t": "int", "v": v}
                if _FLOAT.match(v):
                    return {"t": "float", "v": v}
                if v in ("true", "false"):
                    return {"t": "bool", "v": v == "true"}
                if v == "null":
                    return {"t": "null"}
                if _NAME.match(v):
                    return {"t": "enum", "v": v}
            raise _Unreadable(f"expected value, found {tok()}")

        def arguments():
            out = []
            expect("(")
            while tok() != ("p", ")"):
                n_ = name()
                expect(":")
                out.append([n_, value()])
            bump()
            return out

        def selection_set():
            expect("{")
            out = []
            while tok() != ("p", "}"):
                out.append(selection())
            bump()
            return out

        def selection():
            if tok() == ("p", "..."):
                bump()
                if tok() == ("w", "on"):
                    bump()
                    on = name()
                    return {"t": "inline", "on": on, "directives": [], "selections": selection_set()}
                raise _Unreadable("fragment spread")
            k, first = tok()
            if k != "w":
                raise _Unreadable(f"expected selection, found {tok()}")
            bump()
            alias = ""
            if tok() == ("p", ":"):
                bump()
                alias, nm = first, name()          # the alias may be ANY run of characters
            else:
                if not _NAME.match(first):
                    raise _Unreadable(f"field name is not a name: {first!r}")
                nm = first
            args = arguments() if tok() == ("p", "(") else []
            if tok() == ("p", "@"):
                raise _Unreadable("directive")
            sels = selection_set() if tok() == ("p", "{") else []
            key = alias or nm
            return {"t": "field", "alias": alias, "name": nm, "key": key.encode("ascii", "replace").decode(), "key_cps": cps(key),
                    "args": args, "directives": [], "selections": sels}

        kind = name()
        if kind not in ("query", "mutation", "subscription"):
            raise _Unreadable("not an operation")
        opname = name() if tok()[0] == "w" else ""
        if tok() == ("p", "("):
            bump()
            while tok() != ("p", ")"):
                expect("$")
                name()
                expect(":")
                type_ref()
                if tok() == ("p", "="):
                    bump()
                    value()
            bump()
        sels = selection_set()
        if tok()[0] != "eof":
            raise _Unreadable("trailing text")
        return {"readable": True, "kind": kind, "name": opname, "selections": sels}
    except _Unreadable as e:
        return {"readable": False, "error": str(e)}


def strip_strict_tree(sels):
    """Reduce a gql.rs selection list to the fields the loose reader produces (for the self-check)."""
    out = []
    for s in sels:
        if s.get("t") == "field":
            out.append({"t": "field", "alias": s["alias"], "name": s["name"], "key_cps": s["key_cps"], "args": s["args"],
                        "selections": strip_strict_tree(s["selections"])})
        elif s.get("t") == "inline":
            out.append({"t": "inline", "on": s["on"], "selections": strip_strict_tree(s["selections"])})
        else:
            out.append({"t": s.get("t")})
    return out


def run_node_keys(chk, jobs: list[dict], timeout=600) -> dict:
    """jobs: [{id, dir, pairs:[{qt, norm}]}] -> {id: results}"""
    node = "/root/.nvm/versions/node/v22.22.2/bin/node"
    script = Path(__file__).with_name("proj_pb_keys.mjs")
    cache_ts = vlib.REPO / "libs/isograph-react/src/core/cache.ts"
    inp = "\n".join(json.dumps(j) for j in jobs) + "\n"
    try:
        p = subprocess.run([node, "--experimental-strip-types", "--no-warnings", str(script), str(cache_ts)], input=inp,
                           stdout=subprocess.PIPE, stderr=subprocess.PIPE, text=True, timeout=timeout)
    except subprocess.TimeoutExpired:
        raise ToolError("node key observer timed out")
    if p.returncode != 0:
        raise ToolError(f"node key observer failed rc={p.returncode}: {p.stderr[-2000:]}")
    out = {}
    for line in p.stdout.splitlines():
        if line.strip():
            o = json.loads(line)
            out[json.dumps(o["id"])] = o["results"]
    return out


def compile_programs_and_demos(chk, programs, want, demos=None):
    """Generated programs and the checked-in projects in ONE harness run (one cargo invocation: the shared
    target directory lock is contended).  -> (observations of the programs, {demo: (observation, SDL text)})"""
    names = list(DEMOS if demos is None else demos)
    if os.environ.get("PB_SKIP_DEMOS"):        # development knob (binding demonstration runs); never set by the registered commands
        names = []
    projs = [project_of(p, i) for i, p in enumerate(programs)]
    texts = {}
    for n in names:
        proj, text = demo_project(n)
        projs.append(proj)
        texts[n] = text
    obs = projlib.compile_all(chk, projs, want=list(want))
    out = {}
    for n, o in zip(names, obs[len(programs):]):
        if o["outcome"] != "ok":
            raise ToolError(f"checked-in project {n} does not compile: {o.get('diagnostics') or o.get('panic_msg')}")
        out[n] = (o, texts[n])
    return obs[:len(programs)], out


def compile_demos(chk, want, demos=None):
    return compile_programs_and_demos(chk, [], want, demos)[1]
