"""Engine `textfn`: small pure functions with a rich case analysis.

  C31  common_lang_types::text_with_carats            spec/textfn/Carats.tla      (+ MCCarats, CaratsTrace)
  C33  signedsource::{sign_file,is_valid_signature}    spec/textfn/SignedSource.tla (+ MCSignedSource, SignedSourceTrace)
  C23  isograph_lsp position / range / token encoding  spec/textfn/Utf.tla LspPos.tla (+ MCLspPos, LspPosTrace)

Every check has the same shape:
  1. model run  : TLC enumerates the bounded input space (the states ARE the cases), checks that the
                  implementation-shaped layer B satisfies the layer-A contract (B => A, non-vacuity of A) and
                  emits every case together with the predicted observation;
  2. spec->impl : the cases are concretised (class representatives chosen with VERIF_SEED) and run through the
                  real functions by harness/h_textfn (panics are data);
  3. impl->spec : the recorded observations (+ seeded random, larger inputs) are validated by TLC against the trace
                  specification, which evaluates the layer-A predicate on every record and prints
                  FAIL (violation), DRIFT (layer B differs, layer A holds) or BAD (record outside the stated domain).
The verdict comes from the FAIL lines only, i.e. from a TLA+ predicate evaluated by TLC on observations of the real code.
"""
from __future__ import annotations

import json
import random
from concurrent.futures import ThreadPoolExecutor
from pathlib import Path

import vlib

LEVEL = {"C31": "model_checking", "C33": "model_checking", "C23": "model_checking"}
SPEC = vlib.SPEC / "textfn"
CRATE = "h_textfn"


# ------------------------------------------------------------------------------------------------
# shared plumbing
# ------------------------------------------------------------------------------------------------

def run_harness(bindir: Path, binname: str, cases: list[dict], *, args=None, timeout=900, env=None) -> list[dict]:
    """Feed `cases` (ndjson) to a harness binary, return its ndjson output.  A crash of the harness
    process itself (abort, stack overflow) is contained by bisecting the batch."""
    if not cases:
        return []
    inp = "".join(json.dumps(c, separators=(",", ":")) + "\n" for c in cases)
    p = vlib.run_bin(bindir / binname, args or [], input=inp, timeout=timeout, check=False, env=env)
    if p.returncode == 0:
        out = [json.loads(l) for l in p.stdout.splitlines() if l.strip()]
        if len(out) != len(cases):
            raise vlib.ToolError(f"{binname}: {len(cases)} cases in, {len(out)} records out")
        return out
    if len(cases) == 1:
        r = dict(cases[0])
        r["aborted"] = True
        r["panicked"] = True
        vlib.log(f"[{binname}] process died (rc={p.returncode}) on a single case: {p.stderr[-300:]}")
        return [r]
    mid = len(cases) // 2
    return run_harness(bindir, binname, cases[:mid], args=args, timeout=timeout, env=env) + \
        run_harness(bindir, binname, cases[mid:], args=args, timeout=timeout, env=env)


def validate(chk: vlib.Check, module: str, records: list[dict], *, name: str, procs: int = 4, timeout: int = 900):
    """Validate `records` with the trace specification `module`.  Returns (fails, drifts) as lists of
    (global index, payload).  The records are split over `procs` TLC processes (one worker each; the walk over a
    trace is sequential).  BAD records and walks that do not reach the end are tool errors."""
    if not records:
        return [], []
    n = len(records)
    per = max(1, -(-n // procs))
    jobs = []
    for ci, start in enumerate(range(0, n, per)):
        path = chk.work / f"{name}-{ci}.ndjson"
        vlib.write_ndjson(path, records[start:start + per])
        jobs.append((ci, start, path, len(records[start:start + per])))

    def one(job):
        ci, start, path, cnt = job
        r = vlib.tlc(SPEC / f"{module}.tla", SPEC / f"{module}.cfg", workers=1, dfs=True, timeout=timeout,
                     env={"TRACE": str(path)}, metadir=chk.work / f"meta-{name}-{ci}")
        return job, r

    fails, drifts = [], []
    with ThreadPoolExecutor(max_workers=procs) as ex:
        for (ci, start, path, cnt), r in ex.map(one, jobs):
            chk.add_tlc(f"{name}-trace-{ci}", r, count_states=False)
            if r.violated is not None:
                raise vlib.ToolError(f"{module}: unexpected TLC verdict {r.violated}\n{r.out[-2000:]}")
            if r.distinct != cnt + 1:
                raise vlib.ToolError(f"{module}: walked {r.distinct - 1} of {cnt} records\n{r.out[-2000:]}")
            for tag, payload in r.printed:
                if tag == "BAD":
                    raise vlib.ToolError(f"{module}: record outside the stated domain: "
                                         f"{json.dumps(records[start + payload['i'] - 1])[:600]}")
                if tag == "FAIL":
                    fails.append((start + payload["i"] - 1, payload))
                if tag == "DRIFT":
                    drifts.append((start + payload["i"] - 1, payload))
    chk.cov["traces_validated_against_impl"] += n
    return fails, drifts


def model_run(chk: vlib.Check, module: str, actions: list[str], *, timeout=1500, workers=4):
    cfg = SPEC / f"{module}_{chk.tier}.cfg"
    r = vlib.tlc(SPEC / f"{module}.tla", cfg, workers=workers, timeout=timeout, coverage=True, seed=chk.seed,
                 metadir=chk.work / f"meta-{module}")
    chk.add_tlc(f"{module}-{chk.tier}", r)
    if r.violated is not None:
        # the intended design (layer B) does not satisfy the contract (layer A): the specification itself is
        # inconsistent - that is never a verdict about the code
        raise vlib.ToolError(f"{module}: model-level invariant {r.violated} violated (specification bug)\n{r.out[-3000:]}")
    chk.require_coverage(r, actions)
    return r


def report_failures(chk: vlib.Check, records, fails, *, group_key, order_key, signature, what, kind):
    """One chk.violation per failure group; the representative is the smallest record of the group."""
    groups: dict = {}
    for idx, payload in fails:
        groups.setdefault(group_key(records[idx], payload), []).append((idx, payload))
    for g in sorted(groups, key=str):
        idx, payload = min(groups[g], key=lambda ip: order_key(records[ip[0]]))
        rec = records[idx]
        chk.cov.setdefault("failure_groups", []).append({"group": list(g) if isinstance(g, tuple) else g,
                                                          "records": len(groups[g])})
        chk.violation(signature(rec, payload), what(rec, payload, len(groups[g])),
                      {"engine": "textfn", "kind": kind, "case": rec, "tlc": payload})


# ------------------------------------------------------------------------------------------------
# C31  text_with_carats
# ------------------------------------------------------------------------------------------------

ASCII1 = [c for c in range(33, 127) if c not in (32, 94)]                 # 1-byte, not ' ' or '^'
TWO = list(range(0xC0, 0x180)) + list(range(0x391, 0x3CA)) + list(range(0x410, 0x450))
THREE = list(range(0x4E00, 0x4E80)) + [0x20AC, 0x2603, 0x3042]
FOUR = list(range(0x1F600, 0x1F640)) + [0x1D11E, 0x10348]


def cp_class(cp: int) -> str:
    if cp == 10:
        return "n"
    return "a" if cp < 0x80 else "e" if cp < 0x800 else "3" if cp < 0x10000 else "4"


CLASS_RANK = {"a": 0, "n": 1, "e": 2, "3": 3, "4": 4}


def class_rank(text) -> list:
    return [CLASS_RANK[cp_class(c)] for c in text]


def u8(cp: int) -> int:
    return 1 if cp < 0x80 else 2 if cp < 0x800 else 3 if cp < 0x10000 else 4


def carats_concretise(case: dict, rng: random.Random) -> dict:
    m = {97: rng.choice(ASCII1), 233: rng.choice(TWO)}
    c = dict(case)
    c["text"] = [m.get(x, x) for x in case["text"]]
    exp = dict(case["exp"])
    exp["out"] = [[m.get(x, x) for x in line] for line in exp["out"]]
    c["exp"] = exp
    return c


def carats_random_cases(rng: random.Random, n: int) -> list[dict]:
    out = []
    while len(out) < n:
        ln = rng.randint(1, 40)
        wl = rng.choice([2, 4, 8])
        text = []
        for _ in range(ln):
            k = rng.random()
            if k < 1.0 / wl:
                text.append(10)
            elif k < 0.55:
                text.append(rng.choice(ASCII1))
            elif k < 0.75:
                text.append(rng.choice(TWO))
            elif k < 0.9:
                text.append(rng.choice(THREE))
            else:
                text.append(rng.choice(FOUR))
        if rng.random() < 0.3:
            text = [c if c == 10 or c < 128 else rng.choice(ASCII1) for c in text]   # pure ASCII share
        offs = [0]
        for c in text:
            offs.append(offs[-1] + u8(c))
        i = rng.randrange(0, len(text))
        j = rng.randint(i + 1, min(len(text), i + rng.choice([1, 2, 5, 40])))
        bs, be = offs[i], offs[j]
        if rng.random() < 0.5:
            outer = {"t": "none"}
            s, e = bs, be
        else:
            k = offs[rng.randint(0, i)]
            outer = {"t": "some", "k": k, "kend": offs[-1]}
            s, e = bs - k, be - k
        out.append({"text": text, "s": s, "e": e, "outer": outer, "bs": bs, "be": be, "src": "random"})
    return out


def carats_sig_case(rec: dict) -> str:
    cls = "".join(cp_class(c) for c in rec["text"])
    k = "none" if rec["outer"]["t"] == "none" else str(rec["outer"]["k"])
    return f"text={cls}|span={rec['bs']}:{rec['be']}|outer={k}"


def carats_judge(chk: vlib.Check, records: list[dict], name: str):
    fails, drifts = validate(chk, "CaratsTrace", records, name=name)
    for idx, payload in drifts[:5]:
        chk.drift({"what": payload["what"], "case": {k: records[idx][k] for k in ("text", "s", "e", "outer", "out", "row")}})
    chk.cov["drift_records"] = chk.cov.get("drift_records", 0) + len(drifts)
    report_failures(
        chk, records, fails,
        group_key=lambda rec, p: (p["conj"], p["cls"]),
        order_key=lambda rec: (len(rec["text"]), class_rank(rec["text"]), rec["bs"], rec["be"],
                               -1 if rec["outer"]["t"] == "none" else rec["outer"]["k"]),
        signature=lambda rec, p: f"C31|{p['conj']}|{p['cls']}|{carats_sig_case(rec)}",
        what=lambda rec, p, n: (f"text_with_carats breaks the contract conjunct '{p['conj']}' on {n} recorded case(s) of "
                                f"class '{p['cls']}'; smallest: text (code points) {rec['text']} byte span "
                                f"{rec['bs']}..{rec['be']} outer {rec['outer']} -> out {rec.get('out')} row {rec.get('row')} "
                                f"panicked {rec.get('panicked')}"),
        kind="carats")
    return fails


def run_c31(chk: vlib.Check):
    bindir = vlib.cargo_build(CRATE)
    rng = random.Random(chk.seed)
    r = model_run(chk, "MCCarats", ["Extend", "Pick"])
    cases = [carats_concretise(p, rng) for tag, p in r.printed if tag == "CASE"]
    ntexts = len({tuple(p["text"]) for tag, p in r.printed if tag == "CASE"}) + 1      # + the empty text
    if not cases or len(cases) + ntexts != r.distinct:
        # every case is one distinct state next to the text states; a lost CASE line would go unnoticed otherwise
        raise vlib.ToolError(f"MCCarats: {len(cases)} CASE lines + {ntexts} texts for {r.distinct} distinct states")
    for c in cases:
        c["src"] = "model"
    nrand = 3000 if chk.tier == "quick" else 40000
    cases += carats_random_cases(rng, nrand)
    records = run_harness(bindir, "textfn_carats", cases)
    predicted = sum(1 for x in records if x["src"] == "model" and not x["panicked"] and
                    x["out"] == x["exp"]["out"] and x["row"] == x["exp"]["row"])
    for x in records:
        x.pop("exp", None)
    carats_judge(chk, records, "carats")
    distinct = {(tuple(x["text"]), x["bs"], x["be"], json.dumps(x["outer"], sort_keys=True)) for x in records}
    nontrivial = {k for k in distinct if 10 in k[0] or any(c >= 128 for c in k[0])}
    chk.cov.update({
        "evaluations": len(records), "distinct_nontrivial": len(nontrivial), "exhaustive": True,
        "rule": "distinct (text, byte span, outer offset) cases; non-trivial = the text has more than one line or a "
                "multi-byte character.  Model cases: every text over {1-byte, 2-byte, newline} up to MaxLen symbols x "
                "every non-empty aligned span x outer offset in {none, every aligned k <= span start}; random cases: "
                "texts up to 40 characters over 1..4-byte characters and newlines.",
        "model_cases": sum(1 for x in records if x["src"] == "model"), "random_cases": nrand,
        "model_cases_equal_to_layerB_prediction": predicted,
        "trusted_base": ["harness/h_textfn/src/bin/carats.rs (calls text_with_carats under catch_unwind, splits the "
                         "output on \\n, code points)", "TLC Json module"],
    })
    for x in records[:2] + records[-1:]:
        chk.sample(x)
    chk.assumptions += [
        "Span unit is bytes (UTF-8) with both ends on character boundaries (what the lexers produce); spans that cut a "
        "character are outside the stated domain",
        "texts contain neither ' ' nor '^' (needed to tell source lines from caret lines in the output)",
        "colour off (color=false); only the public entry point text_with_carats (line buffer 2) is driven",
        "one caret per character = per Unicode scalar value; display width (East Asian wide, combining) not modelled",
    ]


# ------------------------------------------------------------------------------------------------
# C33  signedsource
# ------------------------------------------------------------------------------------------------

OLD_DIGEST = "0123456789abcdef0123456789abcdef"          # the digest of nothing relevant (assumed)
ORD_CHARS = [ord(c) for c in "abcxyzQ019 _-/*\n\t(){};=\"'"] + [0xE9, 0x4F60, 0x1F600]
LEX_RANK = {"c": 0, "G": 1, "T": 2, "S": 3}


def signed_tokens(bindir: Path):
    p = vlib.run_bin(bindir / "textfn_signed", ["token"])
    tok = json.loads(p.stdout)
    T = tok["newtoken"]
    if not tok["signing_token"].endswith(T):
        raise vlib.ToolError("SIGNING_TOKEN does not end with NEWTOKEN any more: revisit spec/textfn/SignedSource.tla")
    return tok["signing_token"][:-len(T)], T


def signed_concretise(case: dict, rng: random.Random, G: str, T: str, cd=None) -> dict:
    c, d = cd if cd else rng.sample(ORD_CHARS, 2)
    m = {"c": [c], "d": [d], "G": [ord(x) for x in G], "T": [ord(x) for x in T],
         "S": [ord(x) for x in f"SignedSource<<{OLD_DIGEST}>>"]}
    out = dict(case)
    out["content"] = [cp for sym in case["sym"] for cp in m[sym]]
    return out


def signed_random_cases(rng: random.Random, n: int, G: str, T: str) -> list[dict]:
    frags = ["@generated", "@generated  ", "SignedSource<<", "<<SignedSource::", ">>", "<<", OLD_DIGEST[:31],
             "SignedSource<<" + OLD_DIGEST[:31] + "g>>", T[:-1], T[1:], "\n * ", "// "]
    out = []
    while len(out) < n:
        parts = []
        for _ in range(rng.randint(0, 14)):
            k = rng.random()
            if k < 0.45:
                parts.append(chr(rng.choice(ORD_CHARS)))
            elif k < 0.6:
                parts.append(rng.choice(frags))
            elif k < 0.72:
                parts.append(G)
            elif k < 0.82:
                parts.append(T)
            elif k < 0.92:
                parts.append(G + T)
            else:
                parts.append(G + "SignedSource<<" + "".join(rng.choice("0123456789abcdef") for _ in range(32)) + ">>")
        if rng.random() < 0.6:
            parts.insert(rng.randint(0, len(parts)), G + T)
        out.append({"content": [ord(ch) for ch in "".join(parts)], "src": "random"})
    return out


def signed_kinds(rec: dict) -> str:
    return "".join(x["k"] for x in rec["content_sym"])


def signed_judge(chk: vlib.Check, records: list[dict], name: str):
    fails, drifts = validate(chk, "SignedSourceTrace", records, name=name)
    seen = set()
    for idx, payload in drifts:
        if payload["what"] not in seen and len(seen) < 6:
            seen.add(payload["what"])
            chk.drift({"what": payload["what"], "content_lexemes": signed_kinds(records[idx]),
                       "records": sum(1 for _, p in drifts if p["what"] == payload["what"])})
    chk.cov["drift_records"] = chk.cov.get("drift_records", 0) + len(drifts)
    report_failures(
        chk, records, fails,
        group_key=lambda rec, p: (p["conj"], p["cls"]),
        order_key=lambda rec: (len(rec["content_sym"]), [LEX_RANK[x["k"]] for x in rec["content_sym"]]),
        signature=lambda rec, p: f"C33|{p['conj']}|{p['cls']}|content={signed_kinds(rec)}",
        what=lambda rec, p, n: (f"signedsource breaks '{p['conj']}' on {n} recorded content(s) of class '{p['cls']}'; smallest "
                                f"content (lexemes c=char G='@generated ' T=token S=old signature): {signed_kinds(rec)} -> "
                                f"sign={rec['sign']} valid_after={rec.get('valid_after')} surviving edits={rec.get('still_valid')}"),
        kind="signed")
    return fails


def run_c33(chk: vlib.Check):
    bindir = vlib.cargo_build(CRATE)
    rng = random.Random(chk.seed)
    G, T = signed_tokens(bindir)
    r = model_run(chk, "MCSignedSource", ["Extend"])
    cases = [signed_concretise(p, rng, G, T) for tag, p in r.printed if tag == "CASE"]
    # every content once more with line terminators as the ordinary characters (LF and CR), so that
    # line-ending normalisation before hashing cannot hide behind the seed's choice of representatives
    cases += [signed_concretise(p, rng, G, T, cd=(0x0A, 0x0D)) for tag, p in r.printed if tag == "CASE"]
    if not cases or len(cases) != 2 * (r.distinct - 1):
        raise vlib.ToolError(f"MCSignedSource: {len(cases)} CASE lines for {r.distinct} distinct states")
    for c in cases:
        c["src"] = "model"
    nrand = 1500 if chk.tier == "quick" else 15000
    cases += signed_random_cases(rng, nrand, G, T)
    records = run_harness(bindir, "textfn_signed", cases)
    for x in records:
        x.pop("content", None)         # TLC does not look inside the concrete text; keep the trace small
    signed_judge(chk, records, "signed")
    with_tok = [x for x in records if any(a["k"] == "G" and b["k"] == "T"
                                          for a, b in zip(x["content_sym"], x["content_sym"][1:]))]
    chk.cov.update({
        "evaluations": len(records),
        "distinct_nontrivial": len({json.dumps(x["content_sym"]) for x in with_tok}),
        "exhaustive": True,
        "rule": "distinct contents (as lexeme sequences); non-trivial = contains the signing token '@generated '+token. "
                "Model cases: every sequence over {c, d, '@generated ', token, old signature} up to MaxLen lexemes; "
                "random cases: up to 14 pieces incl. near-miss fragments and non-ASCII characters.  For every signed "
                "file every single-character substitution (each position x 4 other characters of different kinds) is verified.",
        "model_cases": sum(1 for x in records if x["src"] == "model"), "random_cases": nrand,
        "edits_verified": sum(x.get("edits_tried", 0) for x in records),
        "contents_with_signing_token": len(with_tok),
        "trusted_base": ["harness/h_textfn/src/bin/signed.rs (lexer by fixed literals; md-5 observer for the content digest; "
                         "substitution enumerator)", "TLC Json module"],
    })
    for x in (with_tok[:2] + with_tok[-1:]):
        chk.sample({k: x[k] for k in x if k not in ("content",)})
    chk.assumptions += [
        "'the signing token' = signedsource::SIGNING_TOKEN ('@generated ' + NEWTOKEN), as documented on the constant; "
        "a bare NEWTOKEN without the prefix is outside the statement (drift only)",
        "md5 collision resistance (the model's hash is an uninterpreted injective function)",
        "'changing any character' = substituting one character by another one (no insertions/deletions); 4 replacement "
        "characters per position",
        "'the signature' = the SignedSource<<digest>> lexemes that signing created (digest not already present in the content)",
    ]


# ------------------------------------------------------------------------------------------------
# C23  language-server positions
# ------------------------------------------------------------------------------------------------

LSP_SCHEMA = """type Query {
  me: User
  node(id: ID!): User
}

type User {
  id: ID!
  name(s: String): String
  friend: User
}
"""

# Real iso literals (text between the back-ticks) by slot id.  {N} = the exported name (unique per slot).
# A  : multi-line client field; multi-line block-string description and a string argument with non-ASCII
# B  : single-line client field, non-ASCII description, selects an unknown field after it (-> diagnostic)
# E  : entrypoint (single line, ASCII)
# X  : syntax error after non-ASCII text on the same line (-> parse diagnostic, no tokens / no edit)
# TR : two literals: a target field T on the line where the prefix ends and, on fresh ASCII lines, a field R
#      that selects T (goto-definition from R's selection must answer with the range of T's name)
LIT_TEXT = {
    "A": '\n  field Query.{N}\n  """\n  {e}{c} desc\n\n  second {e}\n  """\n  {\n    me {\n      name(s: "{e}{c}x")\n'
         '      friend { id, }\n    }\n  }\n',
    "B": 'field Query.{N} "{e}{c}" { me { name(s: "{c}"), nope, }, }',
    "E": 'entrypoint Query.{N}',
    "X": 'field Query.{N} "{c}{e}" { me { id } }',
    "T": 'field Query.{N} "{e}" { me { id, }, }',
    "R": '\n  field Query.{N} {\n    T1\n    me { id, }\n  }\n',
}
# slot ids: first letter = kind; a following "a" = the pure-ASCII variant ({e},{c} replaced by ASCII letters);
# a trailing digit is added by the model for the second slot


def lsp_literal(slot: str, n: int):
    """-> (source text of the iso call, [(declared parent, name)], goto requests as (needle, offset, parent, name))"""
    ascii_only = slot.rstrip("0123456789").endswith("a") and not slot.startswith("TR")
    if slot.startswith("TRa"):
        ascii_only = True

    def call(kind, name):
        body = LIT_TEXT[kind].replace("{N}", name)
        body = body.replace("{e}", "e" if ascii_only else "é").replace("{c}", "c" if ascii_only else "你")
        if kind == "E":
            return f"iso(`{body}`)"
        return f"export const {name} = iso(`{body}`)(() => 0)"
    if slot.startswith("TR"):
        return call("T", "T1") + ";\n" + call("R", "R1"), [("Query", "T1"), ("Query", "R1")], [("    T1\n", 4, "Query", "T1")]
    kind = slot[0]
    name = f"{kind}{n}" if kind != "E" else "A1"
    decl = [] if kind in ("E", "X") else [("Query", name)]
    return call(kind, name), decl, []


def utf16_pos(text: str, idx: int):
    pre = text[:idx]
    line = pre.count("\n")
    last = pre.rsplit("\n", 1)[-1]
    return line, sum(2 if ord(c) >= 0x10000 else 1 for c in last)


def lsp_build_case(skel: dict, rng: random.Random) -> dict:
    reps = {97: rng.choice([ord(c) for c in "abcxyz_$09;=+"]), 233: rng.choice(TWO), 20320: rng.choice(THREE),
            128512: rng.choice(FOUR), 10: 10}
    pre = "".join(chr(reps[c]) for c in skel["pre"])
    mid = "".join(chr(reps[c]) for c in skel["mid"])
    t1, decl1, g1 = lsp_literal(skel["lit1"], 1)
    text = pre + t1
    decl, gotos = list(decl1), list(g1)
    if skel["lit2"] != "-":
        t2, decl2, g2 = lsp_literal(skel["lit2"], 2)
        text += ";" + mid + t2
        decl += decl2
        gotos += g2
    text += "\n"
    # positions a client may send: every character boundary of every literal text (at most 16 per literal, spread)
    p2o = []
    start = 0
    while True:
        a = text.find("iso(`", start)
        if a < 0:
            break
        a += 5
        b = text.index("`", a)
        idxs = list(range(a, b + 1))
        if len(idxs) > 16:
            step = len(idxs) / 16.0
            idxs = sorted({idxs[int(k * step)] for k in range(16)} | {a, b})
        p2o += [list(utf16_pos(text, i)) for i in idxs]
        start = b + 1
    goto = []
    for needle, off, parent, name in gotos:
        line, ch = utf16_pos(text, text.index(needle) + off)
        goto.append({"line": line, "ch": ch, "parent": parent, "name": name})
    for parent, name in decl:                      # ground truth of every declared client field (candidates)
        if not any(g["name"] == name for g in goto):
            goto.append({"line": 0, "ch": 0, "parent": parent, "name": name})
    return {"skel": skel, "doc": [ord(c) for c in text], "p2o": p2o, "goto": goto}


def lsp_project(chk: vlib.Check) -> Path:
    proj = chk.work / "lsp-project"
    (proj / "src").mkdir(parents=True, exist_ok=True)
    (proj / "isograph.config.json").write_text('{"project_root": "./src", "schema": "./schema.graphql", "options": {}}\n')
    (proj / "schema.graphql").write_text(LSP_SCHEMA)
    (proj / "src" / "doc.tsx").write_text("// placeholder, replaced by didOpen\n")
    return proj


LSP_LITS = ["E", "Ba", "Aa", "TRa", "B", "A", "TR", "X", "Xa", "-"]


def lsp_random_skeletons(rng: random.Random, n: int) -> list[dict]:
    alpha = [97, 97, 97, 233, 20320, 128512, 10, 10]
    out = []
    for _ in range(n):
        out.append({"pre": [rng.choice(alpha) for _ in range(rng.randint(0, 12))],
                    "lit1": rng.choice(LSP_LITS[:-1]),
                    "mid": [rng.choice(alpha) for _ in range(rng.randint(0, 6))],
                    "lit2": rng.choice(["-", "B2", "X2", "A2", "E2", "Aa2", "Ba2"]), "src": "random"})
    return out


def lsp_skel_sig(rec: dict) -> str:
    sk = rec["skel"]
    cls = {97: "a", 233: "e", 20320: "c", 128512: "m", 10: "n"}
    return (f"pre={''.join(cls[c] for c in sk['pre'])}|lit1={sk['lit1']}|mid={''.join(cls[c] for c in sk['mid'])}"
            f"|lit2={sk['lit2']}")


def lsp_order(rec: dict):
    sk = rec["skel"]
    rank = {97: 0, 10: 1, 233: 2, 20320: 3, 128512: 4}
    lits = LSP_LITS + [x + "2" for x in LSP_LITS]
    return (0 if sk.get("src") == "model" else 1, len(sk["pre"]) + len(sk["mid"]), 0 if sk["lit2"] == "-" else 1,
            [rank[c] for c in sk["pre"]], [rank[c] for c in sk["mid"]], lits.index(sk["lit1"]), lits.index(sk["lit2"]))


def lsp_judge(chk: vlib.Check, records: list[dict], name: str):
    fails, drifts = validate(chk, "LspPosTrace", records, name=name, timeout=1500)
    kinds: dict = {}
    for idx, p in drifts:
        k = kinds.setdefault(p["what"], {"records": 0, "items": 0, "example": lsp_skel_sig(records[idx])})
        k["records"] += 1
        k["items"] += p.get("n", 1)
    for what, k in sorted(kinds.items()):
        chk.drift({"what": what, **k})
    chk.cov["drift_records"] = chk.cov.get("drift_records", 0) + len(drifts)
    report_failures(
        chk, records, fails,
        group_key=lambda rec, p: (p["conj"], p["cls"]),
        order_key=lsp_order,
        signature=lambda rec, p: f"C23|{p['conj']}|{p['cls']}|{lsp_skel_sig(rec)}",
        what=lambda rec, p, n: (f"language server breaks '{p['conj']}' on {n} recorded document(s) of class '{p['cls']}'; "
                                f"smallest: {lsp_skel_sig(rec)} (a=1-byte e=2-byte c=3-byte m=4-byte/2-unit n=newline; "
                                f"literal slots see engines/textfn.py LIT_TEXT)"),
        kind="lsp")
    return fails


def lsp_strip(rec: dict) -> dict:
    r = {k: rec[k] for k in ("skel", "doc", "extractions", "parse", "sem", "diags", "p2o", "goto", "hover_range")}
    f = rec["fmt"]
    r["fmt"] = {"t": f["t"], "edits": [{k: e[k] for k in ("sl", "sc", "el", "ec")} for e in f.get("edits", [])]} \
        if f["t"] == "ok" else {"t": f["t"], "edits": []}
    r["diags"] = [{k: d[k] for k in ("bs", "be", "in_doc", "lsp")} for d in rec["diags"]]
    return r


def run_c23(chk: vlib.Check):
    bindir = vlib.cargo_build(CRATE)
    rng = random.Random(chk.seed)
    r = model_run(chk, "MCLspPos", ["Extend", "Emit"])
    skels = [p for tag, p in r.printed if tag == "CASE"]
    predicted = [p for tag, p in r.printed if tag == "PREDICT"]
    if not skels:
        raise vlib.ToolError("MCLspPos emitted no CASE")
    for s in skels:
        s["src"] = "model"
    skels += lsp_random_skeletons(rng, 300 if chk.tier == "quick" else 2000)
    cases = [lsp_build_case(s, rng) for s in skels]
    proj = lsp_project(chk)
    raw = run_harness(bindir, "textfn_lsp", cases, args=[str(proj)], timeout=1500)
    records = [lsp_strip(x) for x in raw]
    lsp_judge(chk, records, "lsp")
    nontrivial = {json.dumps(x["doc"]) for x in records if any(c >= 128 for c in x["doc"])}
    chk.cov.update({
        "evaluations": len(records), "distinct_nontrivial": len(nontrivial), "exhaustive": True,
        "rule": "distinct documents; non-trivial = contains a non-ASCII character.  Model cases: every prefix over "
                "{1-byte, 2-byte, 3-byte, 4-byte/2-unit, newline} up to MaxPre symbols x literal slot 1 x (nothing | every "
                "middle text up to MaxMid symbols x literal slot 2); random cases: prefixes up to 12 and middles up to 6 "
                "symbols.  Per document: the semantic token stream, every formatting edit range, every diagnostic "
                "range, goto-definition ranges and up to 16 client positions per literal.",
        "model_cases": sum(1 for x in records if x["skel"].get("src") == "model"),
        "semantic_tokens_decoded": sum(len(x["sem"].get("data", [])) for x in records),
        "format_edit_ranges": sum(len(x["fmt"]["edits"]) for x in records),
        "diagnostic_ranges": sum(1 for x in records for d in x["diags"] if d["lsp"]["t"] == "some"),
        "definition_ranges": sum(1 for x in records for g in x["goto"] if g["res"]["t"] == "some"),
        "client_positions": sum(len(x["p2o"]) for x in records),
        "layerB_predicted_deviating_small_docs": len(predicted),
        "trusted_base": ["harness/h_textfn/src/bin/lsp.rs (opens the document in a real LspState, calls the request handlers, "
                         "projects ranges and the parser's byte spans)", "the iso parser's token spans and "
                         "extract_iso_literals_from_file_content as ground truth for what is described", "TLC Json module"],
    })
    small = sorted(records, key=lambda x: len(x["doc"]))[:2]
    for x in small:
        chk.sample(x)
    chk.assumptions += [
        "LSP 3.17 default position encoding (UTF-16 code units); a column beyond the end of a line designates the line end; "
        "semantic tokens must not span lines (no multilineTokenSupport): a multi-line source token is covered by one range "
        "per line, zero-width ranges are tolerated",
        "ground truth of 'the text it describes' = byte spans of the parser's semantic tokens, of the extraction, of the "
        "diagnostic's / definition's Location (their correctness is C07's subject)",
        "positions the server RECEIVES (hover / goto cursor -> offset) are recorded as drift, not judged (the statement "
        "speaks of positions the server sends); hover answers carry no range",
        "iso literal texts are fixed (engines/textfn.py LIT_TEXT); non-BMP characters only outside literals (the iso lexer "
        "rejects them inside strings)",
    ]


# ------------------------------------------------------------------------------------------------
# driver entry points
# ------------------------------------------------------------------------------------------------

def run(chk: vlib.Check) -> None:
    {"C31": run_c31, "C33": run_c33, "C23": run_c23}[chk.prop](chk)


def replay(prop: str, path: Path, seed: int) -> int:
    rp = json.loads(Path(path).read_text())
    chk = vlib.Check(prop, "quick", seed)
    try:
        bindir = vlib.cargo_build(CRATE)
        kind = rp["kind"]
        case = {k: v for k, v in rp["case"].items()}
        if kind == "carats":
            for k in ("panicked", "out", "out_empty", "row", "aborted"):
                case.pop(k, None)
            recs = run_harness(bindir, "textfn_carats", [case])
            fails, _ = validate(chk, "CaratsTrace", recs, name="replay", procs=1)
        elif kind == "signed":
            G, T = signed_tokens(bindir)
            m = {"c": "x", "G": G, "T": T}
            text = "".join(m[x["k"]] if x["k"] != "S" else f"SignedSource<<{x['h']}>>" for x in case["content_sym"])
            recs = run_harness(bindir, "textfn_signed", [{"content": [ord(c) for c in text], "src": "replay"}])
            for x in recs:
                x.pop("content", None)
            fails, _ = validate(chk, "SignedSourceTrace", recs, name="replay", procs=1)
        elif kind == "lsp":
            rng = random.Random(seed)
            raw = run_harness(bindir, "textfn_lsp", [lsp_build_case(case["skel"], rng)], args=[str(lsp_project(chk))])
            recs = [lsp_strip(x) for x in raw]
            fails, _ = validate(chk, "LspPosTrace", recs, name="replay", procs=1)
            fails = [f for f in fails if f[1]["conj"] == rp["tlc"]["conj"]]
        else:
            raise vlib.ToolError(f"unknown replay kind {kind}")
        print(json.dumps({"replayed": recs[0], "fails": [p for _, p in fails]})[:4000])
        return 1 if fails else 0
    finally:
        import shutil
        shutil.rmtree(chk.work, ignore_errors=True)
