"""Engine `lsp` — decides C21 (language-server answers match a fresh server on the same contents).

  1. build harness/h_lsp (hook exports isograph_lsp::verif_exports and the watcher categorisation)
  2. TLC enumerates every bounded history of didOpen/didChange/didClose, on-disk edits (with their
     watcher batch), validations, garbage collections and requests (semantic tokens, formatting,
     hover, go-to-definition) over two files and four content classes (spec/lsp/Lsp.tla); on the
     model, the live server's inputs equal the fresh server's inputs (InputsAgree)
  3. spec -> impl: every history that ends in an observation is replayed on a real LspState through
     the real handlers; after every observation a fresh LspState is started on the same disk with
     the same buffers and asked the same thing
  4. impl -> spec: TLC (LspTrace.tla, layer A) requires every pair of answers to be equal
"""
from __future__ import annotations

import json
import random
from pathlib import Path

import vlib
from vlib import SPEC, ToolError

LEVEL = {"C21": "model_checking"}
SP = SPEC / "lsp"


def run_harness(binp, chk, replays):
    inp = "\n".join(json.dumps({"id": i, "ops": r["ops"]}) for i, r in enumerate(replays)) + "\n"
    p = vlib.run_bin(binp / "h_lsp", [str(chk.work / "hl")], input=inp, timeout=2400)
    out = [json.loads(l) for l in p.stdout.splitlines() if l.strip()]
    if len(out) != len(replays):
        raise ToolError(f"h_lsp returned {len(out)} of {len(replays)} results\n{p.stderr[-1500:]}")
    return out


def judge(chk, obs, tag):
    bads = {}
    for n, part in enumerate(vlib.chunks(obs, 3000)):
        path = chk.work / f"trace-{tag}-{n}.ndjson"
        rows = [{"id": o["id"], "steps": [{"op": s["op"], "same": s.get("same", True),
                                           "live_kind": s.get("live_kind", ""), "fresh_kind": s.get("fresh_kind", "")}
                                          for s in o["steps"]]} for o in part]
        vlib.write_ndjson(path, rows)
        cfg = chk.work / "LspTrace.cfg"
        cfg.write_text("SPECIFICATION Spec\nPOSTCONDITION AllConsumed\n")
        r = vlib.tlc(SP / "LspTrace.tla", cfg, workers=1, timeout=900, env={"TRACE": str(path)}, dfs=True, heap="3g")
        chk.add_tlc(f"trace-{tag}-{n}", r, count_states=False)
        if r.violated:
            raise ToolError(f"LspTrace did not consume all records:\n{r.out[-1500:]}")
        for t, v in r.printed:
            if t == "BAD":
                bads[v["id"]] = v
        chk.cov["traces_validated_against_impl"] += len(part)
    return bads


def sig_of(ops):
    def one(o):
        if o["op"] == "request":
            return f"request({o['k']},{o['f'][-4:]})"
        if "f" in o:
            return f"{o['op']}({o['f'][-4:]},{o.get('c', '')})"
        return o["op"]
    return "C21:" + ",".join(one(o) for o in ops)


def run(chk: vlib.Check):
    binp = vlib.cargo_build("h_lsp")
    rng = random.Random(chk.seed)
    maxops = 3 if chk.tier == "quick" else 4
    chk.assumptions += [
        "every on-disk edit reaches the server as the debounced watcher batch of the NotifyModel (see C20); the real watcher/debouncer and the tokio loop are not run",
        "a fresh server = a new CompilerState on the same disk that is sent didOpen for the currently open buffers",
        "scope: two source files, contents {valid v1, valid v2, validation error, syntax error}, hover/definition at one fixed position inside the literal",
    ]
    cfg = chk.work / "MCLsp.cfg"
    cfg.write_text(f"SPECIFICATION Spec\nCONSTANTS\n  MaxOps = {maxops}\n  Emit = TRUE\nVIEW View\nINVARIANT InputsAgree\nACTION_CONSTRAINT EmitReplay\n")
    r = vlib.tlc(SP / "Lsp.tla", cfg, workers=4, timeout=1500, seed=chk.seed, heap="6g")
    chk.add_tlc("mc-lsp", r)
    if r.violated:
        raise ToolError(f"Lsp.tla: {r.violated}\n{r.out[-1500:]}")
    replays = [v for t, v in r.printed if t == "REPLAY"]
    if not replays:
        raise ToolError("Lsp.tla emitted no replays")
    if chk.tier == "thorough" and len(replays) > 40000:
        rng.shuffle(replays)
        replays = replays[:40000]
        chk.cov["sampled"] = True
    kinds = {}
    for rp in replays:
        for o in rp["ops"]:
            kinds[o["op"]] = kinds.get(o["op"], 0) + 1
    chk.cov["actions_taken"] = kinds
    need = {"open", "change", "close", "disk", "validate", "request", "gc"}
    if not need <= set(kinds):
        raise ToolError(f"vacuous model run: actions never taken: {sorted(need - set(kinds))}")
    obs = run_harness(binp, chk, replays)
    chk.cov["evaluations"] = len(replays)
    for o in obs:
        if "harness_panic" in o:
            raise ToolError(f"h_lsp panicked outside the code under test: {o['harness_panic']}")
    bads = judge(chk, obs, "mc")
    chk.cov["distinct_nontrivial"] = sum(1 for rp in replays if len(rp["ops"]) >= 2 and any(o["op"] in ("open", "change", "close", "disk") for o in rp["ops"]))
    chk.cov["rule"] = ("one replay per transition of Lsp.tla that ends in an observation (validate / request), shortest history; "
                       "non-trivial = at least one notification or disk edit before the observation")
    chk.cov["exhaustive"] = "sampled" not in chk.cov
    chk.cov["both_panicked"] = sum(1 for o in obs for s in o["steps"] if s.get("live_kind") == "panic" and s.get("same"))
    ok = [o for o in obs if o["id"] not in bads]
    if ok:
        o = ok[rng.randrange(len(ok))]
        chk.sample({"kind": "history accepted by layer A", "ops": replays[o["id"]]["ops"], "steps": o["steps"]})
    found = {}
    for i, b in bads.items():
        ops = replays[i]["ops"][: b["at"]]
        sig = sig_of(ops)
        if sig not in found or len(ops) < len(found[sig][0]):
            found[sig] = (ops, obs[i]["steps"][b["at"] - 1])
    for sig, (ops, step) in sorted(found.items(), key=lambda kv: len(kv[1][0]))[:5]:
        chk.sample({"kind": "history rejected by layer A", "ops": ops, "step": step}, limit=8)
        chk.violation(sig, f"live server answers differently from a fresh server after {json.dumps(ops)}",
                      {"engine": "lsp", "ops": ops, "observed": step})


def replay(prop: str, path: Path, seed: int) -> int:
    rp = json.loads(Path(path).read_text())
    chk = vlib.Check(prop, "quick", seed)
    binp = vlib.cargo_build("h_lsp")
    obs = run_harness(binp, chk, [{"ops": rp["ops"]}])
    bads = judge(chk, obs, "replay")
    print(json.dumps({"observed": obs[0]["steps"], "layerA": list(bads.values())}, indent=1))
    import shutil
    shutil.rmtree(chk.work, ignore_errors=True)
    return 1 if bads else 0
