"""Shared driver pieces of the `project` engine (program-space properties C08-C16, C24-C27).

    programs = generate(chk, "GenXxx.tla", consts)          # TLC enumerates abstract programs (states ARE programs)
    obs      = compile_all(chk, projects)                    # the real compiler runs each (harness/h_compile)
    bads     = judge(chk, "ObsCxx.tla", records)             # TLC evaluates the TLA+ property predicates per record

Each generator spec prints  <<"PROGRAM", ToJson(p)>>  per program (see spec/project/GenBasic.tla);
each predicate spec reads ndjson records (IOEnv.TRACE) and prints <<"BAD", ToJson([id |-> .., why |-> ..])>>
for every record that violates the property (see spec/project/ObsC08.tla).
"""
from __future__ import annotations

import json
import subprocess
from pathlib import Path

import vlib
from vlib import SPEC, ToolError, log

SP = SPEC / "project"
_SCHEMAS: dict[str, dict] = {}


def schema(name="schema1") -> dict:
    if name not in _SCHEMAS:
        _SCHEMAS[name] = json.loads((SP / f"{name}.json").read_text())
    return _SCHEMAS[name]


def cfg_from_consts(consts: dict, extra: str = "") -> str:
    lines = ["SPECIFICATION Spec", "CONSTANTS"]
    for k, v in consts.items():
        if isinstance(v, bool):
            v = "TRUE" if v else "FALSE"
        elif isinstance(v, (set, frozenset, list, tuple)) and not isinstance(v, str):
            v = "{" + ", ".join(json.dumps(x) if isinstance(x, str) else str(x) for x in v) + "}"
        elif isinstance(v, str) and not v.startswith("<-"):
            v = json.dumps(v)
        if isinstance(v, str) and v.startswith("<-"):
            lines.append(f"  {k} {v}")
        else:
            lines.append(f"  {k} = {v}")
    return "\n".join(lines) + "\n" + extra


def generate(chk, module: str, consts: dict, *, tag="PROGRAM", timeout=600, workers=4, simulate=None, depth=None,
             extra_cfg="INVARIANT Emit\n", name=None):
    """Run a generator spec; returns the list of printed objects (deduplicated, order preserved)."""
    cfg = chk.work / f"{Path(module).stem}-{name or 'gen'}.cfg"
    cfg.write_text(cfg_from_consts(consts, extra_cfg))
    r = vlib.tlc(SP / module, cfg, workers=workers, timeout=timeout, seed=chk.seed, simulate=simulate, depth=depth, heap="6g")
    chk.add_tlc(f"gen-{Path(module).stem}-{name or ''}", r)
    if r.violated:
        raise ToolError(f"generator {module} reported {r.violated}:\n{r.out[-1500:]}")
    seen, out = set(), []
    for t, v in r.printed:
        if t == tag:
            key = json.dumps(v, sort_keys=True)
            if key not in seen:
                seen.add(key)
                out.append(v)
    if not out:
        raise ToolError(f"generator {module} produced nothing:\n{r.out[-1500:]}")
    return out


def compile_all(chk, projects: list[dict], *, timeout=1200, want=None) -> list[dict]:
    """Run the real compiler on every project (dicts in h_compile's input format, each with an "id").
    A process death (abort, stack overflow) is attributed to the project that was running and
    recorded as outcome "abort"; the remaining projects run in a new process."""
    binp = vlib.cargo_build("h_compile") / "h_compile"
    base = chk.work / "hc"
    base.mkdir(exist_ok=True)
    results: dict = {}
    todo = list(projects)
    if want is not None:
        for p in todo:
            p.setdefault("want", want)
    while todo:
        inp = "\n".join(json.dumps(p) for p in todo) + "\n"
        try:
            p = subprocess.run([str(binp), str(base)], input=inp, stdout=subprocess.PIPE, stderr=subprocess.PIPE,
                               text=True, timeout=timeout)
        except subprocess.TimeoutExpired:
            raise ToolError("h_compile timed out")
        running = None
        for line in p.stdout.splitlines():
            if not line.strip():
                continue
            o = json.loads(line)
            if "begin" in o and len(o) == 1:
                running = o["begin"]
                continue
            results[json.dumps(o.get("id"))] = o
            running = None
        if p.returncode == 0 and running is None:
            break
        if running is None:
            raise ToolError(f"h_compile failed rc={p.returncode}: {p.stderr[-1500:]}")
        # the process died while `running` was being compiled
        results[json.dumps(running)] = {"id": running, "outcome": "abort", "rc": p.returncode,
                                        "stderr": p.stderr[-400:].encode("ascii", "replace").decode()}
        ids = [json.dumps(q.get("id")) for q in todo]
        todo = todo[ids.index(json.dumps(running)) + 1:]
    out = []
    for q in projects:
        k = json.dumps(q.get("id"))
        if k not in results:
            raise ToolError(f"no observation for project {k}")
        out.append(results[k])
    return out


def judge(chk, module: str, records: list[dict], *, consts: dict | None = None, tag="judge", chunk=300, timeout=900,
          extra_env: dict | None = None):
    """Write records as ndjson, run the predicate spec over them, return the printed BAD objects.
    The predicate spec must consume every record (POSTCONDITION AllConsumed)."""
    bads = []
    for n, part in enumerate(vlib.chunks(records, chunk)):
        path = chk.work / f"{tag}-{n}.ndjson"
        vlib.write_ndjson(path, part)
        cfg = chk.work / f"{Path(module).stem}-{tag}.cfg"
        cfg.write_text(cfg_from_consts(consts or {}, "POSTCONDITION AllConsumed\n"))
        env = {"TRACE": str(path)}
        env.update(extra_env or {})
        r = vlib.tlc(SP / module, cfg, workers=1, timeout=timeout, env=env, dfs=True, heap="4g")
        chk.add_tlc(f"{tag}-{n}", r, count_states=False)
        if r.violated:
            raise ToolError(f"{module} did not consume all records of {path}:\n{r.out[-2000:]}")
        for t, v in r.printed:
            if t == "BAD":
                bads.append(v)
        chk.cov["traces_validated_against_impl"] += len(part)
    return bads
