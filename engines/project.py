"""Engine `project`: dispatches each program-space property to its module engines/proj_<cxx>.py."""
import importlib

_PROPS = ["C08", "C09", "C10", "C11", "C12", "C13", "C15", "C16", "C24", "C25", "C26", "C27"]


class _Level(dict):
    def get(self, k, d=None):
        try:
            return importlib.import_module(f"engines.proj_{k.lower()}").LEVEL.get(k, d)
        except Exception:
            return d


LEVEL = _Level()


def run(chk):
    return importlib.import_module(f"engines.proj_{chk.prop.lower()}").run(chk)


def replay(prop, path, seed):
    return importlib.import_module(f"engines.proj_{prop.lower()}").replay(prop, path, seed)
