"""Engine `isogrammar`: C07 (iso-literal parser: totality + span well-formedness + token order) and
C32 (cursor position resolution).  C22 is delegated to engines/lspformat.py.

Pipeline (both properties):
  TLC (IsoGen / IsoSoup over IsoGrammar + LL1)  --REPLAY lines-->  render()  --texts-->
  harness h_isogrammar (real parser / resolver, child process)  --ndjson-->
  TLC (IsoTrace / IsoResolve: layer-A predicates)  --FAIL / DRIFT lines-->  verdict.
The renderer maps abstract tokens and white-space classes to concrete text (trusted base); everything that is
judged is judged by TLC.
"""
from __future__ import annotations

import json
import random
import re
import shutil
import subprocess
import os
import time
from concurrent.futures import ThreadPoolExecutor
from pathlib import Path

import vlib

LEVEL = {"C07": "model_checking", "C32": "model_checking", "C22": "model_checking"}
SPEC = vlib.SPEC / "isogrammar"

# ------------------------------------------------------------------------------------------------
# renderer: abstract token kinds / white-space classes -> text
# ------------------------------------------------------------------------------------------------
WS = {"none": "", "sp": " ", "sp2": "  ", "tab": "\t", "bom": "﻿", "cr": "\r", "ff": "\f",
      "nl": "\n", "crlf": "\r\n", "spnl": " \n\t", "nlnl": "\n\n"}
LITERAL = {"field", "pointer", "entrypoint", "to", "true", "false", "null", "loadable", "updatable",
           "lazyLoadArtifact", ".", "@", "(", ")", "{", "}", "[", "]", ":", "$", "=", "!", ","}
POOL = {
    "id": ["Query", "foo", "x", "User", "a", "b1", "_priv", "Z9_", "node", "fieldX", "entrypointX", "pointers",
           "tomorrow", "nullable", "trueish", "Type", "name", "id"],
    "kwid": ["field", "entrypoint", "pointer", "to", "true", "false", "null"],
    "int": ["0", "7", "-1", "42", "-0", "9223372036854775807", "-9223372036854775808"],
    "bigint": ["9223372036854775808", "99999999999999999999", "123456789012345678901234567890"],
    "negbig": ["-9223372036854775809", "-99999999999999999999"],
    "float": ["1.5", "0.0", "-2.25", "1e3", "6.02E+23"],
    "str": ['"s"', '""', '"a b"', '"é"', '"\\""', '"\\u00e9"', '"你好"', '"x,y{}"'],
    "str_astral": ['"\U0001F600"', '"a\U00010000b"'],
    "ustr": ['"abc', '"', '"a\\'],
    "bstr": ['"""d"""', '"""\n  multi\n    line\n"""', '"""é"""', '""""""', '"""a \\""" b"""', '""" "" """'],
    "bstr_astral": ['"""\U0001F600"""', '"""a\U00010000"""'],
    "nonascii": ["é", "你x", "\U0001F600", "été", "́"],
}


def render(toks, rng: random.Random) -> str:
    out = []
    for t in toks:
        out.append(WS[t["ws"]])
        k = t["k"]
        if k == "EOF":
            continue
        out.append(k if k in LITERAL else rng.choice(POOL[k]))
    return "".join(out)


# ------------------------------------------------------------------------------------------------
# TLC generator runs
# ------------------------------------------------------------------------------------------------
BASE_CONST = """CONSTANTS
  Prods <- IsoProds
  Start <- IsoStart
  PredSyms <- IsoPredSyms
  ClassesOf <- IsoClassesOf
  TagOf <- IsoTagOf
"""
SOUP_ALPHABET = ["field", "id", ".", "@", "(", ")", "{", "}", ":", "$", ",", "bigint", "nonascii", "ustr"]
ALL_CONTEXTS = ["bare", "hdr", "vars", "vartype", "sel", "arg", "entry", "ptr"]


def _set(xs):
    return "{" + ", ".join(json.dumps(x) for x in xs) + "}"


def _rec(d, val=lambda v: str(v)):
    return "[" + ", ".join(f"{k} |-> {val(v)}" for k, v in d.items()) + "]"


def spec_copy(chk: vlib.Check) -> Path:
    """The model runs need per-tier constants that are functions: write wrapper modules next to a copy of
    the specification in the work directory (the checked-in MCGen.tla / MCSoup.tla are the quick ones)."""
    d = chk.work / "spec"
    d.mkdir(exist_ok=True)
    for f in SPEC.glob("*.tla"):
        shutil.copy(f, d / f.name)
    return d


def gen_model(d: Path, name: str, max_tok: dict, schemes: dict, mut_max: int, mut_schemes) -> tuple[Path, Path]:
    (d / f"{name}.tla").write_text(
        f"---- MODULE {name} ----\nEXTENDS IsoGen\nRunMaxTok == {_rec(max_tok)}\n"
        f"RunSentSchemes == {_rec(schemes, _set)}\n====\n")
    (d / f"{name}.cfg").write_text(BASE_CONST + f"""  Profiles = {_set(list(max_tok))}
  MaxTok <- RunMaxTok
  SentSchemes <- RunSentSchemes
  MutMax = {mut_max}
  MutSchemes = {_set(mut_schemes)}
INIT Init
NEXT Next
INVARIANTS SentencesAccepted EmitSent EmitMut
""")
    return d / f"{name}.tla", d / f"{name}.cfg"


def soup_model(d: Path, name: str, max_soup: dict, schemes) -> tuple[Path, Path]:
    (d / f"{name}.tla").write_text(f"---- MODULE {name} ----\nEXTENDS IsoSoup\nRunMaxSoup == {_rec(max_soup)}\n====\n")
    (d / f"{name}.cfg").write_text(BASE_CONST + f"""  MaxSoup <- RunMaxSoup
  SoupAlphabet = {_set(SOUP_ALPHABET)}
  SoupSchemes = {_set(schemes)}
  ContextIds = {_set(list(max_soup))}
INIT Init
NEXT Next
INVARIANT EmitSoup
""")
    return d / f"{name}.tla", d / f"{name}.cfg"


def plan(prop: str, tier: str, d: Path):
    """[(name, module, cfg, tlc kwargs)].  C32 only needs sentences."""
    quick = tier == "quick"
    runs = []
    four = ["plain", "tight", "exotic", "airy"]
    if prop == "C07":
        m, c = gen_model(d, "RunGen", {"all": 11, "decl": 12, "sel": 12} if quick else {"all": 13, "decl": 14, "sel": 14},
                         {"all": four, "decl": ["plain", "exotic"], "sel": ["plain", "tight"]}, 8 if quick else 9, ["plain", "tight"])
        runs.append(("gen", m, c, {}))
        ms = ({"bare": 3, "hdr": 3, "vartype": 3, "sel": 3, "arg": 3, "vars": 2, "entry": 2, "ptr": 2} if quick else
              {"bare": 4, "sel": 4, "arg": 4, "hdr": 3, "vartype": 3, "vars": 3, "entry": 3, "ptr": 3})
        m, c = soup_model(d, "RunSoup", ms, ["plain", "glue"])
        runs.append(("soup", m, c, {}))
    else:
        m, c = gen_model(d, "RunGen", {"all": 11, "decl": 13, "sel": 12} if quick else {"all": 13, "decl": 15, "sel": 14},
                         {"all": ["plain", "tight", "exotic"], "decl": ["plain", "exotic"], "sel": ["tight"]}, 0, ["plain"])
        runs.append(("gen", m, c, {}))
    if not quick:
        m, c = gen_model(d, "RunSim", {"all": 40}, {"all": ["plain", "exotic"]}, 0, ["plain"])
        runs.append(("gen-sim", m, c, {"simulate": "num=1500", "depth": 250}))
    return runs


def run_generators(chk: vlib.Check, prop: str):
    """Run the TLC generator models (concurrently), return the behaviours (REPLAY objects)."""
    d = spec_copy(chk)
    runs = plan(prop, chk.tier, d)

    def one(run):
        name, module, cfg, kw = run
        # NOTE no `-coverage 1`: with coverage statistics on, TLC re-evaluates the (otherwise cached) grammar
        # tables at every use and runs out of memory even on the smallest bounds.  Per-action counts are
        # measured from the emitted behaviours instead (below).
        r = vlib.tlc(module, cfg, workers=4, timeout=1700 if chk.tier == "thorough" else 900, heap="6g",
                     seed=chk.seed, metadir=chk.work / f"meta-{name}", **kw)
        return name, r

    behaviours = []
    with ThreadPoolExecutor(max_workers=3) as ex:
        results = list(ex.map(one, runs))
    for name, r in results:
        if r.violated:
            raise vlib.ToolError(f"generator model {name}: {r.violated} violated (model inconsistency)\n{r.out[-2000:]}")
        fams = {}
        for tag, obj in r.printed:
            if tag == "REPLAY" and isinstance(obj, dict):
                obj["run"] = name
                behaviours.append(obj)
                fams[obj["fam"]] = fams.get(obj["fam"], 0) + 1
        # non-vacuity: every action of the model was taken (counts measured from what the run emitted)
        if name.startswith("gen"):
            # (a -simulate run reports no distinct-state count: every emitted sentence needed >= 1 Expand step)
            r.coverage = {"Expand": (max(r.distinct, fams.get("sent", 0)), max(r.generated, fams.get("sent", 0))),
                          "Finish": (fams.get("sent", 0),) * 2}
            need = ["Expand", "Finish"]
            if name == "gen" and prop == "C07":
                r.coverage["Mutate"] = (fams.get("mut", 0),) * 2
                need.append("Mutate")
        else:
            r.coverage = {"Grow": (fams.get("soup", 0),) * 2}
            need = ["Grow"]
        chk.add_tlc(name, r)
        chk.require_coverage(r, need)
        vlib.log(f"[gen] {name}: {r.distinct} states, {fams} behaviours, {r.wall_s:.0f}s")
    exhaustive = all(not kw.get("simulate") for _, _, _, kw in runs)
    return behaviours, exhaustive


# ------------------------------------------------------------------------------------------------
# seeded random inputs (impl -> spec direction only) and the deep-nesting family
# ------------------------------------------------------------------------------------------------
def fixture_literals():
    d = vlib.REPO / "crates" / "isograph_lang_parser" / "fixtures"
    lits = []
    for f in sorted(d.glob("*.input.js")):
        for m in re.finditer(r"iso\(`([^`]*)`\)", f.read_text(errors="replace")):
            lits.append(m.group(1))
    return lits


RANDOM_CHUNKS = ["field", "pointer", "entrypoint", "to", " ", "\n", "\t", "﻿", ".", "..", "...", "@", "(", ")", "{", "}",
                 "[", "]", ":", "$", "=", "!", ",", "Query", "x", "0", "-1", "1.5", "99999999999999999999", "\"s\"", "\"", "\"\"\"",
                 "\\", "é", "\U0001F600", "#", "-", "|", "&", "\x00", "\x7f", " ", "true", "null", "loadable", "updatable"]


def random_cases(seed: int, n: int):
    rng = random.Random(seed * 7919 + 17)
    lits = fixture_literals()
    out = []
    for i in range(n):
        mode = rng.randrange(3)
        if mode == 0 or not lits:
            text = "".join(rng.choice(RANDOM_CHUNKS) for _ in range(rng.randrange(0, 25)))
        elif mode == 1:      # a fixture literal with a few character-level edits
            text = rng.choice(lits)
            for _ in range(rng.randrange(1, 4)):
                if not text:
                    break
                p = rng.randrange(len(text))
                op = rng.randrange(3)
                if op == 0:
                    text = text[:p] + text[p + 1:]
                elif op == 1:
                    text = text[:p] + rng.choice(RANDOM_CHUNKS) + text[p:]
                else:
                    text = text[:p]
        else:                # a fixture literal with chunks spliced in at token-ish boundaries
            text = rng.choice(lits)
            parts = re.split(r"(\s+)", text)
            for _ in range(rng.randrange(1, 3)):
                parts.insert(rng.randrange(len(parts) + 1), rng.choice(RANDOM_CHUNKS))
            text = "".join(parts)
        out.append({"id": f"rnd-{i}", "fam": "random", "text": text})
    for i, lit in enumerate(lits):
        out.append({"id": f"fixture-{i}", "fam": "fixture", "text": lit})
    return out


def deep_cases(tier: str):
    depths = [256, 20000, 100000] if tier == "quick" else [256, 4096, 20000, 100000, 400000]
    out = []
    for d in depths:
        out.append({"id": f"deep-type-{d}", "fam": "deep", "construct": "nested-list-type",
                    "text": "field Q.f($a: " + "[" * d + "Int" + "]" * d + ") {}"})
        out.append({"id": f"deep-object-{d}", "fam": "deep", "construct": "nested-object-value",
                    "text": "field Q.f { a(x: " + "{k:" * d + "1" + "}" * d + "), }"})
        out.append({"id": f"deep-selection-{d}", "fam": "deep", "construct": "nested-selection-set",
                    "text": "field Q.f {" + " a {" * d + "}," * d + "}"})
    return out


# ------------------------------------------------------------------------------------------------
# harness pump: child process, crash containment by restart-after-the-crasher
# ------------------------------------------------------------------------------------------------
CHUNK = 5000


def pump(binpath: Path, mode: str, cases: list[dict], per_batch_timeout: int = 300) -> list[dict]:
    """Returns one observation per case, in order.  A case on which the child dies gets outcome "abort",
    a case on which it produces nothing within the time box gets outcome "hang"."""
    obs: list[dict] = []
    i = 0
    env = dict(os.environ)
    env.setdefault("H_STACK_MB", "8")
    env["RUST_BACKTRACE"] = "0"
    while i < len(cases):
        # at most CHUNK cases per child process: the time box is per chunk (a chunk normally takes seconds), so
        # a slow machine is not mistaken for a hang
        batch = cases[i:i + CHUNK]
        inp = "".join(json.dumps({"id": c["id"], "text": c["text"]}) + "\n" for c in batch)
        try:
            p = subprocess.run([str(binpath), mode], input=inp, stdout=subprocess.PIPE, stderr=subprocess.PIPE,
                               text=True, timeout=per_batch_timeout, env=env)
            out, rc, hung, err = p.stdout, p.returncode, False, p.stderr
        except subprocess.TimeoutExpired as e:
            out = e.stdout.decode() if isinstance(e.stdout, bytes) else (e.stdout or "")
            rc, hung, err = -1, True, ""
        lines = [ln for ln in out.split("\n") if ln.strip()]
        good = []
        for ln in lines:
            try:
                good.append(json.loads(ln))
            except json.JSONDecodeError:
                break            # a torn last line
        obs.extend(good)
        i += len(good)
        if len(good) == len(batch):
            continue
        if rc == 0 and not hung:
            raise vlib.ToolError(f"harness answered {len(good)} of {len(batch)} cases but exited 0")
        # the first unanswered case killed (or stalled) the child
        c = cases[i]
        why = "hang" if hung else "abort"
        detail = "timeout" if hung else ("stack overflow" if "overflowed its stack" in err else f"rc={rc}")
        rec = {"id": c["id"], "len": len(c["text"].encode()), "nb": [], "outcome": why, "kind": "none",
               "ast": [], "toks": [], "diag": [], "abort": {"rc": rc, "detail": detail},
               "nodes": [], "res": []}
        obs.append(rec)
        i += 1
    if len(obs) != len(cases):
        raise vlib.ToolError("harness pump lost cases")
    for c, o in zip(cases, obs):
        if o["id"] != c["id"]:
            raise vlib.ToolError(f"harness answered out of order: {o['id']} vs {c['id']}")
    return obs


def judge(chk: vlib.Check, module: str, cfg: Path, recs: list[dict], name: str, batch: int = 60000):
    """Validate observation records with TLC; returns (fails, drifts) = lists of the objects TLC printed."""
    fails, drifts = [], []
    for bi, part in enumerate(vlib.chunks(recs, batch)):
        path = chk.work / f"{name}-{bi}.ndjson"
        vlib.write_ndjson(path, part)
        r = vlib.tlc(SPEC / module, cfg, workers=1, dfs=True, timeout=1200, env={"TRACE": str(path)},
                     metadir=chk.work / f"meta-{name}-{bi}", heap="6g")
        if r.violated:
            raise vlib.ToolError(f"trace validation {name}: {r.violated}\n{r.out[-3000:]}")
        if r.distinct != len(part) + 1:
            raise vlib.ToolError(f"trace validation {name}: judged {r.distinct - 1} of {len(part)} records")
        chk.add_tlc(f"{name}-{bi}", r, count_states=False)
        chk.cov["evaluations"] += len(part)
        for tag, obj in r.printed:
            if tag == "FAIL":
                fails.append(obj)
            elif tag == "DRIFT":
                drifts.append(obj)
    return fails, drifts


# ------------------------------------------------------------------------------------------------
# C07
# ------------------------------------------------------------------------------------------------
def c07_signature(rec: dict, fail: dict, case: dict) -> tuple[str, str]:
    clauses = sorted(fail["clauses"])
    if "total" in clauses:
        if rec["outcome"] == "panic":
            at = rec["panic"]["at"].rsplit(":", 1)[0]
            # canonical message: no data (quoted input, numbers), only the text up to the first colon
            msg = re.sub(r"[0-9]+", "N", re.sub(r"[`'\"].*", "", rec["panic"]["msg"]).split(":")[0]).strip()
            return (f"C07:panic:{at}:{msg}",
                    f"parse_iso_literal panics ({rec['panic']['msg']} at {rec['panic']['at']})")
        if rec["outcome"] == "abort":
            what = case.get("construct", "input")
            return (f"C07:abort:{rec['abort']['detail'].replace(' ', '-')}:{what}",
                    f"parse_iso_literal kills the process ({rec['abort']['detail']}) on {what}")
        return (f"C07:{rec['outcome']}", f"parse_iso_literal: {rec['outcome']}")
    bad = ",".join(sorted(fail.get("bad", [])))
    return (f"C07:{'+'.join(clauses)}:{bad}", f"ill-formed locations: clauses {clauses} {bad}")


def shrink(binpath: Path, text: str, same) -> str:
    """ddmin over characters; `same(obs)` says whether the observation still shows the failure."""
    def fails(t):
        o = pump(binpath, "parse", [{"id": "m", "text": t}], per_batch_timeout=60)[0]
        return same(o)
    chars = list(text)
    n = 2
    budget = 400
    while len(chars) >= 2 and budget > 0:
        size = max(1, len(chars) // n)
        reduced = False
        for start in range(0, len(chars), size):
            cand = chars[:start] + chars[start + size:]
            budget -= 1
            if cand and fails("".join(cand)):
                chars, n, reduced = cand, max(n - 1, 2), True
                break
            if budget <= 0:
                break
        if not reduced:
            if size == 1:
                break
            n = min(len(chars), n * 2)
    return "".join(chars)


def build_cases(chk: vlib.Check, behaviours: list[dict]) -> list[dict]:
    rng = random.Random(chk.seed)
    cases, seen = [], set()
    for i, b in enumerate(behaviours):
        text = render(b["toks"], rng)
        key = (b["fam"], text)
        if key in seen:
            continue
        seen.add(key)
        c = {"id": f"{b['run']}-{i}", "fam": b["fam"], "text": text, "exp": b["exp"], "sch": b["sch"],
             "kinds": [t["k"] for t in b["toks"]]}
        if "skel" in b:
            c["skel_exp"] = b["skel"]
        cases.append(c)
    return cases


def run_c07(chk: vlib.Check):
    bindir = vlib.cargo_build("h_isogrammar")
    binpath = bindir / "h_isogrammar"
    for m in ["LL1.tla", "IsoGrammar.tla", "IsoGen.tla", "IsoSoup.tla", "IsoTrace.tla"]:
        vlib.sany(SPEC / m)
    behaviours, exhaustive = run_generators(chk, "C07")
    cases = build_cases(chk, behaviours)
    n_model = len(cases)
    cases += random_cases(chk.seed, 400 if chk.tier == "quick" else 4000)
    cases += deep_cases(chk.tier)
    by_id = {c["id"]: c for c in cases}
    t0 = time.time()
    obs = pump(binpath, "parse", cases)
    vlib.log(f"[C07] harness: {len(obs)} cases in {time.time()-t0:.0f}s")
    recs = []
    for c, o in zip(cases, obs):
        r = {k: o[k] for k in ("id", "len", "nb", "outcome", "kind", "ast", "toks", "diag") if k in o}
        if "lex" in o and (c["fam"] in ("random", "fixture") or c.get("sch") in ("glue", "tight", "exotic")):
            r["lex"] = o["lex"]      # recogniser direction: the real lexer's tokens, where lexing is not trivial
        if "skel" in o:
            r["skel"] = o["skel"]
        if c["fam"] in ("sent", "mut", "soup") and c.get("sch") != "glue":   # glued tokens re-lex: no abstract verdict
            # bigint/float/... kinds make the parser panic: the generator's verdict is about the grammar only
            r["exp"] = c["exp"]
        if "skel_exp" in c and o.get("outcome") == "decl":
            r["skel_exp"] = c["skel_exp"]
        recs.append(r)
    obs_by_id = {o["id"]: o for o in obs}
    fails, drifts = judge(chk, "IsoTrace.tla", SPEC / "IsoTrace.cfg", recs, "c07")

    # ---- evidence
    chk.cov["traces_validated_against_impl"] = len(recs)
    chk.cov["exhaustive"] = bool(exhaustive)
    fam_count = {}
    for c in cases:
        fam_count[c["fam"]] = fam_count.get(c["fam"], 0) + 1
    chk.cov["cases_by_family"] = fam_count
    chk.cov["outcomes"] = {k: sum(1 for o in obs if o["outcome"] == k) for k in ("decl", "diag", "panic", "abort", "hang")}
    chk.cov["spans_judged"] = sum(len(o["ast"]) + len(o["toks"]) + len(o["diag"]) for o in obs)
    chk.cov["distinct_nontrivial"] = sum(1 for o in obs if o["outcome"] == "decl" and len(o["toks"]) >= 6)
    chk.cov["rule"] = "cases on which the real parser returned a declaration with >= 6 semantic tokens (span/order clauses non-vacuous)"
    chk.cov["model_behaviours"] = n_model
    for c in cases[:2] + [c for c in cases if c["fam"] == "mut"][:1] + [c for c in cases if c["fam"] == "soup"][-1:]:
        o = obs_by_id[c["id"]]
        chk.sample({"id": c["id"], "family": c["fam"], "text": c["text"][:200], "expected": c.get("exp"),
                    "outcome": o["outcome"], "n_ast_spans": len(o["ast"]), "n_tokens": len(o["toks"])})
    dcount = {}
    for d in drifts:
        for w in d["what"]:
            dcount.setdefault(w, []).append(d["id"])
    for w, ids in sorted(dcount.items()):
        ex = by_id[ids[0]]
        chk.drift({"what": w, "count": len(ids), "example": {"id": ids[0], "text": ex["text"][:120], "expected": ex.get("exp"),
                                                           "observed": obs_by_id[ids[0]]["outcome"]}})
    chk.assumptions += [
        "renderer (engines/isogrammar.py: token kind / white-space class -> text) and harness projection (h_isogrammar) are trusted",
        "lexical classes are represented by seed-chosen concrete spellings, not by every code point",
        "stack overflow is observed with an 8 MiB parser stack (H_STACK_MB) in the harness build profile (opt-level 1, debug assertions on)",
        "verdict/skeleton agreement between the grammar model and the parser is layer B (drift), not part of C07",
    ]

    # ---- violations (layer A said so): group by signature, keep the shortest input, shrink, re-judge
    groups: dict[str, list] = {}
    for f in fails:
        o, c = obs_by_id[f["id"]], by_id[f["id"]]
        sig, what = c07_signature(o, f, c)
        groups.setdefault(sig, []).append((len(c["text"]), c, o, f, what))
    chosen = []
    for sig, items in sorted(groups.items()):
        items.sort(key=lambda x: x[0])
        _, c, o, f, what = items[0]
        text = c["text"]
        if o["outcome"] == "panic" and len(text) < 5000 and len(chosen) < 8:
            site = o["panic"]["at"]
            text = shrink(binpath, text, lambda ob: ob["outcome"] == "panic" and ob.get("panic", {}).get("at") == site)
        chosen.append((sig, items, c, o, f, what, text))
    if chosen:
        # re-judge the (shrunk) replay inputs by the same TLC predicate, in one batch
        ros = pump(binpath, "parse", [{"id": f"replay-{i}", "text": ch[6]} for i, ch in enumerate(chosen)], per_batch_timeout=300)
        rrs = [{k: ro[k] for k in ("id", "len", "nb", "outcome", "kind", "ast", "toks", "diag")} for ro in ros]
        rf, _ = judge(chk, "IsoTrace.tla", SPEC / "IsoTrace.cfg", rrs, "c07-rejudge")
        still = {f["id"] for f in rf}
        for i, (sig, items, c, o, f, what, text) in enumerate(chosen):
            ro = ros[i]
            if f"replay-{i}" not in still:
                text, ro = c["text"], o     # shrinking lost it: keep the original
            big = len(text) > 2000
            chk.violation(sig, f"{what}; {len(items)} failing case(s), e.g. {text[:80]!r}",
                          {"engine": "isogrammar", "mode": "parse", "text": None if big else text,
                           "generator": {"id": c["id"], "construct": c.get("construct")} if big else None,
                           "clauses": sorted(f["clauses"]),
                           "observed": {k: ro.get(k) for k in ("outcome", "panic", "abort", "diag", "len")}})
    if chk.cov["distinct_nontrivial"] == 0 and not fails:
        raise vlib.ToolError("vacuous: no case produced a declaration")


# ------------------------------------------------------------------------------------------------
# C32
# ------------------------------------------------------------------------------------------------
def run_c32(chk: vlib.Check):
    bindir = vlib.cargo_build("h_isogrammar")
    binpath = bindir / "h_isogrammar"
    for m in ["LL1.tla", "IsoGrammar.tla", "IsoGen.tla", "IsoResolve.tla"]:
        vlib.sany(SPEC / m)
    behaviours, exhaustive = run_generators(chk, "C32")
    cases = build_cases(chk, [b for b in behaviours if b["fam"] == "sent"])
    n_model = len(cases)
    for i, lit in enumerate(fixture_literals()):
        cases.append({"id": f"fixture-{i}", "fam": "fixture", "text": lit})
    by_id = {c["id"]: c for c in cases}
    t0 = time.time()
    obs = pump(binpath, "resolve", cases)
    vlib.log(f"[C32] harness: {len(obs)} cases in {time.time()-t0:.0f}s")
    recs = [{k: o[k] for k in ("id", "len", "outcome", "nodes", "res")} for o in obs if o["outcome"] == "decl"]
    not_parsed = [o["id"] for o in obs if o["outcome"] != "decl" and by_id[o["id"]]["fam"] == "sent"]
    if not recs:
        raise vlib.ToolError("vacuous: no literal parsed")
    fails, drifts = judge(chk, "IsoResolve.tla", SPEC / "IsoResolve.cfg", recs, "c32", batch=20000)
    obs_by_id = {o["id"]: o for o in obs}

    offsets = sum(len(r["res"]) for r in recs)
    chk.cov["traces_validated_against_impl"] = len(recs)
    chk.cov["offsets_resolved"] = offsets
    chk.cov["exhaustive"] = bool(exhaustive)
    chk.cov["model_behaviours"] = n_model
    kinds = {}
    for r in recs:
        for q in r["res"]:
            if q["kinds"]:
                kinds[q["kinds"][0]] = kinds.get(q["kinds"][0], 0) + 1
    chk.cov["resolved_kind_histogram"] = kinds
    chk.cov["distinct_nontrivial"] = sum(1 for r in recs if any(len(q["chain"]) >= 3 for q in r["res"]))
    chk.cov["rule"] = "parsed literals in which some offset resolves to a node at depth >= 3 (chain / innermost clauses non-vacuous)"
    missing = [k for k in ("EntityNameWrapper", "ScalarSelection", "ObjectSelection", "SelectionSet", "TypeAnnotation",
                           "VariableNameWrapper", "VariableDeclarationInner", "Description",
                           "ClientScalarSelectableNameWrapper", "ClientObjectSelectableNameWrapper",
                           "ClientFieldDeclaration", "ClientPointerDeclaration", "EntrypointDeclaration") if k not in kinds]
    for r in recs[:1] + recs[len(recs) // 2: len(recs) // 2 + 2]:
        c = by_id[r["id"]]
        chk.sample({"id": r["id"], "text": c["text"][:200], "nodes": len(r["nodes"]),
                    "offsets": len(r["res"]), "first_resolutions": [(q["o"], q["kinds"][:1]) for q in r["res"][:8]]})
    if not_parsed:
        chk.drift({"what": "generated sentence not accepted by the parser (layer B)", "count": len(not_parsed),
                   "example": by_id[not_parsed[0]]["text"][:120]})
    dcount = {}
    for d in drifts:
        for w in d["what"]:
            dcount.setdefault(w, []).append(d["id"])
    for w, ids in sorted(dcount.items()):
        chk.drift({"what": w, "literals": len(ids), "example": by_id[ids[0]]["text"][:120]})
    chk.assumptions += [
        "the independent AST walk of h_isogrammar (which located fields hold nodes of resolvable kinds) and the pointer-identity "
        "mapping of path entries to walked nodes are trusted",
        "root declaration = the literal (its recorded span starts after the keyword); type annotations are atomic "
        "(TypeAnnotationsAtomic = TRUE); both deviations from the strict reading are counted as drift",
        "a cursor offset o is contained in [s,e] iff s <= o <= e",
    ]
    groups = {}
    for f in fails:
        sig = "C32:" + "+".join(sorted(f["clauses"])) + ":" + (f["kinds"][0] if f["kinds"] else "none")
        groups.setdefault(sig, []).append(f)
    for sig, fs in sorted(groups.items()):
        fs.sort(key=lambda f: len(by_id[f["id"]]["text"]))
        f = fs[0]
        c = by_id[f["id"]]
        chk.violation(sig, f"resolve() at offset {f['first']} of {c['text'][:80]!r} returns {f['kinds']}: clauses {sorted(f['clauses'])} "
                           f"({len(fs)} literal(s), {sum(x['nbad'] for x in fs)} offset(s))",
                      {"engine": "isogrammar", "mode": "resolve", "text": c["text"], "offset": f["first"],
                       "clauses": sorted(f["clauses"]), "observed_kinds": f["kinds"]})
    if missing and not fails:
        raise vlib.ToolError(f"vacuous: resolvable kinds never returned: {missing}")


# ------------------------------------------------------------------------------------------------
def run(chk: vlib.Check) -> None:
    if chk.prop == "C22":
        from engines import lspformat
        return lspformat.run(chk)
    if chk.prop == "C07":
        return run_c07(chk)
    if chk.prop == "C32":
        return run_c32(chk)
    raise vlib.ToolError(f"isogrammar engine does not serve {chk.prop}")


def replay(prop: str, path: Path, seed: int) -> int:
    if prop == "C22":
        from engines import lspformat
        return lspformat.replay(prop, path, seed)
    rp = json.loads(Path(path).read_text())
    chk = vlib.Check(prop, "quick", seed)
    try:
        binpath = vlib.cargo_build("h_isogrammar") / "h_isogrammar"
        text = rp.get("text")
        if text is None:       # too large to store: regenerate from the deep family
            gid = rp["generator"]["id"]
            text = next(c["text"] for c in deep_cases("thorough") if c["id"] == gid)
        if rp["mode"] == "parse":
            o = pump(binpath, "parse", [{"id": "replay", "text": text}], per_batch_timeout=120)[0]
            rec = {k: o[k] for k in ("id", "len", "nb", "outcome", "kind", "ast", "toks", "diag")}
            fails, _ = judge(chk, "IsoTrace.tla", SPEC / "IsoTrace.cfg", [rec], "replay")
        else:
            o = pump(binpath, "resolve", [{"id": "replay", "text": text}], per_batch_timeout=120)[0]
            if o["outcome"] != "decl":
                print("replay: literal no longer parses")
                return 0
            rec = {k: o[k] for k in ("id", "len", "outcome", "nodes", "res")}
            fails, _ = judge(chk, "IsoResolve.tla", SPEC / "IsoResolve.cfg", [rec], "replay")
        if fails:
            print(f"replay: still violates {prop}: {fails[0]}")
            return 1
        print(f"replay: {prop} holds on this input now")
        return 0
    finally:
        import shutil
        shutil.rmtree(chk.work, ignore_errors=True)
