"""C08 — the compiler never crashes on any project.

  spec/project/GenC08.tla      feature configurations (args / abstract / directives / cycles / decls / soup): states are programs
  spec/project/GenC16.tla      the rule-breaking single-fault mutants of C16 (reused: the same programs, other predicate)
  spec/project/GenC08Walk.tla  thorough: random edit walks (-simulate), transitions are edits
  spec/project/GenC08Demo.tla  thorough: token-level mutations of the checked-in demo projects (TLC draws the edits)
  spec/project/ObsC08.tla      layer A, evaluated by TLC on each recorded outcome: outcome in {ok, diagnostics with >= 1 diagnostic}

A crash (panic caught by the harness, or death of the compiler process = abort / stack overflow, attributed by the
driver) is DATA: it is grouped by a canonical signature and the exploration continues."""
from __future__ import annotations

import collections
import json
import re
from concurrent.futures import ThreadPoolExecutor
from pathlib import Path

import vlib
from vlib import ToolError, log
from engines import isorender, projlib
from engines import proj_pa_common as pc

LEVEL = {"C08": "model_checking"}
SCHEMA = "schema_c16"

# canonical names of root causes (matched on the panic message / the death message + the feature configuration)
CANON = [
    (lambda o, cfg: "Expected valid integer" in (o.get("panic_msg") or ""), "C08:integer-literal-beyond-i64-panics"),
    (lambda o, cfg: o["outcome"] == "abort" and "overflowed its stack" in (o.get("stderr") or "") and cfg in ("cycles", "cycles3", "cyclesP", "walk", "c16"),
     "C08:mutually-recursive-client-fields-stack-overflow"),
    (lambda o, cfg: "attempt to add with overflow" in (o.get("panic_msg") or ""), "C08:variable-of-recursive-input-object-type-panics"),
    (lambda o, cfg: "Parent context has missing variable" in (o.get("panic_msg") or ""),
     "C08:variable-passed-to-client-field-inside-refinement-panics"),
    (lambda o, cfg: "Deserializing objects not yet supported" in (o.get("panic_msg") or ""), "C08:object-literal-as-directive-argument-panics"),
    (lambda o, cfg: "not yet implemented: Variable" in (o.get("panic_msg") or ""), "C08:variable-as-directive-argument-panics"),
    (lambda o, cfg: "Expected to find a variable defined at the root with name" in (o.get("panic_msg") or ""),
     "C08:entrypoint-on-non-root-type-panics"),
    (lambda o, cfg: "Multiple definitions of" in (o.get("panic_msg") or "") and "Expected parsing to have succeeded" in o["panic_msg"],
     "C08:client-field-named-like-an-existing-field-panics-in-selectable-lookup"),
    (lambda o, cfg: "Multiple definitions of" in (o.get("panic_msg") or "") and "Expected selection set to be valid" in o["panic_msg"],
     "C08:client-field-named-like-an-existing-field-panics-in-selection-set-lookup"),
]


def crash_signature(o: dict, cfg: str) -> str:
    for pred, name in CANON:
        if pred(o, cfg):
            return name
    if o["outcome"] == "timeout":
        return f"C08:does-not-terminate:{cfg}"
    if o["outcome"] == "abort":
        kind = "stack-overflow" if "overflowed its stack" in (o.get("stderr") or "") else f"process-died-rc{o.get('rc')}"
        return f"C08:{kind}:{cfg}"
    msg = (o.get("panic_msg") or "").lower()
    msg = re.sub(r"`[^`]*`", "_", msg)
    msg = re.sub(r"\d+", "N", msg)
    msg = re.sub(r"[^a-z_N]+", "-", msg).strip("-")[:90]
    return f"C08:panic:{msg or 'no-message'}"


SOUP_TOK = {"NL": "\n", "STR": '"s"'}


def soup_project(item: dict, ident) -> dict:
    soup = " ".join(SOUP_TOK.get(t, t) for t in item["toks"])
    ctx = item["ctx"]
    text = {1: soup,
            2: "field Query.Home {\n " + soup + "\n }",
            3: "field Query.Home(" + soup + ") {\n me {\n name\n }\n }",
            4: "field Query.Home {\n pets(" + soup + ") {\n id\n }\n }",
            5: "field Query.Home " + soup + " {\n me {\n name\n }\n }",
            6: "entrypoint " + soup,
            7: "pointer User.p to " + soup + " {\n bestPet {\n __link\n }\n }"}[ctx]
    lit = isorender.js_escape_template("\n  " + text + "\n")
    call = "" if ctx == 6 else "(function x() { return null; })"
    src = f"import {{ iso }} from '@iso';\nexport const x = iso(`{lit}`){call};\n"
    schema = projlib.schema(SCHEMA)
    return {"id": ident, "schema": isorender.render_schema(schema), "extensions": [schema["extension"]],
            "files": [{"path": "src/main.ts", "content": src}]}


TOKEN_RE = re.compile(r'"[^"\n]*"|\$?[A-Za-z_][A-Za-z_0-9]*|@[A-Za-z_]+|-?\d+(?:\.\d+)?|\.\.\.|[{}()\[\]:!=,.]|\S')
ISO_RE = re.compile(r"iso\(\s*`((?:[^`\\]|\\.)*)`", re.S)
POOL = ["{", "}", "(", ")", ":", "!", "$x", "@loadable", "@updatable", "@component", "field", "pointer", "entrypoint", "to",
        "99999999999999999999", '"it\'s"', "null", ".", "Query", "id", "__typename", "__link", "[", "]", "=", ","]


def demo_literals(proj: dict):
    """[(file index, match span of the literal body, tokens)] for every iso literal of the project."""
    out = []
    for fi, f in enumerate(proj["files"]):
        for m in ISO_RE.finditer(f["content"]):
            out.append((fi, m.span(1), TOKEN_RE.findall(m.group(1))))
    return out


def mutate_demo(proj: dict, lits, edits, ident) -> dict:
    toks = {i: list(t) for i, (_, _, t) in enumerate(lits)}
    for e in edits:
        li = (e["lit"] - 1) % len(lits)
        t = toks[li]
        if not t:
            continue
        p = (e["pos"] - 1) % len(t)
        tok = POOL[(e["tok"] - 1) % len(POOL)]
        op = e["op"]
        if op == "delete":
            del t[p]
        elif op == "duplicate":
            t.insert(p, t[p])
        elif op == "swap" and len(t) > 1:
            q = (p + 1) % len(t)
            t[p], t[q] = t[q], t[p]
        elif op == "replace":
            t[p] = tok
        elif op == "insert":
            t.insert(p, tok)
        elif op == "truncate":
            del t[p + 1:]
    files = [dict(f) for f in proj["files"]]
    # rewrite the touched literals (back to front inside each file), one token per line keeps `comma or line break` satisfied
    touched = sorted({(e["lit"] - 1) % len(lits) for e in edits}, key=lambda i: lits[i][1][0], reverse=True)
    for li in touched:
        fi, (a, b), _ = lits[li]
        c = files[fi]["content"]
        files[fi]["content"] = c[:a] + "\n" + "\n".join(toks[li]) + "\n" + c[b:]
    q = {k: v for k, v in proj.items() if k != "files"}
    q["files"] = files
    q["id"] = ident
    return q


def gen_configs(chk, quick: bool):
    base = {"MaxChoice": 1 if quick else 2, "SoupLen": 1 if quick else 2, "SoupLong": {1, 2, 4}, "CycleNodes": 2, "CycleModes": {0, 1, 2}, "CyclePtr": False}
    runs = [(c, dict(base, Config=c)) for c in ("args", "abstract", "directives", "cycles", "decls", "soup")]
    # node 2 as a client pointer: two nodes in quick (81 x 3 programs with modes 0..2 -> use modes 0..1: 16 x 3), three in thorough
    runs.append(("cyclesP", dict(base, Config="cycles", CycleNodes=2 if quick else 3, CycleModes={0, 1}, CyclePtr=True)))
    if not quick:
        runs.append(("cycles3", dict(base, Config="cycles", CycleNodes=3, CycleModes={0, 1})))

    def one(rc):
        name, consts = rc
        tag = "SOUP" if consts["Config"] == "soup" else "PROGRAM"
        items, r = pc.generate(chk, "GenC08.tla", consts, name=name, invariants=("Emit",), tag=tag, timeout=1500, workers=2,
                               coverage=False)
        return name, items

    with ThreadPoolExecutor(max_workers=3) as ex:
        return list(ex.map(one, runs))


def run(chk):
    quick = chk.tier == "quick"
    schema = projlib.schema(SCHEMA)
    projects, meta = [], []          # meta[i] = (cfg, item)

    def add(cfg, item, proj):
        proj["id"] = len(projects)
        projects.append(proj)
        meta.append((cfg, item))

    sizes = {}
    for name, items in gen_configs(chk, quick):
        sizes[name] = len(items)
        for it in items:
            if "toks" in it:
                add("soup", it, soup_project(it, 0))
            else:
                add(name.rstrip("3"), it, isorender.project(schema, it["prog"]))

    # rule-breaking mutants of C16 (the same generator; quick: a handful of units)
    units = {"int-literal", "nested-object-with-variable", "client-field-required-arg-var", "refine-interface", "list-var-exact-nonnull",
             "mutation-input-object-literal"} if quick else set()
    c16, r16 = pc.generate(chk, "GenC16.tla", {"UnitMode": "single", "UnitFilter": units, "SchemaFile": f"{SCHEMA}.json"},
                           name="c16-mutants", invariants=("Emit",), actions=["BreakRule"], timeout=2400)
    sizes["c16-mutants"] = len(c16)
    for it in c16:
        add("c16", it, isorender.project(schema, it["prog"]))

    if not quick:
        walks, _ = pc.generate(chk, "GenC08Walk.tla", {"UnitMode": "single", "UnitFilter": set(), "SchemaFile": f"{SCHEMA}.json"},
                               name="walk", invariants=("WEmit",), spec="WSpec", simulate="num=30", depth=30, timeout=1500, workers=2)
        sizes["walk"] = len(walks)
        for it in walks:
            add("walk", it, isorender.project(schema, it["prog"]))
        for demo, n in (("vite-demo", 120), ("github-demo", 100), ("pet-demo", 60)):
            base = pc.load_demo(demo)
            if base is None or not base["files"]:
                chk.drift(f"demo {demo} not found under {vlib.REPO}/demos")
                continue
            lits = demo_literals(base)
            if not lits:
                continue
            muts, _ = pc.generate(chk, "GenC08Demo.tla", {"NLit": len(lits), "MaxTok": max(len(t) for _, _, t in lits), "NPool": len(POOL),
                                                          "MaxEdits": 2}, name=f"demo-{demo}", invariants=("Emit",), tag="MUTATION",
                                  simulate=f"num={max(1, n // 10)}", depth=10, workers=1, timeout=600)
            muts = muts[:n]
            sizes[f"demo-{demo}"] = len(muts) + 1
            add("demo", {"demo": demo, "edits": []}, dict(base))
            for m in muts:
                add("demo", {"demo": demo, "edits": m["edits"]}, mutate_demo(base, lits, m["edits"], 0))

    log(f"[C08] {len(projects)} projects: {sizes}")
    chk.cov["exhaustive"] = True
    obs = pc.compile_parallel(chk, projects, want=[], shards=4)
    recs = [{"id": i, **pc.slim(o)} for i, o in enumerate(obs)]
    bads = pc.judge(chk, "ObsC08.tla", recs, tag="c08", chunk=400, trace_const=False)

    # the unmutated demos must compile (otherwise the mutation campaign says nothing)
    for i, (cfg, it) in enumerate(meta):
        if cfg == "demo" and not it["edits"] and obs[i]["outcome"] != "ok":
            chk.drift(f"unmutated demo {it['demo']} does not compile: {pc.first_diag(obs[i])}")

    outcomes = collections.Counter((meta[i][0], o["outcome"]) for i, o in enumerate(obs))
    chk.cov["programs_by_config"] = sizes
    chk.cov["outcomes_by_config"] = {f"{c}:{o}": n for (c, o), n in sorted(outcomes.items())}
    chk.cov["distinct_nontrivial"] = sum(1 for o in obs if o["outcome"] == "ok")
    chk.cov["rule"] = "projects the compiler accepts (they go through validation, merging and artifact generation); the others end in diagnostics"
    chk.cov["samples"] = [{"config": meta[i][0], "outcome": obs[i]["outcome"], "first_diagnostic": pc.first_diag(obs[i]),
                           "source": pc.source_text(projects[i])[-500:]} for i in (0, len(projects) // 2, len(projects) - 1)]
    chk.assumptions += [
        "one batch compile per project in a child process of harness/h_compile (debug build: arithmetic overflow checks are on, as in "
        "`cargo test`); the watch-mode recompile of the statement is covered by C20's engine, not here",
        "schemas: spec/project/schema_c16.json + its @exposeField extension; the demos' own schemas for the demo mutations",
        "trusted base: engines/isorender.py, the soup / demo-token concatenation in engines/proj_c08.py, harness/h_compile "
        "(catch_unwind + process-death attribution in the driver)",
    ]

    groups: dict[str, list] = collections.OrderedDict()
    for b in sorted(bads, key=lambda b: len(pc.source_text(projects[b["id"]]))):
        i = b["id"]
        groups.setdefault(crash_signature(obs[i], meta[i][0]), []).append(b)
    chk.cov["crash_signatures"] = {s: len(v) for s, v in groups.items()}
    for sig, v in groups.items():
        i = v[0]["id"]
        cfg, it = meta[i]
        msg = obs[i].get("panic_msg") or obs[i].get("stderr") or ""
        src = pc.iso_literals(it["prog"]) if isinstance(it, dict) and "prog" in it else pc.source_text(projects[i])[-1500:]
        chk.violation(sig, f"{v[0]['why']}: {msg.strip()[-200:]}; {len(v)} project(s) with this signature "
                           f"(configs {sorted({meta[b['id']][0] for b in v})}); smallest:\n{src}",
                      {"engine": "proj_c08", "config": cfg, "item": it if cfg != "demo" else {"demo": it["demo"], "edits": it["edits"]},
                       "project": projects[i], "observed": {k: obs[i].get(k) for k in ("outcome", "panic_msg", "stderr", "rc")}})


def replay(prop: str, path: Path, seed: int) -> int:
    rp = json.loads(Path(path).read_text())
    chk = vlib.Check(prop, "quick", seed)
    try:
        proj = dict(rp["project"], id=0)
        obs = pc.compile_parallel(chk, [proj], want=[], shards=1)
        bads = pc.judge(chk, "ObsC08.tla", [{"id": 0, **pc.slim(obs[0])}], tag="replay", trace_const=False)
        print(json.dumps({"outcome": obs[0]["outcome"], "panic_msg": obs[0].get("panic_msg"), "stderr": obs[0].get("stderr"), "judged": bads})[:2000])
        return 1 if bads else 0
    finally:
        import shutil
        shutil.rmtree(chk.work, ignore_errors=True)
