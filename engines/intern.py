"""Engine `intern` — C05 (InternTable bijection / serde / string order) and C06 (AtomicArena).

spec -> impl : TLC explores Arena.tla / InternTable.tla for a set of small programs and prints one schedule
               per generated transition (edge cover, shortest history first) with the observables layer B
               predicts; h_intern replays every schedule on real OS threads under a baton scheduler.
impl -> spec : every run of the real code (TLC schedules, seeded random, PCT-style, free-running threads) is
               recorded as ndjson and judged by TLC with ArenaTrace.tla / InternTableTrace.tla, which evaluate
               the layer-A predicates of ArenaProp.tla / InternProp.tla.  VIOLATION only comes from there.
Labels reached / predicted results that differ from layer B are drift.
"""
from __future__ import annotations

import concurrent.futures as cf
import json
import os
import shutil
import subprocess
import time
from pathlib import Path

import vlib

LEVEL = {"C05": "model_checking", "C06": "model_checking"}
SPECDIR = vlib.SPEC / "intern"

SC_ASSUMPTION = ("sequential consistency: the model and the baton scheduler interleave whole steps between hook "
                 "points; weak-memory reorderings (Relaxed/Acquire/Release choices) are outside the spec")


# ------------------------------------------------------------------------------------------------
# programs
# ------------------------------------------------------------------------------------------------

def op(o, x=0):
    return {"op": o, "x": x}


def arena_configs(tier):
    A = lambda t, i: op("add", 100 * t + i)
    two = [
        # (name, prefill, program)           bucket boundaries are at 128, 384, 896 elements
        ("race-new-bucket", 128, [[A(1, 1), A(1, 2)], [A(2, 1), A(2, 2)]]),
        ("cross-boundary", 127, [[A(1, 1), op("get", 2)], [A(2, 1), op("get", 1)]]),
        ("first-bucket", 0, [[A(1, 1), op("len")], [A(2, 1), op("get", 1)]]),
        ("cross-boundary-2", 383, [[A(1, 1), A(1, 2)], [A(2, 1), op("len")]]),
        ("len-get", 127, [[op("len"), A(1, 2)], [A(2, 1), op("get", 0)]]),
        # the arena is dropped when its elements EXACTLY fill the first / the second bucket (seeded/C06b-...: Drop computed the used
        # length of the last bucket from the offset of the next free slot, which is 0 exactly then)
        ("exact-fill", 126, [[A(1, 1), op("len")], [A(2, 1)]]),
        ("exact-fill-2", 382, [[A(1, 1)], [A(2, 1), op("get", 1)]]),
    ]
    if tier == "quick":
        return two
    three = [
        ("3-race-new-bucket", 128, [[A(1, 1)], [A(2, 1)], [A(3, 1), op("get", 1)]]),
        ("3-cross-boundary", 127, [[A(1, 1), op("get", 3)], [A(2, 1), op("len")], [A(3, 1)]]),
        ("3-first-bucket", 0, [[A(1, 1), op("get", 2)], [A(2, 1)], [A(3, 1), op("len")]]),
        ("3-cross-boundary-2", 384, [[A(1, 1), A(1, 2)], [A(2, 1), op("get", 1)], [op("len"), A(3, 2)]]),
    ]
    return two + three


class RawTla(str):
    """TLA+ text passed through verbatim"""


def tla_value(x):
    if isinstance(x, RawTla):
        return str(x)
    if isinstance(x, dict):
        return "[" + ", ".join(f"{k} |-> {tla_value(v)}" for k, v in x.items()) + "]"
    if isinstance(x, list):
        return "<<" + ", ".join(tla_value(v) for v in x) + ">>"
    if isinstance(x, str):
        return json.dumps(x)
    if isinstance(x, bool):
        return "TRUE" if x else "FALSE"
    return str(x)


# ------------------------------------------------------------------------------------------------
# plumbing shared by C05 / C06
# ------------------------------------------------------------------------------------------------

def stage_specs(work: Path) -> Path:
    d = work / "spec"
    d.mkdir(parents=True, exist_ok=True)
    for f in list(SPECDIR.glob("*.tla")) + list(SPECDIR.glob("*.cfg")):
        shutil.copy(f, d / f.name)
    return d


def model_run(chk, d: Path, base: str, name: str, consts: dict, defs: dict, invariants: list[str], emit: bool,
              timeout: int, simulate: str | None = None, extra_cfg: list[str] | None = None, deadlock: bool = False):
    """Write MC_<name>.tla/.cfg extending `base` into d and run TLC.  consts: plain constants;
    defs: constants given by a definition in the MC module."""
    mod = f"MC_{name}".replace("-", "_")
    body = [f"---- MODULE {mod} ----", f"EXTENDS {base}"]
    cfg = ["SPECIFICATION Spec", "VIEW View", "ACTION_CONSTRAINT Emit"]
    for k, v in consts.items():
        cfg.append(f"CONSTANT {k} = {v}")
    for k, v in defs.items():
        body.append(f"MC{k} == {tla_value(v)}")
        cfg.append(f"CONSTANT {k} <- MC{k}")
    for i in invariants:
        cfg.append(f"INVARIANT {i}")
    cfg += extra_cfg or []
    body.append("====")
    (d / f"{mod}.tla").write_text("\n".join(body) + "\n")
    (d / f"{mod}.cfg").write_text("\n".join(cfg) + "\n")
    r = vlib.tlc(d / f"{mod}.tla", workers=4, timeout=timeout, coverage=True, seed=chk.seed,
                 simulate=simulate, metadir=chk.work / f"meta-{mod}", deadlock=deadlock)
    return r


def model_runs_parallel(fn, configs, width=3):
    """run fn(config) -> TlcResult for all configs, a few at a time; results in order"""
    with cf.ThreadPoolExecutor(max_workers=width) as ex:
        return list(ex.map(fn, configs))


def run_harness(bindir: Path, jobs: list[dict], timeout: int = 900, procs: int = 4):
    """Run jobs on `procs` h_intern processes side by side (baton hand-offs are latency bound, not CPU bound)."""
    if len(jobs) < 64 or procs <= 1:
        return run_harness_1(bindir, jobs, timeout)
    parts = [jobs[i::procs] for i in range(procs)]
    out: dict[int, list] = {}
    with cf.ThreadPoolExecutor(max_workers=procs) as ex:
        for res in ex.map(lambda p: run_harness_1(bindir, p, timeout), parts):
            out.update(res)
    return out


def run_harness_1(bindir: Path, jobs: list[dict], timeout: int = 900):
    """Feed jobs to h_intern; a crash of the harness process inside a run is data: the run gets a `crash`
    record and the remaining jobs are run by a fresh process.  Returns {run id: [records]}."""
    out: dict[int, list] = {}
    todo = list(jobs)
    t_end = time.time() + timeout
    while todo:
        inp = "".join(json.dumps(j, separators=(",", ":")) + "\n" for j in todo)
        try:
            p = subprocess.run([str(bindir / "h_intern"), "run"], input=inp, stdout=subprocess.PIPE,
                               stderr=subprocess.PIPE, text=True, timeout=max(10, t_end - time.time()))
        except subprocess.TimeoutExpired:
            raise vlib.ToolError("h_intern timed out")
        cur, done = None, set()
        for line in p.stdout.splitlines():
            try:
                r = json.loads(line)
            except Exception:
                continue
            if r.get("e") == "begin":
                cur = r["run"]
                out[cur] = []
            elif r.get("e") == "end":
                done.add(r["run"])
                cur = None
            elif cur is not None:
                out[cur].append(r)
        if p.returncode == 0 and len(done) == len(todo):
            break
        # crashed (signal / abort) inside run `cur` — or before producing anything (tool error)
        if cur is None:
            if not done:
                raise vlib.ToolError(f"h_intern rc={p.returncode} before any run\n{p.stderr[-2000:]}")
            # died between runs
            todo = [j for j in todo if j["id"] not in done]
            continue
        job = next(j for j in todo if j["id"] == cur)
        recs = out[cur]
        if not any(r.get("e") == "reset" for r in recs):
            recs.insert(0, {"e": "reset", "run": cur, "kind": job["kind"], "pre": {"n": job.get("prefill", 0), "first": 128},
                            "pre_consecutive": 1, "threads": len(job.get("prog", []))})
        recs.append({"e": "crash", "rc": p.returncode, "run": cur})
        done.add(cur)
        todo = [j for j in todo if j["id"] not in done]
    return out


INFO_RECORDS = {"steps", "begin", "end"}


def validate(chk, d: Path, trace_mod: str, runs: dict[int, list], label: str, chunk_runs: int = 1500):
    """Judge recorded runs with TLC (trace spec).  Returns list of (run id, pred, record index in run)."""
    ids = sorted(runs)
    # a few balanced chunks, judged side by side (at most 4 JVMs at a time)
    nch = max(1, min(4, len(ids) // 200)) if len(ids) <= 4 * chunk_runs else -(-len(ids) // chunk_runs)
    chunks = [ids[i::nch] for i in range(nch)]
    viols = []

    def one(ci, chunk):
        path = chk.work / f"trace-{label}-{ci}.ndjson"
        n = 0
        with open(path, "w") as f:
            for rid in chunk:
                for r in runs[rid]:
                    if r.get("e") in INFO_RECORDS:
                        continue
                    f.write(json.dumps(r, separators=(",", ":")) + "\n")
                    n += 1
        r = vlib.tlc(d / f"{trace_mod}.tla", workers=1, dfs=True, timeout=900, env={"TRACE": str(path)},
                     metadir=chk.work / f"meta-{label}-{ci}")
        if r.violated is not None:
            raise vlib.ToolError(f"{trace_mod} stopped: {r.violated}\n{r.out[-3000:]}")
        if r.distinct != n + 1:
            raise vlib.ToolError(f"{trace_mod} consumed {r.distinct - 1} of {n} records ({path})\n{r.out[-3000:]}")
        return r, n

    with cf.ThreadPoolExecutor(max_workers=4) as ex:
        futs = [ex.submit(one, ci, c) for ci, c in enumerate(chunks)]
        for fu in futs:
            r, n = fu.result()
            chk.add_tlc(f"{trace_mod}:{label}", r, count_states=False)
            chk.cov["evaluations"] += n
            nrun = 0
            for tag, val in r.printed:
                if tag == "RUN":
                    nrun += 1
                elif tag == "VIOL":
                    viols.append((val["run"], val["pred"], val["rec"]))
            chk.cov["traces_validated_against_impl"] += nrun
    return sorted(set(viols))


def steps_of(recs):
    for r in recs:
        if r.get("e") == "steps":
            return r
    return {"steps": [], "skipped": 0}


def preemptions(steps):
    """number of context switches away from a thread that is in the middle of an operation"""
    n = 0
    for a, b in zip(steps, steps[1:]):
        if a[0] != b[0] and a[2] == -9 and not (b[1] == "op.call" and a[1] == "op.call"):
            n += 1
    return n


def report_violations(chk, viols, jobs_by_id, runs, kind):
    """One VIOLATION per predicate (signature = kind/pred), with the shortest failing run as replay."""
    by_pred: dict[str, list[int]] = {}
    for rid, pred, _ in viols:
        by_pred.setdefault(pred, []).append(rid)
    for pred, rids in sorted(by_pred.items()):
        rid = min(rids, key=lambda i: (len(steps_of(runs[i])["steps"]) or 10 ** 6, i))
        st = steps_of(runs[rid])
        job = dict(jobs_by_id[rid])
        if st["steps"] and job.get("policy", {}).get("p") != "free":
            job["policy"] = {"p": "replay", "sched": [s[0] for s in st["steps"]]}
        job.pop("expect", None)
        chk.violation(f"{kind}/{pred}",
                      f"{kind}: layer-A predicate {pred} is false on a recorded run of the real code "
                      f"({len(rids)} failing runs; program {job.get('name', '?')})",
                      {"engine": "intern", "kind": kind, "job": job, "pred": pred,
                       "records": [r for r in runs[rid] if r.get("e") not in ("begin", "end")]})


# ------------------------------------------------------------------------------------------------
# C06
# ------------------------------------------------------------------------------------------------

ARENA_INVS = ["InvDistinct", "InvReadBack", "InvObs", "InvQuiescent", "InvLenBound", "InvDrop", "InvMutex"]
# non-vacuity: the configuration is a variable, so TLC reports `\E t \in Threads : Step(t)` as ONE action; the
# per-action counts are therefore taken from the emitted transitions (label of the step = pc value = action)
ARENA_ACTIONS = {"Call": "op.call", "FetchAdd": "arena.fetch_add", "LoadBucket": "arena.load_bucket",
                 "LockMutex": "arena.lock_mutex", "RecheckBucket": "arena.recheck_bucket",
                 "AllocStore": "arena.alloc_store", "Unlock": "arena.unlock", "WriteSlot": "arena.write_slot",
                 "Get": "arena.get_load_bucket", "LenOp": "arena.len_load"}


def action_counts(replays):
    n: dict[str, int] = {}
    for h in replays:
        n[h[-1][1]] = n.get(h[-1][1], 0) + 1
    return n


def compare_prefix(chk, expect, got_steps, what):
    """expect / got: [[t, label, res], ...]; layer-B comparison only (drift)."""
    for i, e in enumerate(expect):
        if i >= len(got_steps) or list(got_steps[i]) != list(e):
            if len(chk.cov["drift"]) < 3:
                vlib.log(f"[drift] {what}: step {i}: model {e} impl {got_steps[i] if i < len(got_steps) else None}")
            chk.drift({"what": what, "at": i, "model": e, "impl": got_steps[i] if i < len(got_steps) else None})
            return False
    return True


def run_c06(chk):
    t0 = time.time()
    quick = chk.tier == "quick"
    bindir = vlib.cargo_build("h_intern")
    d = stage_specs(chk.work)
    configs = arena_configs(chk.tier)
    jobs, nid = [], 0
    max_replays = 2500 if quick else 4000      # per program
    exhaustive = True
    covered = {a: 0 for a in ARENA_ACTIONS}
    # one TLC run explores all programs (the configuration is chosen in Init): one JVM start instead of one per program
    r = model_run(chk, d, "Arena", "arena", {"EMIT": 1},
                  {"Configs": [{"prefill": p, "prog": g} for _, p, g in configs]}, ARENA_INVS, True,
                  timeout=900 if quick else 2400, deadlock=True)
    if r.violated:
        raise vlib.ToolError(f"Arena.tla: layer B violates layer A ({r.violated})\n{r.out[-3000:]}")
    chk.add_tlc("Arena", r)
    chk.require_coverage(r, ["DropArena"])
    ac = action_counts([v["h"] for tag, v in r.printed if tag == "REPLAY"])
    for a, lab in ARENA_ACTIONS.items():
        covered[a] += ac.get(lab, 0)
    chk.cov["action_transitions"] = {a: covered[a] for a in covered}
    by_cfg: dict[int, list] = {}
    for tag, v in r.printed:
        if tag == "REPLAY":
            by_cfg.setdefault(v["c"], []).append(v["h"])
    vlib.log(f"[C06] model: {r.distinct} states, {r.generated} transitions, {r.wall_s:.1f}s")
    for ci, (name, prefill, prog) in enumerate(configs, start=1):
        replays = by_cfg.get(ci, [])
        if not replays:
            raise vlib.ToolError(f"no schedules emitted for program {name}")
        if len(replays) > max_replays:
            # keep the longest histories (they subsume their prefixes) plus a seeded sample
            exhaustive = False
            import random
            rnd = random.Random(chk.seed)
            replays.sort(key=len, reverse=True)
            keep = replays[:max_replays // 2] + rnd.sample(replays[max_replays // 2:], max_replays // 2)
            replays = keep
        for h in replays:
            nid += 1
            jobs.append({"kind": "arena", "id": nid, "name": name, "prefill": prefill, "prog": prog,
                         "policy": {"p": "replay", "sched": [s[0] for s in h]}, "expect": h})
        vlib.log(f"[C06] program {name}: {len(by_cfg.get(ci, []))} transitions, {len(replays)} replays")
    missing = [a for a, n in covered.items() if n == 0]
    if missing:
        raise vlib.ToolError(f"vacuous model runs: actions never taken: {missing}")
    n_model_jobs = len(jobs)
    # impl -> spec: seeded random / PCT / free-running schedules
    nrand = 150 if quick else 1000
    for name, prefill, prog in configs:
        L = 8 * sum(len(p) for p in prog)
        for k in range(nrand):
            nid += 1
            s = chk.seed * 100003 + nid
            mode = k % 4
            pol = ({"p": "random", "seed": s} if mode == 0 else
                   {"p": "pct", "seed": s, "depth": 2 + (k // 4) % 3, "len": L} if mode in (1, 2) else
                   {"p": "free", "seed": s})
            jobs.append({"kind": "arena", "id": nid, "name": name, "prefill": prefill, "prog": prog, "policy": pol, "seed": s})
    # free-running stress: 4 threads x 300 adds on an empty arena (the only place where steps are NOT atomic
    # between hook points; judged by the same trace spec through call/ret order)
    for k in range(2 if quick else 12):
        nid += 1
        prog = [[op("add", (t - 1) * 300 + i + 1) for i in range(300)] for t in (1, 2, 3, 4)]
        jobs.append({"kind": "arena", "id": nid, "name": "stress-4x300", "prefill": 0, "prog": prog,
                     "policy": {"p": "free", "seed": chk.seed * 7919 + k}, "seed": chk.seed * 7919 + k})
    vlib.log(f"[C06] {n_model_jobs} TLC schedules + {len(jobs) - n_model_jobs} random/PCT/free runs")
    strip = [{k: v for k, v in j.items() if k != "expect"} for j in jobs]
    th = time.time()
    runs = run_harness(bindir, strip, timeout=600 if quick else 1500)
    vlib.log(f"[C06] harness {time.time() - th:.1f}s")
    jobs_by_id = {j["id"]: j for j in jobs}
    # layer-B comparison (drift only)
    distinct_sched, nontrivial = set(), set()
    for j in jobs:
        st = steps_of(runs[j["id"]])
        if "expect" in j:
            compare_prefix(chk, j["expect"], st["steps"], f"arena {j['name']} run {j['id']}")
        if st["steps"]:
            key = (j["name"], tuple((s[0], s[1]) for s in st["steps"]))
            distinct_sched.add(key)
            if preemptions(st["steps"]) >= 1:
                nontrivial.add(key)
        for r in runs[j["id"]]:
            if r.get("e") == "drop" and r["allocs"] != r["frees"]:
                chk.drift({"what": f"arena {j['name']} run {j['id']}: bucket allocations {r['allocs']} != frees {r['frees']}"})
            if r.get("e") == "stuck":
                chk.drift({"what": f"arena {j['name']} run {j['id']}: threads stuck", "rec": r})
    th = time.time()
    viols = validate(chk, d, "ArenaTrace", runs, "arena")
    vlib.log(f"[C06] trace validation {time.time() - th:.1f}s")
    report_violations(chk, viols, jobs_by_id, runs, "arena")
    chk.cov["distinct_nontrivial"] = len(nontrivial)
    chk.cov["distinct_schedules"] = len(distinct_sched)
    chk.cov["rule"] = ("one run = one program (2-3 threads x <=2 ops on a fresh AtomicArena pre-filled to a bucket boundary) "
                       "under one schedule; distinct = distinct observed (thread,label) step sequence per program; "
                       "non-trivial = at least one preemption of a thread in the middle of an operation")
    chk.cov["exhaustive"] = bool(exhaustive)
    chk.cov["replayed_tlc_schedules"] = n_model_jobs
    chk.cov["random_pct_free_runs"] = len(jobs) - n_model_jobs
    chk.cov["program_list"] = [{"name": n, "prefill": p, "prog": g} for n, p, g in configs]
    chk.cov["trusted_base"] = ["h_intern/src/sched.rs (baton scheduler, lock-holder tracking from labels)",
                               "h_intern/src/arena.rs (drives AtomicArena, projects refs/values/len/drop counters)",
                               "TLC, the Json/IOUtils community modules"]
    chk.assumptions += [SC_ASSUMPTION,
                        "steps between two hook points are atomic in the real run (one thread holds the baton); "
                        "free-running runs (no baton) are judged only through call/ret order",
                        "element identity = value; bucket allocations are recognised by size in a counting allocator (drift only)"]
    for j in (jobs[0], jobs[n_model_jobs // 2], jobs[n_model_jobs + 1]):
        chk.sample({"job": {k: v for k, v in j.items() if k != "expect"},
                    "records": [r for r in runs[j["id"]]]}, limit=3)
    vlib.log(f"[C06] done in {time.time() - t0:.1f}s")


# ------------------------------------------------------------------------------------------------

def run(chk: vlib.Check) -> None:
    chk.cov["evaluations"] = 0
    if chk.prop == "C06":
        run_c06(chk)
    elif chk.prop == "C05":
        run_c05(chk)
    else:
        raise vlib.ToolError(f"engine intern does not serve {chk.prop}")



# ------------------------------------------------------------------------------------------------
# C05
# ------------------------------------------------------------------------------------------------

TABLE_INVS = ["InvBijective", "InvObs", "InvLookup", "InvDense", "InvOneSlot", "InvLocks"]
TABLE_ACTIONS = {"Call": "op.call", "ShardsInit": "intern.shards_init", "ShardsInitEnter": "intern.shards_init_enter",
                 "LenLoad": "arena.len_load", "ShardsInitDone": "intern.shards_init_done", "TryWrite": "shard.try_write",
                 "ReadLockLookup": "shard.read_lock", "WriteLock": "shard.write_lock", "LookupW": "shard.lookup_w",
                 "UnlockFound": "shard.unlock_found", "FetchAdd": "arena.fetch_add", "LoadBucket": "arena.load_bucket",
                 "LockMutex": "arena.lock_mutex", "RecheckBucket": "arena.recheck_bucket",
                 "AllocStore": "arena.alloc_store", "Unlock": "arena.unlock", "WriteSlot": "arena.write_slot",
                 "ShardInsert": "intern.shard_insert", "InternUnlock": "intern.unlock",
                 "GetReadLock": "shard.get_read_lock", "Lookup": "arena.get_load_bucket"}


def fnv_u64(v: int) -> int:
    """fnv::FnvHasher over Hasher::write_u64(v) (8 little-endian bytes) — only used to PREFER adversarial
    candidates; the shard classes that count are the ones the hook reports."""
    h = 0xcbf29ce484222325
    for b in v.to_bytes(8, "little"):
        h ^= b
        h = (h * 0x100000001b3) & 0xFFFFFFFFFFFFFFFF
    return h


def pick_values(bindir, seed):
    """Real values a, b (same shard - and, when available, the same 7-bit hashbrown tag, so that only the
    equality closure tells them apart) and c (another shard).  The shard of each candidate is observed from the
    lock address that the shard.try_write hook reports."""
    ncand = 3000
    runs = run_harness(bindir, [{"kind": "shardmap", "id": 0, "candidates": ncand}])
    m = next(r for r in runs[0] if r.get("e") == "shardmap")["map"]
    cls = {v: c for v, c in m}
    by_class: dict[int, list[int]] = {}
    for v, c in m:
        by_class.setdefault(c, []).append(v)
    if len(by_class) < 2 or all(len(vs) < 2 for vs in by_class.values()):
        raise vlib.ToolError("could not find two values in one shard and one in another")
    # candidates whose fnv hashes agree in the shard bits and in the tag bits
    groups: dict[tuple, list[int]] = {}
    for v in range(1, 1000):           # stay below 1000: 1000.. are the pre-interned values
        h = fnv_u64(v)
        groups.setdefault((cls[v], h >> 57), []).append(v)
    same_tag = sorted(vs for vs in groups.values() if len(vs) >= 2)
    if same_tag:
        a, b = same_tag[seed % len(same_tag)][:2]
    else:
        multi = sorted(c for c, vs in by_class.items() if len(vs) >= 2)
        a, b = by_class[multi[seed % len(multi)]][:2]
    if cls[a] != cls[b]:
        raise vlib.ToolError("internal: a and b are not in one shard")
    others = sorted(v for v in range(1, 1000) if cls[v] != cls[a])
    c = others[seed % len(others)]
    return a, b, c


def table_configs(tier, a, b, c):
    I = lambda v: op("intern", v)
    two = [
        ("same-value-fresh", 0, [[I(a), op("lookup", 2)], [I(a), I(b)]]),
        ("same-shard-fresh", 0, [[I(a), op("getint", b)], [I(b), op("len")]]),
        ("two-shards-boundary", 127, [[I(a), I(c)], [I(c), I(a)]]),
        ("two-shards-new-bucket", 128, [[I(a), op("lookup", 2)], [I(c), op("lookup", 1)]]),
        ("same-shard-boundary", 127, [[I(a), I(b)], [I(b), op("getint", a)]]),
    ]
    if tier == "quick":
        return two
    three = [
        ("3-same-value", 0, [[I(a)], [I(a), op("lookup", 1)], [I(b), op("getint", a)]]),
        ("3-shards-boundary", 127, [[I(a), op("len")], [I(c)], [I(a), op("lookup", 2)]]),
        ("3-new-bucket", 128, [[I(a)], [I(c)], [I(b), op("lookup", 0)]]),
    ]
    return two + three


def run_c05_table(chk, bindir, d):
    quick = chk.tier == "quick"
    a, b, c = pick_values(bindir, chk.seed)
    vlib.log(f"[C05] values: a={a} b={b} (same shard) c={c} (other shard)")
    shard_of = f"({a} :> 1) @@ ({b} :> 1) @@ ({c} :> 2)"
    configs = table_configs(chk.tier, a, b, c)
    jobs, nid = [], 0
    max_replays = 2000 if quick else 3000
    exhaustive = True
    covered = {x: 0 for x in TABLE_ACTIONS}
    r = model_run(chk, d, "InternTable", "table", {"EMIT": 1},
                  {"Configs": [{"prefill": p, "prog": g} for _, p, g in configs], "ShardOf": RawTla(shard_of)},
                  TABLE_INVS, True, timeout=900 if quick else 2400, deadlock=True)
    if r.violated:
        raise vlib.ToolError(f"InternTable.tla: layer B violates layer A ({r.violated})\n{r.out[-3000:]}")
    chk.add_tlc("InternTable", r)
    ac = action_counts([v["h"] for tag, v in r.printed if tag == "REPLAY"])
    for x, lab in TABLE_ACTIONS.items():
        covered[x] += ac.get(lab, 0)
    chk.cov["action_transitions"] = {x: covered[x] for x in covered}
    by_cfg: dict[int, list] = {}
    for tag, v in r.printed:
        if tag == "REPLAY":
            by_cfg.setdefault(v["c"], []).append(v["h"])
    vlib.log(f"[C05] model: {r.distinct} states, {r.generated} transitions, {r.wall_s:.1f}s")
    for ci, (name, prefill, prog) in enumerate(configs, start=1):
        replays = by_cfg.get(ci, [])
        if not replays:
            raise vlib.ToolError(f"no schedules emitted for program {name}")
        if len(replays) > max_replays:
            exhaustive = False
            import random
            rnd = random.Random(chk.seed)
            replays.sort(key=len, reverse=True)
            replays = replays[:max_replays // 2] + rnd.sample(replays[max_replays // 2:], max_replays // 2)
        for h in replays:
            nid += 1
            jobs.append({"kind": "table", "id": nid, "name": name, "prefill": prefill, "prog": prog,
                         "policy": {"p": "replay", "sched": [s[0] for s in h]}, "expect": h})
        vlib.log(f"[C05] program {name}: {len(by_cfg.get(ci, []))} transitions, {len(replays)} replays")
    missing = [x for x, n in covered.items() if n == 0]
    if missing:
        raise vlib.ToolError(f"vacuous model runs: actions never taken: {missing}")
    n_model_jobs = len(jobs)
    nrand = 120 if quick else 600
    for name, prefill, prog in configs:
        L = 14 * sum(len(p) for p in prog)
        for k in range(nrand):
            nid += 1
            s = chk.seed * 100003 + nid
            mode = k % 4
            pol = ({"p": "random", "seed": s} if mode == 0 else
                   {"p": "pct", "seed": s, "depth": 2 + (k // 4) % 3, "len": L} if mode in (1, 2) else
                   {"p": "free", "seed": s})
            jobs.append({"kind": "table", "id": nid, "name": name, "prefill": prefill, "prog": prog, "policy": pol, "seed": s})
    vlib.log(f"[C05] {n_model_jobs} TLC schedules + {len(jobs) - n_model_jobs} random/PCT/free runs")
    strip = [{k: v for k, v in j.items() if k != "expect"} for j in jobs]
    th = time.time()
    runs = run_harness(bindir, strip, timeout=600 if quick else 1500)
    vlib.log(f"[C05] harness {time.time() - th:.1f}s")
    jobs_by_id = {j["id"]: j for j in jobs}
    distinct_sched, nontrivial = set(), set()
    for j in jobs:
        st = steps_of(runs[j["id"]])
        if "expect" in j:
            compare_prefix(chk, j["expect"], st["steps"], f"table {j['name']} run {j['id']}")
        if st["steps"]:
            key = (j["name"], tuple((s[0], s[1]) for s in st["steps"]))
            distinct_sched.add(key)
            if preemptions(st["steps"]) >= 1:
                nontrivial.add(key)
        for r in runs[j["id"]]:
            if r.get("e") == "stuck":
                chk.drift({"what": f"table {j['name']} run {j['id']}: threads stuck", "rec": r})
    th = time.time()
    viols = validate(chk, d, "InternTableTrace", runs, "table")
    vlib.log(f"[C05] trace validation {time.time() - th:.1f}s")
    report_violations(chk, viols, jobs_by_id, runs, "table")
    chk.cov["table"] = {"values": {"a": a, "b": b, "c": c}, "replayed_tlc_schedules": n_model_jobs,
                        "random_pct_free_runs": len(jobs) - n_model_jobs, "distinct_schedules": len(distinct_sched),
                        "distinct_nontrivial": len(nontrivial), "exhaustive": bool(exhaustive),
                        "programs": [{"name": n, "prefill": p, "prog": g} for n, p, g in configs]}
    for j in (jobs[0], jobs[n_model_jobs // 2], jobs[-2]):
        chk.sample({"job": {k: v for k, v in j.items() if k != "expect"}, "records": runs[j["id"]]}, limit=3)
    return len(nontrivial), exhaustive


def run_c05(chk):
    t0 = time.time()
    bindir = vlib.cargo_build("h_intern")
    d = stage_specs(chk.work)
    nt, exh = run_c05_table(chk, bindir, d)
    nv, exh2 = run_c05_values(chk, bindir, d)
    chk.cov["distinct_nontrivial"] = nt + nv
    chk.cov["exhaustive"] = bool(exh and exh2)
    chk.cov["rule"] = ("schedules: one run = one program (2-3 threads x <=2 ops on a FRESH InternTable, 0/127/128 values "
                       "pre-interned) under one schedule, distinct = distinct observed (thread,label) sequence, "
                       "non-trivial = at least one preemption in the middle of an operation; "
                       "values: distinct serde trees with at least one repeated id or nested id, and distinct ordered "
                       "pairs of string/bytes/path values of different classes")
    chk.cov["trusted_base"] = ["h_intern/src/sched.rs (baton scheduler)", "h_intern/src/table.rs (hand-written InternId impl "
                               "with a per-run table, projections)", "h_intern/src/values.rs (tree/bytes concretisation, "
                               "serde_json/bincode calls, projections)", "TLC, Json/IOUtils community modules"]
    chk.assumptions += [SC_ASSUMPTION,
                        "the shard of a value is observed from the lock address passed to the shard.try_write hook",
                        "value comparisons that hashbrown performs through the arena during a shard lookup are part "
                        "of the enclosing shard step (their get hook is not a scheduling point)",
                        "byte-level encoding fidelity is judged only on the enumerated value classes"]
    vlib.log(f"[C05] done in {time.time() - t0:.1f}s")



def gen_value(kind, cls, rnd):
    """seeded concretisation of a representation class -> bytes"""
    letters = b"abcdefghijklmnopqrstuvwxyzABCDEFGHIJKLMNOPQRSTUVWXYZ0123456789_-."
    asc = lambda n: bytes(rnd.choice(letters) for _ in range(n))
    if kind in ("string", "bytes"):
        if cls == "empty":
            return b""
        if cls == "small":
            return asc(rnd.randint(1, 21))
        if cls == "boundary":
            return asc(22)
        if cls == "boundary1":
            return asc(23)
        if cls == "large":
            return asc(rnd.choice([24, 25, 31, 64, 100, 257, 400]))
        if cls == "multibyte":
            chars = ["é", "ß", "日", "本", "𝄞", "я", "a", "Z", " ", "߿", "ࠀ", "￿"]
            return "".join(rnd.choice(chars) for _ in range(rnd.choice([1, 2, 6, 8, 11, 12, 30]))).encode()
        if cls == "nonutf8":
            pool = [0xff, 0xfe, 0x80, 0xc0, 0x00, 0xc3, 0x28, 0xed, 0xa0, 0x80, 0x61]
            b = bytes(rnd.choice(pool) for _ in range(rnd.choice([1, 2, 5, 21, 22, 23, 40])))
            return b if not _is_utf8(b) else b + b"\xff"
    if kind == "path":
        comp = lambda: asc(rnd.randint(1, 6))
        if cls == "small":
            return b"/".join(comp() for _ in range(rnd.randint(1, 3)))
        if cls == "large":
            return b"/".join(asc(rnd.choice([22, 23, 40])) for _ in range(rnd.randint(2, 5)))
        if cls == "dotdot":
            return rnd.choice([b"%s/../%s", b"../%s/%s", b"./%s/%s", b"%s/./%s/..", b"%s/../../%s"]) % (comp(), comp())
        if cls == "slashes":
            return rnd.choice([b"%s//%s", b"%s/%s/", b"/%s/%s", b"//%s/%s", b"%s///%s//"]) % (comp(), comp())
        if cls == "nonutf8":
            return comp() + b"/\xff\xfe" + comp() + b"/" + comp()
    raise ValueError((kind, cls))


def _is_utf8(b):
    try:
        b.decode("utf-8")
        return True
    except UnicodeDecodeError:
        return False


def relate(kind, v1, rel, indep, rnd):
    if rel == "indep":
        return indep
    if rel == "equal":
        return bytes(v1)
    if kind == "string":
        s = v1.decode()
        if rel == "prefix":
            return (s + "a").encode()
        if rel == "lastbyte":
            return ((s[:-1] if s else "") + ("b" if not s.endswith("b") else "c")).encode()
        if rel == "crossing":
            return (s + "a" * max(1, 23 - len(v1))).encode() if len(v1) < 23 else s.encode()[:22].decode(errors="ignore").encode()
    if rel == "prefix":
        return v1 + b"a"
    if rel == "lastbyte":
        return (v1[:-1] if v1 else b"") + (b"b" if not v1.endswith(b"b") else b"c")
    if rel == "crossing":
        return v1 + b"a" * max(1, 23 - len(v1)) if len(v1) < 23 else v1[:22]
    raise ValueError(rel)


def run_c05_values(chk, bindir, d):
    import random
    quick = chk.tier == "quick"
    rnd = random.Random(chk.seed)
    # ---- serde: TLC enumerates worlds/documents, checks the protocol model, prints the cases
    consts = {"MaxIds": 3, "MaxKids": 2, "MaxDoc": 3, "MaxNodes": 6, "Names": "{1, 2}", "EMIT": 1}
    (d / "MC_Serdes.cfg").write_text("".join(f"CONSTANT {k} = {v}\n" for k, v in consts.items()) +
                                     "SPECIFICATION Spec\nINVARIANT InvRoundTrip\nINVARIANT InvBackRefs\nINVARIANT InvShared\n")
    r = vlib.tlc(d / "InternSerdes.tla", d / "MC_Serdes.cfg", workers=2, timeout=900, metadir=chk.work / "meta-serdes")
    if r.violated:
        raise vlib.ToolError(f"InternSerdes.tla violates {r.violated}\n{r.out[-3000:]}")
    chk.add_tlc("InternSerdes", r)
    cases = [v for tag, v in r.printed if tag == "CASE"]
    if not cases:
        raise vlib.ToolError("InternSerdes printed no cases")
    exhaustive = True
    total_cases = len(cases)
    if quick and len(cases) > 1500:
        exhaustive = False
        cases.sort(key=lambda c: -len(c["toks"]))
        cases = cases[:500] + rnd.sample(cases[500:], 1000)
    jobs, nid = [], 0
    for c in cases:
        nid += 1
        jobs.append({"kind": "serdes", "id": nid, "world": c["world"], "doc": c["doc"], "expect": c["toks"]})
    n_serdes = len(jobs)
    # ---- strings / bytes / paths: TLC enumerates class triples
    (d / "MC_Values.cfg").write_text("CONSTANT EMIT = 1\nSPECIFICATION Spec\n")
    r2 = vlib.tlc(d / "InternValues.tla", d / "MC_Values.cfg", workers=2, timeout=600, metadir=chk.work / "meta-values")
    chk.add_tlc("InternValues", r2)
    vcases = [v for tag, v in r2.printed if tag == "CASE"]
    if quick and len(vcases) > 400:
        exhaustive = False
        vcases = rnd.sample(vcases, 400)
    for c in vcases:
        nid += 1
        v1 = gen_value(c["kind"], c["c1"], rnd)
        v2 = relate(c["kind"], v1, c["rel"], gen_value(c["kind"], c["c2"], rnd), rnd)
        v3 = gen_value(c["kind"], c["c3"], rnd)
        if c["kind"] == "path":
            v2 = v2 or b"a"
        jobs.append({"kind": "strings", "id": nid, "skind": c["kind"], "case": c, "vals": [list(v1), list(v2), list(v3)]})
    vlib.log(f"[C05] values: {n_serdes} serde cases (of {total_cases}), {len(jobs) - n_serdes} string/bytes/path cases (of {len(r2.printed)})")
    strip = [{k: v for k, v in j.items() if k not in ("expect",)} for j in jobs]
    runs = run_harness(bindir, strip, timeout=600)
    jobs_by_id = {j["id"]: j for j in jobs}
    nontrivial = 0
    for j in jobs:
        recs = runs[j["id"]]
        if j["kind"] == "serdes":
            js = next((x for x in recs if x.get("e") == "serdes" and x["fmt"] == "json"), None)
            if js is not None and js["toks"] != j["expect"]:
                chk.drift({"what": f"serdes case {j['id']}: token stream differs from InternSerdes.tla", "model": j["expect"], "impl": js["toks"]})
            if any(t["t"] in ("I", "SI") for t in j["expect"]):
                nontrivial += 1
        else:
            if len({bytes(v) for v in j["vals"]}) >= 2:
                nontrivial += 1
    viols = validate(chk, d, "InternValuesTrace", runs, "values", chunk_runs=800)
    report_violations(chk, viols, jobs_by_id, runs, "values")
    chk.cov["values"] = {"serde_cases": n_serdes, "serde_cases_in_bounds": total_cases, "string_cases": len(jobs) - n_serdes,
                         "string_cases_in_bounds": len(r2.printed), "nontrivial": nontrivial}
    chk.sample({"job": {k: v for k, v in jobs[n_serdes // 3].items()}, "records": runs[jobs[n_serdes // 3]["id"]]}, limit=4)
    return nontrivial, exhaustive


def replay(prop: str, path: Path, seed: int) -> int:
    rp = json.loads(Path(path).read_text())
    chk = vlib.Check(prop, "quick", seed)
    try:
        bindir = vlib.cargo_build("h_intern")
        d = stage_specs(chk.work)
        job = dict(rp["job"])
        job["id"] = 1
        runs = run_harness(bindir, [job])
        trace = {"arena": "ArenaTrace", "table": "InternTableTrace", "serdes": "InternValuesTrace",
                 "strings": "InternValuesTrace"}[job["kind"]]
        chk.cov["evaluations"] = 0
        viols = validate(chk, d, trace, runs, "replay")
        for v in viols:
            print(f"still violates: {v[1]} (record {v[2]})")
        return 1 if viols else 0
    finally:
        shutil.rmtree(chk.work, ignore_errors=True)
