------------------------------ MODULE IsoSoup ------------------------------
(***************************************************************************)
(* Token soups: ALL token strings of length <= MaxSoup[c] over SoupAlphabet *)
(* written after each of the context prefixes in Contexts (so that the     *)
(* soup reaches every part of the parser, not only the first token test),  *)
(* in each layout scheme of SoupSchemes.  The states ARE the soups.  The   *)
(* alphabet contains an integer literal beyond i64, a non-ASCII identifier *)
(* start, an unterminated string; `.' glued to itself gives the lone       *)
(* `.' `..' `...'; every proper prefix is itself a soup, so the end of     *)
(* input occurs at every position.                                         *)
(* Expected verdict = the recogniser's (layer B only).                     *)
(***************************************************************************)
EXTENDS IsoGrammar, TLC, Json

CONSTANTS MaxSoup,        \* [context -> bound on the length of the soup]
          SoupAlphabet, SoupSchemes, ContextIds

VARIABLES soup, ctx
vars == <<soup, ctx>>

T(k) == [k |-> k, nl |-> FALSE]
Ctx == [ bare     |-> <<>>,
         hdr      |-> <<T("field"), T("id"), T("."), T("id")>>,
         vars     |-> <<T("field"), T("id"), T("."), T("id"), T("(")>>,
         vartype  |-> <<T("field"), T("id"), T("."), T("id"), T("("), T("$"), T("id"), T(":")>>,
         sel      |-> <<T("field"), T("id"), T("."), T("id"), T("{")>>,
         arg      |-> <<T("field"), T("id"), T("."), T("id"), T("{"), T("id"), T("("), T("id"), T(":")>>,
         entry    |-> <<T("entrypoint"), T("id"), T("."), T("id")>>,
         ptr      |-> <<T("pointer"), T("id"), T("."), T("id"), T("to")>> ]

Init == soup = <<>> /\ ctx \in ContextIds
Grow == /\ Len(soup) < MaxSoup[ctx]
        /\ \E k \in SoupAlphabet : soup' = Append(soup, T(k))
        /\ UNCHANGED ctx
Next == Grow
Spec == Init /\ [][Next]_vars

EmitSoup ==
    \A sch \in SoupSchemes :
        LET toks == Ctx[ctx] \o soup IN
        PrintT(<<"REPLAY", ToJson([fam |-> "soup", sch |-> sch, ctx |-> ctx, toks |-> Layout(sch, toks),
                                   exp |-> Verdict(sch, toks)])>>)
=============================================================================
