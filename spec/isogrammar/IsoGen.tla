------------------------------- MODULE IsoGen -------------------------------
(***************************************************************************)
(* Generator model: the states are the partial leftmost derivations of     *)
(* IsoGrammar under a profile (which productions may be used, how many     *)
(* tokens), the complete ones are the sentences; from each sentence of at  *)
(* most MutMax tokens every single-token mutant.  Behaviours are emitted   *)
(* for the renderer/harness by the two Emit* invariants (each distinct     *)
(* sentence / mutant is a distinct state, so it is printed once):          *)
(*   fam "sent"  expected verdict "accept" + tree skeleton, one line per   *)
(*               layout scheme of the profile                              *)
(*   fam "mut"   expected verdict = the recogniser's (LL1!Accepts)         *)
(***************************************************************************)
EXTENDS IsoGrammar, Json

CONSTANTS Profiles,      \* subset of DOMAIN MaxTok
          MaxTok,        \* [profile -> bound on the number of tokens of a sentence]
          SentSchemes,   \* [profile -> layout schemes used for its sentences]
          MutMax,        \* sentences of profile "all" up to this length are mutated (0 = no mutants)
          MutSchemes     \* layout schemes used for mutants

VARIABLES prof,          \* the profile of this derivation
          d,             \* the derivation [stack, out, pend, cnt]
          phase          \* "derive" | "done" (a sentence) | "mut" (a mutant of a sentence)

vars == <<prof, d, phase>>

ASSUME TableIsPredictive

\* ---- profiles (which productions the generator may use) ----
ProfAllowed(p, nt, i) ==
    CASE p = "all"  -> TRUE
         \* declarations: header, variables, types, defaults, directives, descriptions; selections trivial
      [] p = "decl" -> ~( \/ (nt = "SelRest" /\ i = 1)
                          \/ (nt = "SelTail" /\ i = 1)
                          \/ (nt = "SelSetOpt" /\ i = 1)
                          \/ (nt \in {"Value", "CValue"} /\ i \in {1, 4}) )
         \* selections: aliases, arguments with every value kind, objects, selection directives, nesting
         \* headers (C28): every declaration kind, variables, directives, descriptions; empty selection sets
      [] p = "hdr"  -> ~( \/ (nt = "Sels" /\ i = 1)
                          \/ (nt = "Type" /\ i = 2)
                          \/ (nt = "DefaultOpt" /\ i = 1)
                          \/ (nt = "VarTail" /\ i = 1)
                          \/ (nt = "ArgTail" /\ i = 1)
                          \/ (nt \in {"Value", "CValue"} /\ i \in {1, 2, 4, 6, 7}) )
      [] p = "sel"  -> ~( \/ (nt = "Lit" /\ i \in {2, 3})
                          \/ (nt = "VarDefsOpt" /\ i = 1)
                          \/ (nt = "Dirs" /\ i = 1)
                          \/ (nt = "DescOpt" /\ i \in {1, 2}) )

Init == /\ prof \in Profiles
        /\ d = GenInit(ZeroCnt)
        /\ phase = "derive"

Expand == /\ phase = "derive"
          /\ d.stack # <<>>
          /\ \E e \in Expansions(d, MaxTok[prof], LAMBDA nt, i : ProfAllowed(prof, nt, i)) : d' = e
          /\ UNCHANGED <<prof, phase>>

Finish == /\ phase = "derive"
          /\ d.stack = <<>>
          /\ phase' = "done"
          /\ UNCHANGED <<prof, d>>

Mutate == /\ phase = "done"
          /\ prof = "all"
          /\ Len(d.out) <= MutMax
          /\ \E m \in Mutants(d.out) : d' = [d EXCEPT !.out = m, !.cnt = ZeroCnt]
          /\ phase' = "mut"
          /\ UNCHANGED prof

Next == Expand \/ Finish \/ Mutate
Spec == Init /\ [][Next]_vars

\* every complete derivation is accepted by the recogniser run over the same table (model sanity)
SentencesAccepted == phase = "done" => \A sch \in SentSchemes[prof] : Verdict(sch, d.out) = "accept"

EmitSent == phase = "done" =>
    \A sch \in SentSchemes[prof] :
        PrintT(<<"REPLAY", ToJson([fam |-> "sent", prof |-> prof, sch |-> sch, toks |-> Layout(sch, d.out),
                                   exp |-> "accept", skel |-> d.cnt])>>)
EmitMut == phase = "mut" =>
    \A sch \in MutSchemes :
        PrintT(<<"REPLAY", ToJson([fam |-> "mut", prof |-> prof, sch |-> sch, toks |-> Layout(sch, d.out),
                                   exp |-> Verdict(sch, d.out)])>>)
=============================================================================
