----------------------------- MODULE IsoResolve -----------------------------
(***************************************************************************)
(* C32 - trace specification.  One record per parsed iso literal:          *)
(*                                                                         *)
(*   nodes  every node of the parsed declaration whose Rust type is one of *)
(*          the kinds IsographResolvedNode enumerates and that carries a   *)
(*          location, from an INDEPENDENT walk of the AST (harness):       *)
(*          [k kind, s, e span, p index of the parent node (0 = root),     *)
(*           nt TRUE for a type annotation nested in another one]          *)
(*   res    for EVERY character-boundary offset o in 0..len what the REAL  *)
(*          resolver (`.resolve((), Span::new(o, o))' on the parsed        *)
(*          IsoLiteralExtractionResult, as hover / goto-definition call    *)
(*          it) returned: chain = indices into nodes of the returned node  *)
(*          and of the nodes along its parent path, innermost first (by    *)
(*          pointer identity; 0 = a node the walk does not know),          *)
(*          r = "ok" | "panic"                                             *)
(*                                                                         *)
(* LAYER A.  "For every parsed iso literal and every offset inside it,     *)
(* position resolution returns the innermost syntax node whose span        *)
(* contains the offset, with a parent chain of nodes that each contain     *)
(* it."                                                                    *)
(*  - A cursor offset o is contained in a node iff s <= o <= e (a cursor   *)
(*    sits between characters, so it touches the node ending at o and the  *)
(*    node starting at o; the statement does not choose between them and   *)
(*    neither does this predicate).                                        *)
(*  - The root declaration IS the literal: it contains every offset of     *)
(*    the literal whatever span the parser recorded for it (the recorded   *)
(*    span starts after the keyword; reported as drift, not judged).       *)
(*  - TypeAnnotationsAtomic: a type annotation is one syntax node for the  *)
(*    resolver's purposes (IsographResolvedNode::TypeAnnotation carries    *)
(*    the whole annotation; `[Int!]' has no separately addressable part).  *)
(*    Offsets at which the strict reading (nested annotations count)       *)
(*    differs are reported as drift.                                       *)
(***************************************************************************)
EXTENDS Naturals, Sequences, FiniteSets, TLC, Json, IOUtils

CONSTANT TypeAnnotationsAtomic

Rec == ndJsonDeserialize(IOEnv.TRACE)

VARIABLE l
Init == l = 1
Next == l <= Len(Rec) /\ l' = l + 1

Contains(n, o)  == n.s <= o /\ o <= n.e
Within(c, p)    == p.s <= c.s /\ c.e <= p.e
IsRoot(r, id)   == r.nodes[id].p = 0

RECURSIVE IsBelow(_, _, _)
IsBelow(r, m, a) ==            \* node m is a proper descendant of node a
    LET p == r.nodes[m].p IN p # 0 /\ (p = a \/ IsBelow(r, p, a))

Known(r, q)          == q.r = "ok" /\ Len(q.chain) >= 1 /\ \A j \in DOMAIN q.chain : q.chain[j] \in 1..Len(r.nodes)
ChainContains(r, q)  == \A j \in DOMAIN q.chain : IsRoot(r, q.chain[j]) \/ Contains(r.nodes[q.chain[j]], q.o)
ChainIsParents(r, q) == /\ \A j \in 1..(Len(q.chain) - 1) :
                              /\ r.nodes[q.chain[j]].p = q.chain[j + 1]
                              /\ Within(r.nodes[q.chain[j]], r.nodes[q.chain[j + 1]])
                        /\ IsRoot(r, q.chain[Len(q.chain)])
InnermostW(r, q, atomic) ==
    ~\E m \in 1..Len(r.nodes) :
        /\ IsBelow(r, m, q.chain[1])
        /\ ~(atomic /\ r.nodes[m].nt)
        /\ Contains(r.nodes[m], q.o)
Innermost(r, q) == InnermostW(r, q, TypeAnnotationsAtomic)

FailingAt(r, q) ==
    IF ~Known(r, q) THEN {"resolves"}
    ELSE      (IF ChainContains(r, q)  THEN {} ELSE {"chain-contains"})
         \cup (IF ChainIsParents(r, q) THEN {} ELSE {"chain-parents"})
         \cup (IF Innermost(r, q)      THEN {} ELSE {"innermost"})

DriftAt(r, q) ==
    IF ~Known(r, q) THEN {}
    ELSE      (IF InnermostW(r, q, FALSE) THEN {} ELSE {"nested-type-annotation-not-descended"})
         \cup (IF Contains(r.nodes[q.chain[Len(q.chain)]], q.o) THEN {} ELSE {"root-span-excludes-offset"})

Judge == l <= Len(Rec) =>
    LET r   == Rec[l]
        bad == {i \in DOMAIN r.res : FailingAt(r, r.res[i]) # {}}
        dr  == UNION {DriftAt(r, r.res[i]) : i \in DOMAIN r.res} IN
    /\ bad # {} => LET i == CHOOSE i \in bad : \A j \in bad : i <= j IN
                   PrintT(<<"FAIL", ToJson([id |-> r.id, clauses |-> UNION {FailingAt(r, r.res[j]) : j \in bad},
                                            first |-> r.res[i].o, nbad |-> Cardinality(bad),
                                            kinds |-> r.res[i].kinds])>>)
    /\ dr # {} => PrintT(<<"DRIFT", ToJson([id |-> r.id, what |-> dr])>>)

AllJudged == TLCGet("stats").diameter = Len(Rec) + 1
=============================================================================
