------------------------------ MODULE IsoTrace ------------------------------
(***************************************************************************)
(* C07 - trace specification.  Every record of the ndjson file named by    *)
(* the environment variable TRACE is what the REAL parser                  *)
(* (isograph_lang_parser::parse_iso_literal, run by harness/h_isogrammar   *)
(* under catch_unwind in a child process) did on one input text:           *)
(*                                                                         *)
(*   id       case id                                                      *)
(*   len      length of the text in bytes                                  *)
(*   nb       the byte offsets in 0..len that are NOT character boundaries *)
(*   outcome  "decl" | "diag" | "panic" | "abort" (the child process died: *)
(*            stack overflow / abort) | "hang" (no answer in the time box) *)
(*   kind     "field" | "pointer" | "entrypoint" | "none"                  *)
(*   ast      every location carried by the returned declaration [w, s, e] *)
(*   toks     the declaration's semantic tokens [s, e, t], in order        *)
(*   diag     the returned diagnostic: [loc |-> "emb", s, e] or            *)
(*            [loc |-> "gen"] / [loc |-> "none"] (no span reported)        *)
(*   lex      (optional) the real lexer's token stream [k, nl] + EOF       *)
(*   exp, skel_exp (optional) what the generator model predicted           *)
(*                                                                         *)
(* LAYER A (the property as stated, nothing else): Failing(r) is the set   *)
(* of clauses of C07 that are false on r.  The engine reports a VIOLATION  *)
(* exactly for the records TLC prints a FAIL line for.                     *)
(* LAYER B (model accuracy, never a violation): Drift(r).                  *)
(***************************************************************************)
EXTENDS IsoGrammar, TLC, Json, IOUtils

Rec == ndJsonDeserialize(IOEnv.TRACE)

VARIABLE l
Init == l = 1
Next == l <= Len(Rec) /\ l' = l + 1

InSeq(x, s) == \E i \in DOMAIN s : s[i] = x

\* ------------------------------------------------------------------ layer A
\* "lies within the literal text on character boundaries"
SpanOK(r, sp) == /\ 0 <= sp.s /\ sp.s <= sp.e /\ sp.e <= r.len
                 /\ ~InSeq(sp.s, r.nb) /\ ~InSeq(sp.e, r.nb)

\* "terminates without panicking"
Total(r)       == r.outcome \in {"decl", "diag"}
\* "returns either a declaration or a diagnostic"
Returns(r)     == /\ r.outcome = "decl" => r.kind \in {"field", "pointer", "entrypoint"}
                  /\ r.outcome = "diag" => Len(r.diag) >= 1
AstSpans(r)    == \A i \in DOMAIN r.ast  : SpanOK(r, r.ast[i])
TokenSpans(r)  == \A i \in DOMAIN r.toks : SpanOK(r, r.toks[i])
DiagSpans(r)   == \A i \in DOMAIN r.diag : r.diag[i].loc = "emb" => SpanOK(r, r.diag[i])
\* "semantic tokens are non-overlapping and in increasing order"
TokenOrder(r)  == \A i \in 1..(Len(r.toks) - 1) :
                      /\ r.toks[i].s < r.toks[i + 1].s
                      /\ r.toks[i].e <= r.toks[i + 1].s

Failing(r) ==      (IF Total(r)      THEN {} ELSE {"total"})
              \cup (IF Returns(r)    THEN {} ELSE {"returns"})
              \cup (IF AstSpans(r)   THEN {} ELSE {"ast-span"})
              \cup (IF TokenSpans(r) THEN {} ELSE {"token-span"})
              \cup (IF DiagSpans(r)  THEN {} ELSE {"diag-span"})
              \cup (IF TokenOrder(r) THEN {} ELSE {"token-order"})

\* ------------------------------------------------------------------ layer B
Has(r, f)   == f \in DOMAIN r
ObsVerdict(r) == IF r.outcome = "decl" THEN "accept" ELSE "reject"
SkelSame(r) == \A f \in DOMAIN r.skel_exp : r.skel[f] = r.skel_exp[f]

Drift(r) ==
    IF ~Total(r) THEN {}
    ELSE      (IF Has(r, "exp") /\ r.exp # ObsVerdict(r) THEN {"verdict-vs-generator"} ELSE {})
         \cup (IF Has(r, "lex") /\ (IF Accepts(r.lex) THEN "accept" ELSE "reject") # ObsVerdict(r)
                 THEN {"verdict-vs-recogniser"} ELSE {})
         \cup (IF Has(r, "skel_exp") /\ r.outcome = "decl" /\ ~SkelSame(r) THEN {"skeleton"} ELSE {})

\* One state per record.  The invariant never fails: it REPORTS, so that one TLC run judges a whole batch.
Judge == l <= Len(Rec) =>
    LET r == Rec[l]
        f == Failing(r)
        d == Drift(r) IN
    /\ f # {} => PrintT(<<"FAIL", ToJson([id |-> r.id, clauses |-> f,
                                           bad |-> {r.ast[i].w : i \in {j \in DOMAIN r.ast : ~SpanOK(r, r.ast[j])}}])>>)
    /\ d # {} => PrintT(<<"DRIFT", ToJson([id |-> r.id, what |-> d])>>)

\* all records were judged
AllJudged == TLCGet("stats").diameter = Len(Rec) + 1
=============================================================================
