-------------------------------- MODULE LL1 --------------------------------
(***************************************************************************)
(* A generic grammar-driven push-down machine: ONE production table, TWO   *)
(* uses.                                                                   *)
(*                                                                         *)
(*  generator   a partial (leftmost) derivation is a record                *)
(*              [stack, out, pend, cnt]; `Expansions' picks ANY allowed    *)
(*              production of the non-terminal on top of the stack and     *)
(*              shifts the terminals that follow - the complete            *)
(*              derivations (stack empty) are the sentences.               *)
(*  recogniser  `Accepts(toks)' runs the same table as a predictive        *)
(*              (ordered-choice, one token of look-ahead) PDA over a       *)
(*              token sequence: stuck = reject, empty stack at EOF =       *)
(*              accept.                                                    *)
(*                                                                         *)
(* Symbols are strings.  A symbol is a non-terminal iff it is in           *)
(* DOMAIN Prods; it is a predicate symbol iff it is in PredSyms (it        *)
(* consumes nothing and succeeds iff the look-ahead token carries the      *)
(* `nl' flag: "the white space before this token contains a line           *)
(* break"); everything else is a terminal.  Tokens are records             *)
(* [k |-> kind, nl |-> BOOLEAN]; ClassesOf maps a token kind to the        *)
(* terminals of the grammar it is an instance of, most specific first (the *)
(* word `to' is the terminal "to" and also an identifier; an integer       *)
(* beyond i64 is an "int"; an unterminated string is no terminal at all).  *)
(*                                                                         *)
(* The module has no variables: IsoGen / IsoSoup / IsoTrace own the state. *)
(***************************************************************************)
EXTENDS Naturals, Sequences, FiniteSets, TLC

CONSTANTS Prods,        \* [NonTerm -> Seq(Seq(Symbol))], ORDERED alternatives, epsilon alternatives last
          Start,        \* start symbol
          PredSyms,     \* predicate pseudo-terminals
          ClassesOf(_), \* token kind -> Seq of the terminals it is an instance of, most specific first
          TagOf(_, _)   \* (non-terminal, alternative) -> counter name ("" = not counted): the tree skeleton

NonTerm   == DOMAIN Prods
IsNT(s)   == s \in NonTerm
IsPred(s) == s \in PredSyms
Big       == 10000

Min(S) == CHOOSE x \in S : \A y \in S : x <= y

(***************************************************************************)
(* Tables: nullable, FIRST, length of the shortest yield - least           *)
(* fixpoints, unrolled as chains of zero-arity constant definitions        *)
(* (X0, X1 = Step(X0), ...): TLC evaluates each such definition once and   *)
(* caches it (it does not for RECURSIVE operators, and a lazily evaluated  *)
(* function value would be re-evaluated at every use - hence TLCEval).     *)
(* The chains are long enough for grammars whose dependency chains are     *)
(* shorter; TableIsPredictive checks that every fixpoint was reached.      *)
(***************************************************************************)
\* --- nullable ---
NullSeqIn(q, tab) == \A i \in DOMAIN q : IsNT(q[i]) /\ tab[q[i]]
NullStep(tab)     == [s \in NonTerm |-> \E i \in DOMAIN Prods[s] : NullSeqIn(Prods[s][i], tab)]
NullR0 == [s \in NonTerm |-> FALSE]
NullR1 == TLCEval(NullStep(NullR0))
NullR2 == TLCEval(NullStep(NullR1))
NullR3 == TLCEval(NullStep(NullR2))
NullR4 == TLCEval(NullStep(NullR3))
NullR5 == TLCEval(NullStep(NullR4))
NullR6 == TLCEval(NullStep(NullR5))
NullableTab       == NullR6
NullableSym(s)    == IsNT(s) /\ NullableTab[s]
NullableSeq(q)    == \A i \in DOMAIN q : NullableSym(q[i])

\* --- FIRST (terminals and predicate symbols that can start a yield) ---
FirstSeqIn(q, tab) ==
    UNION { IF IsNT(q[i]) THEN tab[q[i]] ELSE {q[i]} :
              i \in {j \in DOMAIN q : \A h \in 1..(j - 1) : NullableSym(q[h])} }
FirstStep(tab) == [s \in NonTerm |-> UNION {FirstSeqIn(Prods[s][i], tab) : i \in DOMAIN Prods[s]}]
FirstR0 == [s \in NonTerm |-> {}]
FirstR1 == TLCEval(FirstStep(FirstR0))
FirstR2 == TLCEval(FirstStep(FirstR1))
FirstR3 == TLCEval(FirstStep(FirstR2))
FirstR4 == TLCEval(FirstStep(FirstR3))
FirstR5 == TLCEval(FirstStep(FirstR4))
FirstR6 == TLCEval(FirstStep(FirstR5))
FirstR7 == TLCEval(FirstStep(FirstR6))
FirstR8 == TLCEval(FirstStep(FirstR7))
FirstR9 == TLCEval(FirstStep(FirstR8))
FirstR10 == TLCEval(FirstStep(FirstR9))
FirstTab       == FirstR10
FirstSeq(q)    == FirstSeqIn(q, FirstTab)
FirstP         == TLCEval([s \in NonTerm |-> [i \in DOMAIN Prods[s] |-> FirstSeq(Prods[s][i])]])
NullP          == TLCEval([s \in NonTerm |-> [i \in DOMAIN Prods[s] |-> NullableSeq(Prods[s][i])]])

\* --- length of the shortest yield (bounds the generator: only derivations that can still finish) ---
Weight(x, tab) == IF IsNT(x) THEN tab[x] ELSE IF IsPred(x) THEN 0 ELSE 1
MinSeqIn(q, tab) ==         \* sum of the weights, as a recursive function over the prefix length
    LET acc[n \in 0..Len(q)] == IF n = 0 THEN 0 ELSE acc[n - 1] + Weight(q[n], tab) IN acc[Len(q)]
MinStep(tab) == [s \in NonTerm |-> Min({Big} \cup {MinSeqIn(Prods[s][i], tab) : i \in DOMAIN Prods[s]})]
MinR0 == [s \in NonTerm |-> Big]
MinR1 == TLCEval(MinStep(MinR0))
MinR2 == TLCEval(MinStep(MinR1))
MinR3 == TLCEval(MinStep(MinR2))
MinR4 == TLCEval(MinStep(MinR3))
MinR5 == TLCEval(MinStep(MinR4))
MinR6 == TLCEval(MinStep(MinR5))
MinR7 == TLCEval(MinStep(MinR6))
MinR8 == TLCEval(MinStep(MinR7))
MinR9 == TLCEval(MinStep(MinR8))
MinR10 == TLCEval(MinStep(MinR9))
MinR11 == TLCEval(MinStep(MinR10))
MinR12 == TLCEval(MinStep(MinR11))
MinR13 == TLCEval(MinStep(MinR12))
MinR14 == TLCEval(MinStep(MinR13))
MinLenTab    == MinR14
MinLenSeq(q) == MinSeqIn(q, MinLenTab)

(***************************************************************************)
(* The table is usable by a predictive parser: alternatives of one         *)
(* non-terminal start with different terminals, only the last alternative  *)
(* may be nullable, nothing is unproductive.  (Checked by an ASSUME of the *)
(* instantiating module.)                                                  *)
(***************************************************************************)
TableIsPredictive ==
    /\ NullStep(NullableTab) = NullableTab /\ FirstStep(FirstTab) = FirstTab /\ MinStep(MinLenTab) = MinLenTab
    /\ \A s \in NonTerm :
        /\ MinLenTab[s] < Big
        /\ \A i, j \in DOMAIN Prods[s] :
              i < j => /\ (FirstP[s][i] \ PredSyms) \cap (FirstP[s][j] \ PredSyms) = {}
                       /\ ~NullP[s][i]

(***************************************************************************)
(* Generator.                                                              *)
(***************************************************************************)
Bump(cnt, tag) == IF tag = "" THEN cnt ELSE [cnt EXCEPT ![tag] = @ + 1]

RECURSIVE Norm(_)
Norm(d) ==          \* shift every terminal / predicate symbol on top of the stack
    IF d.stack = <<>> THEN d
    ELSE LET top == Head(d.stack) IN
         IF IsNT(top) THEN d
         ELSE IF IsPred(top) THEN Norm([d EXCEPT !.stack = Tail(@), !.pend = TRUE])
         ELSE Norm([d EXCEPT !.stack = Tail(@),
                             !.out   = Append(@, [k |-> top, nl |-> d.pend]),
                             !.pend  = FALSE])

\* allowed(nt, i): the profile - which productions the generator may use
Expansions(d, maxTok, allowed(_, _)) ==   \* d.stack # <<>> and Head(d.stack) is a non-terminal
    LET top == Head(d.stack) IN
    { Norm([d EXCEPT !.stack = Prods[top][i] \o Tail(@), !.cnt = Bump(@, TagOf(top, i))]) :
        i \in { j \in DOMAIN Prods[top] :
                  /\ allowed(top, j)
                  /\ Len(d.out) + MinLenSeq(Prods[top][j]) + MinLenSeq(Tail(d.stack)) <= maxTok } }

GenInit(zeroCnt) == Norm([stack |-> <<Start>>, out |-> <<>>, pend |-> FALSE, cnt |-> zeroCnt])

(***************************************************************************)
(* Recogniser.  toks must end with an "EOF" token.                         *)
(***************************************************************************)
\* Precomputed (cached) prediction tables: for each non-terminal, the first alternative a terminal can
\* start, the first alternative a predicate symbol can start, and the nullable alternative (0 = none).
Symbols   == UNION {UNION {{Prods[s][i][j] : j \in DOMAIN Prods[s][i]} : i \in DOMAIN Prods[s]} : s \in NonTerm}
Terminals == (Symbols \ NonTerm) \ PredSyms
FirstAlt(s, ok(_)) == LET c == {i \in DOMAIN Prods[s] : ok(i)} IN IF c = {} THEN 0 ELSE Min(c)
TermAlt == TLCEval([s \in NonTerm |-> [t \in Terminals |-> LET ok(i) == t \in FirstP[s][i] IN FirstAlt(s, ok)]])
PredAlt == TLCEval([s \in NonTerm |-> LET ok(i) == FirstP[s][i] \cap PredSyms # {} IN FirstAlt(s, ok)])
NullAlt == TLCEval([s \in NonTerm |-> LET ok(i) == NullP[s][i] IN FirstAlt(s, ok)])

Pick(s, la) ==      \* ordered choice: the first alternative the look-ahead allows, 0 if none
    LET cs == ClassesOf(la.k)
        hit == {j \in DOMAIN cs : cs[j] \in Terminals /\ TermAlt[s][cs[j]] # 0}
        a == IF hit = {} THEN 0 ELSE TermAlt[s][cs[Min(hit)]]
        b == IF la.nl THEN PredAlt[s] ELSE 0
        n == NullAlt[s]
        cands == {a, b, n} \ {0} IN
    IF cands = {} THEN 0 ELSE Min(cands)

RECURSIVE Run(_, _, _)
Run(stk, toks, i) ==
    IF stk = <<>> THEN toks[i].k = "EOF"
    ELSE LET top == Head(stk)
             la  == toks[i] IN
         IF IsPred(top) THEN la.nl /\ Run(Tail(stk), toks, i)
         ELSE IF ~IsNT(top) THEN /\ la.k # "EOF"
                                 /\ \E j \in DOMAIN ClassesOf(la.k) : ClassesOf(la.k)[j] = top
                                 /\ Run(Tail(stk), toks, i + 1)
         ELSE LET c == Pick(top, la) IN
              c # 0 /\ Run(Prods[top][c] \o Tail(stk), toks, i)

Accepts(toks) == Run(<<Start>>, toks, 1)
=============================================================================
