CONSTANTS
  Prods <- IsoProds
  Start <- IsoStart
  PredSyms <- IsoPredSyms
  ClassesOf <- IsoClassesOf
  TagOf <- IsoTagOf
INIT Init
NEXT Next
INVARIANT Judge
POSTCONDITION AllJudged
