CONSTANT TypeAnnotationsAtomic = TRUE
INIT Init
NEXT Next
INVARIANT Judge
POSTCONDITION AllJudged
