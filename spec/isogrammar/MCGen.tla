------------------------------- MODULE MCGen -------------------------------
(* Constants of the quick-tier model runs (engines/isogrammar.py writes the same wrappers, with the   *)
(* tier's constants, into its work directory).                                                         *)
EXTENDS IsoGen
QuickMaxTok      == [all |-> 11, decl |-> 12, sel |-> 12]
QuickSentSchemes == [all |-> {"plain", "tight", "exotic", "airy"}, decl |-> {"plain", "exotic"}, sel |-> {"plain", "tight"}]
=============================================================================
