CONSTANTS
  Prods <- IsoProds
  Start <- IsoStart
  PredSyms <- IsoPredSyms
  ClassesOf <- IsoClassesOf
  TagOf <- IsoTagOf
  Profiles = {"hdr"}
  MaxTok <- HdrMaxTok
  SentSchemes <- HdrSentSchemes
  MutMax = 0
  MutSchemes = {"plain"}
INIT Init
NEXT Next
INVARIANTS SentencesAccepted EmitSent EmitUniverse
