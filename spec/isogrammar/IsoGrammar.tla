----------------------------- MODULE IsoGrammar -----------------------------
(***************************************************************************)
(* The iso-literal language, transcribed from                              *)
(*   crates/isograph_lang_parser/src/{parse_iso_literal,peekable_lexer,    *)
(*   token_kind,description}.rs                                            *)
(* as a production table for LL1.tla, plus the lexical side: token kinds,  *)
(* white-space classes, layout schemes, and the single-token mutations.    *)
(*                                                                         *)
(* What the parser really supports (and therefore what is here):           *)
(*   field      Type.name (vars)? @dir* description? { selections }        *)
(*   pointer    Type.name (vars)? to TypeAnn @dir* description? { ... }    *)
(*   entrypoint Type.name @dir*                                            *)
(*   vars       ( $v: TypeAnn (= constValue)?  sep ... sep? )              *)
(*   TypeAnn    Name !?  |  [ TypeAnn ] !?                                 *)
(*   selection  (alias :)? name (args)? selDirective? { ... }?  sep        *)
(*   args       ( name: value sep ... sep? )                               *)
(*   value      $v | "string" | int | { key: value sep ... } | true |      *)
(*              false | null           (NO float, enum or list literal)    *)
(*   sep        a comma, or white space that contains a line feed; it is   *)
(*              REQUIRED after every selection, also before `}'            *)
(*   description  "string" or block string, after the directives           *)
(* Quirks of the parser that are part of the language it accepts:          *)
(*   * `$' followed by a string/int/object is that literal (the `$' is     *)
(*     consumed by the failed variable alternative);                       *)
(*   * on a selection at most one directive: @loadable (scalar only,       *)
(*     optional lazyLoadArtifact: bool) or @updatable (serde, untagged).   *)
(***************************************************************************)
EXTENDS LL1

E == <<>>   \* the empty alternative

IsoProds == [
  Lit        |-> << <<"field", "Hdr", "VarDefsOpt", "Dirs", "DescOpt", "SelSet">>,
                    <<"pointer", "Hdr", "VarDefsOpt", "to", "Type", "Dirs", "DescOpt", "SelSet">>,
                    <<"entrypoint", "Hdr", "Dirs">> >>,
  Hdr        |-> << <<"id", ".", "id">> >>,
  VarDefsOpt |-> << <<"(", "VarList", ")">>, E >>,
  VarList    |-> << <<"VarDef", "VarTail">>, E >>,
  VarTail    |-> << <<"Sep", "VarAfterSep">>, E >>,
  VarAfterSep|-> << <<"VarDef", "VarTail">>, E >>,
  VarDef     |-> << <<"$", "id", ":", "Type", "DefaultOpt">> >>,
  DefaultOpt |-> << <<"=", "CValue">>, E >>,
  Type       |-> << <<"id", "BangOpt">>, <<"[", "Type", "]", "BangOpt">> >>,
  BangOpt    |-> << <<"!">>, E >>,
  Dirs       |-> << <<"@", "id", "ArgsOpt", "Dirs">>, E >>,
  ArgsOpt    |-> << <<"(", "ArgList", ")">>, E >>,
  ArgList    |-> << <<"Arg", "ArgTail">>, E >>,
  ArgTail    |-> << <<"Sep", "ArgAfterSep">>, E >>,
  ArgAfterSep|-> << <<"Arg", "ArgTail">>, E >>,
  Arg        |-> << <<"id", ":", "Value">> >>,
  Value      |-> << <<"$", "AfterDollar">>, <<"str">>, <<"int">>, <<"Obj">>,
                    <<"true">>, <<"false">>, <<"null">> >>,
  AfterDollar|-> << <<"id">>, <<"str">>, <<"int">>, <<"Obj">> >>,
  Obj        |-> << <<"{", "EntryList", "}">> >>,
  EntryList  |-> << <<"Entry", "EntryTail">>, E >>,
  EntryTail  |-> << <<"Sep", "EntryAfterSep">>, E >>,
  EntryAfterSep |-> << <<"Entry", "EntryTail">>, E >>,
  Entry      |-> << <<"id", ":", "Value">> >>,
  CValue     |-> << <<"$", "CAfterDollar">>, <<"str">>, <<"int">>, <<"CObj">>,
                    <<"true">>, <<"false">>, <<"null">> >>,
  CAfterDollar |-> << <<"str">>, <<"int">>, <<"CObj">> >>,
  CObj       |-> << <<"{", "CEntryList", "}">> >>,
  CEntryList |-> << <<"CEntry", "CEntryTail">>, E >>,
  CEntryTail |-> << <<"Sep", "CEntryAfterSep">>, E >>,
  CEntryAfterSep |-> << <<"CEntry", "CEntryTail">>, E >>,
  CEntry     |-> << <<"id", ":", "CValue">> >>,
  DescOpt    |-> << <<"str">>, <<"bstr">>, E >>,
  SelSet     |-> << <<"{", "Sels", "}">> >>,
  Sels       |-> << <<"Sel", "Sels">>, E >>,
  Sel        |-> << <<"id", "SelRest">> >>,
  SelRest    |-> << <<":", "id", "SelBody">>, <<"SelBody">> >>,
  SelBody    |-> << <<"ArgsOpt", "SelTail">> >>,
  SelTail    |-> << <<"@", "SelDir">>, <<"SelSetOpt", "Sep">> >>,
  SelDir     |-> << <<"loadable", "LoadArgsOpt", "Sep">>, <<"updatable", "SelSetOpt", "Sep">> >>,
  LoadArgsOpt|-> << <<"(", "LoadArgs", ")">>, E >>,
  LoadArgs   |-> << <<"lazyLoadArtifact", ":", "Bool", "SepOpt">>, E >>,
  Bool       |-> << <<"true">>, <<"false">> >>,
  SepOpt     |-> << <<"Sep">>, E >>,
  SelSetOpt  |-> << <<"{", "Sels", "}">>, E >>,
  Sep        |-> << <<",">>, <<"NLCHK">> >>
]

IsoStart    == "Lit"
IsoPredSyms == {"NLCHK"}

(***************************************************************************)
(* Tree skeleton: which productions build a node of the declaration.       *)
(***************************************************************************)
IsoTagOf(nt, i) ==
    CASE nt = "VarDef"                 -> "nvar"
      [] nt = "Sel"                    -> "nsel"
      [] nt = "SelRest"   /\ i = 1     -> "nalias"
      [] nt = "SelSetOpt" /\ i = 1     -> "nobj"
      [] nt = "DescOpt"   /\ i \in {1, 2} -> "ndesc"
      [] nt = "Dirs"      /\ i = 1     -> "ndir"
      [] nt = "Arg"                    -> "nargs"
      [] OTHER                         -> ""
ZeroCnt == [nvar |-> 0, nsel |-> 0, nalias |-> 0, nobj |-> 0, ndesc |-> 0, ndir |-> 0, nargs |-> 0]

(***************************************************************************)
(* Lexical side.  Token kinds (the alphabet the behaviours are written in) *)
(* and the terminal each one is an instance of.  "ERR" is no terminal of   *)
(* the grammar: the recogniser is stuck on it.                             *)
(***************************************************************************)
KeywordKinds == {"field", "pointer", "entrypoint", "to", "true", "false", "null",
                 "loadable", "updatable", "lazyLoadArtifact"}
Punct        == {".", "@", "(", ")", "{", "}", "[", "]", ":", "$", "=", "!", ","}
IdentLike == KeywordKinds \cup {"id", "kwid"}     \* lexically an Identifier token
ClassesFor(k) ==
    CASE k \in KeywordKinds -> <<k, "id">>      \* a keyword is an identifier wherever a plain name is expected
      [] k \in {"id", "kwid"} -> <<"id">>       \* kwid: a plain-name position spelled with a keyword
      [] k \in Punct \cup {"int", "str", "bstr"} -> <<k>>
      [] k \in {"bigint", "negbig"} -> <<"int">>   \* integer literal beyond i64 (lexically an IntegerLiteral)
      [] k = "bstr_astral" -> <<"bstr">>         \* block string containing a non-BMP character
      [] OTHER -> <<>>                           \* EOF; ERR: float, nonascii, ustr (unterminated string), str_astral
AllKinds == KeywordKinds \cup Punct \cup
            {"id", "kwid", "int", "bigint", "negbig", "float", "str", "str_astral", "ustr",
             "bstr", "bstr_astral", "nonascii"}

ClassTab == TLCEval([k \in AllKinds \cup {"EOF", "ERR"} |-> ClassesFor(k)])
IsoClassesOf(k) == ClassTab[k]

NumLike  == {"int", "bigint", "negbig", "float"}
WordLike == IdentLike \cup NumLike \cup {"nonascii"}
StrLike  == {"str", "bstr", "ustr", "str_astral", "bstr_astral"}

\* may the two tokens be written without white space between them and still be the same two tokens?
MayAbut(a, b) ==
    /\ ~(a \in WordLike /\ b \in WordLike)
    /\ ~(a \in StrLike /\ b \in StrLike)
    /\ ~(a = "." /\ b \in NumLike)
    /\ ~(a \in NumLike /\ b = ".")
    /\ a # "ustr"

(***************************************************************************)
(* Layout: a scheme decides the white-space class written BEFORE each      *)
(* token (and after the last one) and may re-spell plain names.  Classes   *)
(* without a line feed: none sp sp2 tab bom cr ff; with: nl crlf spnl nlnl *)
(* (the concrete strings are the renderer's, engines/isogrammar.py).       *)
(***************************************************************************)
Schemes == {"plain", "tight", "canon", "exotic", "airy"}
Cycle(seq, i) == seq[(i % Len(seq)) + 1]

\* nl flags as the scheme leaves them ("airy" puts a line feed in every gap)
Flags(sch, toks) == IF sch = "airy" THEN [i \in DOMAIN toks |-> [toks[i] EXCEPT !.nl = TRUE]] ELSE toks

Respell(sch, toks, i) ==
    IF sch = "exotic" /\ toks[i].k = "id" /\ i \in {2, 4} THEN "kwid" ELSE toks[i].k

WsBefore(sch, toks, i) ==
    LET nl == toks[i].nl IN
    CASE sch = "plain"  -> IF i = 1 THEN "none" ELSE IF nl THEN "nl" ELSE "sp"
      [] sch = "tight"  -> IF nl THEN "nl"
                           ELSE IF i = 1 THEN "none"
                           ELSE IF MayAbut(toks[i - 1].k, toks[i].k) THEN "none" ELSE "sp"
      [] sch = "canon"  -> IF nl THEN "nl"      \* the customary spelling: `entrypoint Query.Foo @dir(a: 1) {'
                           ELSE IF i = 1 THEN "none"
                           ELSE IF \/ toks[i - 1].k \in {".", "@", "$", "(", "["}
                                   \/ toks[i].k \in {".", ")", "]", ":", ",", "!"}
                                   \/ (toks[i].k = "(" /\ toks[i - 1].k \in IdentLike)
                                THEN "none" ELSE "sp"
      [] sch = "exotic" -> IF nl THEN Cycle(<<"crlf", "spnl", "nlnl">>, i)
                           ELSE Cycle(<<"tab", "sp2", "cr", "bom", "ff">>, i)
      [] sch = "airy"   -> "nl"
      [] sch = "glue"   -> "none"
WsAtEnd(sch) == CASE sch = "exotic" -> "spnl" [] sch = "airy" -> "nl" [] OTHER -> "none"

\* what the renderer gets: [k, ws] per token and a final EOF entry carrying the trailing white space
Layout(sch, toks) ==
    [i \in 1..Len(toks) |-> [k |-> Respell(sch, toks, i), ws |-> WsBefore(sch, toks, i)]]
        \o << [k |-> "EOF", ws |-> WsAtEnd(sch)] >>

\* what the recogniser gets
WithEof(sch, toks) ==
    Flags(sch, toks) \o << [k |-> "EOF", nl |-> WsAtEnd(sch) \in {"nl", "crlf", "spnl", "nlnl"}] >>
Verdict(sch, toks) == IF Accepts(WithEof(sch, toks)) THEN "accept" ELSE "reject"

(***************************************************************************)
(* Single-token mutations of a token sequence.                             *)
(***************************************************************************)
ReplKinds == {"id", ".", "{", "}", "(", ")", ",", "$", ":", "@", "!", "[", "=", "int", "bigint", "negbig",
              "float", "str", "ustr", "str_astral", "bstr", "bstr_astral", "nonascii", "true", "to"}

DropAt(s, i)  == [j \in 1..(Len(s) - 1) |->
                    IF j < i THEN s[j]
                    ELSE IF j = i THEN [s[j + 1] EXCEPT !.nl = s[i].nl \/ s[j + 1].nl]   \* the gaps merge
                    ELSE s[j + 1]]
DupAt(s, i)   == [j \in 1..(Len(s) + 1) |-> IF j <= i THEN s[j] ELSE IF j = i + 1 THEN [s[i] EXCEPT !.nl = FALSE] ELSE s[j - 1]]
SwapAt(s, i)  == [j \in 1..Len(s) |-> IF j = i THEN [s[i + 1] EXCEPT !.nl = s[i].nl]
                                      ELSE IF j = i + 1 THEN [s[i] EXCEPT !.nl = s[i + 1].nl] ELSE s[j]]
ReplAt(s, i, k) == [s EXCEPT ![i].k = k]
Prefix(s, n)  == SubSeq(s, 1, n)

Mutants(s) ==
       {DropAt(s, i) : i \in 1..(Len(s) - 1)}
  \cup {DupAt(s, i)  : i \in 1..Len(s)}
  \cup {SwapAt(s, i) : i \in {j \in 1..(Len(s) - 1) : s[j].k # s[j + 1].k}}
  \cup {Prefix(s, n) : n \in 0..(Len(s) - 1)}
  \cup UNION {{ReplAt(s, i, k) : k \in ReplKinds \ {s[i].k}} : i \in 1..Len(s)}
=============================================================================
