\* model run of the quick tier (the engine writes the same file with the tier's constants into its work dir)
CONSTANTS
  Prods <- IsoProds
  Start <- IsoStart
  PredSyms <- IsoPredSyms
  ClassesOf <- IsoClassesOf
  TagOf <- IsoTagOf
  Profiles = {"all", "decl", "sel"}
  MaxTok <- QuickMaxTok
  SentSchemes <- QuickSentSchemes
  MutMax = 8
  MutSchemes = {"plain", "tight"}
INIT Init
NEXT Next
INVARIANTS SentencesAccepted EmitSent EmitMut
