------------------------------- MODULE SwcGen -------------------------------
(* C28 generator: iso-literal headers = the sentences of IsoGrammar under profile "hdr", in every layout  *)
(* scheme (canon: customary; tight: no blank where none is needed - `Query.Foo@dir{'; plain: blanks        *)
(* between all tokens - `Query . Foo'; exotic: tab / CR / BOM / form feed, names spelled like keywords;     *)
(* airy: a line feed in every gap).  The placements (SwcPath!PathConfigs), module kinds and call shapes     *)
(* are printed once; the engine pairs them with the headers.                                                *)
EXTENDS IsoGen, SwcPath
HdrMaxTok      == [hdr |-> 12]
HdrSentSchemes == [hdr |-> {"canon", "tight", "plain", "exotic", "airy"}]
EmitUniverse == (phase = "derive" /\ d.out = <<>>) =>
    PrintT(<<"UNIVERSE", ToJson([paths |-> PathConfigs, modules |-> Modules, shapes |-> Shapes])>>)
=============================================================================
