------------------------------ MODULE SwcPath ------------------------------
(***************************************************************************)
(* C28 - where the compiler writes the entrypoint artifact, and the        *)
(* relative import path from a source file to it, as arithmetic over       *)
(* sequences of path segments (all relative to the directory of            *)
(* isograph.config.json).                                                  *)
(*   artifact  =  (artifact_directory, or project_root when it is not      *)
(*               configured) / __isograph / <Type> / <field> /             *)
(*               entrypoint.ts                                             *)
(*               (isograph_config::create_config, artifact_content:        *)
(*               ENTRYPOINT_FILE_NAME)                                     *)
(*   import    =  one ".." per directory from the file's directory up to   *)
(*               the common ancestor, then down; a path that does not go   *)
(*               up starts with "."                                        *)
(***************************************************************************)
EXTENDS Naturals, Sequences

\* the universe of placements the generator uses: project_root, artifact_directory ("none" = not configured)
\* and the directory of the source file that contains the literal
PathConfigs == <<
   [proj |-> <<"src", "components">>, art |-> "none",               file |-> <<"src", "components">>],
   [proj |-> <<"src", "components">>, art |-> "none",               file |-> <<"src", "components", "home", "deep">>],
   [proj |-> <<"src", "components">>, art |-> <<"src">>,            file |-> <<"src", "components">>],
   [proj |-> <<"src">>,               art |-> <<"src", "gen">>,     file |-> <<"src", "components">>],
   [proj |-> <<"src">>,               art |-> <<"generated">>,      file |-> <<"src", "a", "b">>],
   [proj |-> <<>>,                    art |-> "none",               file |-> <<>>],
   [proj |-> <<>>,                    art |-> "none",               file |-> <<"app">>],
   [proj |-> <<"src", "components">>, art |-> <<"src", "componentsX">>, file |-> <<"src", "components">>],
   [proj |-> <<"src">>,               art |-> <<"src", "components">>, file |-> <<"src">>],
   \* directory names that begin with a dot (added after seeded/C28-dot-prefix-check-on-string: "does the relative path go up"
   \* must be decided on path components, not on the first character)
   [proj |-> <<"src">>,               art |-> <<"src", ".generated">>, file |-> <<"src">>],
   [proj |-> <<"src">>,               art |-> <<".gen">>,           file |-> <<>>],
   [proj |-> <<"src">>,               art |-> <<"..gen", "out">>,   file |-> <<>>],
   [proj |-> <<".app">>,              art |-> "none",               file |-> <<".app", "x">>],
   [proj |-> <<"src">>,               art |-> "none",               file |-> <<"src", ".hidden">>]
>>
Modules == {"esmodule", "commonjs"}
Shapes  == {"call", "nocall"}        \* iso(`...`)(fn)  /  iso(`...`)

RECURSIVE CommonLen(_, _)
CommonLen(a, b) == IF a = <<>> \/ b = <<>> \/ Head(a) # Head(b) THEN 0 ELSE 1 + CommonLen(Tail(a), Tail(b))

Ups(n) == [i \in 1..n |-> ".."]

\* artRoot: artifact_directory if configured, else project_root
ArtifactFile(artRoot, type, field) == artRoot \o <<"__isograph", type, field, "entrypoint.ts">>

RelativeImport(fileDir, target) ==
    LET c   == CommonLen(fileDir, target)
        ups == Len(fileDir) - c IN
    (IF ups = 0 THEN <<".">> ELSE Ups(ups)) \o SubSeq(target, c + 1, Len(target))

NoDots(p) == SelectSeq(p, LAMBDA s : s # ".")
\* the same file, written as a relative module specifier
SameImport(p, q) == /\ Len(p) >= 1 /\ p[1] \in {".", ".."}
                    /\ NoDots(p) = NoDots(q)
=============================================================================
