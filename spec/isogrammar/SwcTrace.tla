------------------------------ MODULE SwcTrace ------------------------------
(***************************************************************************)
(* C28 - trace specification.  One record per (iso literal, placement,     *)
(* module kind, call shape):                                               *)
(*   parser  what the REAL iso-literal parser said about the literal text: *)
(*           [outcome, kind, ptype, fname]  (the reference for "the        *)
(*           compiler accepts" and for entrypoint vs field/pointer)        *)
(*   file_dir, art_root   path segments (art_root = artifact_directory,    *)
(*           or project_root when not configured)                          *)
(*   module, shape                                                         *)
(*   obs     the module printed after the REAL visitor                     *)
(*           (swc_isograph_plugin::compile_iso_literal_visitor) ran:       *)
(*           in / out  printed top-level items before / after              *)
(*           iso_item  index in `in' of the statement holding the literal  *)
(*           added     Len(out) - Len(in)                                  *)
(*           imports   the added leading items [default_local, path segs]  *)
(*           replaced  what stands where the iso call stood:               *)
(*                     [t |-> "ident", name] | [t |-> "require", path]     *)
(*                     | "fnarg" (the function that was passed)            *)
(*                     | "identity" (x => x) | "untouched" | "other" ...   *)
(* LAYER A, for literals the compiler accepts (parser.outcome = "decl"):   *)
(*   classify        entrypoint <=> replaced by an import/require of an    *)
(*                   artifact; field/pointer <=> replaced by a function    *)
(*   import-form     entrypoint: an added `import X from P' + X under      *)
(*                   esmodule, require(P).default under commonjs           *)
(*   import-path     entrypoint: P is the relative path of                 *)
(*                   ArtifactFile(art_root, Type, field)                   *)
(*   fn-passed       field/pointer called with a function: replaced by     *)
(*                   exactly that function                                 *)
(*   rest-unchanged  every other top-level item is printed identically,    *)
(*                   nothing is added except the one import                *)
(***************************************************************************)
EXTENDS SwcPath, FiniteSets, TLC, Json, IOUtils

Rec == ndJsonDeserialize(IOEnv.TRACE)
VARIABLE l
Init == l = 1
Next == l <= Len(Rec) /\ l' = l + 1

Accepted(r)   == r.parser.outcome = "decl"
IsEntry(r)    == r.parser.kind = "entrypoint"
Expected(r)   == RelativeImport(r.file_dir, ArtifactFile(r.art_root, r.parser.ptype, r.parser.fname))

Classify(r) ==
    /\ r.obs.t = "ok"
    /\ IsEntry(r)  => r.obs.replaced.t \in {"ident", "require"}
    /\ ~IsEntry(r) => r.obs.replaced.t \in {"fnarg", "identity"}

EntryReplaced(r) == r.obs.t = "ok" /\ IsEntry(r) /\ r.obs.replaced.t \in {"ident", "require"}
\* "under both module settings": an `import' declaration under esmodule, require(...).default under commonjs
ImportForm(r) ==
    EntryReplaced(r) =>
        IF r.module = "esmodule"
        THEN /\ r.obs.replaced.t = "ident"
             /\ Len(r.obs.imports) = 1
             /\ r.obs.imports[1].default_local = r.obs.replaced.name
        ELSE r.obs.replaced.t = "require"
ImportedPath(r) == IF r.obs.replaced.t = "require" THEN r.obs.replaced.path
                   ELSE IF Len(r.obs.imports) >= 1 THEN r.obs.imports[1].path ELSE <<>>
ImportPath(r) == EntryReplaced(r) => SameImport(ImportedPath(r), Expected(r))

FnPassed(r) ==
    (r.obs.t = "ok" /\ ~IsEntry(r) /\ r.shape = "call") => r.obs.replaced.t = "fnarg"

RestUnchanged(r) ==
    r.obs.t = "ok" =>
        /\ r.obs.added = Len(r.obs.imports)
        /\ r.obs.added \in {0, 1}
        /\ r.obs.added = 1 => (IsEntry(r) /\ r.module = "esmodule")
        /\ Len(r.obs.out) = Len(r.obs.in) + r.obs.added
        /\ \A i \in DOMAIN r.obs.in : i # r.obs.iso_item => r.obs.out[i + r.obs.added] = r.obs.in[i]

Failing(r) ==
    IF ~Accepted(r) THEN {}
    ELSE      (IF Classify(r)      THEN {} ELSE {"classify"})
         \cup (IF ImportForm(r)    THEN {} ELSE {"import-form"})
         \cup (IF ImportPath(r)    THEN {} ELSE {"import-path"})
         \cup (IF FnPassed(r)      THEN {} ELSE {"fn-passed"})
         \cup (IF RestUnchanged(r) THEN {} ELSE {"rest-unchanged"})

\* layer B: literals the compiler rejects - the statement says nothing; record what the plugin does with them
Drift(r) == IF ~Accepted(r) /\ r.obs.t = "ok" /\ r.obs.replaced.t # "untouched" THEN {"rejected-literal-transformed"} ELSE {}

Judge == l <= Len(Rec) =>
    LET r == Rec[l]
        f == Failing(r)
        d == Drift(r) IN
    /\ f # {} => PrintT(<<"FAIL", ToJson([id |-> r.id, clauses |-> f, replaced |-> r.obs.replaced.t])>>)
    /\ d # {} => PrintT(<<"DRIFT", ToJson([id |-> r.id, what |-> d])>>)
AllJudged == TLCGet("stats").diameter = Len(Rec) + 1
=============================================================================
