CONSTANTS
  Prods <- IsoProds
  Start <- IsoStart
  PredSyms <- IsoPredSyms
  ClassesOf <- IsoClassesOf
  TagOf <- IsoTagOf
  MaxSoup <- QuickMaxSoup
  SoupAlphabet = {"field", "id", ".", "@", "(", ")", "{", "}", ":", "$", ",", "bigint", "nonascii", "ustr"}
  SoupSchemes = {"plain", "glue"}
  ContextIds = {"bare", "hdr", "vars", "vartype", "sel", "arg", "entry", "ptr"}
INIT Init
NEXT Next
INVARIANT EmitSoup
