INIT Init
NEXT Next
INVARIANT Judge
POSTCONDITION AllJudged
