------------------------------ MODULE ArtifactDir ------------------------------
(***************************************************************************)
(* The artifact directory and the in-memory FileSystemState of the         *)
(* isograph compiler as an explicit state machine (properties C17 C18 C19).*)
(*                                                                         *)
(*   disk     what is under the artifact directory (ArtifactDirCore)       *)
(*   fss      CompilerState.file_system_state: None or the artifact set    *)
(*            of the last call of get_file_system_operations               *)
(*   pc       "idle" | "plan" | "run" (operations being applied) | "done"  *)
(*   ops, i   the planned operation list of the running compile and the    *)
(*            index of the next operation                                  *)
(*   cur, pre, written, first                                               *)
(*            the running compile: its artifact set, the disk when it      *)
(*            started (later compiles only), the paths it wrote, "fss was None when it started"  *)
(*   tainted  a compile of this session failed part-way and the code kept  *)
(*            a FileSystemState that does not describe the disk (the named *)
(*            deviation H9; see docs/artifactdir.md)                       *)
(*   phase    0 no compile failed yet | 1 one failed, no success since |   *)
(*            2 recovered (only advanced when OneFault bounds the search)  *)
(*   hist     macro history (hidden from the fingerprint by VIEW), printed *)
(*            as a REPLAY line whenever a macro step is added / changed    *)
(*                                                                         *)
(* Actions:  Begin(A), Plan (as get_file_system_operations), Step (one     *)
(* loop iteration of apply_file_system_operations), Fail (that iteration   *)
(* returned an I/O error by itself), Fault(kind) (injected I/O error /     *)
(* process kill / torn write before operation i), Finish, Ack, Restart     *)
(* (new process), Invalid (a compile that reports a diagnostic).           *)
(***************************************************************************)
EXTENDS ArtifactDirCore, TLC, Json

CONSTANTS
    AllArtifacts,    \* set of [p, c]: every (path, content) an artifact set may contain
    MaxNested,       \* bound on nested files per artifact set
    MaxRoot,         \* bound on root files per artifact set
    InitDisks,       \* set of initial directory contents
    FaultKinds,      \* subset of {"ioerr", "kill", "torn_ioerr", "torn_kill"}
    AllowRestart,    \* BOOLEAN
    AllowInvalid,    \* BOOLEAN
    H8Mode,          \* "when_no_nested" (current code) | "asis" (pinned code) | "always": see RecreatesRoot
    H9Mode,          \* "asis" | "none_on_error" | "keep_old": what fss is after a failed apply
    OneFault,        \* BOOLEAN: explore histories  clean compiles ; ONE failed compile ; compiles and
                     \*          restarts up to the next successful compile  (the shape C19 quantifies over)
    CondOnTaint      \* BOOLEAN: condition the B => A invariants on "no deviation taken"

VARIABLES disk, fss, prevFss, tainted, phase, pc, ops, i, cur, pre, written, first, hist

vars == <<disk, fss, prevFss, tainted, phase, pc, ops, i, cur, pre, written, first, hist>>
view == <<disk, fss, prevFss, tainted, phase, pc, ops, i, cur, pre, written, first>>

(* The empty artifact set is outside the scope unless the universe is a    *)
(* projection without root files (MaxRoot = 0): the compiler always        *)
(* generates iso.ts and tsconfig.json.                                     *)
ArtifactSets ==
    {A \in SUBSET AllArtifacts :
        /\ IsArtifactSet(A)
        /\ (A # {} \/ MaxRoot = 0)
        /\ Cardinality(Nested(A)) <= MaxNested
        /\ Cardinality(Roots(A)) <= MaxRoot}

NoDisk == {}
Step0(t, A, fk, at) == [t |-> t, a |-> A, fk |-> fk, at |-> at]

(* process start: isograph_config::create_config creates the artifact     *)
(* directory (create_dir_all) before anything is compiled                  *)
StartProcess(d) == ApplyOp(d, MkDir(Root)).d

Init ==
    /\ \E d0 \in InitDisks : disk = StartProcess(d0) /\ hist = [init |-> d0, steps |-> << >>]
    /\ fss = NoFss /\ prevFss = NoFss /\ tainted = FALSE /\ phase = 0
    /\ pc = "idle" /\ ops = << >> /\ i = 0
    /\ cur = {} /\ pre = NoDisk /\ written = {} /\ first = FALSE

ResetRun ==
    /\ pc' = "idle" /\ ops' = << >> /\ i' = 0
    /\ cur' = {} /\ pre' = NoDisk /\ written' = {} /\ first' = FALSE /\ prevFss' = NoFss

Log(s) == hist' = [hist EXCEPT !.steps = Append(@, s)]

(* a compile of artifact set A begins (get_artifact_path_and_content succeeded) *)
Begin(A) ==
    /\ pc = "idle" /\ phase < 2
    /\ pc' = "plan" /\ cur' = A
    /\ Log(Step0("compile", A, "none", 0))          \* whether it ends Ok or Err is observed, not prescribed
    /\ UNCHANGED <<disk, fss, prevFss, tainted, phase, ops, i, pre, written, first>>

(* get_file_system_operations: plan against fss, then REPLACE fss at once *)
Plan ==
    /\ pc = "plan"
    /\ \E o \in PlanLin(fss, cur, H8Mode) : ops' = o
    /\ pc' = "run" /\ i' = 1 /\ written' = {} /\ first' = ~fss.some
    /\ pre' = (IF fss.some THEN disk ELSE NoDisk)      \* only needed for WriteMinimal (later compiles)
    /\ prevFss' = fss /\ fss' = SomeFss(cur)
    /\ UNCHANGED <<disk, tainted, phase, cur, hist>>

(* what the session holds after apply_file_system_operations returned Err *)
FssAfterError == CASE H9Mode = "asis" -> fss
                   [] H9Mode = "none_on_error" -> NoFss
                   [] H9Mode = "keep_old" -> prevFss
TaintAfterError == tainted \/ H9Mode # "none_on_error"
PhaseAfterFailure == IF OneFault THEN 1 ELSE 0

Step ==
    /\ pc = "run" /\ i <= Len(ops)
    /\ ApplyOp(disk, ops[i]).ok
    /\ disk' = ApplyOp(disk, ops[i]).d
    /\ i' = i + 1
    /\ written' = IF ops[i].o = "write" THEN written \cup {ops[i].p} ELSE written
    /\ UNCHANGED <<fss, prevFss, tainted, phase, pc, ops, cur, pre, first, hist>>

(* the operation itself fails (std::fs error): compile returns Err, session goes on *)
Fail ==
    /\ pc = "run" /\ i <= Len(ops)
    /\ ~ApplyOp(disk, ops[i]).ok
    /\ fss' = FssAfterError /\ tainted' = TaintAfterError /\ phase' = PhaseAfterFailure
    /\ ResetRun /\ UNCHANGED <<disk, hist>>

IsTorn(k) == k \in {"torn_ioerr", "torn_kill"}
IsKill(k) == k \in {"kill", "torn_kill"}
(* injected: I/O error or process kill before (torn: in the middle of) operation i *)
Fault(k) ==
    /\ pc = "run" /\ i <= Len(ops) /\ phase = 0
    /\ IsTorn(k) => ops[i].o = "write" /\ ApplyOp(disk, ops[i]).ok
    /\ LET d == IF IsTorn(k) THEN TornWrite(disk, ops[i]) ELSE disk
       IN disk' = IF IsKill(k) THEN StartProcess(d) ELSE d       \* a killed process is followed by a new one
    /\ IF IsKill(k) THEN fss' = NoFss /\ tainted' = FALSE
                    ELSE fss' = FssAfterError /\ tainted' = TaintAfterError
    /\ hist' = [hist EXCEPT !.steps[Len(hist.steps)] = Step0("compile", cur, k, i)]
    /\ phase' = PhaseAfterFailure
    /\ ResetRun

Finish ==
    /\ pc = "run" /\ i > Len(ops)
    /\ pc' = "done"
    /\ phase' = (IF phase = 1 THEN 2 ELSE phase)
    /\ UNCHANGED <<disk, fss, prevFss, tainted, ops, i, cur, pre, written, first, hist>>

Ack ==
    /\ pc = "done"
    /\ ResetRun /\ UNCHANGED <<disk, fss, tainted, phase, hist>>

Restart ==
    /\ AllowRestart /\ pc = "idle" /\ fss.some /\ phase < 2
    /\ fss' = NoFss /\ tainted' = FALSE /\ disk' = StartProcess(disk)
    /\ Log(Step0("restart", {}, "none", 0))
    /\ UNCHANGED <<prevFss, phase, pc, ops, i, cur, pre, written, first>>

(* a compile whose program has an error diagnostic: compile() returns before planning *)
Invalid ==
    /\ AllowInvalid /\ pc = "idle" /\ phase < 2
    /\ Log(Step0("invalid", {}, "none", 0))
    /\ UNCHANGED <<disk, fss, prevFss, tainted, phase, pc, ops, i, cur, pre, written, first>>

BeginAny == pc = "idle" /\ \E A \in ArtifactSets : Begin(A)

Next ==
    \/ BeginAny
    \/ Plan \/ Step \/ Fail \/ Finish \/ Ack \/ Restart \/ Invalid
    \/ \E k \in FaultKinds : Fault(k)

Spec == Init /\ [][Next]_vars

-----------------------------------------------------------------------------
(* B => A.  With CondOnTaint the invariants are conditioned on "no named   *)
(* deviation was taken in this session".                                   *)
Clean == CondOnTaint => ~tainted

WellFormed == WellFormedDisk(disk)
(* C18, C19: after a successful compile the directory equals the artifacts *)
PostOk == (pc = "done" /\ Clean) => DiskEquals(disk, cur)
(* C18: later compiles of a session write only what changed *)
WriteMinimal == (pc = "done" /\ ~first /\ Clean) => written \subseteq MayWrite(pre, prevFss.a, cur)
(* C17 *)
InvalidUntouched == [][Invalid => disk' = disk /\ fss' = fss]_vars
(* C18 ("holds for the first compile of a session whatever the directory   *)
(* held before"): a compile that nobody interferes with does not fail by    *)
(* itself (see A_CompileSucceeds in ArtifactDirTrace); checked when no      *)
(* named deviation is enabled                                               *)
NoSpuriousFailure == (pc = "run" /\ i <= Len(ops) /\ ~tainted) => ApplyOp(disk, ops[i]).ok

(* one REPLAY line per generated macro transition: a compile of A started  *)
(* from an idle state (its natural outcome is observed on the real code),  *)
(* the same compile interrupted before operation `at`, a restart, an       *)
(* invalid compile; each with the history that first reached the state     *)
Emit == hist' # hist => PrintT(<<"REPLAY", ToJson(hist')>>)
=============================================================================
