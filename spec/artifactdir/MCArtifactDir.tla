---------------------------- MODULE MCArtifactDir ----------------------------
(* Model-checking instances of ArtifactDir: the finite universes.          *)
EXTENDS ArtifactDir

Arts(paths, contents) == {[p |-> p, c |-> c] : p \in paths, c \in contents}

(* quick: 2 entities, 2 selectables, 2 file names, 2 contents, 1-2 root files; *)
(* the nested paths cover: two files in one selectable, two selectables in one *)
(* entity, two entities                                                        *)
NestedSmall == {<<"e1", "s1", "f1">>, <<"e1", "s1", "f2">>, <<"e1", "s2", "f1">>, <<"e2", "s1", "f1">>}
NestedFull == {<<e, s, f>> : e \in {"e1", "e2"}, s \in {"s1", "s2"}, f \in {"f1", "f2"}}

U_tiny == Arts({<<"e1", "s1", "f1">>, <<"e1", "s2", "f1">>, <<"e2", "s1", "f1">>}, {"c1"})
            \cup Arts({<<"e1", "s1", "f1">>, <<"r1">>}, {"c1", "c2"})
U_micro == Arts({<<"e1", "s2", "f1">>}, {"c1"}) \cup Arts({<<"e1", "s1", "f1">>, <<"r1">>}, {"c1", "c2"})
(* thorough C18: all four nested paths, two root files; two contents where a content change matters *)
U_tiny2 == Arts(NestedSmall \cup {<<"r2">>}, {"c1"}) \cup Arts({<<"e1", "s1", "f1">>, <<"r1">>}, {"c1", "c2"})
(* the universe that is also projected onto real projects (engines/artifactdir.py SRC): no root files, *)
(* the real compiler always generates its own                                                          *)
U_e2e == Arts({<<"e1", "s1", "f1">>}, {"c1", "c2"}) \cup Arts({<<"e1", "s2", "f1">>, <<"e2", "s1", "f1">>}, {"c1"})
U_small == Arts(NestedSmall \cup {<<"r1">>}, {"c1", "c2"}) \cup Arts({<<"r2">>}, {"c1"})
U_full == Arts(NestedFull \cup {<<"r1">>, <<"r2">>}, {"c1", "c2"})

(* Initial directory contents: every well-formed tree over a small path     *)
(* universe: absent, empty, stale files ("x"), stale nested directories, a  *)
(* file where a directory is needed (<<e1>>, <<e1,s1>>), a directory where  *)
(* a file is needed (<<r1>>, <<e1,s1,f1>>), an artifact path that already   *)
(* holds the right or a wrong content.  (The artifact directory path itself *)
(* being a regular file is outside the scope: "whatever the directory held")*)
InitPaths == {Root, <<"r1">>, <<"x">>, <<"e1">>, <<"e1", "s1">>, <<"e1", "s1", "f1">>, <<"e1", "s1", "x">>}
InitEntries == {DirEntry(p) : p \in InitPaths}
               \cup {FileEntry(p, "c0") : p \in InitPaths \ {Root}}
               \cup {FileEntry(<<"r1">>, "c1"), FileEntry(<<"e1", "s1", "f1">>, "c1")}
InitAll == {d \in SUBSET InitEntries : WellFormedDisk(d)}
InitFew == {{},
            {DirEntry(Root)},
            {DirEntry(Root), FileEntry(<<"x">>, "c0"), FileEntry(<<"r1">>, "c0")},
            {DirEntry(Root), FileEntry(<<"e1">>, "c0"), DirEntry(<<"r1">>)},
            {DirEntry(Root), DirEntry(<<"e1">>), DirEntry(<<"e1", "s1">>), FileEntry(<<"e1", "s1", "x">>, "c0"),
             FileEntry(<<"e1", "s1", "f1">>, "c1")},
            {DirEntry(Root), DirEntry(<<"e1">>), FileEntry(<<"e1", "s1">>, "c0"), DirEntry(<<"x">>)}}

NoFaults == {}
IoAndKill == {"ioerr", "kill"}
AllFaults == {"ioerr", "kill", "torn_ioerr", "torn_kill"}

(* consistency of the two formulations of planning (ArtifactDirCore): for   *)
(* every pair of small artifact sets, the enumerated linearisations are     *)
(* exactly the permutations of the operation set that Admissible accepts    *)
RECURSIVE PermsOf(_)
PermsOf(S) == IF S = {} THEN {<< >>} ELSE UNION {{<<x>> \o t : t \in PermsOf(S \ {x})} : x \in S}
PlanFormsAgree ==
    \A A \in ArtifactSets :
        /\ \A h8 \in {"asis", "always", "when_no_nested"} :
              RecreateAllLin(A, h8) = {s \in PermsOf(RecreateOpSet(A, h8)) : Admissible(s, NoFss, A, h8)}
        /\ \A B \in ArtifactSets :
              DiffLin(B, A) = {s \in PermsOf(DiffOpSet(B, A)) : Admissible(s, SomeFss(B), A, "asis")}
=============================================================================
