----------------------------- MODULE MCPlanForms -----------------------------
(* Consistency of the two formulations of planning in ArtifactDirCore: the    *)
(* enumerated linearisations (used by the model) and the predicate Admissible *)
(* (used on recorded operation lists) describe the same set of sequences, for  *)
(* every artifact set / pair of artifact sets of the universe and every H8     *)
(* variant.  Evaluated as an ASSUME; the behaviour part is empty (no initial   *)
(* state).                                                                     *)
EXTENDS MCArtifactDir

ASSUME PlanFormsAgree

NoInit == FALSE /\ Init
==============================================================================
