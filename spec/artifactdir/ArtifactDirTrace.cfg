SPECIFICATION Spec
CONSTANTS
  H8Mode = "when_no_nested"
  H9Mode = "none_on_error"
