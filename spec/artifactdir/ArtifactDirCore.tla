--------------------------- MODULE ArtifactDirCore ---------------------------
(***************************************************************************)
(* Shared vocabulary of the `artifactdir` engine (C17 C18 C19).            *)
(*                                                                         *)
(*  * paths      : sequences of names relative to the artifact directory;  *)
(*                 <<>> is the artifact directory itself                   *)
(*  * disk       : a SET of entries [p, k, c]  (k = "d" | "f", c = content *)
(*                 id, "-" for directories), closed under parents          *)
(*  * artifacts  : a SET of [p, c] with Len(p) = 1 (root file) or          *)
(*                 Len(p) = 3 (entity / selectable / file name)            *)
(*  * operations : [o, p, c], o in deldir | mkdir | write | delfile        *)
(*                                                                         *)
(* LAYER A (the properties, written from the property text):               *)
(*    DiskEquals, WrittenPaths / WriteMinimal, Untouched                    *)
(* LAYER B (transcription of the code):                                    *)
(*    ApplyOp            = one iteration of apply_file_system_operations   *)
(*                         with std::fs semantics                          *)
(*    RecreateAllLin/DiffLin = FileSystemState::recreate_all / ::diff as   *)
(*                         the SET of operation sequences they can return  *)
(*                         (HashMap iteration order is arbitrary)          *)
(*    Admissible         = the same set as a predicate on one sequence     *)
(*                         (used on recorded operation lists)              *)
(***************************************************************************)
EXTENDS Naturals, Sequences, FiniteSets

Root == << >>
Front(p) == SubSeq(p, 1, Len(p) - 1)
IsPrefix(p, q) == Len(p) <= Len(q) /\ SubSeq(q, 1, Len(p)) = p
SelfAndAncestors(p) == {SubSeq(p, 1, n) : n \in 0..Len(p)}

DirEntry(p) == [p |-> p, k |-> "d", c |-> "-"]
FileEntry(p, c) == [p |-> p, k |-> "f", c |-> c]

Has(d, p) == \E e \in d : e.p = p
IsDir(d, p) == DirEntry(p) \in d
IsFile(d, p) == \E e \in d : e.p = p /\ e.k = "f"
FilesOfDisk(d) == {[p |-> e.p, c |-> e.c] : e \in {x \in d : x.k = "f"}}
DirsOfDisk(d) == {e.p : e \in {x \in d : x.k = "d"}}

(* a well-formed tree: one entry per path, every parent is a directory *)
WellFormedDisk(d) ==
    /\ \A e1 \in d : \A e2 \in d : e1.p = e2.p => e1 = e2
    /\ \A e \in d : e.p # Root => IsDir(d, Front(e.p))

-----------------------------------------------------------------------------
(* LAYER A *)

(* C18 / C19 postcondition: "the artifact directory contains exactly the    *)
(* generated artifacts with exactly their generated contents": the files   *)
(* are exactly the artifacts, and the only directories are the ones that   *)
(* hold them (no leftover directories).  For the empty artifact set the    *)
(* artifact directory itself may be absent or empty.                       *)
AncestorDirs(A) == UNION {SelfAndAncestors(Front(a.p)) : a \in A}
DiskFilesEqual(d, A) == FilesOfDisk(d) = A
DiskDirsEqual(d, A) == DirsOfDisk(d) \ {Root} = AncestorDirs(A) \ {Root}
DiskKindsOk(d) == \A e \in d : e.k \in {"d", "f"}      \* no symlinks, sockets, ...
DiskEquals(d, A) == DiskKindsOk(d) /\ DiskFilesEqual(d, A) /\ DiskDirsEqual(d, A)

(* "later compiles write only artifacts whose content changed": a later    *)
(* compile of a session may write path p only if the generated content of  *)
(* p differs from what the previous compile of the session generated for p *)
(* (prevA), or from what the directory held at p before the compile (the   *)
(* weakest reading: either kind of change justifies the write).            *)
MayWrite(pre, prevA, A) ==
    {a.p : a \in {x \in A : FileEntry(x.p, x.c) \notin pre}} \cup {a.p : a \in A \ prevA}

-----------------------------------------------------------------------------
(* LAYER B: operations and std::fs semantics *)

DelDir(p) == [o |-> "deldir", p |-> p, c |-> "-"]
MkDir(p) == [o |-> "mkdir", p |-> p, c |-> "-"]
Write(p, c) == [o |-> "write", p |-> p, c |-> c]
DelFile(p) == [o |-> "delfile", p |-> p, c |-> "-"]

Ok(d) == [ok |-> TRUE, d |-> d]
Err(d) == [ok |-> FALSE, d |-> d]

(* One iteration of the loop in apply_file_system_operations.              *)
(*  deldir : `if path.exists() { fs::remove_dir_all(path)? }`               *)
(*           (remove_dir_all on a regular file fails with ENOTDIR)         *)
(*  mkdir  : fs::create_dir_all - creates missing parents; fails if the    *)
(*           path or an ancestor is a regular file                         *)
(*  write  : fs::write - needs the parent directory; fails on a directory  *)
(*  delfile: fs::remove_file - fails if absent or a directory              *)
(* The parent of the artifact directory always exists.                     *)
ApplyOp(d, op) ==
    CASE op.o = "deldir" ->
            IF ~Has(d, op.p) THEN Ok(d)
            ELSE IF IsDir(d, op.p) THEN Ok({e \in d : ~IsPrefix(op.p, e.p)})
            ELSE Err(d)
      [] op.o = "mkdir" ->
            IF \E q \in SelfAndAncestors(op.p) : IsFile(d, q) THEN Err(d)
            ELSE Ok(d \cup {DirEntry(q) : q \in SelfAndAncestors(op.p)})
      [] op.o = "write" ->
            IF op.p = Root \/ ~IsDir(d, Front(op.p)) \/ IsDir(d, op.p) THEN Err(d)
            ELSE Ok({e \in d : e.p # op.p} \cup {FileEntry(op.p, op.c)})
      [] op.o = "delfile" ->
            IF IsFile(d, op.p) THEN Ok({e \in d : e.p # op.p}) ELSE Err(d)

(* Apply ops[1..n] from disk d; stops at the first failing operation.      *)
(* Result: [d |-> disk, done |-> number of operations that succeeded,      *)
(*          ok |-> no operation failed]                                    *)
RECURSIVE ApplyFrom(_, _, _, _)
ApplyFrom(d, ops, i, n) ==
    IF i > n THEN [d |-> d, done |-> n, ok |-> TRUE]
    ELSE LET r == ApplyOp(d, ops[i]) IN
         IF r.ok THEN ApplyFrom(r.d, ops, i + 1, n)
         ELSE [d |-> d, done |-> i - 1, ok |-> FALSE]

(* the effect of a torn write (interruption in the middle of fs::write)    *)
Torn == "torn"
TornWrite(d, op) ==
    IF op.o = "write" /\ ApplyOp(d, op).ok
    THEN {e \in d : e.p # op.p} \cup {FileEntry(op.p, Torn)} ELSE d

-----------------------------------------------------------------------------
(* LAYER B: planning.  Artifact sets: nested files have Len(p) = 3.        *)

Nested(A) == {a \in A : Len(a.p) = 3}
Roots(A) == {a \in A : Len(a.p) = 1}
EntsOf(A) == {a.p[1] : a \in Nested(A)}
SelsOf(A, e) == {a.p[2] : a \in {x \in Nested(A) : x.p[1] = e}}
FilesIn(A, e, s) == {a \in Nested(A) : a.p[1] = e /\ a.p[2] = s}
PathsOf(A) == {a.p : a \in A}
IsArtifactSet(A) == \A a1 \in A : \A a2 \in A : a1.p = a2.p => a1 = a2

(* all concatenations of one sequence from every block, blocks in any order *)
RECURSIVE AnyConcat(_)
AnyConcat(B) ==
    IF B = {} THEN {<< >>}
    ELSE UNION {{h \o t : h \in b, t \in AnyConcat(B \ {b})} : b \in B}
SeqConcat(L1, L2) == {a \o b : a \in L1, b \in L2}
AnyOps(S) == AnyConcat({{<<o>>} : o \in S})

(* FileSystemState::recreate_all.  h8 says whether the artifact directory  *)
(* itself is re-created right after it was deleted:                        *)
(*   "when_no_nested"  the current code (fix 1cdeb2a): only when there is  *)
(*                     no nested artifact (otherwise the create_dir_all of *)
(*                     a selectable directory re-creates it as a parent)   *)
(*   "asis"            the pinned code: never (defect H8)                  *)
(*   "always"          the variant first proposed                          *)
RecreatesRoot(A, h8) == h8 = "always" \/ (h8 = "when_no_nested" /\ Nested(A) = {})
RecreateAllLin(A, h8) ==
    LET selBlock(e, s) == SeqConcat({<<MkDir(<<e, s>>)>>},
                                    AnyOps({Write(a.p, a.c) : a \in FilesIn(A, e, s)}))
        entBlock(e) == AnyConcat({selBlock(e, s) : s \in SelsOf(A, e)})
        head == IF RecreatesRoot(A, h8) THEN <<DelDir(Root), MkDir(Root)>> ELSE <<DelDir(Root)>>
    IN SeqConcat(SeqConcat({head}, AnyConcat({entBlock(e) : e \in EntsOf(A)})),
                 AnyOps({Write(a.p, a.c) : a \in Roots(A)}))

(* FileSystemState::diff(old, new) *)
Changed(old, new) == {a \in new : a \notin old}        \* new path or different content (hash)
DiffLin(old, new) ==
    LET selBlock(e, s) ==
            SeqConcat(IF s \notin SelsOf(old, e) THEN {<<MkDir(<<e, s>>)>>} ELSE {<< >>},
                      AnyOps({Write(a.p, a.c) : a \in FilesIn(Changed(old, new), e, s)}))
        entBlock(e) == AnyConcat({selBlock(e, s) : s \in SelsOf(new, e)})
        part1 == AnyConcat({entBlock(e) : e \in EntsOf(new)})
        part2 == AnyOps({Write(a.p, a.c) : a \in Roots(Changed(old, new))})
        delSel(e, s) ==
            IF s \notin SelsOf(new, e) THEN {<<DelDir(<<e, s>>)>>}
            ELSE AnyOps({DelFile(a.p) : a \in {x \in FilesIn(old, e, s) : x.p \notin PathsOf(new)}})
        delEnt(e) ==
            IF e \notin EntsOf(new) THEN {<<DelDir(<<e>>)>>}
            ELSE AnyConcat({delSel(e, s) : s \in SelsOf(old, e)})
        part3 == AnyConcat({delEnt(e) : e \in EntsOf(old)})
        part4 == AnyOps({DelFile(a.p) : a \in {x \in Roots(old) : x.p \notin PathsOf(new)}})
    IN SeqConcat(SeqConcat(part1, part2), SeqConcat(part3, part4))

(* fss = [some |-> BOOLEAN, a |-> artifact set] *)
NoFss == [some |-> FALSE, a |-> {}]
SomeFss(A) == [some |-> TRUE, a |-> A]
PlanLin(fss, A, h8) == IF fss.some THEN DiffLin(fss.a, A) ELSE RecreateAllLin(A, h8)

-----------------------------------------------------------------------------
(* The same planning relation as a predicate on ONE recorded sequence      *)
(* (linear; used by trace validation where the sets above are too large).  *)

SetMax(S) == CHOOSE x \in S : \A y \in S : y <= x
SetMin(S) == CHOOSE x \in S : \A y \in S : x <= y
Contig(P) == P = {} \/ SetMax(P) - SetMin(P) + 1 = Cardinality(P)
Range(s) == {s[n] : n \in DOMAIN s}
NoDup(s) == \A m \in DOMAIN s : \A n \in DOMAIN s : s[m] = s[n] => m = n
Pos(s, S) == {n \in DOMAIN s : s[n] \in S}            \* positions of the ops in S

RecreateOpSet(A, h8) ==
    {DelDir(Root)} \cup (IF RecreatesRoot(A, h8) THEN {MkDir(Root)} ELSE {})
    \cup {MkDir(SubSeq(a.p, 1, 2)) : a \in Nested(A)}
    \cup {Write(a.p, a.c) : a \in A}

DiffOpSet(old, new) ==
    {MkDir(SubSeq(a.p, 1, 2)) : a \in {x \in Nested(new) : x.p[2] \notin SelsOf(old, x.p[1])}}
    \cup {Write(a.p, a.c) : a \in Changed(old, new)}
    \cup {DelDir(<<e>>) : e \in EntsOf(old) \ EntsOf(new)}
    \cup {DelDir(SubSeq(a.p, 1, 2)) : a \in {x \in Nested(old) : x.p[1] \in EntsOf(new) /\ x.p[2] \notin SelsOf(new, x.p[1])}}
    \cup {DelFile(a.p) : a \in {x \in Nested(old) : x.p[1] \in EntsOf(new) /\ x.p[2] \in SelsOf(new, x.p[1]) /\ x.p \notin PathsOf(new)}}
    \cup {DelFile(a.p) : a \in {x \in Roots(old) : x.p \notin PathsOf(new)}}

(* phase of an operation inside a plan: the code emits the phases in order *)
IsDeletion(op) == op.o \in {"deldir", "delfile"}
Phase(op) == IF op.p = Root THEN 0
             ELSE IF ~IsDeletion(op) THEN (IF Len(op.p) = 1 THEN 2 ELSE 1)
             ELSE (IF op.o = "delfile" /\ Len(op.p) = 1 THEN 4 ELSE 3)
    \* note: in phase 3, deldir(<<e>>) has Len 1 and is a nested deletion; in phase 2 only writes have Len 1
(* loops over entities / selectables are contiguous; a selectable's mkdir  *)
(* comes first in its block                                                *)
Structured(ops) ==
    /\ \A m \in DOMAIN ops : \A n \in DOMAIN ops : m < n => Phase(ops[m]) <= Phase(ops[n])
    /\ \A ph \in {1, 3} :
        LET idx == {n \in DOMAIN ops : Phase(ops[n]) = ph} IN
        /\ \A e \in {ops[n].p[1] : n \in idx} : Contig({n \in idx : ops[n].p[1] = e})
        /\ \A es \in {SubSeq(ops[n].p, 1, 2) : n \in {x \in idx : Len(ops[x].p) >= 2}} :
              LET blk == {n \in idx : Len(ops[n].p) >= 2 /\ SubSeq(ops[n].p, 1, 2) = es} IN
              /\ Contig(blk)
              /\ \A n \in blk : ops[n].o = "mkdir" => n = SetMin(blk)

PlanOpSet(fss, A, h8) == IF fss.some THEN DiffOpSet(fss.a, A) ELSE RecreateOpSet(A, h8)
Admissible(ops, fss, A, h8) ==
    /\ NoDup(ops)
    /\ Range(ops) = PlanOpSet(fss, A, h8)
    /\ Structured(ops)
    /\ ~fss.some => /\ ops[1] = DelDir(Root)
                    /\ RecreatesRoot(A, h8) => ops[2] = MkDir(Root)
(* a PREFIX of an admissible sequence (the apply loop stopped early): the   *)
(* operations not reached belong to the same or a later phase              *)
AdmissiblePrefix(ops, fss, A, h8) ==
    /\ NoDup(ops)
    /\ Range(ops) \subseteq PlanOpSet(fss, A, h8)
    /\ Structured(ops)
    /\ \A op \in PlanOpSet(fss, A, h8) \ Range(ops) : \A n \in DOMAIN ops : Phase(ops[n]) <= Phase(op)
    /\ (~fss.some /\ Len(ops) >= 1) => ops[1] = DelDir(Root)
    /\ (~fss.some /\ RecreatesRoot(A, h8) /\ Len(ops) >= 2) => ops[2] = MkDir(Root)
=============================================================================
