\* default configuration for manual runs (the engine writes its own cfg per run: engines/artifactdir.py)
SPECIFICATION Spec
CONSTANTS
  AllArtifacts <- U_tiny
  MaxNested = 4
  MaxRoot = 2
  InitDisks <- InitFew
  FaultKinds <- NoFaults
  AllowRestart = TRUE
  AllowInvalid = FALSE
  H8Mode = "when_no_nested"
  H9Mode = "none_on_error"
  OneFault = FALSE
  CondOnTaint = FALSE
VIEW view
ACTION_CONSTRAINT Emit
INVARIANTS WellFormed PostOk WriteMinimal NoSpuriousFailure
PROPERTY InvalidUntouched
