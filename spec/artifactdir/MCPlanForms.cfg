INIT NoInit
NEXT Next
CONSTANTS
  AllArtifacts <- U_micro
  MaxNested = 4
  MaxRoot = 2
  InitDisks <- InitFew
  FaultKinds <- NoFaults
  AllowRestart = TRUE
  AllowInvalid = FALSE
  H8Mode = "when_no_nested"
  H9Mode = "none_on_error"
  OneFault = FALSE
  CondOnTaint = FALSE
