\* default configuration for manual runs (the engine writes its own cfg per run: engines/artifactdir.py)
SPECIFICATION Spec
CONSTANTS
  AllArtifacts <- U_e2e
  MaxNested = 4
  MaxRoot = 0
  InitDisks <- InitFew
  FaultKinds <- NoFaults
  AllowRestart = TRUE
  AllowInvalid = TRUE
  H8Mode = "when_no_nested"
  H9Mode = "none_on_error"
  OneFault = FALSE
  CondOnTaint = FALSE
VIEW view
ACTION_CONSTRAINT Emit
INVARIANTS WellFormed PostOk WriteMinimal NoSpuriousFailure
PROPERTY InvalidUntouched
