--------------------------- MODULE ArtifactDirTrace ---------------------------
(***************************************************************************)
(* Validates observations of the REAL code (ndjson written by the h_fs     *)
(* harness binaries) against                                               *)
(*   LAYER A - the properties C17 C18 C19 as predicates on one record      *)
(*             (a FAIL line is printed for every record that violates one; *)
(*             only these decide VIOLATION), and                           *)
(*   LAYER B - the transcription of the code in ArtifactDirCore (a DRIFT   *)
(*             line is printed when the code did something the             *)
(*             transcription does not predict; never a verdict).           *)
(*                                                                         *)
(* Records (one per line, in execution order; `case` groups a history):    *)
(*   init     tree                      a fresh directory was materialised *)
(*   restart                            new process: FileSystemState gone  *)
(*   compile  a, fk, at, fired, torn, first, res, ops, done, pre, post     *)
(*            a compile that produced the artifact set `a`; res = "ok" iff *)
(*            compile() returned Ok; pre/post = snapshots of the artifact  *)
(*            directory [p, k, c, ino, mt] (mtimes reset to a sentinel     *)
(*            before the step); first = the session had no                 *)
(*            FileSystemState; ops = the operations the apply loop reached *)
(*            (the whole planned list iff `complete`);                     *)
(*            fk/at/fired/torn = injected fault                             *)
(*   invalid  pre, post, diag, stage    a compile that returned error      *)
(*            diagnostics before planning (C17); stage = "validation"      *)
(*            (compile() returned Err) | "sources" (CompilerState::new /   *)
(*            update_sources failed: the process or watcher ends)          *)
(*   panic / inconsistent               kept visible as DRIFT              *)
(***************************************************************************)
EXTENDS ArtifactDirCore, TLC, Json, IOUtils

CONSTANTS H8Mode, H9Mode

Rec == ndJsonDeserialize(IOEnv.TRACE)

VARIABLES l, fssB,
          prevA,        \* layer A: what the previous compile of the session generated
          disturbed     \* layer A: a compile of this session already failed (injected fault or not)
tvars == <<l, fssB, prevA, disturbed>>

Plain(entries) == {[p |-> e.p, k |-> e.k, c |-> e.c] : e \in Range(entries)}
ArtSet(a) == {[p |-> x.p, c |-> x.c] : x \in Range(a)}

-----------------------------------------------------------------------------
(* LAYER A *)

(* paths that hold a file after the step that was created or (re)written   *)
(* during the step: no entry with the same path, inode and mtime before    *)
WrittenObs(r) ==
    {e.p : e \in {x \in Range(r.post) :
                    /\ x.k = "f"
                    /\ ~\E y \in Range(r.pre) : y.p = x.p /\ y.k = "f" /\ y.ino = x.ino /\ y.mt = x.mt}}

(* C18 + C19: after ANY successful compile the directory equals the artifacts *)
A_PostOk(r) == r.res = "ok" => DiskEquals(Plain(r.post), ArtSet(r.a))
(* C18: later compiles of the session write only artifacts whose content changed *)
A_WriteMinimal(r) == (r.res = "ok" /\ ~r.first) => WrittenObs(r) \subseteq MayWrite(Plain(r.pre), prevA, ArtSet(r.a))
(* C17: "no artifact file is created, modified or deleted": the non-directory *)
(* entries are the same before and after, with the same inode and mtime (so a *)
(* rewrite with identical bytes, or delete + re-create, shows), and every      *)
(* directory that existed is still the same directory.  (Creating an empty    *)
(* directory - create_config does that for a missing artifact directory - is  *)
(* not creating an artifact file.)                                            *)
NonDirs(s) == {e \in Range(s) : e.k # "d"}
A_Untouched(r) ==
    /\ NonDirs(r.pre) = NonDirs(r.post)
    /\ \A e \in Range(r.pre) : e.k = "d" => \E y \in Range(r.post) : y.p = e.p /\ y.k = "d" /\ y.ino = e.ino

(* C18, "this holds for the first compile of a session whatever the        *)
(* directory held before (including nothing)": C17/C18 know two outcomes   *)
(* of a compile - it reports an error diagnostic, or it is successful and  *)
(* the directory equals the artifacts.  A compile of a valid program that  *)
(* fails while writing although nobody interfered (no fault injected in    *)
(* this session so far, healthy file system, no foreign edit) delivers     *)
(* neither; the harness' file system is healthy, so such an I/O error is   *)
(* of the compiler's own making.                                           *)
IsBatch(r) == "mode" \in DOMAIN r /\ r.mode = "batch"
A_CompileSucceeds(r) == (r.res = "err" /\ ~r.fired) => (disturbed /\ ~IsBatch(r))

FailsA(r) ==
    IF r.t = "compile"
    THEN (IF A_PostOk(r) THEN {} ELSE {"PostOk"}) \cup (IF A_WriteMinimal(r) THEN {} ELSE {"WriteMinimal"})
         \cup (IF A_CompileSucceeds(r) THEN {} ELSE {"CompileSucceeds"})
    ELSE IF r.t = "invalid" THEN (IF A_Untouched(r) THEN {} ELSE {"Untouched"})
    ELSE {}

-----------------------------------------------------------------------------
(* LAYER B *)

Killed(r) == r.fired /\ r.fk \in {"kill", "torn_kill"}
Predicted(r) ==
    LET pre == IF "mode" \in DOMAIN r /\ r.mode = "batch"
               THEN ApplyOp(Plain(r.pre), MkDir(Root)).d      \* process start (create_config) is inside the step
               ELSE Plain(r.pre)
        n == IF r.fired THEN r.at - 1 ELSE Len(r.ops)
        run == ApplyFrom(pre, r.ops, 1, n)
    IN IF r.fired
       THEN [d |-> IF r.torn THEN TornWrite(run.d, r.ops[r.at]) ELSE run.d, res |-> "err", done |-> r.at - 1, sane |-> run.ok]
       ELSE [d |-> run.d, res |-> IF run.ok THEN "ok" ELSE "err", done |-> run.done, sane |-> TRUE]

(* an end-to-end "batch" step is a new process: no FileSystemState *)
Eff(r) == IF "mode" \in DOMAIN r /\ r.mode = "batch" THEN NoFss ELSE fssB
HasOps(r) == "ops" \in DOMAIN r          \* the end-to-end harness cannot see the planned list
DriftsB(r) ==
    IF r.t \in {"panic", "inconsistent"} THEN {r.t}
    ELSE IF r.t = "compile" /\ ~HasOps(r)
    THEN (IF r.first = ~Eff(r).some THEN {} ELSE {"session"})
    ELSE IF r.t = "compile"
    THEN LET pr == Predicted(r) IN
         (IF r.first = ~Eff(r).some THEN {} ELSE {"session"})
         \cup (IF (IF r.complete THEN Admissible(r.ops, Eff(r), ArtSet(r.a), H8Mode)
                               ELSE AdmissiblePrefix(r.ops, Eff(r), ArtSet(r.a), H8Mode)) THEN {} ELSE {"plan"})
         \cup (IF pr.sane /\ pr.res = r.res /\ pr.done = r.done THEN {} ELSE {"outcome"})
         \cup (IF pr.d = Plain(r.post) THEN {} ELSE {"disk"})
    ELSE {}

NextFss(r) ==
    CASE r.t \in {"init", "restart"} -> NoFss
      [] r.t = "panic" -> NoFss
      [] r.t = "invalid" -> IF r.stage = "sources" THEN NoFss ELSE Eff(r)
      [] r.t = "compile" ->
            IF Killed(r) THEN NoFss
            ELSE IF r.res = "ok" THEN SomeFss(ArtSet(r.a))
            ELSE (CASE H9Mode = "asis" -> SomeFss(ArtSet(r.a))
                    [] H9Mode = "none_on_error" -> NoFss
                    [] H9Mode = "keep_old" -> Eff(r))
      [] OTHER -> fssB

-----------------------------------------------------------------------------
(* layer A's own bookkeeping: the artifact set of the previous compile of the session *)
NextPrevA(r) ==
    CASE r.t \in {"init", "restart", "panic"} -> {}
      [] r.t = "compile" -> IF Killed(r) THEN {} ELSE ArtSet(r.a)
      [] r.t = "invalid" -> IF r.stage = "sources" \/ ("mode" \in DOMAIN r /\ r.mode = "batch") THEN {} ELSE prevA
      [] OTHER -> prevA

NextDisturbed(r) ==
    CASE r.t \in {"init", "restart", "panic"} -> FALSE
      [] r.t = "compile" -> IF Killed(r) THEN FALSE
                            ELSE IF r.res = "err" THEN TRUE
                            ELSE IF IsBatch(r) THEN FALSE ELSE disturbed
      [] r.t = "invalid" -> IF r.stage = "sources" \/ IsBatch(r) THEN FALSE ELSE disturbed
      [] OTHER -> disturbed

Init == l = 1 /\ fssB = NoFss /\ prevA = {} /\ disturbed = FALSE

Report(tag, r, names) == \A nm \in names : PrintT(<<tag, ToJson([l |-> l, what |-> nm])>>)

Next ==
    \/ /\ l <= Len(Rec)
       /\ LET r == Rec[l] IN
            /\ Report("FAIL", r, FailsA(r))
            /\ Report("DRIFT", r, DriftsB(r))
            /\ fssB' = NextFss(r)
            /\ prevA' = NextPrevA(r)
            /\ disturbed' = NextDisturbed(r)
       /\ l' = l + 1
    \/ /\ l = Len(Rec) + 1
       /\ PrintT(<<"DONE", ToJson([n |-> Len(Rec)])>>)
       /\ l' = l + 1 /\ UNCHANGED <<fssB, prevA, disturbed>>

Spec == Init /\ [][Next]_tvars
=============================================================================
