\* default configuration for manual runs (the engine writes its own cfg per run: engines/artifactdir.py)
SPECIFICATION Spec
CONSTANTS
  AllArtifacts <- U_micro
  MaxNested = 4
  MaxRoot = 2
  InitDisks <- InitFew
  FaultKinds <- AllFaults
  AllowRestart = TRUE
  AllowInvalid = FALSE
  H8Mode = "asis"
  H9Mode = "asis"
  OneFault = TRUE
  CondOnTaint = FALSE
VIEW view
INVARIANTS WellFormed PostOk WriteMinimal
PROPERTY InvalidUntouched
