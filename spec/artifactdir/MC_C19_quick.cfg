\* default configuration for manual runs (the engine writes its own cfg per run: engines/artifactdir.py)
SPECIFICATION Spec
CONSTANTS
  AllArtifacts <- U_micro
  MaxNested = 4
  MaxRoot = 2
  InitDisks <- InitFew
  FaultKinds <- AllFaults
  AllowRestart = TRUE
  AllowInvalid = FALSE
  H8Mode = "when_no_nested"
  H9Mode = "none_on_error"
  OneFault = TRUE
  CondOnTaint = FALSE
VIEW view
ACTION_CONSTRAINT Emit
INVARIANTS WellFormed PostOk WriteMinimal NoSpuriousFailure
PROPERTY InvalidUntouched
