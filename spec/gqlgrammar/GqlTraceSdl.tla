---------------------------- MODULE GqlTraceSdl ----------------------------
(* C29, type-system documents: observations of graphql_syntax::parse_schema_document (+ its printer and a *)
(* re-parse) judged against the full June 2018 type-system grammar.                                        *)
EXTENDS GqlJudge, SdlGrammar

FullG == SdlG(AllFeatures)
LL == INSTANCE LL1 WITH G <- FullG, Start <- "Document", Classes <- Classes, LeafOf <- LeafOf
A == LL!Analysis("Document")
ASSUME LL!IsLL1(A)

Probe(r) == [Where(LL!Parse(A, ProbeInput(r))) EXCEPT !.la = ProbeLa(r)]

Judge(r) ==
  LET P == LL!Parse(A, r.toks)
      want == RelayView(P.tree)
      both == P.ok /\ r.accept
      fails == (IF ~ToksOK(r) THEN {"generator"} ELSE {})
          \cup (IF r.panic THEN {"panic"} ELSE {})
          \cup (IF ~LexAgree(r) THEN {"lex"} ELSE {})
          \cup (IF P.ok # r.accept THEN {"verdict"} ELSE {})
          \cup (IF both /\ r.tree # want THEN {"tree"} ELSE {})
          \* printing a parsed schema and re-parsing it yields an equal tree
          \cup (IF both /\ (~r.rt.ok \/ r.rt.tree # r.tree) THEN {"roundtrip"} ELSE {})
  IN /\ TLCSet(4, TLCGet(4) \cup P.used)
     /\ IF both THEN Bump(1) /\ Bump(3) /\ Bump(6) ELSE IF ~P.ok /\ ~r.accept THEN Bump(2) ELSE TRUE
     /\ fails # {} => PrintT(<<"BAD", ToJson([id |-> r.id, fails |-> fails, specok |-> P.ok, stuck |-> Where(P),
                                              boundary |-> P.la \in A.follow["TsDef"],
                                              probe |-> IF P.ok /\ ~r.accept THEN Probe(r) ELSE Where(P),
                                              expected |-> IF P.ok THEN want ELSE Leaf("none", "")])>>)

VARIABLE l
Init == l = 1 /\ InitRegs
Next == l <= Len(Rec) /\ l' = l + 1
Judged == /\ l <= Len(Rec) => Judge(Rec[l])
          /\ l = Len(Rec) + 1 => PrintT(<<"STATS", ToJson(Stats @@ [prodsAll |-> LL!AllProds(A)])>>)
=============================================================================
