--------------------------- MODULE BlockStringGen ---------------------------
(***************************************************************************)
(* Exhaustive enumeration of block-string bodies over the character        *)
(* classes the BlockStringValue algorithm distinguishes:                   *)
(*   space, tab (WhiteSpace) - LF, CR (LineTerminator, CR LF pairs arise)  *)
(*   quote, backslash (delimiter / escape) - one ordinary character.       *)
(* A state is a body; every well-formed body (BlockBodyOK) of length       *)
(* <= MaxBody is emitted together with the value the specification         *)
(* assigns to it.  The engine embeds each body in documents and the value  *)
(* the real parsers produce is compared (in the GqlTrace modules) with     *)
(* BlockStringValue(body).                                                 *)
(***************************************************************************)
EXTENDS Naturals, Sequences, TLC, Json, BlockString

CONSTANT MaxBody
Alphabet == {SP, TAB, LF, CR, QUOTE, BSLASH, 97}

VARIABLE body
Init == body = <<>>
Next == Len(body) < MaxBody /\ \E c \in Alphabet : body' = Append(body, c)

Emitted == BlockBodyOK(body) => PrintT(<<"BS", ToJson([b |-> body, v |-> BlockStringValue(body)])>>)
=============================================================================
