----------------------------- MODULE SdlGrammar -----------------------------
(***************************************************************************)
(* June 2018 grammar of type-system documents (Appendix B:                 *)
(* TypeSystemDefinition, TypeSystemExtension and their parts) as an LL(1)  *)
(* grammar for module LL1, parameterised by a set of FEATURES so that a    *)
(* documented subset of it can be named explicitly (C30).                  *)
(*                                                                         *)
(*   TypeSystemDefinition : SchemaDefinition | TypeDefinition | DirectiveDefinition *)
(*   SchemaDefinition : schema Directives[Const]? { OperationTypeDefinition+ }      *)
(*   ScalarTypeDefinition : Description? scalar Name Directives[Const]?             *)
(*   ObjectTypeDefinition : Description? type Name ImplementsInterfaces? Directives[Const]? FieldsDefinition? *)
(*   ImplementsInterfaces : implements &? NamedType | ImplementsInterfaces & NamedType *)
(*   FieldsDefinition : { FieldDefinition+ }                                        *)
(*   FieldDefinition : Description? Name ArgumentsDefinition? : Type Directives[Const]? *)
(*   ArgumentsDefinition : ( InputValueDefinition+ )                                *)
(*   InputValueDefinition : Description? Name : Type DefaultValue? Directives[Const]? *)
(*   InterfaceTypeDefinition : Description? interface Name Directives[Const]? FieldsDefinition? *)
(*   UnionTypeDefinition : Description? union Name Directives[Const]? UnionMemberTypes? *)
(*   UnionMemberTypes : = |? NamedType | UnionMemberTypes | NamedType               *)
(*   EnumTypeDefinition : Description? enum Name Directives[Const]? EnumValuesDefinition? *)
(*   EnumValueDefinition : Description? EnumValue Directives[Const]?                *)
(*   InputObjectTypeDefinition : Description? input Name Directives[Const]? InputFieldsDefinition? *)
(*   DirectiveDefinition : Description? directive @ Name ArgumentsDefinition? on DirectiveLocations *)
(*   DirectiveLocations : |? DirectiveLocation | DirectiveLocations | DirectiveLocation *)
(*   and the seven extensions, each of which must extend by at least one part.      *)
(*                                                                         *)
(* June 2018 has NO description on schema definitions or extensions, NO    *)
(* `implements` on interfaces, NO `repeatable`, NO VARIABLE_DEFINITION.    *)
(***************************************************************************)
EXTENDS GqlCommonGrammar

ExtFeatures == {"ext_schema", "ext_scalar", "ext_type", "ext_interface", "ext_union", "ext_enum", "ext_input"}
AllFeatures == ExtFeatures

OpTypeBlock == << T("{"), N("OpTypeDef"), N("OpTypeDefList"), T("}") >>

(* productions of  `extend` Extension , one per enabled feature *)
ExtensionProds(F) ==
  LET all == <<
    [f |-> "ext_schema",    p |-> << T("schema"), Open("extend_schema"), N("ExtSchemaRest"), Close >>],
    [f |-> "ext_scalar",    p |-> << T("scalar"), Open("extend_scalar"), Tc("<Name>", "=s"), N("ConstDir"), N("ConstDirs"), Close >>],
    [f |-> "ext_type",      p |-> << T("type"), Open("extend_type"), Tc("<Name>", "=s"), N("ExtTypeRest"), Close >>],
    [f |-> "ext_interface", p |-> << T("interface"), Open("extend_interface"), Tc("<Name>", "=s"), N("ExtIfaceRest"), Close >>],
    [f |-> "ext_union",     p |-> << T("union"), Open("extend_union"), Tc("<Name>", "=s"), N("ExtUnionRest"), Close >>],
    [f |-> "ext_enum",      p |-> << T("enum"), Open("extend_enum"), Tc("<Name>", "=s"), N("ExtEnumRest"), Close >>],
    [f |-> "ext_input",     p |-> << T("input"), Open("extend_input"), Tc("<Name>", "=s"), N("ExtInputRest"), Close >>] >>
      sel == SelectSeq(all, LAMBDA e : e.f \in F)
  IN [j \in 1..Len(sel) |-> sel[j].p]

SdlOnlyG(F) ==
  [ Document  |-> << << Open("doc"), N("TsDef"), N("TsDefList"), Close >> >>,
    TsDefList |-> ListOf("TsDef", "TsDefList"),
    TsDef     |-> << << Open("schema"), T("schema"), N("ConstDirs"), T("{"), N("OpTypeDef"), N("OpTypeDefList"), T("}"), Close >>,
                     \* the node is opened before the optional description and tagged by the keyword
                     << Open("?"), N("OptDesc"), N("DescribedDef"), Close >> >>
                  \o (IF F \cap ExtFeatures # {} THEN << << T("extend"), N("Extension") >> >> ELSE << >>),
    Extension |-> ExtensionProds(F),
    OpTypeDef     |-> << << Open("optype"), N("OpType"), T(":"), Tc("<Name>", "named"), Close >> >>,
    OpTypeDefList |-> ListOf("OpTypeDef", "OpTypeDefList"),
    OptDesc   |-> << << Tc("STRING", "desc") >>, << Tc("BLOCKSTRING", "desc") >>, <<>> >>,   \* Description : StringValue
    DescribedDef |-> <<
        << T("scalar"), Act("tag", "scalar"), Tc("<Name>", "=s"), N("ConstDirs") >>,
        << T("type"), Act("tag", "type"), Tc("<Name>", "=s"), N("OptImplements"), N("ConstDirs"), N("OptFieldsDef") >>,
        << T("interface"), Act("tag", "interface"), Tc("<Name>", "=s"), N("ConstDirs"), N("OptFieldsDef") >>,
        << T("union"), Act("tag", "union"), Tc("<Name>", "=s"), N("ConstDirs"), N("OptUnionMembers") >>,
        << T("enum"), Act("tag", "enumdef"), Tc("<Name>", "=s"), N("ConstDirs"), N("OptEnumValues") >>,
        << T("input"), Act("tag", "input"), Tc("<Name>", "=s"), N("ConstDirs"), N("OptInputFields") >>,
        << T("directive"), Act("tag", "directive"), T("@"), Tc("<Name>", "=s"), N("OptArgDefs"), T("on"),
           Open("locations"), N("OptPipe"), Tc("<DirLoc>", "loc"), N("LocList"), Close >> >>,
    LocList   |-> << << T("|"), Tc("<DirLoc>", "loc"), N("LocList") >>, <<>> >>,
    OptPipe   |-> << << T("|") >>, <<>> >>,
    OptAmp    |-> << << T("&") >>, <<>> >>,
    Implements    |-> << << Open("implements"), T("implements"), N("OptAmp"), Tc("<Name>", "named"), N("ImplList"), Close >> >>,
    OptImplements |-> << << N("Implements") >>, <<>> >>,
    ImplList  |-> << << T("&"), Tc("<Name>", "named"), N("ImplList") >>, <<>> >>,
    FieldsDef    |-> << << Open("fields"), T("{"), N("FieldDef"), N("FieldDefList"), T("}"), Close >> >>,
    OptFieldsDef |-> << << N("FieldsDef") >>, <<>> >>,
    FieldDefList |-> ListOf("FieldDef", "FieldDefList"),
    FieldDef  |-> << << Open("fielddef"), N("OptDesc"), Tc("<Name>", "=s"), N("OptArgDefs"), T(":"), N("Type"),
                        N("ConstDirs"), Close >> >>,
    OptArgDefs |-> << << Open("argdefs"), T("("), N("InputValueDef"), N("InputValueDefList"), T(")"), Close >>, <<>> >>,
    InputValueDefList |-> ListOf("InputValueDef", "InputValueDefList"),
    InputValueDef |-> << << Open("inputvalue"), N("OptDesc"), Tc("<Name>", "=s"), T(":"), N("Type"), N("OptDefault"),
                            N("ConstDirs"), Close >> >>,
    UnionMembers    |-> << << Open("members"), T("="), N("OptPipe"), Tc("<Name>", "named"), N("UnionList"), Close >> >>,
    OptUnionMembers |-> << << N("UnionMembers") >>, <<>> >>,
    UnionList |-> << << T("|"), Tc("<Name>", "named"), N("UnionList") >>, <<>> >>,
    EnumValues    |-> << << Open("values"), T("{"), N("EnumValueDef"), N("EnumValueDefList"), T("}"), Close >> >>,
    OptEnumValues |-> << << N("EnumValues") >>, <<>> >>,
    EnumValueDefList |-> ListOf("EnumValueDef", "EnumValueDefList"),
    EnumValueDef  |-> << << Open("enumvalue"), N("OptDesc"), Tc("<EnumVal>", "=s"), N("ConstDirs"), Close >> >>,
    InputFields    |-> << << Open("inputfields"), T("{"), N("InputValueDef"), N("InputValueDefList"), T("}"), Close >> >>,
    OptInputFields |-> << << N("InputFields") >>, <<>> >>,
    \* --- extensions: "extend X Name" followed by at least one of the parts ---
    \* SchemaExtension : extend schema Directives[Const]? { OperationTypeDefinition+ } | extend schema Directives[Const]
    ExtSchemaRest |-> << << N("ConstDir"), N("ConstDirs"), N("OptOpTypeBlock") >>, OpTypeBlock >>,
    OptOpTypeBlock |-> << OpTypeBlock, <<>> >>,
    \* ObjectTypeExtension : extend type Name ImplementsInterfaces? Directives[Const]? FieldsDefinition
    \*                     | extend type Name ImplementsInterfaces? Directives[Const] | extend type Name ImplementsInterfaces
    ExtTypeRest  |-> << << N("Implements"), N("ExtTypeRest2") >>,
                        << N("ConstDir"), N("ConstDirs"), N("OptFieldsDef") >>,
                        << N("FieldsDef") >> >>,
    ExtTypeRest2 |-> << << N("ConstDir"), N("ConstDirs"), N("OptFieldsDef") >>, << N("FieldsDef") >>, <<>> >>,
    \* InterfaceTypeExtension : extend interface Name Directives[Const]? FieldsDefinition | extend interface Name Directives[Const]
    ExtIfaceRest |-> << << N("ConstDir"), N("ConstDirs"), N("OptFieldsDef") >>, << N("FieldsDef") >> >>,
    ExtUnionRest |-> << << N("ConstDir"), N("ConstDirs"), N("OptUnionMembers") >>, << N("UnionMembers") >> >>,
    ExtEnumRest  |-> << << N("ConstDir"), N("ConstDirs"), N("OptEnumValues") >>, << N("EnumValues") >> >>,
    ExtInputRest |-> << << N("ConstDir"), N("ConstDirs"), N("OptInputFields") >>, << N("InputFields") >> >>
  ]

SdlG(F) == CommonG @@ SdlOnlyG(F)
SdlStart == "Document"
=============================================================================
