------------------------------- MODULE GSym -------------------------------
(* Symbol and tree-node constructors shared by the grammar modules and LL1. *)
T(cls)       == [y |-> "T", n |-> cls, c |-> ""]      \* terminal (pattern), token not recorded in the tree
Tc(cls, cap) == [y |-> "T", n |-> cls, c |-> cap]     \* terminal whose token is captured: "=s" sets the open node's
                                                      \* name, anything else appends the leaf LeafOf(cap, token)
N(nt)        == [y |-> "N", n |-> nt, c |-> ""]       \* nonterminal
Act(a, arg)  == [y |-> "A", n |-> a, c |-> arg]       \* tree action: open/close/tag/sets/sleaf/wrap
Open(tag)    == Act("open", tag)
Close        == Act("close", "")

(* every tree node has the same four fields so that trees are comparable in TLC *)
Node(t, s, v, k) == [t |-> t, s |-> s, v |-> v, k |-> k]
Leaf(t, s)       == [t |-> t, s |-> s, v |-> <<>>, k |-> <<>>]
=============================================================================
