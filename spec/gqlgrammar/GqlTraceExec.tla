---------------------------- MODULE GqlTraceExec ----------------------------
(* C29, executable documents: observations of graphql_syntax::parse_executable judged against the     *)
(* June 2018 executable grammar (verdict, tree, lexical classes).                                      *)
EXTENDS GqlJudge, GqlExecGrammar

LL == INSTANCE LL1 WITH G <- ExecG, Start <- "Document", Classes <- Classes, LeafOf <- LeafOf
A == LL!Analysis("Document")
ASSUME LL!IsLL1(A)

(* where the machine of the grammar stands at the token the implementation complained about *)
Probe(r) == [Where(LL!Parse(A, ProbeInput(r))) EXCEPT !.la = ProbeLa(r)]

Judge(r) ==
  LET P == LL!Parse(A, r.toks)
      want == RelayView(P.tree)
      fails == (IF ~ToksOK(r) THEN {"generator"} ELSE {})
          \cup (IF r.panic THEN {"panic"} ELSE {})
          \cup (IF ~LexAgree(r) THEN {"lex"} ELSE {})
          \cup (IF P.ok # r.accept THEN {"verdict"} ELSE {})
          \cup (IF P.ok /\ r.accept /\ r.tree # want THEN {"tree"} ELSE {})
  IN /\ TLCSet(4, TLCGet(4) \cup P.used)
     /\ IF P.ok /\ r.accept THEN Bump(1) /\ Bump(3) ELSE IF ~P.ok /\ ~r.accept THEN Bump(2) ELSE TRUE
     /\ fails # {} => PrintT(<<"BAD", ToJson([id |-> r.id, fails |-> fails, specok |-> P.ok, stuck |-> Where(P),
                                              boundary |-> P.la \in A.follow["Def"],
                                              probe |-> IF P.ok /\ ~r.accept THEN Probe(r) ELSE Where(P),
                                              expected |-> IF P.ok THEN want ELSE Leaf("none", "")])>>)

VARIABLE l
Init == l = 1 /\ InitRegs
Next == l <= Len(Rec) /\ l' = l + 1
Judged == /\ l <= Len(Rec) => Judge(Rec[l])
          /\ l = Len(Rec) + 1 => PrintT(<<"STATS", ToJson(Stats @@ [prodsAll |-> LL!AllProds(A)])>>)
=============================================================================
