------------------------------- MODULE GqlLex -------------------------------
(***************************************************************************)
(* Lexical classes of the June 2018 specification and the semantic value   *)
(* of each value token, computed from the token's source characters.       *)
(* A token is [k |-> class, s |-> text (names, keywords, punctuators),     *)
(*             src |-> code points of the lexeme body (numbers: the whole  *)
(*             lexeme; strings: between the delimiters)].                  *)
(* Class of a Name token = its text when the text is one of Reserved       *)
(* (the words the grammar mentions), else "NAME".                          *)
(***************************************************************************)
EXTENDS Naturals, Integers, Sequences, GSym, BlockString

Punctuators == {"!", "$", "(", ")", "...", ":", "=", "@", "[", "]", "{", "|", "}", "&"}
ValueClasses == {"INT", "FLOAT", "STRING", "BLOCKSTRING"}
ExecLocations == {"QUERY", "MUTATION", "SUBSCRIPTION", "FIELD", "FRAGMENT_DEFINITION", "FRAGMENT_SPREAD",
                  "INLINE_FRAGMENT"}
TypeSystemLocations == {"SCHEMA", "SCALAR", "OBJECT", "FIELD_DEFINITION", "ARGUMENT_DEFINITION", "INTERFACE",
                        "UNION", "ENUM", "ENUM_VALUE", "INPUT_OBJECT", "INPUT_FIELD_DEFINITION"}
DirLocations == ExecLocations \cup TypeSystemLocations          \* June 2018: no VARIABLE_DEFINITION
Keywords == {"on", "true", "false", "null", "query", "mutation", "subscription", "fragment",
             "schema", "scalar", "type", "interface", "union", "enum", "input", "directive", "extend",
             "implements"}
(* words that mean nothing special in June 2018 (they are plain Names) but that later editions give a   *)
(* meaning to; kept as separate classes so that the generator places them deliberately                   *)
ProbeWords == {"repeatable", "VARIABLE_DEFINITION"}
Reserved == Keywords \cup DirLocations \cup ProbeWords
NameLike == Reserved \cup {"NAME"}
AllClasses == Punctuators \cup ValueClasses \cup NameLike

(* terminal patterns used by the grammars *)
FragNameClasses == NameLike \ {"on"}                         \* FragmentName : Name but not on
EnumValClasses  == NameLike \ {"true", "false", "null"}      \* EnumValue : Name but not true false null
Classes(n) == CASE n = "<Name>"     -> NameLike              \* Name
                [] n = "<FragName>" -> FragNameClasses
                [] n = "<EnumVal>"  -> EnumValClasses
                [] n = "<DirLoc>"   -> DirLocations
                [] OTHER            -> {n}

(* ---------------- numbers ---------------- *)
IsDigit(c) == c >= 48 /\ c <= 57
Digits(s) == [j \in 1..Len(s) |-> s[j] - 48]
RECURSIVE StripLeadZeros(_)
StripLeadZeros(d) == IF Len(d) > 1 /\ Head(d) = 0 THEN StripLeadZeros(Tail(d)) ELSE d
RECURSIVE TakeDigits(_, _)
TakeDigits(s, i) == IF i <= Len(s) /\ IsDigit(s[i]) THEN <<s[i]>> \o TakeDigits(s, i + 1) ELSE <<>>

(* IntValue :: IntegerPart ; value <<neg, d1, d2, ...>> (zero has neg = 0) *)
IntLexOK(src) == LET neg == src # <<>> /\ src[1] = 45
                     d == IF neg THEN Tail(src) ELSE src
                 IN d # <<>> /\ (\A j \in 1..Len(d) : IsDigit(d[j])) /\ (Len(d) > 1 => d[1] # 48)
IntV(src) == LET neg == src[1] = 45
                 d == Digits(IF neg THEN Tail(src) ELSE src)
             IN <<IF neg /\ d # <<0>> THEN 1 ELSE 0>> \o d

(* FloatValue :: IntegerPart FractionalPart | IntegerPart ExponentPart | IntegerPart FractionalPart ExponentPart *)
(* value <<neg, E, d1, d2, ...>> = (-1)^neg * (d1 d2 ...) * 10^E without leading / trailing zero digits; zero <<0,0,0>> *)
RECURSIVE ToNat(_)
ToNat(d) == IF d = <<>> THEN 0 ELSE 10 * ToNat(SubSeq(d, 1, Len(d) - 1)) + d[Len(d)]
RECURSIVE StripTrailZeros(_)                          \* returns <<digits, number of zeros removed>>
StripTrailZeros(d) == IF Len(d) > 1 /\ d[Len(d)] = 0
                      THEN LET r == StripTrailZeros(SubSeq(d, 1, Len(d) - 1)) IN <<r[1], r[2] + 1>>
                      ELSE <<d, 0>>
FloatParts(src) ==
  LET neg  == src[1] = 45
      s1   == IF neg THEN Tail(src) ELSE src
      ip   == TakeDigits(s1, 1)
      r1   == SubSeq(s1, Len(ip) + 1, Len(s1))
      hasF == r1 # <<>> /\ r1[1] = 46
      fp   == IF hasF THEN TakeDigits(r1, 2) ELSE <<>>
      r2   == IF hasF THEN SubSeq(r1, Len(fp) + 2, Len(r1)) ELSE r1
      hasE == r2 # <<>> /\ (r2[1] = 101 \/ r2[1] = 69)
      esgn == IF hasE /\ Len(r2) >= 2 /\ r2[2] = 45 THEN -1 ELSE 1
      eoff == IF hasE /\ Len(r2) >= 2 /\ (r2[2] = 45 \/ r2[2] = 43) THEN 3 ELSE 2
      ed   == IF hasE THEN TakeDigits(r2, eoff) ELSE <<>>
      rest == IF hasE THEN SubSeq(r2, eoff + Len(ed), Len(r2)) ELSE r2
  IN [neg |-> neg, ip |-> ip, hasF |-> hasF, fp |-> fp, hasE |-> hasE, esgn |-> esgn, ed |-> ed, rest |-> rest]
FloatLexOK(src) ==
  src # <<>> /\
  LET p == FloatParts(src)
  IN /\ p.ip # <<>> /\ (Len(p.ip) > 1 => p.ip[1] # 48)
     /\ (p.hasF \/ p.hasE) /\ (p.hasF => p.fp # <<>>) /\ (p.hasE => p.ed # <<>>) /\ p.rest = <<>>
FloatV(src) ==
  LET p  == FloatParts(src)
      d0 == StripLeadZeros(Digits(p.ip \o p.fp))
      st == StripTrailZeros(d0)
      e  == (IF p.hasE THEN p.esgn * ToNat(Digits(p.ed)) ELSE 0) - Len(p.fp) + st[2]
  IN IF st[1] = <<0>> THEN <<0, 0, 0>> ELSE <<IF p.neg THEN 1 ELSE 0, e>> \o st[1]

(* ---------------- quoted strings ---------------- *)
(* StringCharacter :: SourceCharacter but not " or \ or LineTerminator | \u EscapedUnicode | \ EscapedCharacter *)
IsHex(c) == IsDigit(c) \/ (c >= 65 /\ c <= 70) \/ (c >= 97 /\ c <= 102)
HexVal(c) == IF IsDigit(c) THEN c - 48 ELSE IF c <= 70 THEN c - 55 ELSE c - 87
IsSourceChar(c) == c = 9 \/ c = 10 \/ c = 13 \/ (c >= 32 /\ c <= 65535)      \* SourceCharacter :: /[\u0009\u000A\u000D\u0020-\uFFFF]/
EscChars == {34, 92, 47, 98, 102, 110, 114, 116}                           \* " \ / b f n r t
EscValue(c) == CASE c = 98 -> 8 [] c = 102 -> 12 [] c = 110 -> 10 [] c = 114 -> 13 [] c = 116 -> 9 [] OTHER -> c
RECURSIVE StrOK(_, _)
StrOK(s, i) ==
  IF i > Len(s) THEN TRUE
  ELSE IF s[i] = 92
       THEN IF i < Len(s) /\ s[i + 1] \in EscChars THEN StrOK(s, i + 2)
            ELSE i + 5 <= Len(s) /\ s[i + 1] = 117 /\ (\A j \in (i + 2)..(i + 5) : IsHex(s[j])) /\ StrOK(s, i + 6)
       ELSE s[i] # 34 /\ s[i] # 10 /\ s[i] # 13 /\ IsSourceChar(s[i]) /\ StrOK(s, i + 1)
StringBodyOK(src) == StrOK(src, 1)
RECURSIVE StrV(_, _)
StrV(s, i) ==
  IF i > Len(s) THEN <<>>
  ELSE IF s[i] = 92
       THEN IF s[i + 1] = 117
            THEN <<4096 * HexVal(s[i + 2]) + 256 * HexVal(s[i + 3]) + 16 * HexVal(s[i + 4]) + HexVal(s[i + 5])>>
                 \o StrV(s, i + 6)
            ELSE <<EscValue(s[i + 1])>> \o StrV(s, i + 2)
       ELSE <<s[i]>> \o StrV(s, i + 1)
StringValue(src) == StrV(src, 1)

(* ---------------- token well-formedness and captured leaves ---------------- *)
TokOK(tok) == CASE tok.k = "INT"         -> IntLexOK(tok.src)
                [] tok.k = "FLOAT"       -> FloatLexOK(tok.src)
                [] tok.k = "STRING"      -> StringBodyOK(tok.src)
                [] tok.k = "BLOCKSTRING" -> BlockBodyOK(tok.src) /\ \A j \in 1..Len(tok.src) : IsSourceChar(tok.src[j])
                [] tok.k = "NAME"        -> tok.s \notin Reserved
                [] OTHER                 -> tok.s = tok.k

TextOf(tok) == IF tok.k = "BLOCKSTRING" THEN BlockStringValue(tok.src) ELSE StringValue(tok.src)

LeafOf(cap, tok) ==
  CASE cap = "val"  -> (CASE tok.k = "INT"   -> Node("int", "", IntV(tok.src), <<>>)
                          [] tok.k = "FLOAT" -> Node("float", "", FloatV(tok.src), <<>>)
                          [] OTHER           -> Node("string", "", TextOf(tok), <<>>))
    [] cap = "desc" -> Node("desc", "", TextOf(tok), <<>>)
    [] cap = "null" -> Leaf("null", "")
    [] OTHER        -> Leaf(cap, tok.s)
=============================================================================
