CONSTANT MaxBody = 3
INIT Init
NEXT Next
INVARIANT Emitted
