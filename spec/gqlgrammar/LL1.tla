------------------------------- MODULE LL1 -------------------------------
(***************************************************************************)
(* Generic table-driven LL(1) push-down machine over an explicit grammar.  *)
(*                                                                         *)
(* A grammar is a function  G : NonTerminalName -> Seq(Production), a      *)
(* production is a sequence of symbols, a symbol is a record               *)
(*    [y |-> "T", n |-> terminal pattern, c |-> capture]                   *)
(*    [y |-> "N", n |-> nonterminal name, c |-> ""]                        *)
(*    [y |-> "A", n |-> action,           c |-> argument]    (tree action) *)
(* A terminal pattern n denotes the set of token classes Classes(n)        *)
(* (e.g. "<Name>" = every name-like class, "{" = {"{"}).                   *)
(*                                                                         *)
(* One grammar, two uses (DESIGN A.6):                                     *)
(*   * generator: module GqlGen expands the leftmost symbol by ANY         *)
(*     production (its behaviours are the sentences);                      *)
(*   * recogniser: Parse(A, input) below runs the deterministic predictive *)
(*     parser with the table computed here from FIRST/FOLLOW, and builds   *)
(*     the abstract tree with the action symbols.                          *)
(* Analysis is a constant; the importing module must bind it to a          *)
(* top-level zero-arity definition so that TLC evaluates it once.          *)
(***************************************************************************)
EXTENDS Naturals, Sequences, FiniteSets, TLC, GSym

CONSTANTS G,            \* the grammar
          Start,        \* start nonterminal
          Classes(_),   \* terminal pattern -> set of token classes
          LeafOf(_, _)  \* (capture, token) -> tree node appended for a captured token

EOF == "$"
NT == DOMAIN G

Suffix(s, j) == SubSeq(s, j, Len(s))

(* ---------------- nullable / FIRST / FOLLOW as least fixpoints ---------------- *)
NullSym(nl, x) == x.y = "A" \/ (x.y = "N" /\ x.n \in nl)
NullSeq(nl, s) == \A j \in 1..Len(s) : NullSym(nl, s[j])

RECURSIVE NullFix(_)
NullFix(S) ==
  LET S2 == S \cup {A \in NT : \E i \in 1..Len(G[A]) : NullSeq(S, G[A][i])}
  IN IF S2 = S THEN S ELSE NullFix(S2)

FirstSym(F, x) == IF x.y = "T" THEN Classes(x.n) ELSE IF x.y = "N" THEN F[x.n] ELSE {}
FirstSeq(nl, F, s) ==
  UNION {FirstSym(F, s[j]) : j \in {j \in 1..Len(s) : \A i \in 1..(j-1) : NullSym(nl, s[i])}}

RECURSIVE FirstFix(_, _)
FirstFix(nl, F) ==
  LET F2 == TLCEval([A \in NT |-> F[A] \cup UNION {FirstSeq(nl, F, G[A][i]) : i \in 1..Len(G[A])}])
  IN IF F2 = F THEN F ELSE FirstFix(nl, F2)

(* occurrences of nonterminals on right-hand sides: <<A, i, j>> with G[A][i][j] a nonterminal *)
Occ(nts) == {o \in UNION {UNION {{<<A, i, j>> : j \in 1..Len(G[A][i])} : i \in 1..Len(G[A])} : A \in nts} :
          G[o[1]][o[2]][o[3]].y = "N"}

OccOf(nts) == LET occ == TLCEval(Occ(nts)) IN TLCEval([B \in nts |-> {o \in occ : G[o[1]][o[2]][o[3]].n = B}])

RECURSIVE FollowFix(_, _, _, _)
FollowFix(occOf, nl, F, W) ==
  LET W2 == TLCEval([B \in NT |-> W[B] \cup UNION {
                LET rest == Suffix(G[o[1]][o[2]], o[3] + 1)
                IN FirstSeq(nl, F, rest) \cup (IF NullSeq(nl, rest) THEN W[o[1]] ELSE {})
                : o \in occOf[B]}])
  IN IF W2 = W THEN W ELSE FollowFix(occOf, nl, F, W2)

(* minimal number of terminals derivable from a nonterminal (for the generator's pruning) and a   *)
(* production that achieves it                                                                    *)
Big == 1000
SymMin(M, x) == IF x.y = "T" THEN 1 ELSE IF x.y = "N" THEN M[x.n] ELSE 0
RECURSIVE SeqMin(_, _)
SeqMin(M, s) == IF s = <<>> THEN 0 ELSE LET r == SymMin(M, Head(s)) + SeqMin(M, Tail(s)) IN IF r > Big THEN Big ELSE r
SetMin(S) == CHOOSE x \in S : \A y \in S : x <= y
RECURSIVE MinFix(_)
MinFix(M) ==
  LET M2 == TLCEval([A \in NT |-> SetMin({M[A]} \cup {SeqMin(M, G[A][i]) : i \in 1..Len(G[A])})])
  IN IF M2 = M THEN M ELSE MinFix(M2)

RECURSIVE ReachFix(_)
ReachFix(S) ==
  LET S2 == S \cup UNION {UNION {{G[A][i][j].n : j \in {j \in 1..Len(G[A][i]) : G[A][i][j].y = "N"}}
                                  : i \in 1..Len(G[A])} : A \in S}
  IN IF S2 = S THEN S ELSE ReachFix(S2)

(* (operators of this module take a parameter where a zero-arity definition would make TLC evaluate it   *)
(* eagerly, and repeatedly, for every instance)                                                          *)
Analysis(start) ==
  LET nl  == TLCEval(NullFix({}))
      fi  == TLCEval(FirstFix(nl, [A \in NT |-> {}]))
      fo  == TLCEval(FollowFix(OccOf(NT), nl, fi, [A \in NT |-> IF A = start THEN {EOF} ELSE {}]))
      mn  == TLCEval(MinFix([A \in NT |-> Big]))
      terms == TLCEval(UNION {UNION {UNION {IF G[A][i][j].y = "T" THEN Classes(G[A][i][j].n) ELSE {}
                                    : j \in 1..Len(G[A][i])} : i \in 1..Len(G[A])} : A \in NT} \cup {EOF})
      \* sel[A][i] = lookaheads that predict production i of A
      sel == TLCEval([A \in NT |-> [i \in 1..Len(G[A]) |->
                 FirstSeq(nl, fi, G[A][i]) \cup (IF NullSeq(nl, G[A][i]) THEN fo[A] ELSE {})]])
  IN [reach |-> TLCEval(ReachFix({start})), nullable |-> nl, first |-> fi, follow |-> fo, terms |-> terms,
      minlen |-> mn,
      minprod |-> TLCEval([A \in NT |-> IF G[A] = <<>> THEN 0
                                        ELSE CHOOSE i \in 1..Len(G[A]) : SeqMin(mn, G[A][i]) = mn[A]]),
      \* table[A][t] = the SET of productions predicted for nonterminal A on lookahead t
      table |-> TLCEval([A \in NT |-> [t \in terms |-> {i \in 1..Len(G[A]) : t \in sel[A][i]}]])]

(* the grammar is LL(1) iff no table cell predicts two productions; every nonterminal is productive *)
IsLL1(A) == /\ A.reach \subseteq NT
            /\ \A X \in A.reach : \A t \in A.terms : Cardinality(A.table[X][t]) <= 1
            /\ \A X \in A.reach : A.minlen[X] < Big
            /\ \A X \in A.reach : \A i \in 1..Len(G[X]) : \A j \in 1..Len(G[X][i]) :
                  G[X][i][j].y = "N" => G[X][i][j].n \in NT

(* ---------------- tree under construction: a stack of open nodes ---------------- *)
Top(ts) == ts[Len(ts)]
SetTop(ts, nd) == [ts EXCEPT ![Len(ts)] = nd]
AddKid(ts, kid) == SetTop(ts, [Top(ts) EXCEPT !.k = Append(@, kid)])

DoAction(x, ts) ==
  CASE x.n = "open"  -> Append(ts, Leaf(x.c, ""))
    [] x.n = "close" -> AddKid(SubSeq(ts, 1, Len(ts) - 1), Top(ts))
    [] x.n = "tag"   -> SetTop(ts, [Top(ts) EXCEPT !.t = x.c])                    \* late tag (after a description)
    [] x.n = "sets"  -> SetTop(ts, [Top(ts) EXCEPT !.s = x.c])
    [] x.n = "sleaf" -> SetTop(ts, [Top(ts) EXCEPT !.s = "", !.k = Append(@, Leaf(x.c, Top(ts).s))])  \* alias
    [] x.n = "wrap"  -> LET nd == Top(ts) kk == nd.k IN                          \* T! : wrap the last kid
                        SetTop(ts, [nd EXCEPT !.k = Append(SubSeq(kk, 1, Len(kk) - 1),
                                                           Node(x.c, "", <<>>, <<kk[Len(kk)]>>))])

Capture(x, tok, ts) ==
  IF x.c = "" THEN ts
  ELSE IF x.c = "=s" THEN SetTop(ts, [Top(ts) EXCEPT !.s = tok.s])
  ELSE AddKid(ts, LeafOf(x.c, tok))

(* ---------------- the deterministic recogniser ---------------- *)
(* input: sequence of tokens [k |-> class, s |-> text, src |-> code points].                     *)
(* Result: ok, the tree (root = first kid of the sentinel), and where / on what it got stuck.    *)
Stuck(i, want, la, ts, used) ==
  [ok |-> FALSE, pos |-> i, want |-> want, la |-> la, tree |-> Leaf("none", ""), used |-> used,
   ctx |-> [j \in 1..Len(ts) |-> ts[j].t]]

RECURSIVE Run(_, _, _, _, _, _)
Run(A, stack, input, i, ts, used) ==
  LET la == IF i > Len(input) THEN EOF ELSE input[i].k IN
  IF stack = <<>>
  THEN IF i > Len(input)
       THEN [ok |-> TRUE, pos |-> i, want |-> EOF, la |-> la, tree |-> ts[1].k[1], used |-> used, ctx |-> <<>>]
       ELSE Stuck(i, EOF, la, ts, used)
  ELSE LET x == Head(stack) rest == Tail(stack) IN
       CASE x.y = "A" -> Run(A, rest, input, i, DoAction(x, ts), used)
         [] x.y = "T" -> IF la \in Classes(x.n)
                         THEN Run(A, rest, input, i + 1, Capture(x, input[i], ts), used)
                         ELSE Stuck(i, x.n, la, ts, used)
         [] x.y = "N" -> IF la \notin A.terms \/ A.table[x.n][la] = {}
                         THEN Stuck(i, x.n, la, ts, used)
                         ELSE LET p == CHOOSE p \in A.table[x.n][la] : TRUE
                              IN Run(A, G[x.n][p] \o rest, input, i, ts, used \cup {<<x.n, p>>})

Parse(A, input) == Run(A, <<N(Start)>>, input, 1, <<Leaf("root", "")>>, {})

AllProds(A) == UNION {{<<X, i>> : i \in 1..Len(G[X])} : X \in A.reach}

(* ---------------- single-token mutations (DESIGN A.6 Mutate) ---------------- *)
Drop(s, i)       == SubSeq(s, 1, i - 1) \o SubSeq(s, i + 1, Len(s))
Dup(s, i)        == SubSeq(s, 1, i) \o SubSeq(s, i, Len(s))
Replace(s, i, c) == [s EXCEPT ![i] = c]
Insert(s, i, c)  == SubSeq(s, 1, i - 1) \o <<c>> \o SubSeq(s, i, Len(s))      \* i in 1..Len(s)+1
Swap(s, i)       == [s EXCEPT ![i] = s[i + 1], ![i + 1] = s[i]]               \* i in 1..Len(s)-1
Trunc(s, i)      == SubSeq(s, 1, i)                                           \* i in 0..Len(s)-1
=============================================================================
