---------------------------- MODULE GqlTraceIso ----------------------------
(***************************************************************************)
(* C30: observations of graphql_schema_parser::parse_schema ("iso_schema") *)
(* and ::parse_schema_extensions ("iso_ext").                              *)
(*                                                                         *)
(* THE SUPPORTED SUBSET (made explicit here; read off the parser's own     *)
(* statements: the commented-out variants of GraphQLTypeSystemExtension,   *)
(* the diagnostics "Expected extend, scalar, type, ..." and the two entry  *)
(* points):                                                                *)
(*   * every TypeSystemDefinition of June 2018 (schema, scalar, type,      *)
(*     interface, union, enum, input, directive) with all of its parts;    *)
(*   * of the seven TypeSystemExtensions only `extend type`, and only in   *)
(*     an extension document (parse_schema_extensions); a schema document  *)
(*     (parse_schema) has no extensions at all.                            *)
(* Valid June 2018 SDL outside the subset (extend schema / scalar /        *)
(* interface / union / enum / input anywhere; extend type in a schema      *)
(* document): NO verdict is demanded.  A root operation type given twice   *)
(* is grammatical but not valid SDL (validation): no verdict either.       *)
(* Everything that is not June 2018 SDL at all must be rejected.           *)
(***************************************************************************)
EXTENDS GqlJudge, SdlGrammar

IsoFeatures == {"ext_type"}
FullG == SdlG(AllFeatures)
SubG  == SdlG(IsoFeatures)
FullLL == INSTANCE LL1 WITH G <- FullG, Start <- "Document", Classes <- Classes, LeafOf <- LeafOf
SubLL  == INSTANCE LL1 WITH G <- SubG,  Start <- "Document", Classes <- Classes, LeafOf <- LeafOf
AFull == FullLL!Analysis("Document")
ASub  == SubLL!Analysis("Document")
ASSUME FullLL!IsLL1(AFull) /\ SubLL!IsLL1(ASub)

HasExtension(doc) == \E d \in 1..Len(doc.k) : doc.k[d].t = "extend_type"
InSubset(r, S) == S.ok /\ (r.api = "iso_schema" => ~HasExtension(S.tree))

Probe(r) == [Where(SubLL!Parse(ASub, ProbeInput(r))) EXCEPT !.la = ProbeLa(r)]

Judge(r) ==
  LET S == SubLL!Parse(ASub, r.toks)
      F == FullLL!Parse(AFull, r.toks)
      inSub == InSubset(r, S)
      dup == F.ok /\ DupRootOp(F.tree)
      demand == IF dup THEN "none" ELSE IF inSub THEN "accept" ELSE IF ~F.ok THEN "reject" ELSE "none"
      want == IsoView(S.tree)
      fails == (IF ~ToksOK(r) THEN {"generator"} ELSE {})
          \cup (IF r.panic THEN {"panic"} ELSE {})
          \cup (IF ~LexAgree(r) THEN {"lex"} ELSE {})
          \cup (IF (demand = "accept" /\ ~r.accept) \/ (demand = "reject" /\ r.accept) THEN {"verdict"} ELSE {})
          \cup (IF demand = "accept" /\ r.accept /\ r.tree # want THEN {"tree"} ELSE {})
  IN /\ TLCSet(4, TLCGet(4) \cup S.used)
     /\ IF demand = "none" THEN Bump(5)
        ELSE IF demand = "accept" /\ r.accept THEN Bump(1) /\ Bump(3)
        ELSE IF demand = "reject" /\ ~r.accept THEN Bump(2) ELSE TRUE
     /\ fails # {} => PrintT(<<"BAD", ToJson([id |-> r.id, fails |-> fails, specok |-> inSub, demand |-> demand,
                                              stuck |-> Where(F),
                                              boundary |-> F.la \in AFull.follow["TsDef"],
                                              probe |-> IF inSub /\ ~r.accept THEN Probe(r) ELSE Where(F),
                                              expected |-> IF inSub THEN want ELSE Leaf("none", "")])>>)

VARIABLE l
Init == l = 1 /\ InitRegs
Next == l <= Len(Rec) /\ l' = l + 1
Judged == /\ l <= Len(Rec) => Judge(Rec[l])
          /\ l = Len(Rec) + 1 => PrintT(<<"STATS", ToJson(Stats @@ [prodsAll |-> SubLL!AllProds(ASub)])>>)
=============================================================================
