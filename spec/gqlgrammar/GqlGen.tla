------------------------------- MODULE GqlGen -------------------------------
(***************************************************************************)
(* Generator direction.  The grammar as a transition system: a state is a  *)
(* sentential form (tokens emitted so far + the stack of symbols still to  *)
(* derive); a step expands the leftmost symbol by ANY production of the    *)
(* June 2018 grammar.  Complete derivations are documents (as sequences of *)
(* token classes); one further step applies ONE single-token mutation.     *)
(*   * model checking (Mode = "mc"): every document with at most MaxLen    *)
(*     tokens, every single-token mutant of those with <= MaxMutLen tokens *)
(*     (longer ones, up to MaxProbeLen / MaxProbeInsLen tokens: a name     *)
(*     replaced by / an insertion of each probe word);                     *)
(*   * simulation (Mode = "sim"): random derivations bounded by Fuel, one  *)
(*     random mutant each.                                                 *)
(* Emission: PrintT lines DOC / MUT, consumed by engines/gqlgrammar.py.    *)
(***************************************************************************)
EXTENDS Naturals, Sequences, FiniteSets, TLC, Json, GqlLex, GqlExecGrammar, SdlGrammar

CONSTANTS Which,       \* "exec" | "sdl"
          Mode,        \* "mc" | "sim"
          MaxLen,      \* mc: longest document (tokens)
          MaxMutLen,   \* mc: longest document whose mutants are all generated (alphabet MutAlphabet)
          MaxProbeLen, \* mc: longest document whose names are each replaced by every probe word
          MaxProbeInsLen, \* mc: longest document that gets a probe word inserted at every position
          Fuel         \* sim: number of non-minimal expansions allowed per derivation

GG == IF Which = "exec" THEN ExecG ELSE SdlG(AllFeatures)
LL == INSTANCE LL1 WITH G <- GG, Start <- "Document", Classes <- Classes, LeafOf <- LeafOf
GA == LL!Analysis("Document")                     \* top-level constant: evaluated once
ASSUME LL!IsLL1(GA)

(* action symbols do not matter to the generator *)
Strip(p) == SelectSeq(p, LAMBDA x : x.y # "A")
RECURSIVE MinLenSeq(_)
MinLenSeq(st) == IF st = <<>> THEN 0
                 ELSE (IF Head(st).y = "T" THEN 1 ELSE GA.minlen[Head(st).n]) + MinLenSeq(Tail(st))

(* classes a terminal pattern may be concretised to.  mc: the plain representative only (keyword-named   *)
(* names arrive through Replace mutants); sim: plain, or any class of the pattern.                        *)
Plain(n) == IF "NAME" \in Classes(n) THEN {"NAME"} ELSE IF n = "<DirLoc>" THEN {"FIELD", "OBJECT"} ELSE Classes(n)
(* classes used by Replace / Insert mutants: mc a chosen set (one of each kind of token and the words the  *)
(* grammar treats specially somewhere), sim every class                                                    *)
MutAlphabet == IF Mode = "mc"
               THEN {"NAME", "on", "true", "implements", "repeatable", "VARIABLE_DEFINITION", "extend", "schema", "interface",
                     "STRING", "INT", "{", "}", "(", ":", "@", "=", "&", "|", "!", "...", "$"}
               ELSE AllClasses
(* words with a special meaning somewhere in the grammar (or in later editions of the specification):     *)
(* tried in somewhat longer documents as well -- as another spelling of a name, or inserted                *)
ProbeReplace == IF Which = "exec" THEN {"on", "true", "null"}
                ELSE {"true", "false", "null", "implements", "repeatable", "VARIABLE_DEFINITION"}
ProbeInsert  == IF Which = "exec" THEN {} ELSE {"repeatable", "STRING", "implements"}
Small(n) == Mode = "sim" \/ n <= MaxMutLen
MutKinds == {"drop", "dup", "swap", "trunc", "replace", "insert"}

VARIABLES stack, out, phase, fuel, wide, mk, mi, coin
vars == <<stack, out, phase, fuel, wide, mk, mi, coin>>

Init == /\ stack = <<[y |-> "N", n |-> "Document", c |-> ""]>>
        /\ out = <<>> /\ phase = "gen" /\ fuel = Fuel /\ wide = FALSE /\ mk = "none" /\ mi = 0 /\ coin = 0

Fits(st, o) == Mode = "sim" \/ Len(o) + MinLenSeq(st) <= MaxLen

Expand ==   \* leftmost symbol is a nonterminal: choose a production (only a minimal one once the fuel is spent)
  /\ phase = "gen" /\ stack # <<>> /\ Head(stack).y = "N"
  /\ \E i \in 1..Len(GG[Head(stack).n]) :
        /\ (Mode = "sim" /\ fuel = 0) => i = GA.minprod[Head(stack).n]
        /\ stack' = Strip(GG[Head(stack).n][i]) \o Tail(stack)
        /\ fuel' = IF Mode = "sim" /\ fuel > 0 /\ i # GA.minprod[Head(stack).n] THEN fuel - 1 ELSE fuel
        /\ Fits(stack', out)
  /\ UNCHANGED <<out, phase, wide, mk, mi, coin>>

(* sim: TLC picks a successor uniformly; `coin` makes the plain representative WideOdds times as likely as *)
(* the detour through EmitWide (a name that is a keyword elsewhere, any directive location)                *)
WideOdds == 5
Emit ==     \* leftmost symbol is a terminal pattern: emit one of its classes
  /\ phase = "gen" /\ stack # <<>> /\ Head(stack).y = "T" /\ wide = FALSE
  /\ \/ /\ \E c \in Plain(Head(stack).n) : out' = Append(out, c)
        /\ stack' = Tail(stack) /\ UNCHANGED wide
        /\ IF Mode = "sim" /\ Classes(Head(stack).n) # Plain(Head(stack).n)
           THEN \E r \in 1..WideOdds : coin' = r ELSE coin' = 0
     \/ /\ Mode = "sim" /\ Classes(Head(stack).n) # Plain(Head(stack).n)
        /\ wide' = TRUE /\ UNCHANGED <<out, stack, coin>>
  /\ UNCHANGED <<phase, fuel, mk, mi>>

EmitWide == \* sim only: any class of the pattern
  /\ phase = "gen" /\ wide = TRUE
  /\ \E c \in Classes(Head(stack).n) : out' = Append(out, c)
  /\ stack' = Tail(stack) /\ wide' = FALSE
  /\ UNCHANGED <<phase, fuel, mk, mi, coin>>

Finish ==
  /\ phase = "gen" /\ stack = <<>>
  /\ phase' = "done" /\ coin' = 0 /\ UNCHANGED <<stack, out, fuel, wide, mk, mi>>

(* which mutation and where *)
Positions(m, n) == CASE m = "swap"   -> 1..(n - 1)
                     [] m = "trunc"  -> 0..(n - 1)
                     [] m = "insert" -> 1..(n + 1)
                     [] OTHER        -> 1..n
ChooseMutation ==
  /\ phase = "done"
  /\ \E m \in MutKinds : \E i \in Positions(m, Len(out)) :
        /\ \/ Small(Len(out))
           \/ m = "replace" /\ Len(out) <= MaxProbeLen /\ out[i] \in NameLike
           \/ m = "insert" /\ Len(out) <= MaxProbeInsLen
        /\ mk' = m /\ mi' = i
  /\ phase' = "mut" /\ UNCHANGED <<stack, out, fuel, wide, coin>>

Mutate ==
  /\ phase = "mut"
  /\ CASE mk = "drop"    -> out' = LL!Drop(out, mi)
       [] mk = "dup"     -> out' = LL!Dup(out, mi)
       [] mk = "swap"    -> out' = LL!Swap(out, mi)
       [] mk = "trunc"   -> out' = LL!Trunc(out, mi)
       [] mk = "replace" -> \E c \in (IF Small(Len(out)) THEN MutAlphabet ELSE ProbeReplace) \ {out[mi]} :
                               out' = LL!Replace(out, mi, c)
       [] mk = "insert"  -> \E c \in (IF Small(Len(out)) THEN MutAlphabet ELSE ProbeInsert) :
                               out' = LL!Insert(out, mi, c)
  /\ phase' = "mutated" /\ UNCHANGED <<stack, fuel, wide, mk, mi, coin>>

(* sim only: TLC evaluates the invariant on EVERY successor it generates before it picks one; the mutant  *)
(* is therefore printed from the single successor of the chosen mutant                                    *)
End ==
  /\ Mode = "sim" /\ phase = "mutated"
  /\ phase' = "end" /\ UNCHANGED <<stack, out, fuel, wide, mk, mi, coin>>

Next == Expand \/ Emit \/ EmitWide \/ Finish \/ ChooseMutation \/ Mutate \/ End

(* emission: one line per complete document and per mutant *)
Emitted ==
  /\ phase = "done" => PrintT(<<"DOC", ToJson(out)>>)
  /\ phase = (IF Mode = "mc" THEN "mutated" ELSE "end") =>
        PrintT(<<"MUT", ToJson([m |-> mk, t |-> out,
                                \* a probe-word mutant of a document longer than MaxMutLen
                                probe |-> \/ mk = "replace" /\ ~Small(Len(out))
                                          \/ mk = "insert" /\ ~Small(Len(out) - 1)])>>)
=============================================================================
