INIT Init
NEXT Next
INVARIANT Judged
