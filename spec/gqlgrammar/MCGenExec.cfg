CONSTANTS
  Which = "exec"
  Mode = "mc"
  MaxLen = 5
  MaxMutLen = 3
  MaxProbeLen = 0
  MaxProbeInsLen = 0
  Fuel = 0
INIT Init
NEXT Next
INVARIANT Emitted
