-------------------------- MODULE GqlExecGrammar --------------------------
(***************************************************************************)
(* June 2018 grammar of executable documents (Appendix B, "Document" with  *)
(* ExecutableDefinition only), as an LL(1) grammar for module LL1.         *)
(*   Document : Definition+                                                *)
(*   OperationDefinition : SelectionSet                                    *)
(*        | OperationType Name? VariableDefinitions? Directives? SelectionSet *)
(*   SelectionSet : { Selection+ }    Selection : Field | FragmentSpread | InlineFragment *)
(*   Field : Alias? Name Arguments? Directives? SelectionSet?   Alias : Name : *)
(*   FragmentSpread : ... FragmentName Directives?                         *)
(*   InlineFragment : ... TypeCondition? Directives? SelectionSet          *)
(*   FragmentDefinition : fragment FragmentName TypeCondition Directives? SelectionSet *)
(*   FragmentName : Name but not on      TypeCondition : on NamedType      *)
(*   VariableDefinitions : ( VariableDefinition+ )                         *)
(*   VariableDefinition : Variable : Type DefaultValue?     (no directives in June 2018) *)
(***************************************************************************)
EXTENDS GqlCommonGrammar

ExecOnlyG ==
  [ Document |-> << << Open("doc"), N("Def"), N("DefList"), Close >> >>,
    DefList  |-> ListOf("Def", "DefList"),
    Def      |-> << << Open("op"), N("OpBody"), Close >>,
                    << Open("fragment"), T("fragment"), Tc("<FragName>", "=s"), T("on"), Tc("<Name>", "on"),
                       N("Dirs"), N("SelSet"), Close >> >>,
    OpBody   |-> << << Act("sets", "query"), N("SelSet") >>,              \* query shorthand
                    << N("OpType"), N("OptName"), N("OptVarDefs"), N("Dirs"), N("SelSet") >> >>,
    OptName  |-> << << Tc("<Name>", "name") >>, <<>> >>,
    OptVarDefs |-> << << Open("vardefs"), T("("), N("VarDef"), N("VarDefList"), T(")"), Close >>, <<>> >>,
    VarDefList |-> ListOf("VarDef", "VarDefList"),
    VarDef   |-> << << Open("vardef"), T("$"), Tc("<Name>", "=s"), T(":"), N("Type"), N("OptDefault"), Close >> >>,
    SelSet   |-> << << Open("sels"), T("{"), N("Sel"), N("SelList"), T("}"), Close >> >>,
    SelList  |-> ListOf("Sel", "SelList"),
    Sel      |-> << << Open("field"), Tc("<Name>", "=s"), N("FieldRest"), Close >>,
                    << T("..."), N("AfterSpread") >> >>,
    \* Alias? Name  left-factored: the first Name is the alias iff a colon follows
    FieldRest |-> << << T(":"), Act("sleaf", "alias"), Tc("<Name>", "=s"), N("FieldTail") >>,
                     << N("FieldTail") >> >>,
    FieldTail |-> << << N("OptArgs"), N("Dirs"), N("OptSelSet") >> >>,
    OptSelSet |-> << << N("SelSet") >>, <<>> >>,
    AfterSpread |-> << << Open("spread"), Tc("<FragName>", "=s"), N("Dirs"), Close >>,
                       << Open("inline"), N("OptTypeCond"), N("Dirs"), N("SelSet"), Close >> >>,
    OptTypeCond |-> << << T("on"), Tc("<Name>", "on") >>, <<>> >>
  ]

ExecG == CommonG @@ ExecOnlyG
ExecStart == "Document"
=============================================================================
