CONSTANTS
  Which = "exec"
  Mode = "sim"
  MaxLen = 0
  MaxMutLen = 0
  MaxProbeLen = 0
  MaxProbeInsLen = 0
  Fuel = 14
INIT Init
NEXT Next
INVARIANT Emitted
