------------------------- MODULE GqlCommonGrammar -------------------------
(***************************************************************************)
(* Productions shared by executable and type-system documents (June 2018,  *)
(* Appendix B): values, types, directives, arguments.  Written as in the   *)
(* specification, left-factored where the specification's notation hides   *)
(* an optional or repeated part (X? , X+ , list).  Tree actions build the  *)
(* abstract tree described in docs/gqlgrammar.md.                          *)
(***************************************************************************)
EXTENDS Naturals, Sequences, TLC, GSym

(* X+ inside delimiters:  open X XList close ;  XList -> X XList | epsilon *)
ListOf(x, xs) == <<  <<N(x), N(xs)>>,  <<>>  >>

CommonG ==
  \* Value[Const] : [~Const]Variable | IntValue | FloatValue | StringValue | BooleanValue | NullValue | EnumValue
  \*              | ListValue[?Const] | ObjectValue[?Const]
  [ Value |-> <<
        << T("$"), Tc("<Name>", "var") >>,                              \* Variable : $ Name
        << Tc("INT", "val") >>, << Tc("FLOAT", "val") >>,
        << Tc("STRING", "val") >>, << Tc("BLOCKSTRING", "val") >>,      \* StringValue (both forms)
        << Tc("true", "bool") >>, << Tc("false", "bool") >>,            \* BooleanValue : one of true false
        << Tc("null", "null") >>,                                       \* NullValue : null
        << Tc("<EnumVal>", "enum") >>,                                  \* EnumValue : Name but not true false null
        << Open("list"), T("["), N("ValueList"), T("]"), Close >>,      \* ListValue : [ ] | [ Value+ ]
        << Open("object"), T("{"), N("ObjFieldList"), T("}"), Close >> >>,  \* ObjectValue : { } | { ObjectField+ }
    ValueList    |-> ListOf("Value", "ValueList"),
    ObjFieldList |-> ListOf("ObjField", "ObjFieldList"),
    ObjField     |-> << << Open("objfield"), Tc("<Name>", "=s"), T(":"), N("Value"), Close >> >>,  \* Name : Value
    ConstValue |-> <<
        << Tc("INT", "val") >>, << Tc("FLOAT", "val") >>,
        << Tc("STRING", "val") >>, << Tc("BLOCKSTRING", "val") >>,
        << Tc("true", "bool") >>, << Tc("false", "bool") >>,
        << Tc("null", "null") >>,
        << Tc("<EnumVal>", "enum") >>,
        << Open("list"), T("["), N("ConstValueList"), T("]"), Close >>,
        << Open("object"), T("{"), N("ConstObjFieldList"), T("}"), Close >> >>,
    ConstValueList    |-> ListOf("ConstValue", "ConstValueList"),
    ConstObjFieldList |-> ListOf("ConstObjField", "ConstObjFieldList"),
    ConstObjField     |-> << << Open("objfield"), Tc("<Name>", "=s"), T(":"), N("ConstValue"), Close >> >>,
    \* Type : NamedType | ListType | NonNullType ;  NonNullType : NamedType ! | ListType !
    Type     |-> << << N("TypeBase"), N("OptBang") >> >>,
    TypeBase |-> << << Tc("<Name>", "named") >>,
                    << Open("listtype"), T("["), N("Type"), T("]"), Close >> >>,
    OptBang  |-> << << T("!"), Act("wrap", "nonnull") >>, <<>> >>,
    \* DefaultValue : = Value[Const]
    OptDefault |-> << << Open("default"), T("="), N("ConstValue"), Close >>, <<>> >>,
    \* Directives[Const] : Directive[?Const]+ ;  Directive[Const] : @ Name Arguments[?Const]?
    Dirs    |-> ListOf("Dir", "Dirs"),
    Dir     |-> << << Open("dir"), T("@"), Tc("<Name>", "=s"), N("OptArgs"), Close >> >>,
    \* Arguments[Const] : ( Argument[?Const]+ ) ;  Argument[Const] : Name : Value[?Const]
    OptArgs |-> << << Open("args"), T("("), N("Arg"), N("ArgList"), T(")"), Close >>, <<>> >>,
    ArgList |-> ListOf("Arg", "ArgList"),
    Arg     |-> << << Open("arg"), Tc("<Name>", "=s"), T(":"), N("Value"), Close >> >>,
    ConstDirs    |-> ListOf("ConstDir", "ConstDirs"),
    ConstDir     |-> << << Open("dir"), T("@"), Tc("<Name>", "=s"), N("OptConstArgs"), Close >> >>,
    OptConstArgs |-> << << Open("args"), T("("), N("ConstArg"), N("ConstArgList"), T(")"), Close >>, <<>> >>,
    ConstArgList |-> ListOf("ConstArg", "ConstArgList"),
    ConstArg     |-> << << Open("arg"), Tc("<Name>", "=s"), T(":"), N("ConstValue"), Close >> >>,
    \* OperationType : one of query mutation subscription
    OpType |-> << << Tc("query", "=s") >>, << Tc("mutation", "=s") >>, << Tc("subscription", "=s") >> >>
  ]
=============================================================================
