---------------------------- MODULE BlockString ----------------------------
(***************************************************************************)
(* The semantic value of a block string, June 2018 specification,          *)
(* section 2.9.4 "String Value":                                           *)
(*   StringValue :: """ BlockStringCharacter* """                          *)
(*   BlockStringCharacter :: SourceCharacter but not """ or \"""  |  \"""  *)
(* and the algorithm BlockStringValue(rawValue), transcribed step by step. *)
(* Text is a sequence of code points.                                      *)
(***************************************************************************)
EXTENDS Naturals, Sequences

LF == 10   CR == 13   TAB == 9   SP == 32   QUOTE == 34   BSLASH == 92
QQQ == <<QUOTE, QUOTE, QUOTE>>
IsWS(c) == c = SP \/ c = TAB                         \* WhiteSpace :: tab | space
StartsWith(s, i, p) == i + Len(p) - 1 <= Len(s) /\ SubSeq(s, i, i + Len(p) - 1) = p

(* Lexical shape: position of the closing """ when the text  body \o """  is scanned from the opening    *)
(* delimiter with the BlockStringCharacter rule (0 = unterminated).  body is a well-formed block-string   *)
(* body iff the scan closes exactly at Len(body)+1.                                                        *)
RECURSIVE FirstClose(_, _)
FirstClose(s, i) ==
  IF i > Len(s) THEN 0
  ELSE IF StartsWith(s, i, QQQ) THEN i
  ELSE IF StartsWith(s, i, <<BSLASH>> \o QQQ) THEN FirstClose(s, i + 4)
  ELSE FirstClose(s, i + 1)
BlockBodyOK(body) == FirstClose(body \o QQQ, 1) = Len(body) + 1

(* raw value: the character values of the BlockStringCharacters ( \""" stands for """ ) *)
RECURSIVE Unescape(_, _)
Unescape(s, i) ==
  IF i > Len(s) THEN <<>>
  ELSE IF StartsWith(s, i, <<BSLASH>> \o QQQ) THEN QQQ \o Unescape(s, i + 4)
  ELSE <<s[i]>> \o Unescape(s, i + 1)

(* 1. Let lines be the result of splitting rawValue by LineTerminator                                    *)
(*    LineTerminator :: LF | CR [lookahead != LF] | CR LF                                                 *)
RECURSIVE Split(_, _, _)
Split(s, i, cur) ==
  IF i > Len(s) THEN <<cur>>
  ELSE IF s[i] = LF THEN <<cur>> \o Split(s, i + 1, <<>>)
  ELSE IF s[i] = CR THEN <<cur>> \o Split(s, IF i < Len(s) /\ s[i + 1] = LF THEN i + 2 ELSE i + 1, <<>>)
  ELSE Split(s, i + 1, Append(cur, s[i]))

RECURSIVE Indent(_)                                   \* 3c. leading consecutive WhiteSpace characters
Indent(line) == IF line # <<>> /\ IsWS(Head(line)) THEN 1 + Indent(Tail(line)) ELSE 0
Blank(line) == \A j \in 1..Len(line) : IsWS(line[j])  \* "contains only WhiteSpace"

(* 2,3. commonIndent over all lines but the first that have indent < length; 0 stands for null (removing  *)
(*      zero characters and removing none is the same)                                                    *)
CommonIndent(lines) ==
  LET cand == {Indent(lines[j]) : j \in {j \in 2..Len(lines) : Indent(lines[j]) < Len(lines[j])}}
  IN IF cand = {} THEN 0 ELSE CHOOSE m \in cand : \A x \in cand : m <= x

(* 4. remove commonIndent characters from the beginning of every line but the first *)
Dedent(lines) ==
  LET ci == CommonIndent(lines)
  IN [j \in 1..Len(lines) |-> IF j = 1 THEN lines[1] ELSE SubSeq(lines[j], ci + 1, Len(lines[j]))]

RECURSIVE StripFront(_)                               \* 5.
StripFront(lines) == IF lines # <<>> /\ Blank(Head(lines)) THEN StripFront(Tail(lines)) ELSE lines
RECURSIVE StripBack(_)                                \* 6.
StripBack(lines) == IF lines # <<>> /\ Blank(lines[Len(lines)]) THEN StripBack(SubSeq(lines, 1, Len(lines) - 1)) ELSE lines

RECURSIVE Join(_)                                     \* 7,8.
Join(lines) == IF lines = <<>> THEN <<>>
               ELSE IF Len(lines) = 1 THEN lines[1]
               ELSE lines[1] \o <<LF>> \o Join(Tail(lines))

BlockStringValue(body) == Join(StripBack(StripFront(Dedent(Split(Unescape(body, 1), 1, <<>>)))))
=============================================================================
