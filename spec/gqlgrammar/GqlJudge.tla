------------------------------ MODULE GqlJudge ------------------------------
(***************************************************************************)
(* Layer A for C29 / C30: the predicates that judge one observation of the *)
(* real parsers.  An observation record r (written by engines/gqlgrammar.py*)
(* from what harness/h_gql reported) has the fields                        *)
(*   id, api ("relay_exec" | "relay_sdl" | "iso_schema" | "iso_ext"),      *)
(*   toks   the intended tokens [k, s, src] the text was rendered from,    *)
(*   lex    the tokens the real lexer produced [k (kind), s (text)],       *)
(*   accept, panic, tree (projection of the parser's tree), err, errtok,   *)
(*   rt     [ok, tree]  print + re-parse (relay_sdl only).                 *)
(* Nothing here looks at the code: the verdict oracle is the LL(1) machine *)
(* of the June 2018 grammar, the tree oracle is the tree that machine      *)
(* builds, with token values from GqlLex / BlockString.                    *)
(***************************************************************************)
EXTENDS Naturals, Integers, Sequences, FiniteSets, TLC, Json, IOUtils, GqlLex

Rec == ndJsonDeserialize(IOEnv.TRACE)

(* ---- the real lexer's token kinds -> lexical classes of the specification ---- *)
KindClass == [Ampersand |-> "&", At |-> "@", CloseBrace |-> "}", CloseBracket |-> "]", CloseParen |-> ")",
              Colon |-> ":", Dollar |-> "$", Equals |-> "=", Exclamation |-> "!", OpenBrace |-> "{",
              OpenBracket |-> "[", OpenParen |-> "(", Pipe |-> "|", Spread |-> "...",
              IntegerLiteral |-> "INT", FloatLiteral |-> "FLOAT", StringLiteral |-> "STRING",
              BlockStringLiteral |-> "BLOCKSTRING"]
LexClass(t) == IF t.k = "Identifier" THEN (IF t.s \in Reserved THEN t.s ELSE "NAME")
               ELSE IF t.k \in DOMAIN KindClass THEN KindClass[t.k] ELSE t.k

(* lexical fidelity, per class: the real lexer cuts the rendered text into the intended tokens *)
LexAgree(r) == /\ Len(r.lex) = Len(r.toks)
               /\ \A i \in 1..Len(r.toks) :
                     /\ LexClass(r.lex[i]) = r.toks[i].k
                     /\ r.toks[i].k \in NameLike => r.lex[i].s = r.toks[i].s

(* the generator / concretiser produced well-formed tokens (a failure here is a TOOL error) *)
ToksOK(r) == \A i \in 1..Len(r.toks) : TokOK(r.toks[i])

(* ---- what each implementation's tree can show ---- *)
Map(f(_), s) == [j \in 1..Len(s) |-> f(s[j])]

(* relay-crates/graphql-syntax has no description slot on these nodes (nothing to compare there) *)
RelayNoDescSlot == {"scalar", "type", "interface", "union", "enumdef", "input", "enumvalue", "inputvalue"}
RECURSIVE RelayView(_)
RelayView(n) ==
  LET kk == IF n.t \in RelayNoDescSlot THEN SelectSeq(n.k, LAMBDA c : c.t # "desc") ELSE n.k
  IN [t |-> n.t, s |-> n.s, v |-> n.v, k |-> [j \in 1..Len(kk) |-> RelayView(kk[j])]]

(* graphql_schema_parser keeps one slot per root operation type, not the order written *)
RECURSIVE IsoView(_)
IsoView(n) ==
  LET ot(o) == SelectSeq(n.k, LAMBDA c : c.t = "optype" /\ c.s = o)
      kk == IF n.t = "schema"
            THEN SelectSeq(n.k, LAMBDA c : c.t # "optype") \o ot("query") \o ot("mutation") \o ot("subscription")
            ELSE n.k
  IN [t |-> n.t, s |-> n.s, v |-> n.v, k |-> [j \in 1..Len(kk) |-> IsoView(kk[j])]]

(* a root operation type given twice: the grammar accepts it, schema validation does not -- no verdict *)
DupRootOp(doc) ==
  \E d \in 1..Len(doc.k) : doc.k[d].t = "schema" /\
     \E i, j \in 1..Len(doc.k[d].k) : i < j /\ doc.k[d].k[i].t = "optype" /\ doc.k[d].k[j].t = "optype"
                                          /\ doc.k[d].k[i].s = doc.k[d].k[j].s

(* ---- bookkeeping: counters in TLC registers, findings as BAD lines ---- *)
Bump(i) == TLCSet(i, TLCGet(i) + 1)
InitRegs == /\ TLCSet(1, 0) /\ TLCSet(2, 0) /\ TLCSet(3, 0) /\ TLCSet(4, {}) /\ TLCSet(5, 0) /\ TLCSet(6, 0)
(* 1 accepted by both, 2 rejected by both, 3 trees compared, 4 productions exercised, 5 no verdict demanded, 6 round trips *)
Stats == [acceptBoth |-> TLCGet(1), rejectBoth |-> TLCGet(2), treesCompared |-> TLCGet(3),
          prodsUsed |-> TLCGet(4), noVerdict |-> TLCGet(5), roundTrips |-> TLCGet(6)]

Where(P) == [pos |-> P.pos, want |-> P.want, la |-> P.la,
             inn |-> IF P.ctx = <<>> THEN "" ELSE P.ctx[Len(P.ctx)]]

(* input that makes the machine stop exactly at token n: the valid prefix followed by an unknown class *)
ProbeInput(r) == LET n == IF r.errtok = 0 \/ r.errtok > Len(r.toks) THEN Len(r.toks) + 1 ELSE r.errtok
                 IN SubSeq(r.toks, 1, n - 1) \o <<[k |-> "?", s |-> "", src |-> <<>>]>>
ProbeLa(r) == IF r.errtok = 0 \/ r.errtok > Len(r.toks) THEN "$" ELSE r.toks[r.errtok].k
=============================================================================
