----------------------------- MODULE CaratsTrace -----------------------------
(* Trace validation for C31: every record is one observation of the real
   `common_lang_types::text_with_carats` written by harness/h_textfn (bin textfn_carats).
   TLC walks the records and evaluates the layer-A predicate Carats!Contract on each; a record
   that fails is reported with <<"FAIL", ...>> (the walk continues so that all failing classes of
   one run are seen).  A record whose observation satisfies Contract but differs from the
   intended rendering (layer B, field `exp` when present, and the column) is reported as DRIFT.
   A record outside the stated domain is reported as BAD (tool error, not a verdict). *)
EXTENDS Carats, Json, IOUtils

Rec == ndJsonDeserialize(IOEnv.TRACE)

VARIABLE l
Init == l = 1

ActualStart(r) == IF r.outer.t = "none" THEN r.s ELSE r.outer.k + r.s
ActualEnd(r)   == IF r.outer.t = "none" THEN r.e ELSE r.outer.k + r.e

Obs(r) == [ panicked |-> r.panicked, out_empty |-> r.out_empty, out |-> r.out, row |-> r.row ]

Judge(i) ==
    LET r  == Rec[i]
        t  == r.text
        bs == ActualStart(r)
        be == ActualEnd(r)
    IN  IF ~InDomain(t, bs, be)
        THEN PrintT(<< "BAD", ToJson([ i |-> i ]) >>)
        ELSE LET F   == Facts(t, bs, be)
                 obs == Obs(r)
             IN  IF ~ContractF(t, F, obs)
                 THEN PrintT(<< "FAIL", ToJson([ i |-> i, conj |-> FailedConjunct(t, F, obs),
                                                 cls |-> CaseClass(t, F) ]) >>)
                 ELSE LET exp == RenderF(t, F) IN
                      IF obs.out # exp.out \/ obs.row # exp.row
                      THEN PrintT(<< "DRIFT", ToJson([ i |-> i,
                                       what |-> IF obs.out # exp.out THEN "rendering differs from layer B"
                                                ELSE "column differs from layer B" ]) >>)
                      ELSE TRUE

Next == l <= Len(Rec) /\ Judge(l) /\ l' = l + 1

Spec == Init /\ [][Next]_l
=============================================================================
