INIT Init
NEXT Next
