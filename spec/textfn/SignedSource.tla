---------------------------- MODULE SignedSource ----------------------------
(***************************************************************************)
(* C33 - Signed generated files verify, and any edit breaks the signature. *)
(*                                                                         *)
(* A content is a sequence of lexemes                                      *)
(*    "c","d"  two different ordinary characters                           *)
(*    "G"      the text "@generated " (with its trailing blank)            *)
(*    "T"      the token  <<SignedSource::*O*zOeWoEQle#+L!plEphiEmie@IsG>> *)
(*             (signedsource::NEWTOKEN); G immediately followed by T is    *)
(*             signedsource::SIGNING_TOKEN, "the signing token to be       *)
(*             embedded in the file you wish to be signed"                 *)
(*    "S"      an already present signature  SignedSource<<OLD>>  with a   *)
(*             fixed 32-hex digest OLD that is the hash of nothing         *)
(* A file (signed or not) is a sequence of records [k |-> kind] where a    *)
(* signature lexeme also carries its digest [k |-> "S", h |-> digest].     *)
(* The hash is an uninterpreted injective function: the digest of a file   *)
(* IS the file (H(z) = z), OLD is a digest outside its range.  Collision   *)
(* resistance of md5 is assumed, not checked.  (H(z) = [t |-> "hash", of |-> z].)                              *)
(*                                                                         *)
(* Layer A : SignVerifies, EditsBreak (on observation records, see         *)
(*           SignedSourceTrace) - restricted, explicitly, to contents that *)
(*           contain the signing token G.T; a bare T without the           *)
(*           "@generated " prefix is not "the signing token" of the        *)
(*           documentation and is reported as drift only.                  *)
(* Layer B : Sign / Verify transcribed from relay-crates/signedsource:     *)
(*           sign replaces EVERY T by the signature of the unsigned file;  *)
(*           verify (repaired) accepts if for SOME "G S(h)" the file with  *)
(*           the token restored at every S(h) hashes to h.  The verify     *)
(*           before the repair (first match, one token) is kept as         *)
(*           VerifyFirstOnly: the model shows where it deviates.           *)
(***************************************************************************)
EXTENDS Naturals, Sequences, FiniteSets, TLC

Ordinary == { "c", "d" }
Symbols  == Ordinary \cup { "G", "T", "S" }
OLD      == [ t |-> "old" ]

Lift(sym) == IF sym = "S" THEN [ k |-> "S", h |-> OLD ] ELSE [ k |-> sym ]
LiftSeq(x) == [ i \in 1..Len(x) |-> Lift(x[i]) ]

\* --- facts about a content (sequence of Symbols) -------------------------------------------
HasToken(x)        == \E i \in 1..Len(x) : x[i] = "T"
HasSigningToken(x) == \E i \in 1..(Len(x) - 1) : x[i] = "G" /\ x[i + 1] = "T"
TokenCount(x)      == Cardinality({ i \in 1..Len(x) : x[i] = "T" })
FirstSigningToken(x) == CHOOSE i \in 1..(Len(x) - 1) :
                          /\ x[i] = "G" /\ x[i + 1] = "T"
                          /\ \A j \in 1..(i - 1) : ~(x[j] = "G" /\ x[j + 1] = "T")
OlderSignatureFirst(x) ==
    HasSigningToken(x) /\ \E j \in 1..(FirstSigningToken(x) - 1) : x[j] = "G" /\ x[j + 1] = "S"
ContentClass(x) ==
    IF TokenCount(x) >= 2 THEN "several_tokens"
    ELSE IF OlderSignatureFirst(x) THEN "older_signature_before_token"
    ELSE "single_token"

\* --- layer B ------------------------------------------------------------------------------
H(z) == [ t |-> "hash", of |-> z ]                   \* uninterpreted injective hash
Sign(x) == LET z == LiftSeq(x) IN
           [ i \in 1..Len(x) |-> IF x[i] = "T" THEN [ k |-> "S", h |-> H(z) ] ELSE z[i] ]
SigAt(y, i) == i < Len(y) /\ y[i].k = "G" /\ y[i + 1].k = "S"
HasSig(y)   == \E i \in 1..Len(y) : SigAt(y, i)
FirstSig(y) == CHOOSE i \in 1..Len(y) : SigAt(y, i) /\ \A j \in 1..(i - 1) : ~SigAt(y, j)
\* the file with the token restored wherever the signature with digest h occurs
Restore(y, h) == [ j \in 1..Len(y) |-> IF y[j].k = "S" /\ y[j].h = h THEN [ k |-> "T" ] ELSE y[j] ]
\* repaired verify (fix_c33_verify_restores_all): some "G S(h)" whose digest is the hash of the file with the
\* token restored at EVERY occurrence of S(h)
Verify(y) ==
    \E i \in 1..Len(y) :
        /\ SigAt(y, i)
        /\ y[i + 1].h.t = "hash" /\ y[i + 1].h.of = Restore(y, y[i + 1].h)
\* verify as it was before the repair: only the FIRST "G S(h)" is looked at and only ONE token is restored
VerifyFirstOnly(y) ==
    /\ HasSig(y)
    /\ LET i == FirstSig(y)
           unsigned == [ y EXCEPT ![i + 1] = [ k |-> "T" ] ]
       IN  y[i + 1].h.t = "hash" /\ y[i + 1].h.of = unsigned

\* single-lexeme substitutions of a file y: position j gets a different lexeme
Replacements == { [ k |-> "c" ], [ k |-> "d" ], [ k |-> "G" ], [ k |-> "T" ], [ k |-> "S", h |-> OLD ] }
Edits(y, protected) ==
    { [ y EXCEPT ![j] = r ] : j \in (1..Len(y)) \ protected, r \in { q \in Replacements : TRUE } } \ { y }

\* the lexemes of Sign(x) that are "the signature": the ones sign put there
OwnSignatures(x) == { i \in 1..Len(x) : x[i] = "T" }

\* design-level statement of the property, used in the model run
DesignSignVerifies(x) == HasSigningToken(x) => Verify(Sign(x))
DesignEditsBreak(x)   == HasSigningToken(x) => \A e \in Edits(Sign(x), OwnSignatures(x)) : ~Verify(e)
=============================================================================
