CONSTANTS
  MaxDoc = 5
  MaxPre = 3
  MaxPre2 = 2
  MaxMid = 1
  Lits1 = {"E", "A", "Aa", "B", "TR", "TRa"}
  Lits2 = {"X2", "Aa2", "B2"}
  Alphabet = {97, 233, 20320, 128512, 10}
INIT Init
NEXT Next
INVARIANT DesignSatisfiesContract
