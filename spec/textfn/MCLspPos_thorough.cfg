CONSTANTS
  MaxDoc = 5
  MaxPre = 3
  MaxMid = 1
  Lits1 = {"E", "A", "Aa", "B", "Ba", "TR", "TRa"}
  Lits2 = {"B2", "X2", "Aa2"}
  Alphabet = {97, 233, 20320, 128512, 10}
INIT Init
NEXT Next
INVARIANT DesignSatisfiesContract
