----------------------------- MODULE MCIsoFormat -----------------------------
(* Model run for C22: a generator of iso literals.  A state is one sentence of the small grammar
   below (header x variable definitions x directives x description x selection-set body) laid out
   by one of the layout schemes (which white space / commas / line breaks go between the tokens).
   For every sentence TLC checks the design-level statements of IsoFormat on the token sequence
   (TokensPreserved, SeparatorsOk, Idempotent)
   and emits the laid-out tokens with the predicted output atoms; the driver concatenates the texts
   and runs the real formatter and the real parser on them.
   {e} and {c} in token texts are replaced by the driver with a 2-byte and a 3-byte character. *)
EXTENDS IsoFormat, Json

CONSTANTS Kinds, Schemes, BodySize

T(k, t, req) == [ k |-> k, t |-> t, req |-> req ]
SetLastReq(s, req) == [ s EXCEPT ![Len(s)].req = req ]

Header(kind) ==
    CASE kind = "field"      -> << T("KW_DECL", "field", "space"), T("TYPE", "Query", "none"), T("DOT", ".", "none"), T("CNAME", "F1", "none") >>
      [] kind = "pointer"    -> << T("KW_DECL", "pointer", "space"), T("TYPE", "Query", "none"), T("DOT", ".", "none"), T("CNAME", "P1", "none") >>
      [] kind = "entrypoint" -> << T("KW_USE", "entrypoint", "space"), T("TYPE", "Query", "none"), T("DOT", ".", "none"), T("CNAME", "F1", "none") >>
PointerTarget == << T("TO", "to", "space"), T("TANN", "User", "none") >>

VarDefs == {
    << >>,
    << T("OPAREN", "(", "none"), T("VDECL", "$", "none"), T("VAR", "x", "none"), T("COLON", ":", "none"), T("TANN", "Int", "delim_opt"), T("CPAREN", ")", "none") >>,
    << T("OPAREN", "(", "none"), T("VDECL", "$", "none"), T("VAR", "x", "none"), T("COLON", ":", "none"),
       T("TANN", "[", "none"), T("TANN", "Int", "none"), T("TANN", "!", "none"), T("TANN", "]", "none"), T("TANN", "!", "none"),
       T("EQ", "=", "none"), T("NUM", "5", "delim"),
       T("VDECL", "$", "none"), T("VAR", "y", "none"), T("COLON", ":", "none"), T("TANN", "String", "none"),
       T("EQ", "=", "none"), T("STR", "\"s{e}\"", "delim_opt"), T("CPAREN", ")", "none") >> }

DeclDirs == { << >>, << T("AT", "@", "none"), T("DIR", "component", "none") >> }
Descs == { << >>,
           << T("COMMENT", "\"d {e}{c}\"", "none") >>,
           << T("COMMENT", "\"\"\"\n   {e}{c} first\n      indented\n   \"\"\"", "none") >> }

Val == [ var |-> << T("VUSE", "$", "none"), T("VAR", "x", "none") >>,
         str |-> << T("STR", "\"s {c}\"", "none") >>,
         neg |-> << T("NUM", "-1", "none") >>,
         tru |-> << T("BOOL", "true", "none") >>,
         nul |-> << T("BOOL", "null", "none") >>,
         obj |-> << T("OBRACE", "{", "none"), T("OKEY", "k", "none"), T("COLON", ":", "none"), T("NUM", "1", "delim"),
                    T("OKEY", "j", "none"), T("COLON", ":", "none"), T("STR", "\"v\"", "delim_opt"), T("CBRACE", "}", "none") >> ]

Args(v1, v2) == << T("OPAREN", "(", "none"), T("ARG", "s", "none"), T("COLON", ":", "none") >> \o SetLastReq(Val[v1], "delim")
                \o << T("ARG", "t", "none"), T("COLON", ":", "none") >> \o SetLastReq(Val[v2], "delim_opt") \o << T("CPAREN", ")", "none") >>

\* every selection ends with the requirement "delim" (parse_selection demands a comma or a line break)
Leaves == {
    << T("SEL", "id", "delim") >>,
    << T("SEL", "al", "none"), T("COLON", ":", "none"), T("SELPC", "name", "delim") >>,
    << T("SEL", "name", "none"), T("AT", "@", "none"), T("DIR", "updatable", "delim") >>,
    SetLastReq(<< T("SEL", "name", "none") >> \o Args("var", "str"), "delim"),
    SetLastReq(<< T("SEL", "name", "none") >> \o Args("neg", "tru"), "delim"),
    SetLastReq(<< T("SEL", "b", "none"), T("COLON", ":", "none"), T("SELPC", "name", "none") >> \o Args("nul", "obj")
               \o << T("AT", "@", "none"), T("DIR", "loadable", "none") >>, "delim") }
Linked(inner) == << T("SEL", "me", "none"), T("OBRACE", "{", "none") >> \o inner \o << T("CBRACE", "}", "delim") >>
Sels == Leaves \cup { Linked(l) : l \in Leaves } \cup { Linked(<< >>) }
              \cup { Linked(<< T("SEL", "id", "delim") >> \o Linked(<< T("SEL", "id", "delim") >>)) }
Small == { << T("SEL", "id", "delim") >>, Linked(<< T("SEL", "id", "delim") >>) }
Bodies == { s : s \in Sels } \cup (IF BodySize >= 2 THEN { s1 \o s2 : s1 \in Small, s2 \in Sels } \cup { s2 \o s1 : s1 \in Small, s2 \in Leaves } ELSE { })

Sentences(kind) ==
    IF kind = "entrypoint" THEN { Header(kind) \o d : d \in { << >>, << T("AT", "@", "none"), T("DIR", "lazyLoad", "none") >> } }
    ELSE { (IF kind = "pointer" /\ v = << >> THEN SetLastReq(Header(kind), "space") ELSE Header(kind))
             \o v \o (IF kind = "pointer" THEN PointerTarget ELSE << >>) \o d \o c
             \o << T("OBRACE", "{", "none") >> \o b \o << T("CBRACE", "}", "none") >>
           : v \in VarDefs, d \in DeclDirs, c \in Descs, b \in Bodies }

\* layout: where commas and which white space ("z" none, "s" blank, "ss" two blanks, "n" line break, "ns" line break + blank)
Comma(ws) == [ k |-> "COMMA", t |-> ",", req |-> "none", ws |-> ws ]
RECURSIVE Lay(_, _, _)
Lay(s, i, scheme) ==
    IF i > Len(s) THEN << >>
    ELSE LET tk  == s[i]
             sch == IF scheme = "mixed" THEN (IF i % 2 = 0 THEN "commas" ELSE "lines") ELSE scheme
             W(ws) == << [ k |-> tk.k, t |-> tk.t, req |-> tk.req, ws |-> ws ] >>
         IN (CASE sch = "lines"  -> W(CASE tk.req = "none" -> "z" [] tk.req = "space" -> "s" [] OTHER -> "ns")
               [] sch = "commas" -> (CASE tk.req = "none" -> W("z") [] tk.req = "space" -> W("s")
                                       [] tk.req = "delim" -> W("z") \o << Comma("s") >>
                                       [] OTHER -> W("z") \o << Comma("z") >>)
               [] sch = "wide"   -> (CASE tk.req = "none" -> W("s") [] tk.req = "space" -> W("ss")
                                       [] tk.req = "delim" -> W("s") \o << Comma("ns") >>
                                       [] OTHER -> W("ns")))
            \o Lay(s, i + 1, scheme)

VARIABLES sentence
Init == sentence = << >>
Choose ==
    /\ sentence = << >>
    /\ \E kind \in Kinds : \E s \in Sentences(kind) : \E scheme \in Schemes :
         LET laid == Lay(s, 1, scheme) IN
         /\ sentence' = laid
         /\ PrintT(<< "CASE", ToJson([ kind |-> kind, scheme |-> scheme, toks |-> laid, pred |-> Fmt(laid),
                                       pred_idempotent |-> Idempotent(laid) ]) >>)
Next == Choose
Spec == Init /\ [][Next]_sentence

DesignOk ==
    sentence # << >> =>
        /\ TokensPreserved(sentence)
        /\ SeparatorsOk(sentence)
        /\ Idempotent(sentence)
=============================================================================
