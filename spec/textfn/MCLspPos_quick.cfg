CONSTANTS
  MaxDoc = 4
  MaxPre = 2
  MaxPre2 = 1
  MaxMid = 1
  Lits1 = {"E", "A", "Aa", "B", "TR", "TRa"}
  Lits2 = {"X2", "Aa2"}
  Alphabet = {97, 233, 20320, 128512, 10}
INIT Init
NEXT Next
INVARIANT DesignSatisfiesContract
