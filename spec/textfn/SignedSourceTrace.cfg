INIT Init
NEXT Next
