CONSTANTS
  MaxLen = 7
  Alphabet = {97, 233, 10}
INIT Init
NEXT Next
INVARIANT RenderSatisfiesContract
