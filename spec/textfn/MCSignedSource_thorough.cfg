CONSTANTS
  MaxLen = 6
INIT Init
NEXT Next
INVARIANT DesignOk
