CONSTANTS
  Kinds = {"field", "pointer", "entrypoint"}
  Schemes = {"lines", "commas", "mixed"}
  BodySize = 1
INIT Init
NEXT Next
INVARIANT DesignOk
