CONSTANTS
  Kinds = {"field", "pointer", "entrypoint"}
  Schemes = {"lines", "commas", "mixed", "wide"}
  BodySize = 2
INIT Init
NEXT Next
INVARIANT DesignOk
