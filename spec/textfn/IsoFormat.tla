------------------------------ MODULE IsoFormat ------------------------------
(***************************************************************************)
(* C22 - Formatting preserves meaning and is idempotent.                   *)
(*                                                                         *)
(* An iso literal is a sequence of tokens [k |-> kind, t |-> text,         *)
(* req |-> what must separate it from the next token]:                     *)
(*    "none"      nothing needed            "space"  white space needed    *)
(*    "delim"     a comma or a line break is required by the grammar       *)
(*    "delim_opt" a comma or a line break is allowed (optional final       *)
(*                delimiter of an argument / variable / object list)       *)
(* Layer B: the formatter of crates/isograph_lsp/src/format.rs as a        *)
(* token-driven printer over the semantic-token legend                     *)
(* (crates/isograph_lang_types/src/semantic_token_legend/mod.rs): table    *)
(* Legend, algorithm Fmt.  Output = sequence of atoms                    *)
(*    <<"NL", n>> line break followed by 2n blanks, <<"SP">>, <<"TOK", i>> *)
(*    (token i of the input, verbatim), <<"END">> final line break.        *)
(* Design-level statements checked by the model run on every generated     *)
(* sentence: the printer keeps every token except commas, in order         *)
(* (TokensPreserved), puts white space / a line break wherever the grammar *)
(* requires a separator (SeparatorsOk), and printing the printed sentence  *)
(* again gives the same atoms (Idempotent).                                *)
(* Layer A (on observations of the real formatter + the real parser) is in *)
(* IsoFormatTrace.                                                         *)
(***************************************************************************)
EXTENDS Naturals, Integers, Sequences, FiniteSets, TLC

\* lb: line behaviour, sb / sa: space before / after, ind: indent change
Inl(sb, sa)  == [ lb |-> "inline", sb |-> sb, sa |-> sa, ind |-> 0 ]
Legend ==
    [ KW_USE   |-> Inl(FALSE, TRUE),                                           \* entrypoint
      KW_DECL  |-> [ lb |-> "start", sb |-> FALSE, sa |-> TRUE, ind |-> 0 ],   \* field, pointer
      TYPE     |-> Inl(TRUE, TRUE),                                            \* ST_SERVER_OBJECT_TYPE
      DOT      |-> Inl(FALSE, FALSE),
      TO       |-> Inl(TRUE, TRUE),
      CNAME    |-> Inl(TRUE, TRUE),                                            \* ST_CLIENT_SELECTABLE_NAME
      OBRACE   |-> [ lb |-> "end", sb |-> TRUE, sa |-> FALSE, ind |-> 1 ],
      CBRACE   |-> [ lb |-> "own", sb |-> FALSE, sa |-> FALSE, ind |-> -1 ],
      OPAREN   |-> [ lb |-> "end", sb |-> FALSE, sa |-> FALSE, ind |-> 1 ],
      CPAREN   |-> [ lb |-> "start", sb |-> FALSE, sa |-> TRUE, ind |-> -1 ],
      COMMA    |-> [ lb |-> "remove", sb |-> FALSE, sa |-> FALSE, ind |-> 0 ],
      SEL      |-> [ lb |-> "start", sb |-> FALSE, sa |-> TRUE, ind |-> 0 ],   \* ST_SELECTION_NAME_OR_ALIAS
      COLON    |-> Inl(FALSE, TRUE),
      SELPC    |-> Inl(TRUE, TRUE),
      AT       |-> Inl(TRUE, FALSE),
      DIR      |-> Inl(FALSE, TRUE),
      ARG      |-> [ lb |-> "start", sb |-> FALSE, sa |-> TRUE, ind |-> 0 ],
      VDECL    |-> [ lb |-> "start", sb |-> FALSE, sa |-> FALSE, ind |-> 0 ],  \* $ of a variable definition
      VUSE     |-> Inl(TRUE, FALSE),                                           \* $ of a variable use
      VAR      |-> Inl(FALSE, FALSE),
      EQ       |-> Inl(TRUE, TRUE),
      STR      |-> Inl(TRUE, TRUE),
      NUM      |-> Inl(TRUE, TRUE),
      BOOL     |-> Inl(TRUE, TRUE),
      OKEY     |-> [ lb |-> "start", sb |-> FALSE, sa |-> TRUE, ind |-> 0 ],
      TANN     |-> Inl(TRUE, TRUE),
      COMMENT  |-> [ lb |-> "own", sb |-> FALSE, sa |-> FALSE, ind |-> 0 ] ]

StartsLine(b) == b.lb \in { "own", "start" }
EndsLine(b)   == b.lb \in { "own", "end" }
SpAfter(b)    == b.lb \in { "start", "inline" } /\ b.sa
SpBefore(b)   == b.lb \in { "end", "inline" } /\ b.sb

\* format_extraction, token by token
RECURSIVE FmtFrom(_, _, _, _)
FmtFrom(toks, i, last, indent) ==
    IF i > Len(toks) THEN IF EndsLine(last) THEN << << "END" >> >> ELSE << >>
    ELSE IF Legend[toks[i].k].lb = "remove" THEN FmtFrom(toks, i + 1, last, indent)   \* repaired: a removed token is skipped entirely
    ELSE LET b    == Legend[toks[i].k]
             ind1 == IF b.ind = -1 THEN indent - 1 ELSE indent
             sep  == IF EndsLine(last) \/ StartsLine(b) THEN << << "NL", ind1 >> >>
                     ELSE IF SpAfter(last) /\ SpBefore(b) THEN << << "SP" >> >> ELSE << >>
             tok  == IF b.lb # "remove" THEN << << "TOK", i >> >> ELSE << >>
         IN sep \o tok \o FmtFrom(toks, i + 1, b, IF b.ind = 1 THEN ind1 + 1 ELSE ind1)
Fmt(toks) == FmtFrom(toks, 1, Inl(FALSE, FALSE), 1)

-----------------------------------------------------------------------------
Kept(toks)      == SelectSeq([ i \in 1..Len(toks) |-> i ], LAMBDA i : toks[i].k # "COMMA")
TokAtoms(out)   == SelectSeq(out, LAMBDA a : a[1] = "TOK")
TokensPreserved(toks) ==
    LET ta == TokAtoms(Fmt(toks)) IN
    /\ Len(ta) = Len(Kept(toks))
    /\ \A j \in 1..Len(ta) : ta[j][2] = Kept(toks)[j]

\* what the printer put between kept token number j and the next kept token
RECURSIVE GapAfter(_, _)
GapAfter(out, p) == IF p > Len(out) \/ out[p][1] = "TOK" THEN << >> ELSE << out[p] >> \o GapAfter(out, p + 1)
PosOfTok(out, i) == CHOOSE p \in 1..Len(out) : out[p] = << "TOK", i >>
\* the requirement after kept token i: the strongest requirement among it and the commas removed behind it
SeparatorsOk(toks) ==
    LET out == Fmt(toks)
        K   == Kept(toks)
    IN  \A j \in 1..(Len(K) - 1) :
          LET gap == GapAfter(out, PosOfTok(out, K[j]) + 1)
              req == toks[K[j]].req
              hasNL == \E g \in 1..Len(gap) : gap[g][1] = "NL"
              hasWS == Len(gap) > 0
          IN  /\ req = "space" => hasWS
              /\ req = "delim" => hasNL

\* the printed sentence as a token sequence again (commas are gone) - printing it must give the same atoms
Reprinted(toks) == LET K == Kept(toks) IN [ j \in 1..Len(K) |-> toks[K[j]] ]
Renumber(out, toks) ==       \* express TOK atoms by their rank among the kept tokens
    LET K == Kept(toks) IN
    [ p \in 1..Len(out) |-> IF out[p][1] = "TOK" THEN << "TOK", CHOOSE j \in 1..Len(K) : K[j] = out[p][2] >> ELSE out[p] ]
Idempotent(toks) == Fmt(Reprinted(toks)) = Renumber(Fmt(toks), toks)

\* the situation in which the formatter before the repair (fix_c22_format_idempotent) was not idempotent: a removed
\* comma directly behind a token that is its own line / ends a line (kept to classify observations)
CommaAfterOwnLine(toks) ==
    \E i \in 2..Len(toks) : toks[i].k = "COMMA" /\ Legend[toks[i - 1].k].lb \in { "own", "end" }
=============================================================================
