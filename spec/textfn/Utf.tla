-------------------------------- MODULE Utf --------------------------------
(***************************************************************************)
(* Documents as sequences of Unicode scalar values (code points) and the   *)
(* three coordinate systems that meet in the language server:              *)
(*   - character index   i in 0..Len(d)   (boundary after i characters)    *)
(*   - UTF-8 byte offset                  (what the compiler's Spans use)  *)
(*   - LSP position (line, character)     line = number of '\n' before,    *)
(*     character = UTF-16 code units since the line start (LSP 3.17        *)
(*     default position encoding)                                          *)
(* Character classes of the enumerations: a (1 byte, 1 unit), e-acute      *)
(* (2,1), CJK (3,1), emoji (4,2), newline.                                  *)
(***************************************************************************)
EXTENDS Naturals, Integers, Sequences, FiniteSets, TLC

NL == 10
W8(cp)  == IF cp < 128 THEN 1 ELSE IF cp < 2048 THEN 2 ELSE IF cp < 65536 THEN 3 ELSE 4
W16(cp) == IF cp < 65536 THEN 1 ELSE 2

ClassReps == [ a |-> 97, e |-> 233, c |-> 20320, m |-> 128512, n |-> 10 ]

Repeat(x, k) == [ j \in 1..k |-> x ]

(* One pass over the document.  Result (all sequences are 1-based, index i+1 holds boundary i):
     b8   : byte offset of boundary i
     ln   : line of boundary i
     c16  : UTF-16 units between the start of that line and boundary i
     ix8  : for every byte offset 0..bytes(d) the boundary index, or -1 inside a character
     ls   : for every line 0..lines-1 the boundary index at which it starts *)
RECURSIVE Scan(_, _, _)
Scan(d, i, acc) ==
    IF i > Len(d) THEN acc
    ELSE LET cp  == d[i]
             b   == acc.b8[i]
             nl  == cp = NL
         IN Scan(d, i + 1,
                 [ b8  |-> Append(acc.b8, b + W8(cp)),
                   ln  |-> Append(acc.ln, IF nl THEN acc.ln[i] + 1 ELSE acc.ln[i]),
                   c16 |-> Append(acc.c16, IF nl THEN 0 ELSE acc.c16[i] + W16(cp)),
                   ix8 |-> acc.ix8 \o Repeat(-1, W8(cp) - 1) \o << i >>,
                   ls  |-> IF nl THEN Append(acc.ls, i) ELSE acc.ls ])

Tables(d) ==
    LET t == Scan(d, 1, [ b8 |-> << 0 >>, ln |-> << 0 >>, c16 |-> << 0 >>, ix8 |-> << 0 >>, ls |-> << 0 >> ])
    IN  [ n |-> Len(d), b8 |-> t.b8, ln |-> t.ln, c16 |-> t.c16, ix8 |-> t.ix8, ls |-> t.ls,
          bytes |-> t.b8[Len(d) + 1], lines |-> Len(t.ls) ]

\* accessors with 0-based arguments
B8(T, i)    == T.b8[i + 1]
Ln(T, i)    == T.ln[i + 1]
C16(T, i)   == T.c16[i + 1]
IxOfByte(T, b) == IF b < 0 \/ b > T.bytes THEN -1 ELSE T.ix8[b + 1]
LineStart(T, l) == T.ls[l + 1]
\* boundary just before the newline that ends line l (or the end of the document)
LineEnd(T, l)   == IF l + 1 < T.lines THEN T.ls[l + 2] - 1 ELSE T.n
=============================================================================
