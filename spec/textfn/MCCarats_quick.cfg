CONSTANTS
  MaxLen = 5
  Alphabet = {97, 233, 10}
INIT Init
NEXT Next
INVARIANT RenderSatisfiesContract
