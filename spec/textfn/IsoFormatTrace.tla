--------------------------- MODULE IsoFormatTrace ---------------------------
(* Trace validation for C22.  One record = one iso literal accepted by the real parser, embedded in
   a document, formatted by the real language server (on_format), the edit applied, the result
   parsed and formatted again (harness/h_textfn bin textfn_lsp, two passes joined by the driver):
     doc     the document (code points);  ex = [start, end) byte span of the literal text
     edit    the range of the TextEdit the server returned for it [sl, sc, el, ec]
     fmt1    the new text of that edit (code points)
     before  the declaration the parser produced for the literal, positions stripped, as a
             pre-order list of atoms (names, aliases, arguments, values, variables, types, defaults,
             directives, selections in order, description)
     after   {t:"ok", decl: the same projection for fmt1} | {t:"err"}      (fmt1 parsed by the real parser)
     fmt2    {t:"ok", text: formatting of fmt1} | {t:"none"}
     toks    the generator's laid-out tokens [k, t, req, ws, cp (code points of t)]  (layer B only)
   Layer A (FAIL):
     reparse       the formatter's output is accepted by the parser
     same_decl     and denotes the same declaration
     idempotent    formatting the output again changes nothing
     edit_range    the edit replaces exactly the literal's text (LSP conventions, LspPos!Designates)
   DRIFT: the real output differs from the layer-B printer (IsoFormat!Fmt). *)
EXTENDS IsoFormat, LspPos, Json, IOUtils

Rec == ndJsonDeserialize(IOEnv.TRACE)
VARIABLE l
Init == l = 1

DocClass(d) == IF \A i \in 1..Len(d) : d[i] < 128 THEN "ascii"
               ELSE IF \A i \in 1..Len(d) : d[i] < 65536 THEN "bmp_multibyte" ELSE "astral"

Reparses(r)   == r.after.t = "ok"
SameDecl(r)   == r.after.t = "ok" => r.after.decl = r.before
IdempotentR(r) == r.fmt2.t = "ok" /\ r.fmt2.text = r.fmt1
EditRange(r)  == Designates(Tables(r.doc), r.edit, r.ex.start, r.ex.end)

RECURSIVE Render(_, _, _)
Render(atoms, toks, p) ==
    IF p > Len(atoms) THEN << >>
    ELSE (CASE atoms[p][1] = "NL"  -> << 10 >> \o Repeat(32, 2 * atoms[p][2])
            [] atoms[p][1] = "SP"  -> << 32 >>
            [] atoms[p][1] = "TOK" -> toks[atoms[p][2]].cp
            [] OTHER               -> << 10 >>) \o Render(atoms, toks, p + 1)

Report(i, conj, ok, cls) == IF ok THEN TRUE ELSE PrintT(<< "FAIL", ToJson([ i |-> i, conj |-> conj, cls |-> cls ]) >>)

Judge(i) ==
    LET r == Rec[i]
        shape == IF CommaAfterOwnLine(r.toks) THEN "comma_after_brace" ELSE "other_layout"
    IN  /\ Report(i, "reparse", Reparses(r), shape)
        /\ Report(i, "same_decl", SameDecl(r), shape)
        /\ Report(i, "idempotent", IdempotentR(r), shape)
        /\ Report(i, "edit_range", EditRange(r), DocClass(r.doc))
        /\ IF Render(Fmt(r.toks), r.toks, 1) # r.fmt1
           THEN PrintT(<< "DRIFT", ToJson([ i |-> i, what |-> "formatter output differs from the layer-B printer" ]) >>)
           ELSE TRUE

Next == l <= Len(Rec) /\ Judge(l) /\ l' = l + 1
Spec == Init /\ [][Next]_l
=============================================================================
