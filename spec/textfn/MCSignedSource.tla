--------------------------- MODULE MCSignedSource ---------------------------
(* Model run for C33: the states are the contents (built lexeme by lexeme up to MaxLen).
   For every content that contains the signing token TLC checks the design (layer B, repaired verify)
   against the property: invariant DesignOk (B => A): signing then verifying succeeds, and every
   single-lexeme substitution outside the created signatures makes verification fail.
   Every content is emitted with the prediction (pred_valid, pred_edits_break) and decided on the
   real code by the trace specification. *)
EXTENDS SignedSource, Json

CONSTANTS MaxLen

VARIABLES x
Init == x = << >>
Extend ==
    /\ Len(x) < MaxLen
    /\ \E s \in Symbols :
         LET y == Append(x, s) IN
         /\ x' = y
         /\ PrintT(<< "CASE", ToJson([ sym |-> y,
                                       cls |-> IF HasSigningToken(y) THEN ContentClass(y) ELSE "no_signing_token",
                                       pred_sign_ok |-> HasToken(y),
                                       pred_valid |-> IF HasToken(y) THEN Verify(Sign(y)) ELSE FALSE,
                                       pred_edits_break |-> IF HasToken(y)
                                           THEN \A e \in Edits(Sign(y), OwnSignatures(y)) : ~Verify(e) ELSE TRUE ]) >>)
Next == Extend
Spec == Init /\ [][Next]_x

\* B => A on every content that contains the signing token
DesignOk == HasSigningToken(x) => DesignSignVerifies(x) /\ DesignEditsBreak(x)

\* the verify before the repair deviates exactly where the two findings were (classes are not vacuous)
OldDeviations ==
    /\ ~VerifyFirstOnly(Sign(<< "G", "T", "T" >>))
    /\ ~VerifyFirstOnly(Sign(<< "G", "S", "G", "T" >>))
    /\ VerifyFirstOnly(Sign(<< "G", "T" >>))
ASSUME OldDeviations
=============================================================================
