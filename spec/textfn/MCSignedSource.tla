--------------------------- MODULE MCSignedSource ---------------------------
(* Model run for C33: the states are the contents (built lexeme by lexeme up to MaxLen).
   For every content TLC evaluates the design (layer B) against the property:
     - on the class "single_token" (one token, no older signature in front of it) the design
       satisfies the property: invariant DesignOkOnSingleToken (B => A on that class);
     - on the other classes the design itself predicts a deviation (several tokens: sign replaces
       all of them, verify restores one; an older signature in front: verify looks at the first
       match).  The prediction is emitted with the case (field pred_valid) and decided on the
       real code by the trace specification. *)
EXTENDS SignedSource, Json

CONSTANTS MaxLen

VARIABLES x
Init == x = << >>
Extend ==
    /\ Len(x) < MaxLen
    /\ \E s \in Symbols :
         LET y == Append(x, s) IN
         /\ x' = y
         /\ PrintT(<< "CASE", ToJson([ sym |-> y,
                                       cls |-> IF HasSigningToken(y) THEN ContentClass(y) ELSE "no_signing_token",
                                       pred_sign_ok |-> HasToken(y),
                                       pred_valid |-> IF HasToken(y) THEN Verify(Sign(y)) ELSE FALSE,
                                       pred_edits_break |-> IF HasToken(y)
                                           THEN \A e \in Edits(Sign(y), OwnSignatures(y)) : ~Verify(e) ELSE TRUE ]) >>)
Next == Extend
Spec == Init /\ [][Next]_x

DesignOkOnSingleToken ==
    (HasSigningToken(x) /\ ContentClass(x) = "single_token") => DesignSignVerifies(x) /\ DesignEditsBreak(x)

\* the two predicted deviations are real at design level (so the classes are not vacuous)
DeviationsPredicted ==
    /\ ~DesignSignVerifies(<< "G", "T", "T" >>)
    /\ ~DesignSignVerifies(<< "G", "S", "G", "T" >>)
ASSUME DeviationsPredicted
=============================================================================
