CONSTANTS
  MaxLen = 5
INIT Init
NEXT Next
INVARIANT DesignOk
