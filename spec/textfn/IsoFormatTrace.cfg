INIT Init
NEXT Next
