-------------------------- MODULE SignedSourceTrace --------------------------
(* Trace validation for C33.  Every record is one observation of the real signedsource crate
   written by harness/h_textfn (bin textfn_signed):
     content_sym  lexing of the content into lexemes [k, at, len (, h)]       (k in c G T S)
     sign         "ok" | "panic"           result of sign_file(content)
     signed_sym   lexing of the signed file, valid_after = is_valid_signature(signed file)
     edits_tried  number of single-character substitutions of the signed file that were tried
                  (every position, up to three other characters)
     still_valid  the substitutions [pos, cp] after which is_valid_signature still answered true
   Layer A, restricted to contents that contain the signing token (G immediately followed by T):
     SignVerifies : signing does not fail and the signed file verifies;
     EditsBreak   : no substitution outside the signature survives.  "The signature" = the
                    signature lexemes of the signed file whose digest was not already a signature
                    lexeme of the content (those are content).
   DRIFT (layer B, never a verdict): bare token accepted; the signed file is not "the content with
   every token replaced by SignedSource<<md5(content)>>"; prediction of the model differs. *)
EXTENDS SignedSource, Json, IOUtils

Rec == ndJsonDeserialize(IOEnv.TRACE)

VARIABLE l
Init == l = 1

Kinds(lexemes) == [ i \in 1..Len(lexemes) |-> lexemes[i].k ]

OldDigests(r) == { r.content_sym[i].h : i \in { j \in 1..Len(r.content_sym) : r.content_sym[j].k = "S" } }
OwnSigs(r) == { m \in 1..Len(r.signed_sym) :
                  r.signed_sym[m].k = "S" /\ r.signed_sym[m].h \notin OldDigests(r) }
InOwnSignature(r, pos) ==
    \E m \in OwnSigs(r) : r.signed_sym[m].at <= pos /\ pos < r.signed_sym[m].at + r.signed_sym[m].len

SignDoesNotFail(r) == r.sign = "ok"
SignVerifies(r)    == r.sign = "ok" => r.valid_after = TRUE
EditsBreak(r)      == r.sign = "ok" => \A e \in 1..Len(r.still_valid) : InOwnSignature(r, r.still_valid[e].pos)

Failed(r) == IF ~SignDoesNotFail(r) THEN "sign_fails"
             ELSE IF ~SignVerifies(r) THEN "verify_after_sign"
             ELSE IF ~EditsBreak(r) THEN "edit_survives"
             ELSE "none"

\* layer B: shape of the signed file
ShapeOk(r) ==
    /\ Len(r.signed_sym) = Len(r.content_sym)
    /\ \A i \in 1..Len(r.content_sym) :
         IF r.content_sym[i].k = "T"
         THEN r.signed_sym[i].k = "S" /\ r.signed_sym[i].h = r.content_md5
         ELSE r.signed_sym[i].k = r.content_sym[i].k

Judge(i) ==
    LET r == Rec[i]
        x == Kinds(r.content_sym)
    IN  IF "sym" \in DOMAIN r /\ Len(r.sym) # Len(x)
        THEN PrintT(<< "BAD", ToJson([ i |-> i ]) >>)          \* the concretisation did not lex back to the intended lexemes
        ELSE IF HasSigningToken(x)
        THEN IF r.sign = "ok" /\ r.edits_tried = 0
             THEN PrintT(<< "BAD", ToJson([ i |-> i ]) >>)
             ELSE IF Failed(r) # "none"
             THEN PrintT(<< "FAIL", ToJson([ i |-> i, conj |-> Failed(r), cls |-> ContentClass(x) ]) >>)
             ELSE IF ~ShapeOk(r)
             THEN PrintT(<< "DRIFT", ToJson([ i |-> i, what |-> "signed file is not the content with every token replaced by the signature of the content" ]) >>)
             ELSE IF "pred_valid" \in DOMAIN r /\ r.pred_valid # r.valid_after
             THEN PrintT(<< "DRIFT", ToJson([ i |-> i, what |-> "layer B predicted another verification result" ]) >>)
             ELSE TRUE
        ELSE IF HasToken(x) /\ r.sign = "ok" /\ r.valid_after = FALSE
        THEN PrintT(<< "DRIFT", ToJson([ i |-> i, what |-> "sign_file accepts a bare token (no @generated prefix); the result does not verify" ]) >>)
        ELSE IF HasToken(x) # (r.sign = "ok")
        THEN PrintT(<< "DRIFT", ToJson([ i |-> i, what |-> "sign_file outcome differs from layer B (token present <=> signing succeeds)" ]) >>)
        ELSE TRUE

Next == l <= Len(Rec) /\ Judge(l) /\ l' = l + 1
Spec == Init /\ [][Next]_l
=============================================================================
