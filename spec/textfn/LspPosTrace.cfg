INIT Init
NEXT Next
