------------------------------- MODULE Carats -------------------------------
(***************************************************************************)
(* C31 - Diagnostic excerpts underline exactly the reported span.          *)
(*                                                                         *)
(* Layer A (the property as stated) : operator Contract.                   *)
(* Layer B (implementation-shaped)  : operator Render - the excerpt the    *)
(*   design intends: the lines of the span plus/minus two lines, a caret   *)
(*   line (padded with spaces) under every line that has span characters.  *)
(*   Render is used (i) to show that Contract is satisfiable on every      *)
(*   enumerated case (model invariant RenderSatisfiesContract: B => A) and *)
(*   (ii) as the prediction that the real output is compared with; a       *)
(*   difference that Contract accepts is DRIFT, never a violation.         *)
(*                                                                         *)
(* Unit of spans: BYTES (UTF-8).  common_lang_types::Span is produced by   *)
(* the lexers as byte ranges and used as `text[span.as_usize_range()]`, so *)
(* "a span inside the text" is a byte range 0 <= s < e <= bytes(text)      *)
(* whose two ends lie on character boundaries.  Characters are code points *)
(* ("one caret per character"); a text is a sequence of code points.       *)
(*                                                                         *)
(* Restriction of the statement to the generated subset (explicit):        *)
(*   InDomain: non-empty span, both ends on character boundaries, inside   *)
(*   the text; the text contains neither ' ' nor '^' (so that the printed  *)
(*   lines can be told apart from caret lines without trusting the code).  *)
(***************************************************************************)
EXTENDS Naturals, Sequences, FiniteSets, TLC

NL    == 10
SPACE == 32
CARET == 94

\* UTF-8 width of a code point
W8(cp) == IF cp < 128 THEN 1 ELSE IF cp < 2048 THEN 2 ELSE IF cp < 65536 THEN 3 ELSE 4

\* the byte offsets of all character boundaries of t: a function of the character index 0..Len(t)
\* (o[i] = byte offset just after the first i characters), built in one pass
RECURSIVE OffsAcc(_, _, _)
OffsAcc(t, i, acc) ==
    IF i > Len(t) THEN acc ELSE OffsAcc(t, i + 1, Append(acc, acc[Len(acc)] + W8(t[i])))
Offs(t) == LET sq == OffsAcc(t, 1, << 0 >>) IN [ i \in 0..Len(t) |-> sq[i + 1] ]

ByteLen(t)      == Offs(t)[Len(t)]
AlignedOffs(t)  == LET o == Offs(t) IN { o[i] : i \in 0..Len(t) }
CharIx(t, b)    == LET o == Offs(t) IN CHOOSE i \in 0..Len(t) : o[i] = b

InDomain(t, bs, be) ==
    /\ bs < be
    /\ LET A == AlignedOffs(t) IN bs \in A /\ be \in A      \* in particular be <= ByteLen(t)
    /\ \A i \in 1..Len(t) : t[i] # SPACE /\ t[i] # CARET

(* Lines: a line is [p0 |-> 1-based position of its first character, n |-> number of characters],
   the terminating newline (if any) belongs to the line but is not one of its n characters. *)
RECURSIVE SplitFrom(_, _, _)
SplitFrom(t, p, start) ==
    IF p > Len(t) THEN << [p0 |-> start, n |-> p - start] >>
    ELSE IF t[p] = NL THEN << [p0 |-> start, n |-> p - start] >> \o SplitFrom(t, p + 1, p + 1)
    ELSE SplitFrom(t, p + 1, start)
LinesOf(t)      == SplitFrom(t, 1, 1)
LineText(t, ln) == SubSeq(t, ln.p0, ln.p0 + ln.n - 1)

\* the line (1-based) that contains the character at 1-based position p (a newline belongs to the line it ends)
LineOfPos(t, p) == 1 + Cardinality({ j \in 1..(p - 1) : t[j] = NL })

SetMin(S) == CHOOSE x \in S : \A y \in S : x <= y
SetMax(S) == CHOOSE x \in S : \A y \in S : x >= y

\* l is a caret line for the column set I: '^' exactly at the columns of I, spaces elsewhere
IsCaretsFor(l, I) ==
    /\ \A c \in I : c <= Len(l)
    /\ \A i \in 1..Len(l) : l[i] = (IF i \in I THEN CARET ELSE SPACE)

-----------------------------------------------------------------------------
(* Facts about a case (text t, actual span [bs, be) in bytes = characters first..last), computed once per case.
   first/last : 1-based positions of the first / last span character
   LS         : the lines;  cols[L] : the columns of line L that hold span characters
   SL         : the lines that have span characters;  row / col : where the span starts
                (col = characters since line start + 1 - not part of the statement, drift only) *)
FactsC(t, first, last) ==
    LET LS    == LinesOf(t)
        cols  == [ L \in 1..Len(LS) |->
                     { c \in 1..LS[L].n : (LS[L].p0 + c - 1) >= first /\ (LS[L].p0 + c - 1) <= last } ]
        row   == LineOfPos(t, first)
    IN  [ first |-> first, last |-> last, LS |-> LS, cols |-> cols,
          SL |-> { L \in 1..Len(LS) : cols[L] # {} },
          row |-> row, col |-> first - LS[row].p0 + 1 ]

Facts(t, bs, be) == LET o == Offs(t) IN
    FactsC(t, (CHOOSE i \in 0..Len(t) : o[i] = bs) + 1, CHOOSE i \in 0..Len(t) : o[i] = be)

-----------------------------------------------------------------------------
(* LAYER A.  obs = [panicked, out_empty, out (sequence of lines = sequences of code points), row] *)
NoPanic(obs) == obs.panicked = FALSE

RowOk(F, obs) == obs.row.t = "some" /\ obs.row.row = F.row

(* The printed lines are a contiguous window of the text's lines that contains every line having
   span characters; under each such line comes a caret line with carets under exactly those
   characters; a line without span characters has no caret line (a blank one is tolerated). *)
CaretsOk(t, F, obs) ==
    LET LS  == F.LS
        out == obs.out
        SL  == F.SL
        RECURSIVE M(_, _)
        M(p, L) ==
            IF p > Len(out) THEN \A L2 \in SL : L2 < L
            ELSE /\ L <= Len(LS)
                 /\ out[p] = LineText(t, LS[L])
                 /\ IF F.cols[L] # {}
                    THEN /\ p + 1 <= Len(out)
                         /\ IsCaretsFor(out[p + 1], F.cols[L])
                         /\ M(p + 2, L + 1)
                    ELSE \/ M(p + 1, L + 1)
                         \/ /\ p + 1 <= Len(out)
                            /\ IsCaretsFor(out[p + 1], {})
                            /\ M(p + 2, L + 1)
    IN  IF SL = {}
        THEN obs.out_empty \/ \E w \in 1..Len(LS) : M(1, w)
        ELSE ~obs.out_empty /\ \E w \in 1..SetMin(SL) : M(1, w)

ContractF(t, F, obs) ==
    /\ NoPanic(obs)
    /\ RowOk(F, obs)
    /\ CaretsOk(t, F, obs)

Contract(t, bs, be, obs) == ContractF(t, Facts(t, bs, be), obs)

\* which conjunct fails first (for reporting)
FailedConjunct(t, F, obs) ==
    IF ~NoPanic(obs) THEN "panic"
    ELSE IF ~RowOk(F, obs) THEN "row"
    ELSE IF ~CaretsOk(t, F, obs) THEN "carets"
    ELSE "none"

\* coarse class of the case, used only to group reports
CaseClass(t, F) ==
    IF \A i \in 1..Len(t) : t[i] < 128 THEN "ascii"
    ELSE LET lastLine == LineOfPos(t, F.last)
             lim == F.LS[lastLine].p0 + F.LS[lastLine].n   \* position just after the last span line's text
         IN IF \A i \in 1..Len(t) : t[i] >= 128 => i > lim THEN "multibyte_after_span_lines"
            ELSE "multibyte"

-----------------------------------------------------------------------------
(* LAYER B: the intended rendering (window of +-Buffer lines, padded caret lines) *)
Buffer == 2

CaretLine(n, I) == [ c \in 1..n |-> IF c \in I THEN CARET ELSE SPACE ]

RECURSIVE RenderLines(_, _, _, _)
RenderLines(t, F, L, last) ==
    IF L > last THEN << >>
    ELSE LET ln  == F.LS[L]
             src == << LineText(t, ln) >>
             car == IF F.cols[L] # {} THEN << CaretLine(ln.n, F.cols[L]) >> ELSE << >>
         IN src \o car \o RenderLines(t, F, L + 1, last)

RenderF(t, F) ==
    LET SL == F.SL
        N  == Len(F.LS)
        rc == [ t |-> "some", row |-> F.row, col |-> F.col ]
    IN  IF SL = {}
        THEN [ panicked |-> FALSE, out_empty |-> TRUE, out |-> << >>, row |-> rc ]
        ELSE LET first == IF SetMin(SL) > Buffer THEN SetMin(SL) - Buffer ELSE 1
                 last  == IF SetMax(SL) + Buffer < N THEN SetMax(SL) + Buffer ELSE N
             IN [ panicked |-> FALSE, out_empty |-> FALSE,
                  out |-> RenderLines(t, F, first, last), row |-> rc ]

Render(t, bs, be) == RenderF(t, Facts(t, bs, be))
=============================================================================
