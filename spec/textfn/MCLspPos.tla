------------------------------ MODULE MCLspPos ------------------------------
(* Model run for C23.  The states are small documents: sequences over the five character classes
   (as representative code points), up to MaxDoc symbols.  At every document TLC
     (a) checks layer B => layer A on EVERY token layout of at most two tokens (all non-empty,
         ordered, disjoint character spans, including spans that cross newlines):
         the intended encoder's stream decodes to exactly the per-line pieces (GoodEncodeOk), and
         positions round-trip (PositionsRoundTrip);
     (b) evaluates the transcription of the implementation (ImplEncode, ImplPos) against layer A and
         emits a PREDICT line for the first layout on which it deviates - the prediction that the
         harness run then confirms or refutes on the real server;
     (c) emits the document as the surroundings of real iso literals: for every document up to MaxPre
         symbols one CASE per literal slot 1 and, for documents up to MaxPre2 symbols, per (literal slot 1,
         middle text up to MaxMid symbols, literal slot 2), concretised by the driver. *)
EXTENDS LspPos, Json

CONSTANTS MaxDoc, MaxPre, MaxPre2, MaxMid, Lits1, Lits2, Alphabet

VARIABLES doc, emitted
vars == << doc, emitted >>
Init == doc = << >> /\ emitted = FALSE

Spans(n) == { << i, j >> : i \in 0..n, j \in 0..n } 
Layouts(n) ==
    { << s >> : s \in { x \in Spans(n) : x[1] < x[2] } } \cup
    { << s, t >> : s \in { x \in Spans(n) : x[1] < x[2] }, t \in { x \in Spans(n) : x[1] < x[2] } }

ToksOf(T, lay) == [ k \in 1..Len(lay) |-> << B8(T, lay[k][1]), B8(T, lay[k][2]), k >> ]
Ordered(lay)   == Len(lay) = 1 \/ lay[1][2] <= lay[2][1]

GoodEncodeOk(d) ==
    LET T == Tables(d) IN
    \A lay \in { l \in Layouts(Len(d)) : Ordered(l) } :
        TokensOkD(d, T, ToksOf(T, lay), GoodEncode(d, T, ToksOf(T, lay)))

PositionsRoundTrip(d) ==
    LET T == Tables(d) IN
    \A i \in 0..Len(d) :
        /\ IdxOfPos(T, Ln(T, i), C16(T, i)) = i
        /\ IxOfByte(T, B8(T, i)) = i

ImplTokensDeviate(d) ==
    LET T == Tables(d) IN
    \E lay \in { l \in Layouts(Len(d)) : Ordered(l) } :
        ~TokensOkD(d, T, ToksOf(T, lay), ImplEncode(d, T, ToksOf(T, lay)))
ImplPosDeviates(d) ==
    LET T == Tables(d) IN
    \E i \in 0..Len(d) : LET p == ImplPos(T, i) IN IdxOfPos(T, p[1], p[2]) # i

Mids == UNION { [ 1..k -> Alphabet ] : k \in 0..MaxMid }

\* every document up to MaxPre symbols is emitted once as the surroundings of real literals
Emit ==
    /\ ~emitted
    /\ emitted' = TRUE
    /\ UNCHANGED doc
    /\ Len(doc) <= MaxPre =>
         \A l1 \in Lits1 :
            /\ PrintT(<< "CASE", ToJson([ pre |-> doc, lit1 |-> l1, mid |-> << >>, lit2 |-> "-" ]) >>)
            /\ Len(doc) <= MaxPre2 =>
                 \A m \in Mids : \A l2 \in Lits2 :
                    PrintT(<< "CASE", ToJson([ pre |-> doc, lit1 |-> l1, mid |-> m, lit2 |-> l2 ]) >>)

Extend ==
    /\ emitted
    /\ Len(doc) < MaxDoc
    /\ \E c \in Alphabet :
         LET d == Append(doc, c) IN
         /\ doc' = d
         /\ emitted' = FALSE
         /\ (ImplTokensDeviate(d) \/ ImplPosDeviates(d)) =>
                PrintT(<< "PREDICT", ToJson([ doc |-> d, tokens |-> ImplTokensDeviate(d), pos |-> ImplPosDeviates(d) ]) >>)
Next == Emit \/ Extend
Spec == Init /\ [][Next]_vars

DesignSatisfiesContract == GoodEncodeOk(doc) /\ PositionsRoundTrip(doc)
=============================================================================
