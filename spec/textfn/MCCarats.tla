------------------------------ MODULE MCCarats ------------------------------
(* Model run for C31: the states ARE the cases.  A text is built symbol by symbol over Alphabet
   (code points standing for the classes: 1-byte char, 2-byte char, newline); from every text
   each non-empty aligned span and each outer offset k (none, or an aligned offset <= span start;
   the inner span handed to the function is then relative to k) is one successor state.
   For every case TLC (a) checks B => A: the intended rendering satisfies the contract, and
   (b) emits the case with the predicted observation for replay against the real function. *)
EXTENDS Carats, Json, Integers

CONSTANTS MaxLen, Alphabet

VARIABLES text, cas
vars == << text, cas >>

NoCase == [ t |-> "none" ]

Init == text = << >> /\ cas = NoCase

Extend ==
    /\ cas = NoCase
    /\ Len(text) < MaxLen
    /\ \E c \in Alphabet : text' = Append(text, c)
    /\ UNCHANGED cas

CaseJson(t, bs, be, k, blen, exp) ==
    [ text  |-> t,
      s     |-> IF k < 0 THEN bs ELSE bs - k,
      e     |-> IF k < 0 THEN be ELSE be - k,
      outer |-> IF k < 0 THEN [ t |-> "none" ] ELSE [ t |-> "some", k |-> k, kend |-> blen ],
      bs    |-> bs,
      be    |-> be,
      exp   |-> exp ]

Pick ==
    /\ cas = NoCase
    /\ LET o == Offs(text) IN
       \E i \in 0..(Len(text) - 1) :
       \E j \in (i + 1)..Len(text) :
       \E kc \in (-1)..i :
          LET F   == FactsC(text, i + 1, j)
              exp == RenderF(text, F)
              k   == IF kc < 0 THEN -1 ELSE o[kc]
          IN  /\ cas' = [ t |-> "case", bs |-> o[i], be |-> o[j], k |-> k,
                          ok |-> InDomain(text, o[i], o[j]) /\ ContractF(text, F, exp) ]
              /\ PrintT(<< "CASE", ToJson(CaseJson(text, o[i], o[j], k, o[Len(text)], exp)) >>)
    /\ UNCHANGED text

Next == Extend \/ Pick

Spec == Init /\ [][Next]_vars

\* B => A on every enumerated case; also every generated case is in the stated domain
RenderSatisfiesContract ==
    cas.t = "case" => cas.ok
=============================================================================
