----------------------------- MODULE LspPosTrace -----------------------------
(* Trace validation for C23.  One record = one document opened in the real language server
   (harness/h_textfn, bin textfn_lsp) with everything the server answered about it:
     doc          the document, code points
     extractions  byte span [start, end) of every iso literal text            (ground truth)
     parse        per extraction {t:"ok", tokens: <<rel start, rel end, type>>..} | {t:"err"}   (ground truth: the parser)
     sem          semantic tokens full: {t:"ok", data: <<dLine, dStart, length, type>>..}
     fmt          formatting: {t:"ok", edits: [sl, sc, el, ec]..}, one per formattable literal, in order
     diags        [bs, be, in_doc, lsp: {t:"some", sl, sc, el, ec}]            byte span of the diagnostic / range sent
     goto         [res: {t:"some", in_doc, sl, sc, el, ec}, truth: {t:"some", bs, be, in_doc}]
     p2o          [line, ch, res: {t:"some", start, off}]  position sent by a client -> offset the server computed
   Layer A (FAIL): semantic_tokens, format_range, diagnostic_range, definition_range.
   DRIFT only   : incoming_position (the statement speaks of positions the server SENDS; what it does with
                  positions it RECEIVES is recorded, not judged - set IncomingIsLayerA to TRUE to judge it),
                  panics / errors of a request, number of edits. *)
EXTENDS LspPos, Json, IOUtils

IncomingIsLayerA == FALSE

Rec == ndJsonDeserialize(IOEnv.TRACE)

VARIABLE l
Init == l = 1

DocClass(d) == IF \A i \in 1..Len(d) : d[i] < 128 THEN "ascii"
               ELSE IF \A i \in 1..Len(d) : d[i] < 65536 THEN "bmp_multibyte" ELSE "astral"

RECURSIVE AbsToks(_, _)
AbsToks(r, k) ==
    IF k > Len(r.parse) THEN << >>
    ELSE (IF r.parse[k].t = "ok"
          THEN [ j \in 1..Len(r.parse[k].tokens) |->
                   << r.extractions[k].start + r.parse[k].tokens[j][1],
                      r.extractions[k].start + r.parse[k].tokens[j][2], r.parse[k].tokens[j][3] >> ]
          ELSE << >>) \o AbsToks(r, k + 1)

OkExtractions(r) == SelectSeq([ k \in 1..Len(r.extractions) |-> [ k |-> k, ex |-> r.extractions[k] ] ],
                              LAMBDA x : r.parse[x.k].t = "ok")

SemOk(r, T)  == r.sem.t = "ok" => TokensOkD(r.doc, T, AbsToks(r, 1), r.sem.data)
FmtOk(r, T)  == r.fmt.t = "ok" =>
                  LET ok == OkExtractions(r) IN
                  \A j \in 1..Len(r.fmt.edits) : j <= Len(ok) =>
                      Designates(T, r.fmt.edits[j], ok[j].ex.start, ok[j].ex.end)
DiagOk(r, T) == \A j \in 1..Len(r.diags) :
                  (r.diags[j].in_doc /\ r.diags[j].lsp.t = "some") =>
                      Designates(T, r.diags[j].lsp, r.diags[j].bs, r.diags[j].be)
Cands(r)     == { r.goto[j].truth : j \in { x \in 1..Len(r.goto) : r.goto[x].truth.t = "some" } }
DefOk(r, T)  == \A j \in 1..Len(r.goto) :
                  (r.goto[j].res.t = "some" /\ r.goto[j].res.in_doc) =>
                      \E c \in Cands(r) : c.in_doc /\ Designates(T, r.goto[j].res, c.bs, c.be)
IncomingBad(r, T) ==
    { j \in 1..Len(r.p2o) :
        LET e == r.p2o[j]
            i == IdxOfPos(T, e.line, e.ch)
        IN ~(e.res.t = "some" /\ IxOfByte(T, e.res.start + e.res.off) = i) }

WellFormed(r, T) ==
    /\ Len(r.parse) = Len(r.extractions)
    /\ TokensAligned(T, AbsToks(r, 1))
    /\ \A k \in 1..Len(r.extractions) : IxOfByte(T, r.extractions[k].start) >= 0 /\ IxOfByte(T, r.extractions[k].end) >= 0
    /\ \A j \in 1..Len(r.p2o) : IdxOfPos(T, r.p2o[j].line, r.p2o[j].ch) >= 0

\* IF, not a disjunction: at action level TLC would explore both disjuncts
Report(i, conj, ok, cls) == IF ok THEN TRUE ELSE PrintT(<< "FAIL", ToJson([ i |-> i, conj |-> conj, cls |-> cls ]) >>)
Note(i, cond, what, n)   == IF cond THEN PrintT(<< "DRIFT", ToJson([ i |-> i, what |-> what, n |-> n ]) >>) ELSE TRUE

Judge(i) ==
    LET r   == Rec[i]
        T   == Tables(r.doc)
        cls == DocClass(r.doc)
    IN  IF ~WellFormed(r, T) THEN PrintT(<< "BAD", ToJson([ i |-> i ]) >>)
        ELSE LET bad == IncomingBad(r, T) IN
             /\ Report(i, "semantic_tokens", SemOk(r, T), cls)
             /\ Report(i, "format_range", FmtOk(r, T), cls)
             /\ Report(i, "diagnostic_range", DiagOk(r, T), cls)
             /\ Report(i, "definition_range", DefOk(r, T), cls)
             /\ IF IncomingIsLayerA THEN Report(i, "incoming_position", bad = {}, cls)
                ELSE Note(i, bad # {}, "incoming_position", Cardinality(bad))
             /\ Note(i, r.sem.t # "ok", "semantic token request did not answer", 1)
             /\ Note(i, r.fmt.t # "ok", "format request did not answer", 1)
             /\ Note(i, r.fmt.t = "ok" /\ Len(r.fmt.edits) # Len(OkExtractions(r)), "number of edits differs from number of parseable literals", 1)
             /\ Note(i, \E j \in 1..Len(r.goto) : r.goto[j].res.t \in { "panic", "err" }, "goto definition request failed", 1)
             /\ Note(i, r.hover_range # "none", "hover answered with a range / failed", 1)

Next == l <= Len(Rec) /\ Judge(l) /\ l' = l + 1
Spec == Init /\ [][Next]_l
=============================================================================
