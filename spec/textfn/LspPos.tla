------------------------------- MODULE LspPos -------------------------------
(***************************************************************************)
(* C23 - Language-server positions address the right text.                 *)
(*                                                                         *)
(* Layer A.  What a position / range / token stream DESIGNATES in a        *)
(* document under the LSP conventions, and the predicates                  *)
(*    Designates  : a range the server sends for something whose source    *)
(*                  extent is the byte span [bs, be) designates exactly    *)
(*                  that text;                                             *)
(*    TokensOk    : the semantic-token delta stream decodes to increasing, *)
(*                  non-overlapping ranges, one per source token - a       *)
(*                  source token that spans several lines is covered by    *)
(*                  one range per line (LSP tokens cannot span lines       *)
(*                  unless the client announces multilineTokenSupport).    *)
(* LSP rule used for columns beyond the end of a line: "if the character   *)
(* value is greater than the line length it defaults back to the line      *)
(* length".  A column that falls between the two UTF-16 units of one       *)
(* character designates nothing (-1).                                       *)
(*                                                                         *)
(* Layer B.  GoodEncode: the encoder the design intends (UTF-16 units).    *)
(*           ImplEncode / ImplPos: transcription of crates/isograph_lsp    *)
(*           semantic_tokens.rs / format.rs as repaired by                 *)
(*           fix_c23_utf16_positions (one token per split_inclusive        *)
(*           segment, possibly zero-width; UTF-16 arithmetic) - the model  *)
(*           run reports (PREDICT) every document on which it deviates     *)
(*           from layer A: none.                                           *)
(***************************************************************************)
EXTENDS Utf

\* boundary index designated by an LSP position, -1 if it designates nothing
IdxOfPos(T, l, c) ==
    IF l < 0 \/ l >= T.lines \/ c < 0 THEN -1
    ELSE LET s == LineStart(T, l)
             e == LineEnd(T, l)
         IN  IF c >= C16(T, e) THEN e
             ELSE IF s + c <= e /\ C16(T, s + c) = c THEN s + c       \* fast path: only 1-unit characters before
             ELSE IF \E i \in s..e : C16(T, i) = c THEN CHOOSE i \in s..e : C16(T, i) = c
             ELSE -1

PosOfIdx(T, i) == << Ln(T, i), C16(T, i) >>

\* range = [sl, sc, el, ec]
Designates(T, r, bs, be) ==
    LET i1 == IdxOfPos(T, r.sl, r.sc)
        i2 == IdxOfPos(T, r.el, r.ec)
    IN  i1 >= 0 /\ i2 >= 0 /\ i1 = IxOfByte(T, bs) /\ i2 = IxOfByte(T, be)

-----------------------------------------------------------------------------
(* Source tokens: sequence of << byte start, byte end, type >> (absolute, in document order).
   Pieces: the per-line parts of the tokens as << boundary a, boundary b, type >>, a < b, without
   the newlines. *)
RECURSIVE PiecesOfRun(_, _, _, _, _)
PiecesOfRun(d, a, i, b, ty) ==       \* a = start of the current run, i = scan position, [.., b) the token
    IF i = b THEN IF a < b THEN << << a, b, ty >> >> ELSE << >>
    ELSE IF d[i + 1] = NL
         THEN (IF a < i THEN << << a, i, ty >> >> ELSE << >>) \o PiecesOfRun(d, i + 1, i + 1, b, ty)
         ELSE PiecesOfRun(d, a, i + 1, b, ty)

RECURSIVE Pieces(_, _, _, _)
Pieces(d, T, toks, k) ==
    IF k > Len(toks) THEN << >>
    ELSE PiecesOfRun(d, IxOfByte(T, toks[k][1]), IxOfByte(T, toks[k][1]), IxOfByte(T, toks[k][2]), toks[k][3])
         \o Pieces(d, T, toks, k + 1)

TokensAligned(T, toks) ==
    \A k \in 1..Len(toks) : IxOfByte(T, toks[k][1]) >= 0 /\ IxOfByte(T, toks[k][2]) >= 0 /\ toks[k][1] < toks[k][2]

\* decode the delta stream: data[k] = << deltaLine, deltaStart, length, type >>
RECURSIVE Decode(_, _, _, _, _)
Decode(T, data, k, line, start) ==
    IF k > Len(data) THEN << >>
    ELSE LET l2 == line + data[k][1]
             s2 == IF data[k][1] = 0 THEN start + data[k][2] ELSE data[k][2]
             a  == IdxOfPos(T, l2, s2)
             b  == IdxOfPos(T, l2, s2 + data[k][3])
         IN  << << a, b, data[k][4] >> >> \o Decode(T, data, k + 1, l2, s2)

Increasing(iv) == \A k \in 1..(Len(iv) - 1) : iv[k][2] <= iv[k + 1][1]

TokensOkD(d, T, toks, data) ==
    LET dec == Decode(T, data, 1, 0, 0)
        vis == SelectSeq(dec, LAMBDA x : x[1] # x[2])       \* zero-width tokens are invisible: tolerated
    IN  /\ \A k \in 1..Len(dec) : dec[k][1] >= 0 /\ dec[k][2] >= 0 /\ dec[k][1] <= dec[k][2]
        /\ Increasing(vis)
        /\ vis = Pieces(d, T, toks, 1)

-----------------------------------------------------------------------------
(* Layer B *)
RECURSIVE EncodePieces(_, _, _, _, _)
EncodePieces(T, ps, k, line, start) ==
    IF k > Len(ps) THEN << >>
    ELSE LET l2 == Ln(T, ps[k][1])
             s2 == C16(T, ps[k][1])
         IN << << l2 - line, IF l2 = line THEN s2 - start ELSE s2,
                  C16(T, ps[k][2]) - s2, ps[k][3] >> >> \o EncodePieces(T, ps, k + 1, l2, s2)
GoodEncode(d, T, toks) == EncodePieces(T, Pieces(d, T, toks, 1), 1, 0, 0)

\* the implementation: segments of split_inclusive('\n') (boundaries a..b, b after the newline if any)
RECURSIVE ImplSegs(_, _, _, _, _)
ImplSegs(d, a, i, b, ty) ==
    IF i = b THEN IF a < b THEN << << a, b, ty >> >> ELSE << >>
    ELSE IF d[i + 1] = NL THEN << << a, i + 1, ty >> >> \o ImplSegs(d, i + 1, i + 1, b, ty)
         ELSE ImplSegs(d, a, i + 1, b, ty)
RECURSIVE ImplAllSegs(_, _, _, _)
ImplAllSegs(d, T, toks, k) ==
    IF k > Len(toks) THEN << >>
    ELSE ImplSegs(d, IxOfByte(T, toks[k][1]), IxOfByte(T, toks[k][1]), IxOfByte(T, toks[k][2]), toks[k][3])
         \o ImplAllSegs(d, T, toks, k + 1)
\* delta_line_delta_start(text between boundaries p and q), repaired (fix_c23_utf16_positions):
\* (newlines in between, UTF-16 units after the last of them)
ImplDelta(d, T, p, q) ==
    LET nls == { j \in (p + 1)..q : d[j] = NL }
    IN  << Cardinality(nls), IF nls = {} THEN C16(T, q) - C16(T, p) ELSE C16(T, q) >>
\* token length, repaired: UTF-16 units of the segment without its newline
ImplLen(d, T, a, b) == LET e == IF d[b] = NL THEN b - 1 ELSE b IN C16(T, e) - C16(T, a)
RECURSIVE ImplEncodeSegs(_, _, _, _, _)
ImplEncodeSegs(d, T, sg, k, prev) ==
    IF k > Len(sg) THEN << >>
    ELSE LET dl == ImplDelta(d, T, prev, sg[k][1])
         IN << << dl[1], dl[2], ImplLen(d, T, sg[k][1], sg[k][2]), sg[k][3] >> >>
            \o ImplEncodeSegs(d, T, sg, k + 1, sg[k][1])
ImplEncode(d, T, toks) == ImplEncodeSegs(d, T, ImplAllSegs(d, T, toks, 1), 1, 0)

\* char_index_to_position of format.rs, repaired: (newlines before, UTF-16 units since the line start)
ImplPos(T, i) == << Ln(T, i), C16(T, i) >>

(* Before the repair (kept for the record, not used): delta start = BYTES of the in-between text minus the
   CHARACTER index after its last newline; length = BYTES of the segment including its newline; position
   column = BYTES since the line start.  The smallest document on which that deviated: e-acute followed by a. *)
=============================================================================
