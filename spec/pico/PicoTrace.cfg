SPECIFICATION Spec
CONSTANTS
  Keys = {"A", "B"}
  KeyOrder <- KeyOrderAB
  Nodes <- AllNodes
  Capacity = 1
POSTCONDITION AllConsumed
