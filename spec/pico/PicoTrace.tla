----------------------------- MODULE PicoTrace -----------------------------
(* impl -> spec: validates histories RECORDED FROM THE REAL pico crate (by harness/h_pico)
   against layer A (PicoA).  One ndjson record per user operation, many histories per file
   separated by {"op":"reset","id":..}.  Deterministic, so validation is linear.
   Every violated property id is printed as  <<"BAD", json>>  (all histories are judged, not only
   the first failing one); the POSTCONDITION checks that every record was consumed.
   A history whose next operation is outside the property's domain given what was OBSERVED so far
   (possible only when the implementation deviated from the model that generated the history) is
   reported as PRECONDITION and not judged beyond that point. *)
EXTENDS PicoProgram, TLC, Json, IOUtils

CONSTANTS Capacity

KeyOrderAB == <<"A", "B">>

A == INSTANCE PicoA

Rec == ndJsonDeserialize(IOEnv.TRACE)

VARIABLES l, mon, tid, dead, j     \* j = index of the record within its history

vars == <<l, mon, tid, dead, j>>

Init == l = 1 /\ mon = A!InitMon /\ tid = 0 /\ dead = FALSE /\ j = 0

Report(r, bad) ==
  IF bad = {} THEN TRUE ELSE PrintT(<<"BAD", ToJson([id |-> tid, at |-> j + 1, bad |-> bad, op |-> r.op])>>)

Pre(r, ok) == IF ok THEN TRUE ELSE PrintT(<<"PRECONDITION", ToJson([id |-> tid, at |-> j + 1, op |-> r.op])>>)

HasRes(r) == "res" \in DOMAIN r
ResOf(r) == IF HasRes(r) THEN r.res ELSE [t |-> "val", v |-> 0]

Next ==
  /\ l <= Len(Rec)
  /\ l' = l + 1
  /\ j' = IF Rec[l].op = "reset" THEN 0 ELSE j + 1
  /\ LET r == Rec[l] IN
     CASE r.op = "reset" -> mon' = A!InitMon /\ tid' = r.id /\ dead' = FALSE
       [] dead -> UNCHANGED <<mon, tid, dead>>
       [] r.op = "set" -> mon' = A!WriteA(mon, r.k, r.v) /\ UNCHANGED <<tid, dead>>
       [] r.op = "remove" -> mon' = A!WriteA(mon, r.k, Absent) /\ UNCHANGED <<tid, dead>>
       [] r.op = "minsert" -> mon' = A!TouchA(mon, mon.mp \cup {r.k}) /\ UNCHANGED <<tid, dead>>
       [] r.op = "mremove" -> mon' = A!TouchA(mon, mon.mp \ {r.k}) /\ UNCHANGED <<tid, dead>>
       [] r.op \in {"call", "retain"} ->
            LET a == A!CallA(mon, r.evs, ResOf(r))
                ok == ResOf(r).t # "panic"
                pre == DefN(r.n, mon.src, mon.mp)
            IN /\ Pre(r, pre)
               /\ IF pre THEN Report(r, a.bad) ELSE TRUE
               /\ mon' = IF ~pre THEN mon ELSE IF r.op = "retain" /\ ok THEN A!RetainA(a.m, r.n) ELSE a.m
               /\ dead' = (~ok \/ ~pre)
               /\ UNCHANGED tid
       [] r.op = "clear" -> mon' = A!ClearA(mon, r.n) /\ UNCHANGED <<tid, dead>>
       [] r.op = "gc" ->
            /\ Report(r, IF ResOf(r).t = "panic" THEN {"C03"} ELSE {})
            /\ mon' = A!GcA(mon) /\ dead' = (ResOf(r).t = "panic") /\ UNCHANGED tid
       [] r.op = "lookup" ->
            /\ Pre(r, A!CanLookupA(mon, r.n))
            /\ IF A!CanLookupA(mon, r.n) THEN Report(r, A!LookupBadA(mon, r.n, ResOf(r))) ELSE TRUE
            /\ dead' = (ResOf(r).t = "panic" \/ ~A!CanLookupA(mon, r.n)) /\ UNCHANGED <<mon, tid>>

Spec == Init /\ [][Next]_vars

AllConsumed ==
  \/ TLCGet("stats").diameter = Len(Rec) + 1
  \/ PrintT(<<"UNCONSUMED", ToJson([diameter |-> TLCGet("stats").diameter, len |-> Len(Rec)])>>) /\ FALSE
=============================================================================
