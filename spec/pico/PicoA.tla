------------------------------ MODULE PicoA ------------------------------
(* Layer A: the property monitor for C01, C02, C03 (and C04 through C01), written from the
   property statements.  It is a pure fold over what can be OBSERVED from outside pico:
   the operations the user issued, which bodies started/finished (the bodies are ours), what
   they read and what every memoized call returned.

   mon = [ src     : current value of every source (Absent = removed / never set),
           mp      : keys currently in the tracked map field,
           ran     : body has run at least once,
           stale   : a DIRECT input of the last run changed since (source written with a different
                     value or removed; tracked field mutably accessed; direct callee re-executed
                     and produced a different value),
           gone    : a garbage collection since the last run did not have to keep the result,
           surv    : a garbage collection since the last run DID have to keep it (C03 vs C02),
           lastIn  : direct inputs of the last run,  lastVal : its value,
           keep    : retain counts,  calls : last Capacity distinct user calls, most recent first,
           held    : the user holds a MemoRef for the node (it was called at top level) ]

   C01  every memoized call (outermost or nested) returns EvalN(node, current sources).
   C02  a body may start only if it never ran, a collection did not have to keep its result, or one
        of the DIRECT inputs of its last run changed: a source it read was written with a different
        value or removed since (sticky flag `stale`, or its current value differs from the value
        seen), the tracked field it read was mutably accessed, or a memoized function it called
        returns — or has meanwhile returned — a value different from the one it saw (`stale`, or the
        callee's from-scratch value on the current sources differs from the value seen).  This is the
        statement's rule: re-execution needs a transitively read source that changed, and is
        forbidden when every intermediate it depends on still returns the value it saw (backdating).
        It does not depend on the order in which an implementation re-verifies dependencies.
   C03  same rule for results a collection had to keep (surv), and lookups of kept results
        return the value of their last run. *)
EXTENDS PicoProgram, TLC

CONSTANT Capacity

NodeSet == Nodes

InitMon == [ src   |-> [k \in SrcKeys |-> Absent],
             mp    |-> {},
             ran   |-> [n \in NodeSet |-> FALSE],
             stale |-> [n \in NodeSet |-> FALSE],
             gone  |-> [n \in NodeSet |-> FALSE],
             surv  |-> [n \in NodeSet |-> FALSE],
             lastIn  |-> [n \in NodeSet |-> {}],
             lastSeen |-> [n \in NodeSet |-> {}],    \* <<kind, id, value seen>> of the last run
             lastVal |-> [n \in NodeSet |-> 0],
             keep  |-> [n \in NodeSet |-> 0],
             held  |-> [n \in NodeSet |-> FALSE],
             calls |-> <<>> ]

SeqToSet(s) == {s[i] : i \in DOMAIN s}

\* ---- writes --------------------------------------------------------------------------------
\* v = Absent is a removal.  Equal-value writes change nothing (C02).
WriteA(m, k, v) ==
  IF m.src[k] = v THEN m
  ELSE [m EXCEPT !.src[k] = v,
                 !.stale = [n \in NodeSet |-> @[n] \/ (<<"src", k>> \in m.lastIn[n])]]

\* a mutable tracked access: the field counts as written even if the map ends up equal
TouchA(m, newmp) ==
  [m EXCEPT !.mp = newmp,
            !.src[CNT] = 0,     \* the counter's value is never observed; only "it changed" matters
            !.stale = [n \in NodeSet |-> @[n] \/ (<<"src", CNT>> \in m.lastIn[n])]]

\* ---- events of one user operation ----------------------------------------------------------
InputDiffers(m, t) ==
  \/ t[1] = "fn" /\ EvalN(t[2], m.src, m.mp) # t[3]
  \/ t[1] = "src" /\ t[2] # CNT /\ m.src[t[2]] # t[3]
MayRun(m, n) == ~m.ran[n] \/ m.stale[n] \/ m.gone[n] \/ \E t \in m.lastSeen[n] : InputDiffers(m, t)

PutFront(s, n, cap) ==
  LET t == <<n>> \o SelectSeq(s, LAMBDA x : x # n)
  IN IF Len(t) > cap THEN SubSeq(t, 1, cap) ELSE t

\* returns [m |-> mon', bad |-> set of property ids violated by this event]
StepEv(m, ev) ==
  CASE ev.e = "ucall" -> [m |-> [m EXCEPT !.calls = PutFront(@, ev.n, Capacity), !.held[ev.n] = TRUE], bad |-> {}]
    [] ev.e = "enter" ->
         [m |-> m,
          \* an unjustified start is a C02 violation; if a collection since the last run had to keep
          \* the result it is a C03 violation as well (whether the result was dropped or merely
          \* re-executed cannot be told apart from outside)
          bad |-> IF MayRun(m, ev.n) THEN {}
                  ELSE IF m.surv[ev.n] THEN {"C02", "C03"} ELSE {"C02"}]
    [] ev.e = "exit" ->
         LET n == ev.n
             seen == SeqToSet(ev.ins)                       \* triples <<kind, id, value>>
             ins == {<<t[1], t[2]>> : t \in seen}
             changed == ~m.ran[n] \/ m.lastVal[n] # ev.v
         IN [m |-> [m EXCEPT !.ran[n] = TRUE, !.gone[n] = FALSE, !.surv[n] = FALSE,
                             !.lastIn[n] = ins, !.lastSeen[n] = seen, !.lastVal[n] = ev.v,
                             !.stale = [q \in NodeSet |->
                                          IF q = n THEN FALSE
                                          ELSE @[q] \/ (changed /\ <<"fn", n>> \in m.lastIn[q])]],
             \* every body result must be the from-scratch value as well (C01, nested)
             bad |-> IF ev.v = EvalN(n, m.src, m.mp) THEN {} ELSE {"C01"}]
    [] ev.e = "ret" ->   \* a memoized call (outermost or nested) or a tracked MemoRef read returned ev.v
         [m |-> [m EXCEPT !.gone[ev.n] = FALSE],
          bad |-> IF ev.v = EvalN(ev.n, m.src, m.mp) THEN {} ELSE {"C01"}]

RECURSIVE FoldEvs(_, _, _, _)
FoldEvs(m, evs, i, bad) ==
  IF i > Len(evs) THEN [m |-> m, bad |-> bad]
  ELSE LET r == StepEv(m, evs[i]) IN FoldEvs(r.m, evs, i + 1, bad \cup r.bad)

\* a user operation that calls memoized functions; res = [t |-> "val", v |-> ..] or [t |-> "panic"]
CallA(m, evs, res) ==
  LET r == FoldEvs(m, evs, 1, {})
  IN [m |-> r.m, bad |-> r.bad \cup (IF res.t = "panic" THEN {"C01"} ELSE {})
                                \cup (IF res.t = "ub" THEN {"C03"} ELSE {})]     \* the memory checker reported an invalid access

RetainA(m, n)  == [m EXCEPT !.keep[n] = @ + 1]
ClearA(m, n)   == [m EXCEPT !.keep[n] = IF @ > 0 THEN @ - 1 ELSE 0]

\* ---- garbage collection --------------------------------------------------------------------
RECURSIVE ClosureA(_, _)
ClosureA(m, S) ==
  LET T == S \cup {c \in NodeSet : \E p \in S : <<"fn", c>> \in m.lastIn[p]}
  IN IF T = S THEN S ELSE ClosureA(m, T)

ProtectedA(m) == ClosureA(m, {n \in NodeSet : m.keep[n] > 0} \cup SeqToSet(m.calls))

GcA(m) ==
  LET P == ProtectedA(m)
  IN [m EXCEPT !.gone = [n \in NodeSet |-> @[n] \/ n \notin P],
               !.surv = [n \in NodeSet |-> @[n] \/ (n \in P /\ m.ran[n] /\ ~m.gone[n])]]

\* lookup of a MemoRef previously returned for node n (only issued when the result must still exist)
CanLookupA(m, n) == m.held[n] /\ m.ran[n] /\ ~m.gone[n]
LookupBadA(m, n, res) ==
  IF res.t = "val" /\ res.v = m.lastVal[n] THEN {} ELSE {"C03"}
=============================================================================
