------------------------------ MODULE PicoB ------------------------------
(* Layer B: implementation-shaped model of crates/pico, one operator per function of the code.

     Exec         = execute_memoized_function          (execute_memoized_function.rs)
     DepsChanged  = any_dependency_changed + source_node_changed_since + derived_node_changed_since
     Create/Update= create_derived_node / update_derived_node (backdating)
     RunBody/RunE = invoke_with_dependency_tracking + the body; PushDep = TrackedDependencies::push
     SetB/RemoveB = InternalStorage::set_source / remove_source            (database.rs)
     GcB          = Storage::run_garbage_collection + InternalStorage::run_garbage_collection

   pico is sequential: one public call = one atomic step; the linearization point is the return.

   db = [ ep   : current epoch,
          sn   : SrcKeys -> [p, tu]       source node present? time_updated   (values live in mon.src)
          tomb : SrcKeys -> epoch of the last removal (0 = never removed)      [only with FixAbsent]
          rv   : KeySet -> [p, tu, tv, val, deps, fn]   derived_node_id_to_revision + node + dependency vector,
                 indexed by the CACHE KEY KeyOf(node) (hash of the signature text [+ module path])
          top  : top_level_calls since the last collection (distinct, oldest first — only the order
                 of last occurrence matters to LruCache::put)
          lru  : top_level_call_lru_cache, most recent first
          keep : retained_calls ]

   The three switches select the code as pinned (FALSE) or as repaired by the `fix:` commits (TRUE);
   the checks run with the values that describe /repo's current tree, the FALSE variants document
   the counterexamples TLC finds for the original design. *)
EXTENDS PicoProgram, TLC

CONSTANTS Capacity,
          FixAbsent,     \* absent-source reads register a dependency; first insert starts a new epoch; tombstones
          FixEqWrite,    \* an equal-value write leaves time_updated alone
          FixTopLevel,   \* dependency verification does not record dependencies as top-level calls
          FixVerifyRegs, \* dependency verification does not register the verified nodes in the frame on top of the stack
          KeyOf(_)       \* node -> cache key (C04: the pinned macro hashes the signature text only)

Max(a, b) == IF a > b THEN a ELSE b

K(n) == KeyOf(n)
KeySet == {KeyOf(n) : n \in Nodes} \cup (IF UsesInternRef THEN IrKeys ELSE {})

\* fn = the node whose inner_fn is stored in the DerivedNode (used when the node is re-verified as a dependency)
NoRev == [p |-> FALSE, tu |-> 0, tv |-> 0, val |-> 0, deps |-> <<>>, fn |-> ""]

InitDb == [ ep   |-> 1,
            sn   |-> [k \in SrcKeys |-> [p |-> FALSE, tu |-> 0]],
            tomb |-> [k \in SrcKeys |-> 0],
            rv   |-> [c \in KeySet |-> NoRev],
            top  |-> <<>>,
            lru  |-> <<>>,
            keep |-> [c \in KeySet |-> 0] ]

\* ---- sources -------------------------------------------------------------------------------
\* set_source; `differs` = the new value is not dyn_eq to the stored one
SetB(db, k, differs) ==
  IF db.sn[k].p
  THEN IF differs THEN [db EXCEPT !.ep = @ + 1, !.sn[k].tu = db.ep + 1]
       ELSE IF FixEqWrite THEN db ELSE [db EXCEPT !.sn[k].tu = db.ep]
  ELSE IF FixAbsent THEN [db EXCEPT !.ep = @ + 1, !.sn[k] = [p |-> TRUE, tu |-> db.ep + 1]]
       ELSE [db EXCEPT !.sn[k] = [p |-> TRUE, tu |-> db.ep]]

RemoveB(db, k) ==
  IF db.sn[k].p
  THEN [db EXCEPT !.ep = @ + 1, !.sn[k] = [p |-> FALSE, tu |-> 0],
                  !.tomb[k] = IF FixAbsent THEN db.ep + 1 ELSE 0]
  ELSE db

\* MutView::tracked(): read the counter (outside any memoized function), set its successor
TouchB(db) == SetB(db, CNT, TRUE)

\* ---- the interpreter state of one body execution ---------------------------------------------
\* st = [db, src, mp, deps, mx, evs, ins, ret, panic]
PushDep(st, kind, id, tu) ==
  LET d == [k |-> kind, id |-> id, st |-> st.db.ep]
      n == Len(st.deps)
  IN [st EXCEPT !.mx = Max(@, tu),
                !.deps = IF n > 0 /\ st.deps[n].k = kind /\ st.deps[n].id = id
                         THEN [@ EXCEPT ![n] = d] ELSE Append(@, d)]

RECURSIVE PushRegs(_, _)
PushRegs(st, regs) == IF regs = <<>> THEN st ELSE PushRegs(PushDep(st, "fn", Head(regs).id, Head(regs).tu), Tail(regs))

PutTop(top, n) == Append(SelectSeq(top, LAMBDA x : x # n), n)

RECURSIVE Exec(_, _, _, _, _), DepsChanged(_, _, _, _, _, _, _, _), RunE(_, _), RunBody(_, _, _, _), SumKeys(_, _), SumLeaves(_, _)

\* result of Exec: [db, did, tu, evs, panic, regs]
\* regs = the dependency registrations that this call performs in the ENCLOSING frame, in order: every
\* execute_memoized_function ends with register_dependency_in_parent_memoized_fn, which pushes onto the
\* frame on top of the dependency stack.  A dependency that is only VERIFIED (no frame of its own is
\* pushed for the node being verified) therefore registers the nodes it re-verifies in the frame of
\* whoever is executing — they become direct dependencies of that caller.
Reg(id, tu) == [id |-> id, tu |-> tu]
Reused(db, n, evs, regs) == [db |-> db, did |-> "reused", tu |-> db.rv[K(n)].tu, evs |-> evs, panic |-> FALSE,
                             regs |-> Append(regs, Reg(K(n), db.rv[K(n)].tu))]

Create(db, src, mp, n, evs0) ==
  LET r == RunBody(db, src, mp, n)
  IN IF r.panic THEN [db |-> r.db, did |-> "error", tu |-> 1, evs |-> evs0 \o r.evs, panic |-> TRUE, regs |-> <<>>]
     ELSE [db |-> [r.db EXCEPT !.rv[K(n)] = [p |-> TRUE, tu |-> r.mx, tv |-> r.db.ep, val |-> r.val, deps |-> r.deps, fn |-> n]],
           did |-> "recalc", tu |-> r.mx, evs |-> evs0 \o r.evs, panic |-> FALSE, regs |-> <<Reg(K(n), r.mx)>>]

Update(db, src, mp, n, evs0, regs0) ==
  LET prev == db.rv[K(n)].val
      r == RunBody(db, src, mp, n)
      regs == Append(regs0, Reg(K(n), r.mx))
  IN IF r.panic THEN [db |-> r.db, did |-> "error", tu |-> 1, evs |-> evs0 \o r.evs, panic |-> TRUE, regs |-> regs0]
     ELSE IF r.val # prev
          THEN [db |-> [r.db EXCEPT !.rv[K(n)].deps = r.deps, !.rv[K(n)].tu = r.mx, !.rv[K(n)].val = r.val, !.rv[K(n)].fn = n],
                did |-> "recalc", tu |-> r.mx, evs |-> evs0 \o r.evs, panic |-> FALSE, regs |-> regs]
          ELSE [db |-> [r.db EXCEPT !.rv[K(n)].deps = r.deps],     \* backdated: time_updated stays
                did |-> "reused", tu |-> r.mx, evs |-> evs0 \o r.evs, panic |-> FALSE, regs |-> regs]

\* stackEmpty = dependency_stack.is_empty() at entry
Exec(db, src, mp, n, stackEmpty) ==
  LET db1 == IF stackEmpty THEN [db EXCEPT !.top = PutTop(@, K(n))] ELSE db
  IN IF ~db1.rv[K(n)].p THEN Create(db1, src, mp, n, <<>>)
     ELSE IF db1.rv[K(n)].tv = db1.ep THEN Reused(db1, n, <<>>, <<>>)
     ELSE LET db2 == [db1 EXCEPT !.rv[K(n)].tv = db1.ep]
              dc  == DepsChanged(db2, src, mp, n, 1, <<>>, IF FixTopLevel THEN FALSE ELSE stackEmpty, <<>>)
              \* FixVerifyRegs (fix in /repo): a dependency that is only being VERIFIED brings itself up to date without
              \* registering in the frame on top of the stack, so nothing reaches the enclosing frame but n itself
              vregs == IF FixVerifyRegs THEN <<>> ELSE dc.regs
          IN IF dc.panic THEN [db |-> dc.db, did |-> "error", tu |-> 1, evs |-> dc.evs, panic |-> TRUE, regs |-> vregs]
             ELSE IF dc.changed THEN Update(dc.db, src, mp, n, dc.evs, vregs)
             ELSE Reused(dc.db, n, dc.evs, vregs)

SrcChangedSince(db, k, since) ==
  IF db.sn[k].p THEN db.sn[k].tu > since
  ELSE IF FixAbsent THEN db.tomb[k] > since ELSE TRUE

\* iterate the dependency vector of n (as stored when the call started) from position i
DepsChanged(db, src, mp, n, i, evs, se, regs) ==
  LET deps == db.rv[K(n)].deps
  IN IF i > Len(deps) THEN [db |-> db, changed |-> FALSE, evs |-> evs, panic |-> FALSE, regs |-> regs]
     ELSE LET d == deps[i]
              yes == [db |-> db, changed |-> TRUE, evs |-> evs, panic |-> FALSE, regs |-> regs]
          IN IF d.st = db.ep THEN DepsChanged(db, src, mp, n, i + 1, evs, se, regs)
             ELSE IF d.k = "src"
                  THEN IF SrcChangedSince(db, d.id, d.st) THEN yes
                       ELSE DepsChanged(db, src, mp, n, i + 1, evs, se, regs)
             ELSE IF ~db.rv[d.id].p THEN yes
             ELSE IF db.rv[d.id].tu > d.st THEN yes
             ELSE IF db.rv[d.id].deps = <<>> THEN DepsChanged(db, src, mp, n, i + 1, evs, se, regs)
             ELSE LET r == Exec(db, src, mp, db.rv[d.id].fn, se)   \* the STORED inner_fn
                  IN IF r.panic THEN [db |-> r.db, changed |-> TRUE, evs |-> evs \o r.evs, panic |-> TRUE, regs |-> regs \o r.regs]
                     ELSE IF r.did \in {"recalc", "error"}
                          THEN [db |-> r.db, changed |-> TRUE, evs |-> evs \o r.evs, panic |-> FALSE, regs |-> regs \o r.regs]
                          ELSE DepsChanged(r.db, src, mp, n, i + 1, evs \o r.evs, se, regs \o r.regs)

RunBody(db, src, mp, n) ==
  LET st0 == [db |-> db, src |-> src, mp |-> mp, deps |-> <<>>, mx |-> 1,
              evs |-> <<[e |-> "enter", n |-> n]>>, ins |-> <<>>, ret |-> 0, panic |-> FALSE]
      st == RunE(st0, Body(n))
  IN [db |-> st.db, val |-> st.ret, deps |-> st.deps, mx |-> st.mx, panic |-> st.panic,
      evs |-> IF st.panic THEN st.evs
              ELSE Append(st.evs, [e |-> "exit", n |-> n, v |-> st.ret, ins |-> st.ins])]

ReadKeyed(st, k) ==      \* Storage::get: panics when the source is absent
  IF ~st.db.sn[k].p THEN [st EXCEPT !.panic = TRUE]
  ELSE [PushDep(st, "src", k, st.db.sn[k].tu) EXCEPT !.ret = st.src[k], !.ins = Append(@, <<"src", k, st.src[k]>>)]

SeenVal(st, k) == IF k = CNT THEN 0 ELSE st.src[k]     \* the counter's value is never observed
ReadSingleton(st, k) ==  \* Storage::get_singleton -> Option
  IF st.db.sn[k].p
  THEN [PushDep(st, "src", k, st.db.sn[k].tu) EXCEPT !.ret = st.src[k], !.ins = Append(@, <<"src", k, SeenVal(st, k)>>)]
  ELSE IF FixAbsent
       THEN [PushDep(st, "src", k, Max(1, st.db.tomb[k])) EXCEPT !.ret = Absent, !.ins = Append(@, <<"src", k, SeenVal(st, k)>>)]
       ELSE [st EXCEPT !.ret = Absent, !.ins = Append(@, <<"src", k, SeenVal(st, k)>>)]

SortedKeys(S) == SelectSeq(KeyOrder, LAMBDA k : k \in S)   \* ascending iteration order of the BTreeMap in the harness

SumKeys(st, ks) ==       \* fold ReadKeyed over a sequence of keys, accumulating the sum in .ret
  IF ks = <<>> THEN st
  ELSE LET acc == st.ret
           s1 == ReadKeyed(st, Head(ks))
       IN IF s1.panic THEN s1 ELSE SumKeys([s1 EXCEPT !.ret = acc + s1.ret], Tail(ks))

SumLeaves(st, ks) ==     \* fold the memoized call leaf(db, id) over a sequence of keys, accumulating the sum in .ret
  IF ks = <<>> THEN st
  ELSE LET acc == st.ret
           s1 == RunE(st, [t |-> "fn", m |-> "leaf:" \o Head(ks)])
       IN IF s1.panic THEN s1 ELSE SumLeaves([s1 EXCEPT !.ret = acc + s1.ret], Tail(ks))

RunE(st, e) ==
  IF st.panic THEN st
  ELSE CASE e.t = "const" -> [st EXCEPT !.ret = e.v]
    [] e.t = "src"   -> ReadKeyed(st, e.k)
    [] e.t = "sing"  -> LET s1 == ReadSingleton(st, SING) IN [s1 EXCEPT !.ret = IF @ = Absent THEN 0 ELSE @]
    [] e.t = "fn"    ->
         LET r == Exec(st.db, st.src, st.mp, e.m, FALSE)
         IN IF r.panic THEN [st EXCEPT !.db = r.db, !.evs = @ \o r.evs, !.panic = TRUE]
            ELSE LET s1 == PushRegs([st EXCEPT !.db = r.db], r.regs)
                     v == r.db.rv[K(e.m)].val
                 IN [s1 EXCEPT !.ret = v, !.ins = Append(@, <<"fn", e.m, v>>),
                               !.evs = (@ \o r.evs) \o <<[e |-> "ret", n |-> e.m, v |-> v]>>]
    [] e.t = "look"  ->  \* MemoRef::lookup_tracked: no execution, dependency on the stored revision
         IF ~st.db.rv[K(e.m)].p THEN [st EXCEPT !.panic = TRUE]
         ELSE LET s1 == PushDep(st, "fn", K(e.m), st.db.rv[K(e.m)].tu)
                  v == st.db.rv[K(e.m)].val
              IN [s1 EXCEPT !.ret = v, !.ins = Append(@, <<"fn", e.m, v>>),
                            !.evs = Append(@, [e |-> "ret", n |-> e.m, v |-> v])]
    [] e.t = "mkref" ->  \* call m, then Database::intern_ref(&value.1): node keyed by the VALUE, no dependencies
         LET r == Exec(st.db, st.src, st.mp, e.m, FALSE)
         IN IF r.panic THEN [st EXCEPT !.db = r.db, !.evs = @ \o r.evs, !.panic = TRUE]
            ELSE LET s1 == PushRegs([st EXCEPT !.db = r.db], r.regs)
                     v  == r.db.rv[K(e.m)].val
                     id == IrKey(v)
                     old == s1.db.rv[id]
                     db2 == IF ~old.p
                            THEN [s1.db EXCEPT !.rv[id] = [p |-> TRUE, tu |-> s1.db.ep, tv |-> s1.db.ep, val |-> v, deps |-> <<>>, fn |-> ""]]
                            ELSE [s1.db EXCEPT !.rv[id].tv = s1.db.ep]      \* (re-points the raw pointer if it changed)
                     s2 == PushDep([s1 EXCEPT !.db = db2], "fn", id, db2.rv[id].tu)
                 IN [s2 EXCEPT !.ret = v, !.ins = Append(@, <<"fn", e.m, v>>),
                               !.evs = (@ \o r.evs) \o <<[e |-> "ret", n |-> e.m, v |-> v]>>]
    [] e.t = "deref" ->  \* call m (returns the MemoRef), then MemoRef::lookup_tracked on the intern_ref node
         LET r == Exec(st.db, st.src, st.mp, e.m, FALSE)
         IN IF r.panic THEN [st EXCEPT !.db = r.db, !.evs = @ \o r.evs, !.panic = TRUE]
            ELSE LET s1 == PushRegs([st EXCEPT !.db = r.db], r.regs)
                     v  == r.db.rv[K(e.m)].val
                     id == IrKey(v)
                 IN IF ~s1.db.rv[id].p THEN [s1 EXCEPT !.evs = @ \o r.evs, !.panic = TRUE]
                    ELSE LET s2 == PushDep(s1, "fn", id, s1.db.rv[id].tu)
                         IN [s2 EXCEPT !.ret = v, !.ins = Append(@, <<"fn", e.m, v>>),
                                       !.evs = (@ \o r.evs) \o <<[e |-> "ret", n |-> e.m, v |-> v]>>]
    [] e.t = "add"   -> LET s1 == RunE(st, e.a)
                            s2 == RunE(s1, e.b)
                        IN IF s1.panic THEN s1 ELSE [s2 EXCEPT !.ret = s1.ret + s2.ret]
    [] e.t = "half"  -> LET s1 == RunE(st, e.a) IN [s1 EXCEPT !.ret = @ \div 2]
    [] e.t = "if1"   -> LET s1 == RunE(st, e.c)
                        IN IF s1.panic THEN s1
                           ELSE IF s1.ret = 1 THEN RunE(s1, e.x) ELSE RunE(s1, e.y)
    [] e.t = "tsum"  -> LET s1 == ReadSingleton(st, CNT)      \* View::tracked() reads the counter singleton
                        IN SumKeys([s1 EXCEPT !.ret = 0], SortedKeys(st.mp))
    [] e.t = "tsumL" -> LET s1 == ReadSingleton(st, CNT)
                        IN SumLeaves([s1 EXCEPT !.ret = 0], SortedKeys(st.mp))

\* ---- one user-level call: the prelude calls (MemoRef arguments) then the call itself ---------
RECURSIVE UserCalls(_, _, _, _, _)
\* returns [db, evs, res]
UserCalls(db, src, mp, ns, evs) ==
  IF ns = <<>> THEN [db |-> db, evs |-> evs, res |-> [t |-> "val", v |-> 0]]
  ELSE LET n == Head(ns)
           r == Exec(db, src, mp, n, TRUE)
           e1 == (evs \o <<[e |-> "ucall", n |-> n]>>) \o r.evs
       IN IF r.panic THEN [db |-> r.db, evs |-> e1, res |-> [t |-> "panic"]]
          ELSE LET v == r.db.rv[K(n)].val
                   e2 == Append(e1, [e |-> "ret", n |-> n, v |-> v])
               IN IF Len(ns) = 1 THEN [db |-> r.db, evs |-> e2, res |-> [t |-> "val", v |-> v]]
                  ELSE UserCalls(r.db, src, mp, Tail(ns), e2)

CallB(db, src, mp, n) == UserCalls(db, src, mp, Append(Prelude(n), n), <<>>)

\* ---- retention and garbage collection ----------------------------------------------------------
RetainB(db, n) == [db EXCEPT !.keep[K(n)] = @ + 1]
ClearB(db, n)  == [db EXCEPT !.keep[K(n)] = IF @ > 0 THEN @ - 1 ELSE 0]

PutLru(lru, n) ==
  LET t == <<n>> \o SelectSeq(lru, LAMBDA x : x # n)
  IN IF Len(t) > Capacity THEN SubSeq(t, 1, Capacity) ELSE t

RECURSIVE PutAll(_, _)
PutAll(lru, top) == IF top = <<>> THEN lru ELSE PutAll(PutLru(lru, Head(top)), Tail(top))

RECURSIVE ReachB(_, _)
ReachB(db, S) ==
  LET T == S \cup {c \in KeySet : \E p \in S : db.rv[p].p /\ \E i \in DOMAIN db.rv[p].deps :
                                     db.rv[p].deps[i].k = "fn" /\ db.rv[p].deps[i].id = c}
  IN IF T = S THEN S ELSE ReachB(db, T)

\* returns [db, panic]  (a root without a revision is the "Expected revision to be present" panic)
GcB(db) ==
  LET lru1  == PutAll(db.lru, db.top)
      roots == {lru1[i] : i \in DOMAIN lru1} \cup {c \in KeySet : db.keep[c] > 0}
      keepS == ReachB(db, roots)
  IN [db |-> [db EXCEPT !.top = <<>>, !.lru = lru1,
                        !.rv = [c \in KeySet |-> IF c \in keepS THEN db.rv[c] ELSE NoRev]],
      panic |-> \E c \in keepS : ~db.rv[c].p]

LookupB(db, n) ==
  IF ~db.rv[K(n)].p THEN [t |-> "panic"]
  ELSE IF n = "refMaker" /\ ~db.rv[IrKey(db.rv[K(n)].val)].p THEN [t |-> "panic"]   \* the inner MemoRef is dereferenced too
  ELSE [t |-> "val", v |-> db.rv[K(n)].val]

\* ---- epoch normalisation (state-space reduction: only the ORDER of epochs matters) ----------
EpochsOf(db) ==
  {1, db.ep} \cup {db.sn[k].tu : k \in SrcKeys} \cup {db.tomb[k] : k \in SrcKeys}
  \cup {db.rv[n].tu : n \in KeySet} \cup {db.rv[n].tv : n \in KeySet}
  \cup UNION {{db.rv[n].deps[i].st : i \in DOMAIN db.rv[n].deps} : n \in KeySet}

Normalize(db) ==
  LET E == EpochsOf(db) \ {0}
      R(x) == IF x = 0 THEN 0 ELSE Cardinality({y \in E : y <= x})
  IN [db EXCEPT !.ep = R(@),
                !.sn = [k \in SrcKeys |-> [p |-> @[k].p, tu |-> R(@[k].tu)]],
                !.tomb = [k \in SrcKeys |-> R(@[k])],
                !.rv = [n \in KeySet |-> [p |-> @[n].p, tu |-> R(@[n].tu), tv |-> R(@[n].tv), val |-> @[n].val, fn |-> @[n].fn,
                                         deps |-> [i \in DOMAIN @[n].deps |->
                                                     [k |-> @[n].deps[i].k, id |-> @[n].deps[i].id,
                                                      st |-> R(@[n].deps[i].st)]]]]]
=============================================================================
