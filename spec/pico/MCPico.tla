------------------------------ MODULE MCPico ------------------------------
(* Model checking: layer B (PicoB) driven by every history of user operations, with layer A
   (PicoA) folded over the events B produces.  TLC checks  B => A  exhaustively in the bounds,
   and emits one replay per generated transition (shortest history + B's predicted events for
   the last operation) for the spec -> implementation direction. *)
EXTENDS PicoProgram, TLC, Json

CONSTANTS Capacity, FixAbsent, FixEqWrite, FixTopLevel, FixVerifyRegs, SharedKeys,
          Vals,          \* values a keyed source / the singleton may hold
          WriteKeys,     \* sources the history may write / remove (subset of Keys \cup {SING})
          MaxOps,        \* depth bound on histories
          MaxRetain,     \* bound on simultaneous retains per node
          Shadow,        \* TRUE: also run a variant design BO as shadow state (see below)
          SFixAbsent, SFixEqWrite, SFixTopLevel, SFixVerifyRegs, SShared,
          Emit           \* "all": one REPLAY per generated transition; "final": only complete histories; "none"

KeyOrderAB == <<"A", "B">>      \* cfg: KeyOrder <- KeyOrderAB

\* C04: with SharedKeys the cache key forgets the module ("twin:a" and "twin:b" share "twin")
Twins == {"twin:a", "twin:b", "twin:c", "twin:d"}
KeyOfNode(n) == IF SharedKeys /\ n \in Twins THEN "twin" ELSE n

IsRaw(n) == n # "pair"       \* `pair` is a non-raw #[memo]: the caller gets &T, no MemoRef to retain / look up

NoPred == [evs |-> <<>>, res |-> [t |-> "val", v |-> 0]]

A == INSTANCE PicoA
B == INSTANCE PicoB WITH KeyOf <- KeyOfNode

\* A VARIANT design (the pinned design, or the repaired one with a single repair undone: switches
\* SFixAbsent, SFixEqWrite, SFixTopLevel, SShared), run as a SHADOW next to B when Shadow = TRUE.  Its
\* state is part of the view, so two histories are merged only if they also leave the variant in the
\* same state: every history that the modelled and the variant implementation distinguish gets its own
\* replay, which makes a regression to that variant show up in the exhaustive part of the check.
KeyOfShadow(n) == IF SShared /\ n \in Twins THEN "twin" ELSE n
BO == INSTANCE PicoB WITH KeyOf <- KeyOfShadow, FixAbsent <- SFixAbsent, FixEqWrite <- SFixEqWrite, FixTopLevel <- SFixTopLevel, FixVerifyRegs <- SFixVerifyRegs

VARIABLES db,     \* layer B state
          dbo,    \* shadow: state of the pinned design (constant when Shadow = FALSE)
          mon,    \* layer A monitor state
          bad,    \* property ids violated by the last step
          dead,   \* the last operation panicked: the process is gone, no further operations
          hist,   \* history of operations (hidden from the fingerprint by the VIEW)
          pred    \* what layer B predicts the last operation does: [evs, res] (hidden too)

vars == <<db, dbo, mon, bad, dead, hist, pred>>
View == <<db, dbo, mon, bad, dead, Len(hist)>>      \* the depth bound depends on Len(hist): keep it in the view

Init == /\ db = B!InitDb
        /\ dbo = BO!InitDb
        /\ mon = A!InitMon
        /\ bad = {}
        /\ dead = FALSE
        /\ hist = <<>>
        /\ pred = NoPred

ShadowStep(op) ==
  IF ~Shadow THEN dbo
  ELSE BO!Normalize(
    CASE op.op = "set"     -> BO!SetB(dbo, op.k, mon.src[op.k] # op.v)
      [] op.op = "remove"  -> BO!RemoveB(dbo, op.k)
      [] op.op \in {"minsert", "mremove"} -> BO!TouchB(dbo)
      [] op.op = "call"    -> BO!CallB(dbo, mon.src, mon.mp, op.n).db
      [] op.op = "retain"  -> LET r == BO!CallB(dbo, mon.src, mon.mp, op.n)
                              IN IF r.res.t = "panic" THEN r.db ELSE BO!RetainB(r.db, op.n)
      [] op.op = "clear"   -> BO!ClearB(dbo, op.n)
      [] op.op = "gc"      -> BO!GcB(dbo).db
      [] OTHER             -> dbo)

Step(op, p, db1, mon1, bad1, dead1) ==
  /\ db' = B!Normalize(db1)
  /\ dbo' = ShadowStep(op)
  /\ mon' = mon1
  /\ bad' = bad1
  /\ dead' = dead1
  /\ hist' = Append(hist, op)
  /\ pred' = p

Guard == ~dead /\ Len(hist) < MaxOps

\* ---- writes ---------------------------------------------------------------------------------
SetSrc(k, v) ==
  /\ Guard
  /\ Step([op |-> "set", k |-> k, v |-> v], NoPred,
          B!SetB(db, k, mon.src[k] # v), A!WriteA(mon, k, v), {}, FALSE)

RemoveSrc(k) ==
  /\ Guard /\ mon.src[k] # Absent
  /\ Step([op |-> "remove", k |-> k], NoPred, B!RemoveB(db, k), A!WriteA(mon, k, Absent), {}, FALSE)

MapInsert(k) ==
  /\ Guard
  /\ Step([op |-> "minsert", k |-> k], NoPred, B!TouchB(db), A!TouchA(mon, mon.mp \cup {k}), {}, FALSE)

MapRemove(k) ==
  /\ Guard /\ k \in mon.mp
  /\ Step([op |-> "mremove", k |-> k], NoPred, B!TouchB(db), A!TouchA(mon, mon.mp \ {k}), {}, FALSE)

\* ---- calls ----------------------------------------------------------------------------------
Call(n) ==
  /\ Guard /\ DefN(n, mon.src, mon.mp)
  /\ LET r == B!CallB(db, mon.src, mon.mp, n)
         a == A!CallA(mon, r.evs, r.res)
     IN Step([op |-> "call", n |-> n], [evs |-> r.evs, res |-> r.res], r.db, a.m, a.bad, r.res.t = "panic")

Retain(n) ==     \* let r = n(db); retain(db, r)
  /\ Guard /\ IsRaw(n) /\ DefN(n, mon.src, mon.mp) /\ mon.keep[n] < MaxRetain
  /\ LET r == B!CallB(db, mon.src, mon.mp, n)
         a == A!CallA(mon, r.evs, r.res)
         ok == r.res.t # "panic"
     IN Step([op |-> "retain", n |-> n], [evs |-> r.evs, res |-> r.res],
             IF ok THEN B!RetainB(r.db, n) ELSE r.db,
             IF ok THEN A!RetainA(a.m, n) ELSE a.m, a.bad, ~ok)

Clear(n) ==
  /\ Guard /\ mon.keep[n] > 0
  /\ Step([op |-> "clear", n |-> n], NoPred, B!ClearB(db, n), A!ClearA(mon, n), {}, FALSE)

Gc ==
  /\ Guard
  /\ LET g == B!GcB(db)
     IN Step([op |-> "gc"], [evs |-> <<>>, res |-> IF g.panic THEN [t |-> "panic"] ELSE [t |-> "val", v |-> 0]],
             g.db, A!GcA(mon), IF g.panic THEN {"C03"} ELSE {}, g.panic)

Lookup(n) ==     \* read the MemoRef returned by the last user call of n
  /\ Guard /\ IsRaw(n) /\ A!CanLookupA(mon, n)
  /\ LET res == B!LookupB(db, n)
     IN Step([op |-> "lookup", n |-> n], [evs |-> <<>>, res |-> res], db, mon, A!LookupBadA(mon, n, res), res.t = "panic")

Next ==
  \/ \E k \in WriteKeys, v \in Vals : SetSrc(k, v)
  \/ \E k \in WriteKeys : RemoveSrc(k)
  \/ \E k \in WriteKeys \cap Keys : MapInsert(k) \/ MapRemove(k)
  \/ \E n \in Nodes : Call(n) \/ Retain(n) \/ Clear(n) \/ Lookup(n)
  \/ Gc

Spec == Init /\ [][Next]_vars

\* ---- B => A ---------------------------------------------------------------------------------
HoldsC01 == "C01" \notin bad
HoldsC02 == "C02" \notin bad
HoldsC03 == "C03" \notin bad

\* ---- replay emission: one line per generated transition ---------------------------------------
EmitReplay ==
  IF Emit = "all" \/ (Emit = "final" /\ (Len(hist') = MaxOps \/ dead'))
  THEN PrintT(<<"REPLAY", ToJson([ops |-> hist', pred |-> pred'])>>)
  ELSE TRUE

\* the expression table, printed once for the harness
ProgramJson == ToJson([n \in Nodes |-> Body(n)])
ASSUME PrintT(<<"PROGRAM", ProgramJson>>)
=============================================================================
