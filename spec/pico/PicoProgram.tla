--------------------------- MODULE PicoProgram ---------------------------
(* The family of memoized functions used to exercise pico, as DATA.

   The same expression table is interpreted three times:
     - by EvalN below        : the pure function, from scratch            (layer A oracle, C01)
     - by PicoB!RunE         : the stateful transcription of pico          (layer B)
     - by the Rust harness   : real #[memo] functions whose bodies walk the table that TLC
                               prints as JSON (so model and harness cannot diverge).

   Sources: keyed sources Keys (each holds a small integer), one singleton source SING
   (may be absent), and one #[tracked] database field: a map whose entries are SourceIds of
   keyed sources (modelled as the set of keys it contains) with its counter singleton CNT. *)
EXTENDS Naturals, Integers, Sequences, FiniteSets

CONSTANTS Keys,        \* keyed sources, e.g. {"A","B"}
          KeyOrder,    \* the same keys as a sequence in ascending order, e.g. <<"A","B">>
          Nodes        \* node names of the program in use (a subset of AllNodes)

Absent == -1
SING   == "S"
CNT    == "C"
SrcKeys == Keys \cup {SING, CNT}

\* ---- expression constructors -------------------------------------------------------------
Const(v)    == [t |-> "const", v |-> v]
Src(k)      == [t |-> "src", k |-> k]      \* db.get(SourceId): the source must be present
Sing0       == [t |-> "sing"]              \* db.get_singleton(): absent -> 0, present -> its value
Fn(m)       == [t |-> "fn", m |-> m]       \* call of another memoized function
Add(a, b)   == [t |-> "add", a |-> a, b |-> b]
Half(a)     == [t |-> "half", a |-> a]     \* integer halving: unequal inputs, equal outputs
If1(c, x, y) == [t |-> "if1", c |-> c, x |-> x, y |-> y]   \* if c = 1 then x else y  (dynamic deps)
Look(m)     == [t |-> "look", m |-> m]     \* MemoRef param read with lookup_tracked (no execution)
MkRef(m)    == [t |-> "mkref", m |-> m]    \* let t = m(db); db.intern_ref(&t.1)  -> MemoRef into m's value
Deref(m)    == [t |-> "deref", m |-> m]    \* let r = m(db) (a MemoRef maker); *r.lookup_tracked(db)
TSum        == [t |-> "tsum"]              \* for id in db.get_map().tracked() (ascending): sum of db.get(id)

\* ---- the program --------------------------------------------------------------------------
\* kind of parameter of each node, as realised by the harness (documentation + JSON for harness)
Body(n) ==
  CASE n = "leaf:A"  -> Half(Src("A"))                              \* fn leaf(db, id: SourceId<Inp>)
    [] n = "leaf:B"  -> Half(Src("B"))
    [] n = "single"  -> Sing0                                       \* fn single(db)
    [] n = "top"     -> If1(Fn("leaf:A"), Add(Fn("leaf:B"), Const(1)), Fn("single"))
    [] n = "tsum"    -> TSum                                        \* fn tsum(db)  (tracked field)
    [] n = "outer"   -> Add(Fn("top"), Fn("tsum"))                  \* three levels
    [] n = "byKey:0" -> Add(Const(0), Fn("single"))                 \* fn by_key(db, k: u8)   owned param
    [] n = "byKey:1" -> Add(Const(1), Fn("single"))
    [] n = "byRef:x" -> Add(Fn("leaf:A"), Fn("leaf:A"))             \* fn by_ref(db, s: &String) borrowed param; repeated dep
    [] n = "ofMemo"  -> Add(Look("leaf:B"), Const(1))               \* fn of_memo(db, r: MemoRef<u8>), r = leaf(B) obtained just before
    [] n = "pair"    -> Add(Fn("single"), Fn("leaf:B"))             \* non-raw #[memo]
    [] n = "tup"     -> Half(Src("A"))                              \* fn tup(db) -> (u8, String): a value with an interior
    [] n = "refMaker" -> MkRef("tup")                               \* fn ref_maker(db) -> MemoRef<String> = intern_ref(&tup(db).1)
    [] n = "refUser" -> Add(Deref("refMaker"), Const(1))            \* fn ref_user(db) reads the MemoRef tracked
    [] n = "twin:a"  -> Add(Const(1), Sing0)                        \* mod a { fn twin(db) }   (C04)
    [] n = "twin:b"  -> Add(Const(2), Sing0)                        \* mod b { fn twin(db) }   same signature text

AllNodes == {"leaf:A", "leaf:B", "single", "top", "tsum", "outer", "byKey:0", "byKey:1",
             "byRef:x", "ofMemo", "pair", "twin:a", "twin:b", "tup", "refMaker", "refUser"}

\* ---- from-scratch semantics (layer A) ----------------------------------------------------
RECURSIVE SumOver(_, _)
SumOver(S, s) == IF S = {} THEN 0
                 ELSE LET k == CHOOSE x \in S : TRUE IN s[k] + SumOver(S \ {k}, s)

RECURSIVE EvalE(_, _, _)
EvalN(n, s, mp) == EvalE(Body(n), s, mp)
EvalE(e, s, mp) ==
  CASE e.t = "const" -> e.v
    [] e.t = "src"   -> s[e.k]
    [] e.t = "sing"  -> IF s[SING] = Absent THEN 0 ELSE s[SING]
    [] e.t = "fn"    -> EvalE(Body(e.m), s, mp)
    [] e.t = "look"  -> EvalE(Body(e.m), s, mp)
    [] e.t = "mkref" -> EvalE(Body(e.m), s, mp)
    [] e.t = "deref" -> EvalE(Body(e.m), s, mp)
    [] e.t = "add"   -> EvalE(e.a, s, mp) + EvalE(e.b, s, mp)
    [] e.t = "half"  -> EvalE(e.a, s, mp) \div 2
    [] e.t = "if1"   -> IF EvalE(e.c, s, mp) = 1 THEN EvalE(e.x, s, mp) ELSE EvalE(e.y, s, mp)
    [] e.t = "tsum"  -> SumOver(mp, s)

\* the from-scratch evaluation reads only present keyed sources (db.get of a removed source panics
\* by contract, so such calls are outside every history we consider)
RECURSIVE DefE(_, _, _)
DefN(n, s, mp) == DefE(Body(n), s, mp)
DefE(e, s, mp) ==
  CASE e.t = "const" -> TRUE
    [] e.t = "src"   -> s[e.k] # Absent
    [] e.t = "sing"  -> TRUE
    [] e.t = "fn"    -> DefE(Body(e.m), s, mp)
    [] e.t = "look"  -> DefE(Body(e.m), s, mp)
    [] e.t = "mkref" -> DefE(Body(e.m), s, mp)
    [] e.t = "deref" -> DefE(Body(e.m), s, mp)
    [] e.t = "add"   -> DefE(e.a, s, mp) /\ DefE(e.b, s, mp)
    [] e.t = "half"  -> DefE(e.a, s, mp)
    [] e.t = "if1"   -> DefE(e.c, s, mp) /\ (IF EvalE(e.c, s, mp) = 1 THEN DefE(e.x, s, mp) ELSE DefE(e.y, s, mp))
    [] e.t = "tsum"  -> \A k \in mp : s[k] # Absent

\* nodes a node may call (static over-approximation), used for closure computations
RECURSIVE CalleesE(_)
CalleesE(e) ==
  CASE e.t = "fn"   -> {e.m}
    [] e.t = "look" -> {e.m}
    [] e.t = "mkref" -> {e.m}
    [] e.t = "deref" -> {e.m}
    [] e.t = "add"  -> CalleesE(e.a) \cup CalleesE(e.b)
    [] e.t = "half" -> CalleesE(e.a)
    [] e.t = "if1"  -> CalleesE(e.c) \cup CalleesE(e.x) \cup CalleesE(e.y)
    [] OTHER        -> {}

\* keys of intern_ref nodes: one per interned VALUE (identity = hash of the value, not of the address)
IrKey(v) == CASE v = 0 -> "ir:0" [] v = 1 -> "ir:1" [] v = 2 -> "ir:2" [] OTHER -> "ir:x"
IrKeys == {"ir:0", "ir:1", "ir:2", "ir:x"}
UsesInternRef == \E n \in Nodes : n \in {"refMaker", "refUser"}

\* user-level protocol of a call: the MemoRef argument of ofMemo is obtained by calling leaf(B)
\* at top level immediately before (the only way isograph uses MemoRef parameters)
Prelude(n) == IF n = "ofMemo" THEN <<"leaf:B">> ELSE <<>>
=============================================================================
