SPECIFICATION Spec
CONSTANTS
  Keys = {"A", "B"}
  KeyOrder <- KeyOrderAB
  Nodes = {"leaf:A", "leaf:B", "single", "top"}
  Capacity = 1
  FixAbsent = FALSE
  FixEqWrite = FALSE
  FixTopLevel = FALSE
  FixVerifyRegs = FALSE
  SharedKeys = FALSE
  Vals = {0, 2}
  MaxOps = 5
  MaxRetain = 1
  Emit = "none"
VIEW View
INVARIANT HoldsC01
ACTION_CONSTRAINT EmitReplay
