----------------------------- MODULE WatchTrace -----------------------------
(* impl -> spec for C20: one record per replayed history, as observed on the real code by
   harness/h_watch:  [id, steps: << [alive, same, ...] >>].
   Layer A (the property statement): after EVERY batch the watcher is still running (alive) and the
   live state yields the same artifacts and diagnostics as a fresh batch compile (same). *)
EXTENDS Naturals, Sequences, TLC, Json, IOUtils

Rec == ndJsonDeserialize(IOEnv.TRACE)

VARIABLE l
Init == l = 1

FirstBad(steps) ==
  LET bad == {i \in DOMAIN steps : ~steps[i].alive \/ ~steps[i].same}
  IN IF bad = {} THEN 0 ELSE CHOOSE i \in bad : \A j \in bad : i <= j

Next == /\ l <= Len(Rec)
        /\ l' = l + 1
        /\ LET r == Rec[l]
               b == FirstBad(r.steps)
           IN IF b = 0 THEN TRUE
              ELSE PrintT(<<"BAD", ToJson([id |-> r.id, at |-> b,
                                            why |-> IF ~r.steps[b].alive THEN "watcher stopped" ELSE "differs from fresh batch compile"])>>)

Spec == Init /\ [][Next]_l
AllConsumed == TLCGet("stats").diameter = Len(Rec) + 1
=============================================================================
