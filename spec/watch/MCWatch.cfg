SPECIFICATION Spec
CONSTANTS
  MaxOps = 3
  Emit = FALSE
  FixPrefix = TRUE
  FixSourceFilter = TRUE
VIEW View
INVARIANT Explained
ACTION_CONSTRAINT EmitReplay
