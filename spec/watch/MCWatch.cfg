SPECIFICATION Spec
CONSTANTS
  MaxOps = 3
  Emit = FALSE
  FixPrefix = TRUE
  FixSourceFilter = TRUE
  FixBoundaryMoves = TRUE
  FixSchemaRename = TRUE
VIEW View
INVARIANT Explained
ACTION_CONSTRAINT EmitReplay
