------------------------------- MODULE Watch -------------------------------
(* C20 — watch mode produces what a fresh batch compile would, and the watcher keeps running.

   State
     tree   : [FilePath -> Content \cup {None}]   the files under the project root ("src")
     schema : content class of the schema file ("s1", "s2", None = deleted)
     db     : [FilePath -> Content \cup {None}]   iso-literal sources tracked by the live CompilerState
     dbSchema : schema content the live state holds (None after the source was removed)
     alive  : the watcher loop is still running
   Layer A (the property): after every handled batch
        alive  /\  db = BatchRead(tree)  /\  dbSchema = schema
     where BatchRead is what initialize_sources reads (extension filter, "__isograph" filter).
     On the real code "db = BatchRead(tree)" is observed differentially: artifacts and diagnostics
     of the live state equal those of a fresh CompilerState on the same disk.
   Layer B: HandleBatch transcribes watch.rs (categorize_and_filter_events, process_xxx_event) and
     source_files.rs (update_sources, handle_update_xxx), including the error propagation that ends the watcher.
   NotifyModel: which debounced events a user edit produces (assumption table, notify 7 inotify
     backend + notify-debouncer-full): see EventsOf.

   Every way in which B can leave A is a NAMED DEVIATION (Dev* below); the set of deviations active in
   a step is B's explanation of a failure and is the signature under which a finding is listed. *)
EXTENDS Naturals, Sequences, FiniteSets, TLC, Json

None == "none"

\* ---- the path universe (strings are opaque to TLC: prefix/containment relations are tabulated) ----
Da == "src/a"     Dab == "src/ab"     Dc == "src/c"
F1 == "src/a/x.ts"   F2 == "src/a/x.tsx"   F3 == "src/ab/y.ts"   F4 == "src/top.ts"
F5 == "src/a/n.md"   F6 == "src/a/z.ts"
C1 == "src/c/x.ts"   C2 == "src/c/x.tsx"   C5 == "src/c/n.md"    C6 == "src/c/z.ts"
FilePaths == {F1, F2, F3, F4, F5, F6, C1, C2, C5, C6}
Folders   == {Da, Dab, Dc}

InFolder(d) == CASE d = Da  -> {F1, F2, F5, F6}
                 [] d = Dab -> {F3}
                 [] d = Dc  -> {C1, C2, C5, C6}

\* q starts with the STRING p  (String::starts_with — not path-component aware)
StrPrefixed(p) == CASE p = Da  -> {F1, F2, F5, F6, F3}          \* "src/ab/y.ts" starts with "src/a"
                    [] p = Dab -> {F3}
                    [] p = Dc  -> {C1, C2, C5, C6}
                    [] p = F1  -> {F1, F2}                       \* "src/a/x.tsx" starts with "src/a/x.ts"
                    [] p = C1  -> {C1, C2}
                    [] OTHER   -> {p}

MoveToC(f) == CASE f = F1 -> C1 [] f = F2 -> C2 [] f = F5 -> C5 [] f = F6 -> C6

IsSourceExt(f) == f \notin {F5, C5}                              \* .ts/.tsx/.js/.jsx
Contents == {"v1", "v2", "v0", "bin"}     \* "bin" = not valid UTF-8; "v0" = a source file WITHOUT any iso literal (added after
                                          \* seeded/C20b-files-without-iso-not-tracked: a tracked file that loses its last literal)

VARIABLES tree, schema, db, dbSchema, alive, devs, hist
vars == <<tree, schema, db, dbSchema, alive, devs, hist>>
View == <<tree, schema, db, dbSchema, alive, Len(hist)>>

CONSTANTS MaxOps, Emit,
          FixPrefix,        \* folder removal compares path components (fix 25efe9b) instead of string prefixes
          FixSourceFilter,  \* single-file events use the batch compile's source-file filter (fix 1fd4fb4)
          FixBoundaryMoves, \* Name(To) / Name(From) events (something moved into / out of the watched paths) are handled like a
                            \* creation / removal; the pinned code dropped them
          FixSchemaRename   \* a rename ONTO the schema path (atomic save) re-reads the schema; the pinned code did nothing

Exists(t, f) == t[f] # None
FolderExists(t, d) == \E f \in InFolder(d) : Exists(t, f)

\* what initialize_sources reads; "error" when a source file is not UTF-8 (the batch compile fails)
BatchRead(t) == [f \in FilePaths |-> IF IsSourceExt(f) THEN t[f] ELSE None]
BatchFails(t) == \E f \in FilePaths : IsSourceExt(f) /\ t[f] = "bin"

InitTree == [f \in FilePaths |-> IF f \in {F1, F3, F4} THEN "v1" ELSE None]

Init == /\ tree = InitTree
        /\ schema = "s1"
        /\ db = BatchRead(InitTree)
        /\ dbSchema = "s1"
        /\ alive = TRUE
        /\ devs = {}
        /\ hist = <<>>

\* ---- debounced events (NotifyModel) -------------------------------------------------------------
\* event = [k |-> kind, p |-> path] or [k |-> "rename", p |-> from, q |-> to]
Ev(k, p) == [k |-> k, p |-> p]

\* ---- layer B: one event against the tree AFTER the whole batch of edits (the handler runs later) ---
\* returns [db, dbSchema, err, devs]
ReadFile(t, f) == t[f]       \* "bin" makes read_file fail

HandleEvent(st, t, sch, e) ==
  LET isFile(p) == p \in FilePaths /\ Exists(t, p)
      isDir(p)  == p \in Folders /\ FolderExists(t, p)
      Under(p) == IF FixPrefix THEN (IF p \in Folders THEN InFolder(p) ELSE {p}) ELSE StrPrefixed(p)
      removePrefix(d0, p) == [f \in FilePaths |-> IF f \in Under(p) THEN None ELSE d0[f]]
      readFolder(d0, d) ==   \* read_files_in_folder: filters + UTF-8
        [f \in FilePaths |-> IF f \in InFolder(d) /\ IsSourceExt(f) /\ Exists(t, f) THEN t[f] ELSE d0[f]]
      folderHasBin(d) == \E f \in InFolder(d) : IsSourceExt(f) /\ t[f] = "bin"
  IN
  IF e.k = "rename" /\ e.q = "schema" THEN
       \* categorised by the TARGET: a schema event; handle_update_schema, Rename with target = schema path
       IF FixSchemaRename THEN [st EXCEPT !.dbSchema = sch]
       ELSE [st EXCEPT !.devs = IF st.dbSchema # sch THEN @ \cup {"DevSchemaRenameIgnored"} ELSE @]
  ELSE IF e.p = "schema" THEN
       IF e.k \in {"create", "modify"} THEN [st EXCEPT !.dbSchema = sch]
       ELSE [st EXCEPT !.dbSchema = None, !.err = TRUE, !.devs = @ \cup {"DevSchemaRemovalEndsWatcher"}]
  ELSE IF e.k \in {"rename_to", "rename_from"} /\ ~FixBoundaryMoves THEN
       \* process_modify_event: `_ => None` -- the event is dropped
       [st EXCEPT !.devs = @ \cup {"DevBoundaryMoveIgnored"}]
  ELSE IF e.k = "rename_to" THEN
       \* CreateOrModify(path): a file is read (single-file filter), a folder is scanned
       IF isFile(e.p) THEN
            IF ~IsSourceExt(e.p) THEN st
            ELSE IF ReadFile(t, e.p) = "bin" THEN [st EXCEPT !.err = TRUE, !.devs = @ \cup {"DevNonUtf8EndsWatcher"}]
            ELSE [st EXCEPT !.db[e.p] = t[e.p]]
       ELSE IF isDir(e.p) THEN
            IF folderHasBin(e.p) THEN [st EXCEPT !.err = TRUE, !.devs = @ \cup {"DevNonUtf8EndsWatcher"}]
            ELSE [st EXCEPT !.db = readFolder(st.db, e.p)]
       ELSE st
  ELSE IF e.k = "rename_from" THEN
       \* Remove(path); the path is gone, so it is categorised as a folder: removal of everything under it
       IF isFile(e.p) THEN [st EXCEPT !.db[e.p] = None]
       ELSE [st EXCEPT !.db = removePrefix(st.db, e.p)]
  ELSE IF e.k \in {"create", "modify"} THEN
       \* categorize: existing file -> source file, CreateOrModify -> read_file without extension filter
       IF isFile(e.p) THEN
            IF FixSourceFilter /\ ~IsSourceExt(e.p) THEN st
            ELSE IF ReadFile(t, e.p) = "bin"
            THEN [st EXCEPT !.err = TRUE, !.devs = @ \cup {"DevNonUtf8EndsWatcher"}]
            ELSE [st EXCEPT !.db[e.p] = t[e.p],
                            !.devs = IF IsSourceExt(e.p) THEN @ ELSE @ \cup {"DevNonSourceFileTracked"}]
       ELSE IF e.k = "create" /\ isDir(e.p) THEN st     \* Create(Folder) is ignored
       ELSE st                                          \* Modify(Data) of something that is not a file
  ELSE IF e.k = "remove" THEN
       IF isFile(e.p) THEN [st EXCEPT !.db[e.p] = None]          \* re-created meanwhile: exact removal
       ELSE \* the path is gone, so it is categorised as a FOLDER: removal by string prefix
            [st EXCEPT !.db = removePrefix(st.db, e.p),
                       !.devs = IF \E f \in Under(e.p) : st.db[f] # None /\ Exists(t, f)
                                THEN @ \cup {"DevStringPrefixRemoval"} ELSE @]
  ELSE \* rename from e.p to e.q, categorised by the TARGET
       IF isFile(e.q) /\ FixSourceFilter THEN
            \* (the source may be a path outside the modelled universe, e.g. x.ts.tmp: nothing is tracked under it)
            LET dropped == IF e.p \in FilePaths THEN [st.db EXCEPT ![e.p] = None] ELSE st.db IN
            IF ~IsSourceExt(e.q) THEN [st EXCEPT !.db = dropped]
            ELSE IF ReadFile(t, e.q) = "bin"
                 THEN [st EXCEPT !.db = dropped, !.err = TRUE, !.devs = @ \cup {"DevNonUtf8EndsWatcher"}]
                 ELSE [st EXCEPT !.db = [dropped EXCEPT ![e.q] = t[e.q]]]
       ELSE IF isFile(e.q) THEN
            IF st.db[e.p] # None
            THEN IF ReadFile(t, e.q) = "bin"
                 THEN [st EXCEPT !.db[e.p] = None, !.err = TRUE, !.devs = @ \cup {"DevNonUtf8EndsWatcher"}]
                 ELSE [st EXCEPT !.db[e.p] = None, !.db[e.q] = t[e.q],
                                 !.devs = IF IsSourceExt(e.q) THEN @ ELSE @ \cup {"DevNonSourceFileTracked"}]
            ELSE [st EXCEPT !.devs = IF IsSourceExt(e.q) THEN @ \cup {"DevRenameFromUntracked"} ELSE @]
       ELSE IF isDir(e.q) THEN
            IF folderHasBin(e.q)
            THEN [st EXCEPT !.db = removePrefix(st.db, e.p), !.err = TRUE, !.devs = @ \cup {"DevNonUtf8EndsWatcher"}]
            ELSE [st EXCEPT !.db = readFolder(removePrefix(st.db, e.p), e.q),
                            !.devs = IF \E f \in Under(e.p) \ InFolder(e.p) : st.db[f] # None
                                     THEN @ \cup {"DevStringPrefixRemoval"} ELSE @]
       ELSE st

RECURSIVE HandleBatch(_, _, _, _)
HandleBatch(st, t, sch, evs) ==
  IF evs = <<>> THEN st ELSE HandleBatch(HandleEvent(st, t, sch, Head(evs)), t, sch, Tail(evs))

\* ---- one user edit = one debounced batch -----------------------------------------------------------
Apply(op, t2, sch2, evs) ==
  LET st0 == [db |-> db, dbSchema |-> dbSchema, err |-> FALSE, devs |-> {}]
      st  == HandleBatch(st0, t2, sch2, evs)
  IN /\ tree' = t2
     /\ schema' = sch2
     /\ db' = st.db
     /\ dbSchema' = st.dbSchema
     /\ alive' = ~st.err
     /\ devs' = devs \cup st.devs       \* cumulative: once the live state diverged, later steps stay explained
     /\ hist' = Append(hist, [op EXCEPT !.evs = evs])

Guard == alive /\ Len(hist) < MaxOps

WriteFile(f, c) ==
  /\ Guard /\ tree[f] # c
  /\ (c = "bin" => f = F4)                       \* one file may become non-UTF-8
  /\ (f \in InFolder(Dc) => FolderExists(tree, Dc))
  /\ Apply([op |-> "write", p |-> f, c |-> c, evs |-> <<>>], [tree EXCEPT ![f] = c], schema,
           << Ev(IF Exists(tree, f) THEN "modify" ELSE "create", f) >>)

DeleteFile(f) ==
  /\ Guard /\ Exists(tree, f)
  /\ Apply([op |-> "delete", p |-> f, evs |-> <<>>], [tree EXCEPT ![f] = None], schema, << Ev("remove", f) >>)

RenameFile ==     \* src/a/x.ts -> src/a/z.ts
  /\ Guard /\ Exists(tree, F1) /\ ~Exists(tree, F6)
  /\ Apply([op |-> "rename", p |-> F1, q |-> F6, evs |-> <<>>],
           [tree EXCEPT ![F6] = tree[F1], ![F1] = None], schema, << [k |-> "rename", p |-> F1, q |-> F6] >>)

RenameMd ==       \* src/a/n.md -> src/a/z.ts  (an untracked file becomes a source file)
  /\ Guard /\ Exists(tree, F5) /\ ~Exists(tree, F6)
  /\ Apply([op |-> "rename", p |-> F5, q |-> F6, evs |-> <<>>],
           [tree EXCEPT ![F6] = tree[F5], ![F5] = None], schema, << [k |-> "rename", p |-> F5, q |-> F6] >>)

DeleteFolder(d) ==
  /\ Guard /\ FolderExists(tree, d)
  /\ Apply([op |-> "rmdir", p |-> d, evs |-> <<>>],
           [f \in FilePaths |-> IF f \in InFolder(d) THEN None ELSE tree[f]], schema, << Ev("remove", d) >>)

RenameFolder ==   \* src/a -> src/c
  /\ Guard /\ FolderExists(tree, Da) /\ ~FolderExists(tree, Dc)
  /\ Apply([op |-> "mvdir", p |-> Da, q |-> Dc, evs |-> <<>>],
           [f \in FilePaths |-> IF f \in InFolder(Da) THEN None
                                ELSE IF f \in InFolder(Dc) THEN tree[CHOOSE g \in InFolder(Da) : MoveToC(g) = f]
                                ELSE tree[f]],
           schema, << [k |-> "rename", p |-> Da, q |-> Dc] >>)

EditSchema(s) ==
  /\ Guard /\ schema # s /\ s # None
  /\ Apply([op |-> "schema", c |-> s, evs |-> <<>>], tree, s, << Ev(IF schema = None THEN "create" ELSE "modify", "schema") >>)

DeleteSchema ==
  /\ Guard /\ schema # None
  /\ Apply([op |-> "rmschema", evs |-> <<>>], tree, None, << Ev("remove", "schema") >>)

\* ---- two edits inside one debounce window (event lists as the real debouncer delivers them; checked by h_notify) ----
RenameThenEdit(c) ==      \* mv x.ts z.ts + edit of z.ts (in either order): the rename comes first, then a modify of the target
  /\ Guard /\ Exists(tree, F1) /\ ~Exists(tree, F6) /\ c # "bin"
  /\ Apply([op |-> "batch", edits |-> << [op |-> "rename", p |-> F1, q |-> F6], [op |-> "write", p |-> F6, c |-> c] >>, evs |-> <<>>],
           [tree EXCEPT ![F6] = c, ![F1] = None], schema,
           << [k |-> "rename", p |-> F1, q |-> F6], Ev("modify", F6) >>)

DeleteRecreate(f, c) ==   \* rm f + re-creation of f: remove, create, modify
  /\ Guard /\ Exists(tree, f) /\ c # "bin"
  /\ Apply([op |-> "batch", edits |-> << [op |-> "delete", p |-> f], [op |-> "write", p |-> f, c |-> c] >>, evs |-> <<>>],
           [tree EXCEPT ![f] = c], schema, << Ev("remove", f), Ev("create", f), Ev("modify", f) >>)

TwoWrites(f, g, c) ==     \* two files saved within the window
  /\ Guard /\ f # g /\ c # "bin" /\ tree[f] # c /\ tree[g] # c
  /\ (\A h \in {f, g} : h \in InFolder(Dc) => FolderExists(tree, Dc))
  /\ Apply([op |-> "batch", edits |-> << [op |-> "write", p |-> f, c |-> c], [op |-> "write", p |-> g, c |-> c] >>, evs |-> <<>>],
           [tree EXCEPT ![f] = c, ![g] = c], schema,
           << Ev(IF Exists(tree, f) THEN "modify" ELSE "create", f), Ev(IF Exists(tree, g) THEN "modify" ELSE "create", g) >>)

MvDirThenEdit(c) ==       \* mv src/a src/c + edit of src/c/x.ts: the modify is reported under the OLD path (inotify watch of the moved dir)
  /\ Guard /\ Exists(tree, F1) /\ ~FolderExists(tree, Dc) /\ c # "bin"
  /\ Apply([op |-> "batch", edits |-> << [op |-> "mvdir", p |-> Da, q |-> Dc], [op |-> "write", p |-> C1, c |-> c] >>, evs |-> <<>>],
           [f \in FilePaths |-> IF f \in InFolder(Da) THEN None
                                ELSE IF f = C1 THEN c
                                ELSE IF f \in InFolder(Dc) THEN tree[CHOOSE g \in InFolder(Da) : MoveToC(g) = f]
                                ELSE tree[f]],
           schema, << [k |-> "rename", p |-> Da, q |-> Dc], Ev("modify", F1) >>)

\* ---- moves across the boundary of the watched paths and atomic saves (event lists as the real debouncer delivers them:
\*      h_notify scenarios movein / moveout / moveindir / moveoutdir / atomic-over-existing) -----------------------------
MoveIn(f, c) ==           \* mv <outside>/x f : one Name(To) event
  /\ Guard /\ ~Exists(tree, f) /\ c # "bin"
  /\ (f \in InFolder(Dc) => FolderExists(tree, Dc))
  /\ Apply([op |-> "movein", p |-> f, c |-> c, evs |-> <<>>], [tree EXCEPT ![f] = c], schema, << Ev("rename_to", f) >>)

MoveOut(f) ==             \* mv f <outside>/ : one Name(From) event
  /\ Guard /\ Exists(tree, f)
  /\ Apply([op |-> "moveout", p |-> f, evs |-> <<>>], [tree EXCEPT ![f] = None], schema, << Ev("rename_from", f) >>)

MoveOutFolder(d) ==       \* mv src/a <outside>/ : one Name(From) event for the folder
  /\ Guard /\ FolderExists(tree, d)
  /\ Apply([op |-> "moveout_dir", p |-> d, evs |-> <<>>],
           [f \in FilePaths |-> IF f \in InFolder(d) THEN None ELSE tree[f]], schema, << Ev("rename_from", d) >>)

MoveInFolder(c) ==        \* mv <outside>/c src/c (holding x.ts and n.md) : one Name(To) event for the folder
  /\ Guard /\ ~FolderExists(tree, Dc) /\ c # "bin"
  /\ Apply([op |-> "movein_dir", p |-> Dc, c |-> c, evs |-> <<>>],
           [tree EXCEPT ![C1] = c, ![C5] = c], schema, << Ev("rename_to", Dc) >>)

AtomicSaveFile(f, c) ==   \* write f.tmp in an earlier window, mv f.tmp f : Name(Both) from an untracked non-source path onto f
  /\ Guard /\ FixSourceFilter /\ Exists(tree, f) /\ tree[f] # c /\ c # "bin"
  /\ Apply([op |-> "atomic", p |-> f, c |-> c, evs |-> <<>>], [tree EXCEPT ![f] = c], schema,
           << [k |-> "rename", p |-> f \o ".tmp", q |-> f] >>)

AtomicSaveSchema(sc) ==   \* the same for the schema file
  /\ Guard /\ schema # None /\ schema # sc /\ sc # None
  /\ Apply([op |-> "schema_atomic", c |-> sc, evs |-> <<>>], tree, sc, << [k |-> "rename", p |-> "schema.tmp", q |-> "schema"] >>)

Gc ==     \* a garbage collection between two batches changes nothing observable
  /\ Guard /\ Len(hist) > 0 /\ hist[Len(hist)].op # "gc"
  /\ Apply([op |-> "gc", evs |-> <<>>], tree, schema, <<>>)

Next ==
  \/ Gc
  \/ \E f \in {F1, F2, F3, F4, F5}, c \in Contents : WriteFile(f, c)
  \/ \E f \in {F1, F2, F3, F5} : DeleteFile(f)
  \/ RenameFile \/ RenameMd \/ RenameFolder
  \/ \E c \in {"v1", "v2"} : RenameThenEdit(c) \/ MvDirThenEdit(c)
  \/ \E f \in {F1, F3}, c \in {"v2"} : DeleteRecreate(f, c)
  \/ \E f \in {F1}, g \in {F3, F2}, c \in {"v2"} : TwoWrites(f, g, c)
  \/ \E d \in {Da, Dab} : DeleteFolder(d)
  \/ \E s \in {"s1", "s2"} : EditSchema(s)
  \/ DeleteSchema
  \/ \E f \in {F2, F6}, c \in {"v2"} : MoveIn(f, c)
  \/ \E f \in {F1, F3} : MoveOut(f)
  \/ MoveOutFolder(Da) \/ MoveInFolder("v2")
  \/ \E f \in {F1}, c \in {"v2"} : AtomicSaveFile(f, c)
  \/ \E s \in {"s1", "s2"} : AtomicSaveSchema(s)

Spec == Init /\ [][Next]_vars

\* ---- layer A on the model ---------------------------------------------------------------------------
HoldsA == alive /\ db = BatchRead(tree) /\ dbSchema = schema
\* B => A except for the named deviations: every step that leaves A is explained
Explained == HoldsA \/ devs # {}

EmitReplay ==
  IF Emit THEN PrintT(<<"REPLAY", ToJson([ops |-> hist', okA |-> (alive' /\ db' = BatchRead(tree') /\ dbSchema' = schema'),
                                   fails |-> BatchFails(tree'), devs |-> devs', db |-> db', alive |-> alive'])>>)
  ELSE TRUE
=============================================================================
