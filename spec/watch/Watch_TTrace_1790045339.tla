---- MODULE Watch_TTrace_1790045339 ----
EXTENDS Sequences, TLCExt, Toolbox, Watch, Naturals, TLC

_expression ==
    LET Watch_TEExpression == INSTANCE Watch_TEExpression
    IN Watch_TEExpression!expression
----

_trace ==
    LET Watch_TETrace == INSTANCE Watch_TETrace
    IN Watch_TETrace!trace
----

_inv ==
    ~(
        TLCGet("level") = Len(_TETrace)
        /\
        schema = ("s1")
        /\
        devs = ({})
        /\
        dbSchema = ("s1")
        /\
        hist = (<<[p |-> "src/a/n.md", evs |-> <<[p |-> "src/a/n.md", k |-> "create"]>>, op |-> "write", c |-> "v1"], [p |-> "src/a/x.ts", evs |-> <<[p |-> "src/a/x.ts", k |-> "modify"]>>, op |-> "write", c |-> "v2"]>>)
        /\
        alive = (TRUE)
        /\
        tree = (("src/a/x.ts" :> "v2" @@ "src/a/x.tsx" :> "none" @@ "src/ab/y.ts" :> "v1" @@ "src/top.ts" :> "v1" @@ "src/a/n.md" :> "v1" @@ "src/a/z.ts" :> "none" @@ "src/c/x.ts" :> "none" @@ "src/c/x.tsx" :> "none" @@ "src/c/n.md" :> "none" @@ "src/c/z.ts" :> "none"))
        /\
        db = (("src/a/x.ts" :> "v2" @@ "src/a/x.tsx" :> "none" @@ "src/ab/y.ts" :> "v1" @@ "src/top.ts" :> "v1" @@ "src/a/n.md" :> "v1" @@ "src/a/z.ts" :> "none" @@ "src/c/x.ts" :> "none" @@ "src/c/x.tsx" :> "none" @@ "src/c/n.md" :> "none" @@ "src/c/z.ts" :> "none"))
    )
----

_init ==
    /\ alive = _TETrace[1].alive
    /\ schema = _TETrace[1].schema
    /\ tree = _TETrace[1].tree
    /\ db = _TETrace[1].db
    /\ hist = _TETrace[1].hist
    /\ dbSchema = _TETrace[1].dbSchema
    /\ devs = _TETrace[1].devs
----

_next ==
    /\ \E i,j \in DOMAIN _TETrace:
        /\ \/ /\ j = i + 1
              /\ i = TLCGet("level")
        /\ alive  = _TETrace[i].alive
        /\ alive' = _TETrace[j].alive
        /\ schema  = _TETrace[i].schema
        /\ schema' = _TETrace[j].schema
        /\ tree  = _TETrace[i].tree
        /\ tree' = _TETrace[j].tree
        /\ db  = _TETrace[i].db
        /\ db' = _TETrace[j].db
        /\ hist  = _TETrace[i].hist
        /\ hist' = _TETrace[j].hist
        /\ dbSchema  = _TETrace[i].dbSchema
        /\ dbSchema' = _TETrace[j].dbSchema
        /\ devs  = _TETrace[i].devs
        /\ devs' = _TETrace[j].devs

\* Uncomment the ASSUME below to write the states of the error trace
\* to the given file in Json format. Note that you can pass any tuple
\* to `JsonSerialize`. For example, a sub-sequence of _TETrace.
    \* ASSUME
    \*     LET J == INSTANCE Json
    \*         IN J!JsonSerialize("Watch_TTrace_1790045339.json", _TETrace)

=============================================================================

 Note that you can extract this module `Watch_TEExpression`
  to a dedicated file to reuse `expression` (the module in the 
  dedicated `Watch_TEExpression.tla` file takes precedence 
  over the module `Watch_TEExpression` below).

---- MODULE Watch_TEExpression ----
EXTENDS Sequences, TLCExt, Toolbox, Watch, Naturals, TLC

expression == 
    [
        \* To hide variables of the `Watch` spec from the error trace,
        \* remove the variables below.  The trace will be written in the order
        \* of the fields of this record.
        alive |-> alive
        ,schema |-> schema
        ,tree |-> tree
        ,db |-> db
        ,hist |-> hist
        ,dbSchema |-> dbSchema
        ,devs |-> devs
        
        \* Put additional constant-, state-, and action-level expressions here:
        \* ,_stateNumber |-> _TEPosition
        \* ,_aliveUnchanged |-> alive = alive'
        
        \* Format the `alive` variable as Json value.
        \* ,_aliveJson |->
        \*     LET J == INSTANCE Json
        \*     IN J!ToJson(alive)
        
        \* Lastly, you may build expressions over arbitrary sets of states by
        \* leveraging the _TETrace operator.  For example, this is how to
        \* count the number of times a spec variable changed up to the current
        \* state in the trace.
        \* ,_aliveModCount |->
        \*     LET F[s \in DOMAIN _TETrace] ==
        \*         IF s = 1 THEN 0
        \*         ELSE IF _TETrace[s].alive # _TETrace[s-1].alive
        \*             THEN 1 + F[s-1] ELSE F[s-1]
        \*     IN F[_TEPosition - 1]
    ]

=============================================================================



Parsing and semantic processing can take forever if the trace below is long.
 In this case, it is advised to uncomment the module below to deserialize the
 trace from a generated binary file.

\*
\*---- MODULE Watch_TETrace ----
\*EXTENDS IOUtils, Watch, TLC
\*
\*trace == IODeserialize("Watch_TTrace_1790045339.bin", TRUE)
\*
\*=============================================================================
\*

---- MODULE Watch_TETrace ----
EXTENDS Watch, TLC

trace == 
    <<
    ([schema |-> "s1",devs |-> {},dbSchema |-> "s1",hist |-> <<>>,alive |-> TRUE,tree |-> ("src/a/x.ts" :> "v1" @@ "src/a/x.tsx" :> "none" @@ "src/ab/y.ts" :> "v1" @@ "src/top.ts" :> "v1" @@ "src/a/n.md" :> "none" @@ "src/a/z.ts" :> "none" @@ "src/c/x.ts" :> "none" @@ "src/c/x.tsx" :> "none" @@ "src/c/n.md" :> "none" @@ "src/c/z.ts" :> "none"),db |-> ("src/a/x.ts" :> "v1" @@ "src/a/x.tsx" :> "none" @@ "src/ab/y.ts" :> "v1" @@ "src/top.ts" :> "v1" @@ "src/a/n.md" :> "none" @@ "src/a/z.ts" :> "none" @@ "src/c/x.ts" :> "none" @@ "src/c/x.tsx" :> "none" @@ "src/c/n.md" :> "none" @@ "src/c/z.ts" :> "none")]),
    ([schema |-> "s1",devs |-> {"DevNonSourceFileTracked"},dbSchema |-> "s1",hist |-> <<[p |-> "src/a/n.md", evs |-> <<[p |-> "src/a/n.md", k |-> "create"]>>, op |-> "write", c |-> "v1"]>>,alive |-> TRUE,tree |-> ("src/a/x.ts" :> "v1" @@ "src/a/x.tsx" :> "none" @@ "src/ab/y.ts" :> "v1" @@ "src/top.ts" :> "v1" @@ "src/a/n.md" :> "v1" @@ "src/a/z.ts" :> "none" @@ "src/c/x.ts" :> "none" @@ "src/c/x.tsx" :> "none" @@ "src/c/n.md" :> "none" @@ "src/c/z.ts" :> "none"),db |-> ("src/a/x.ts" :> "v1" @@ "src/a/x.tsx" :> "none" @@ "src/ab/y.ts" :> "v1" @@ "src/top.ts" :> "v1" @@ "src/a/n.md" :> "v1" @@ "src/a/z.ts" :> "none" @@ "src/c/x.ts" :> "none" @@ "src/c/x.tsx" :> "none" @@ "src/c/n.md" :> "none" @@ "src/c/z.ts" :> "none")]),
    ([schema |-> "s1",devs |-> {},dbSchema |-> "s1",hist |-> <<[p |-> "src/a/n.md", evs |-> <<[p |-> "src/a/n.md", k |-> "create"]>>, op |-> "write", c |-> "v1"], [p |-> "src/a/x.ts", evs |-> <<[p |-> "src/a/x.ts", k |-> "modify"]>>, op |-> "write", c |-> "v2"]>>,alive |-> TRUE,tree |-> ("src/a/x.ts" :> "v2" @@ "src/a/x.tsx" :> "none" @@ "src/ab/y.ts" :> "v1" @@ "src/top.ts" :> "v1" @@ "src/a/n.md" :> "v1" @@ "src/a/z.ts" :> "none" @@ "src/c/x.ts" :> "none" @@ "src/c/x.tsx" :> "none" @@ "src/c/n.md" :> "none" @@ "src/c/z.ts" :> "none"),db |-> ("src/a/x.ts" :> "v2" @@ "src/a/x.tsx" :> "none" @@ "src/ab/y.ts" :> "v1" @@ "src/top.ts" :> "v1" @@ "src/a/n.md" :> "v1" @@ "src/a/z.ts" :> "none" @@ "src/c/x.ts" :> "none" @@ "src/c/x.tsx" :> "none" @@ "src/c/n.md" :> "none" @@ "src/c/z.ts" :> "none")])
    >>
----


=============================================================================

---- CONFIG Watch_TTrace_1790045339 ----
CONSTANTS
    MaxOps = 3
    Emit = FALSE

INVARIANT
    _inv

CHECK_DEADLOCK
    \* CHECK_DEADLOCK off because of PROPERTY or INVARIANT above.
    FALSE

INIT
    _init

NEXT
    _next

CONSTANT
    _TETrace <- _trace

ALIAS
    _expression
=============================================================================
\* Generated on Tue Sep 22 02:49:18 UTC 2026