------------------------------- MODULE ObsC10 -------------------------------
(* C10 (layer A) evaluated on one record per declared entrypoint of an accepted program:
     [id, key, E (the bundle: reader with nested readers inlined, normalization AST, parsed operation; vars: the
      variables the entrypoint's client field declares in the abstract program)]
   For every valuation of the entrypoint's variables (each nullable variable also null/absent), both leaf modes
   (every nullable leaf null / non-null) and every conforming response (Runtime.tla Responses: null / non-null where
   the schema allows, list lengths 0..MaxLen per depth, every concrete type at abstract positions, own id per object),
   normalizing the response and reading the entrypoint reader (descending into every nested reader) neither reports
   MissingData nor throws.  Valuations under which two differently aliased selections of one record get the same
   store key are skipped (Runtime.tla KeyCollision: the enumerated responses are not consistent for them).                                                                               *)
EXTENDS Runtime, IOUtils

CONSTANTS MaxLen0, MaxLen1, MaxLenDeep,    \* max list length at depth 0, depth 1, deeper
          MaxFail                          \* how many failing experiments to print per record
MaxLens == <<MaxLen0, MaxLen1, MaxLenDeep>>

Rec == ndJsonDeserialize(IOEnv.TRACE)

VARIABLE l
Init == l = 1

Modes == {[nulls |-> b, maxLen |-> MaxLens] : b \in BOOLEAN}

\* all experiments of a record: <<nulls (set of null variables), mode, response>>
Failures(E) ==
  UNION {UNION {{[nullVars |-> nulls, leafNulls |-> M.nulls, r |-> Experiment(E, resp, Valuation(E, nulls))]
                  : resp \in Responses(E.op, M)}
                : M \in Modes}
         : nulls \in {ns \in SUBSET NullableVars(E) : ~KeyCollision(E.norm, Valuation(E, ns))}}

RECURSIVE Take(_, _)
Take(Q, n) == IF n = 0 \/ Q = {} THEN {} ELSE LET x == CHOOSE y \in Q : TRUE IN {x} \cup Take(Q \ {x}, n - 1)

Judge(r) ==
  LET E == r.E
      nResp == Cardinality(UNION {Responses(E.op, M) : M \in Modes})
      all == Failures(E)
      bad == {x \in all : x.r.k # "ok"}
      vals == {ns \in SUBSET NullableVars(E) : ~KeyCollision(E.norm, Valuation(E, ns))}
  IN [n |-> Cardinality(vals) * nResp, skipped |-> Cardinality(SUBSET NullableVars(E)) - Cardinality(vals), nBad |-> Cardinality(bad),
      bad |-> Take({[nullVars |-> x.nullVars, leafNulls |-> x.leafNulls,
                     r |-> IF x.r.k = "missing" THEN [k |-> "missing", why |-> x.r.why, path |-> x.r.path, key |-> x.r.key]
                           ELSE x.r] : x \in bad}, MaxFail)]

Next == /\ l <= Len(Rec)
        /\ l' = l + 1
        /\ LET r == Rec[l]
               j == IF r.E.op.ok THEN Judge(r) ELSE [n |-> 0, skipped |-> 0, nBad |-> 0, bad |-> {}]
           IN /\ PrintT(<<"STAT", ToJson([id |-> r.id, key |-> r.key, n |-> j.n, skipped |-> j.skipped, nBad |-> j.nBad])>>)
              /\ IF j.nBad = 0 THEN TRUE ELSE PrintT(<<"BAD", ToJson([id |-> r.id, key |-> r.key, nBad |-> j.nBad, bad |-> j.bad])>>)

Spec == Init /\ [][Next]_l

AllConsumed == TLCGet("stats").diameter = Len(Rec) + 1
=============================================================================
