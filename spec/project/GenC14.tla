------------------------------- MODULE GenC14 -------------------------------
(* C14, spec -> impl: the STATES of this specification are (project, environment) pairs; the
   transitions are the environment actions of Determinism.tla.  TLC enumerates the reachable
   states; the driver executes the real compiler once per state, in a fresh OS process, and
   ObsC14.tla judges the recorded runs.

   Projects: a base program (component User.Card, field Query.Home, entrypoint Query.Home in two
   files / two directories) plus any set of at most MaxFeat FEATURES.  Each feature brings its own
   file(s).  Features whose name starts with "x" make the project invalid (each contributes an
   independent diagnostic); the others keep it acceptable.  Several features put declarations of
   the SAME thing into DIFFERENT files (xDup, xLazy, dupEp, dupEpWs), which is where the order in
   which files are discovered can show.  Checked-in projects (DemoIds) are opaque to the
   specification: only their environment is modelled.                                            *)
EXTENDS IsoProgram, Determinism

CONSTANTS MaxFeat,      \* features per project
          PairWith,     \* projects with two or more features contain at least one of these
          FullPermFiles,\* projects with at most this many files get every creation order
          Reps,         \* fresh processes in the base environment
          DevReps,      \* fresh processes in every other environment
          MaxDev,       \* environment dimensions that deviate from the base at once
          SwapBudget,   \* inversions allowed in `order` for projects with more files (+ the full reversal)
          DemoIds,      \* ids of the checked-in projects
          DemoReps, MaxShuf

Raw(text, call) == [k |-> "raw", text |-> text, call |-> call, on |-> "x", name |-> "raw"]
Tagged(d, t)    == [tag |-> t] @@ d
EntrypointD(on, name, dir) == [k |-> "entrypoint", on |-> on, name |-> name, dirs |-> <<[name |-> dir, args |-> <<>>]>>]
EntrypointLead(on, name, lead) == [k |-> "entrypoint", on |-> on, name |-> name, hdr |-> [lead |-> lead]]

Piece(decls, layout) == [decls |-> decls, layout |-> layout]

Base == Piece(<< Component("User", "Card", <<>>, <<Scalar("name"), Scalar("age")>>),
                 Field("Query", "Home", <<>>, << Linked("me", <<Scalar("Card")>>),
                                                LinkedA("pets", "", << <<"first", IntV("2")>> >>, <<Scalar("nickname")>>) >>),
                 Entrypoint("Query", "Home") >>,
              << "src/user/card.ts", "src/home.ts", "src/home.ts" >>)

FeatureNames == << "nobabel", "sameName", "refetch", "pet", "loadable", "mutation", "dupEp", "dupEpWs", "xField", "xEp", "xParse", "xParse2",
                   "xDup", "xLazy", "xType", "xDupSame", "xUnused3", "xMissing2", "xExtra2", "xMany" >>

Feature(f) ==
  CASE f = "nobabel" ->   \* options.no_babel_transform = true: iso.ts switches on the entrypoint literal TEXT
         Piece(<< >>, << >>)
    [] f = "sameName" ->  \* the name of a client field of another type (User.Card) on Pet, never selected
         Piece(<< Field("Pet", "Card", <<>>, <<Scalar("nickname")>>) >>, << "src/pet/card.ts" >>)
    [] f = "refetch" ->   \* several imperatively loaded fields under one entrypoint (refetch query indexes, nested refetch queries)
         Piece(<< Field("Pet", "Tag2", <<>>, <<Scalar("nickname"), Scalar("__refetch"), Scalar("feed")>>),
                  Field("Query", "Refetchy", <<>>, << Linked("pets", <<Scalar("Tag2")>>),
                                                     Linked("topPet", <<Scalar("Tag2"), Scalar("refetchPet")>>) >>),
                  Entrypoint("Query", "Refetchy") >>,
               << "src/pet/tag2.ts", "src/refetchy.ts", "src/refetchy.ts" >>)
    [] f = "pet" ->
         Piece(<< Field("Pet", "Tag", <<>>, <<Scalar("nickname"), Scalar("kind")>>),
                  Component("Query", "PetList", <<>>, << Linked("pets", <<Scalar("Tag")>>) >>),
                  Entrypoint("Query", "PetList") >>,
               << "src/pet/tag.ts", "src/pet/list.ts", "src/pet/list.ts" >>)
    [] f = "loadable" ->
         Piece(<< Field("Query", "Lazy", <<>>, << Linked("me", <<WithDir(Scalar("Card"), "loadable")>>) >>),
                  Entrypoint("Query", "Lazy") >>,
               << "src/lazy.ts", "src/lazy.ts" >>)
    [] f = "mutation" ->
         Piece(<< Field("Mutation", "SetName",
                        << VarDef("id", NonNull(Named("ID"))), VarDef("name", NonNull(Named("String"))) >>,
                        << LinkedA("setName", "", << <<"id", Var("id")>>, <<"name", Var("name")>> >>, <<Scalar("name")>>) >>),
                  Entrypoint("Mutation", "SetName") >>,
               << "src/mut.ts", "src/mut.ts" >>)
    [] f = "dupEp" ->       \* the same entrypoint literal once more, in another file
         Piece(<< Tagged(Entrypoint("Query", "Home"), "2") >>, << "src/again.ts" >>)
    [] f = "dupEpWs" ->     \* ... and once more on a line of its own: newline + two spaces before the keyword (another literal TEXT)
         Piece(<< Tagged(EntrypointLead("Query", "Home", <<10, 32, 32>>), "3") >>, << "src/spaced.ts" >>)
    [] f = "xField" ->      \* selection of a field that does not exist
         Piece(<< Field("Query", "Bad1", <<>>, << Linked("me", <<Scalar("nope")>>) >>) >>, << "src/bad/one.ts" >>)
    [] f = "xEp" ->         \* entrypoint of an undefined client field
         Piece(<< Entrypoint("Query", "Missing") >>, << "src/bad/ep.ts" >>)
    [] f = "xParse" ->      \* syntax error: missing closing brace
         Piece(<< Raw("field Query.Broken { me { name }", TRUE) >>, << "src/bad/parse.ts" >>)
    [] f = "xParse2" ->     \* syntax error: missing name
         Piece(<< Raw("entrypoint Query.", FALSE) >>, << "src/bad/parse2.ts" >>)
    [] f = "xDup" ->        \* one client field defined in two files
         Piece(<< Tagged(Field("User", "Twin", <<>>, <<Scalar("name")>>), "a"),
                  Tagged(Field("User", "Twin", <<>>, <<Scalar("age")>>), "b") >>,
               << "src/twin/a.ts", "src/twin/b.ts" >>)
    [] f = "xLazy" ->       \* the base entrypoint declared lazily in another file
         Piece(<< Tagged(EntrypointD("Query", "Home", "lazyLoad"), "z") >>, << "src/bad/lazy.ts" >>)
    [] f = "xType" ->       \* client field on an undefined type
         Piece(<< Field("Nope", "X", <<>>, <<Scalar("a")>>) >>, << "src/bad/type.ts" >>)
    [] f = "xDupSame" ->    \* one client field defined twice in ONE file
         Piece(<< Tagged(Field("User", "Twice", <<>>, <<Scalar("name")>>), "a"),
                  Tagged(Field("User", "Twice", <<>>, <<Scalar("age")>>), "b") >>,
               << "src/twice.ts", "src/twice.ts" >>)
    \* diagnostics that LIST several items, and several diagnostics from one declaration (added after
    \* seeded/C14-unused-variables-through-hashset: the order INSIDE one diagnostic's text was never exercised)
    [] f = "xUnused3" ->    \* three unused variables: one diagnostic naming all three
         Piece(<< Field("Query", "Unused3", << VarDef("va", Named("Int")), VarDef("vb", Named("Int")), VarDef("vc", Named("Int")) >>,
                        << Linked("me", <<Scalar("name")>>) >>) >>, << "src/bad/unused3.ts" >>)
    [] f = "xMissing2" ->   \* two required arguments missing
         Piece(<< Field("Mutation", "Missing2", <<>>, << Linked("setName", <<Scalar("name")>>) >>) >>, << "src/bad/missing2.ts" >>)
    [] f = "xExtra2" ->     \* three undefined arguments
         Piece(<< Field("Query", "Extra2", <<>>,
                        << LinkedA("me", "", << <<"foo", IntV("1")>>, <<"bar", IntV("2")>>, <<"baz", IntV("3")>> >>, <<Scalar("name")>>) >>) >>,
               << "src/bad/extra2.ts" >>)
    [] f = "xMany" ->       \* three undefined fields in one selection set: three diagnostics from one declaration
         Piece(<< Field("Query", "Many", <<>>, << Linked("me", <<Scalar("nope1"), Scalar("nope2"), Scalar("nope3")>>) >>) >>, << "src/bad/many.ts" >>)

IsInvalidFeature(f) == f \in {"xField", "xEp", "xParse", "xParse2", "xDup", "xLazy", "xType", "xDupSame", "xUnused3", "xMissing2", "xExtra2", "xMany"}

RECURSIVE Join(_)
Join(s) == IF s = <<>> THEN "" ELSE "+" \o Head(s) \o Join(Tail(s))
RECURSIVE Cat(_, _)
Cat(fs, sel) == IF fs = <<>> THEN Base[sel] ELSE Cat(SubSeq(fs, 1, Len(fs) - 1), sel) \o Feature(fs[Len(fs)])[sel]

RECURSIVE Distinct(_)
Distinct(s) == IF s = <<>> THEN <<>>
               ELSE LET r == Distinct(Tail(s)) IN <<Head(s)>> \o SelectSeq(r, LAMBDA x : x # Head(s))

\* order-preserving sub-sequences of FeatureNames with at most k elements, the first at index >= lo
RECURSIVE IncSeqs(_, _)
IncSeqs(k, lo) == IF k = 0 THEN {<<>>}
                  ELSE {<<>>} \cup UNION { {<<FeatureNames[i]>> \o r : r \in IncSeqs(k - 1, i + 1)} : i \in lo..Len(FeatureNames) }

FeatureSeqs == {fs \in IncSeqs(MaxFeat, 1) : Len(fs) >= 2 => \E i \in DOMAIN fs : fs[i] \in PairWith}

MkProject(fs) ==
  [id |-> "base" \o Join(fs), class |-> IF \E i \in DOMAIN fs : IsInvalidFeature(fs[i]) THEN "invalid" ELSE "valid",
   feats |-> fs, opt |-> IF \E i \in DOMAIN fs : fs[i] = "nobabel" THEN "nobabel" ELSE "std", decls |-> Cat(fs, "decls"), layout |-> Cat(fs, "layout"),
   nfiles |-> Len(Distinct(Cat(fs, "layout")))]

Generated == {MkProject(fs) : fs \in FeatureSeqs}
Demos == {[id |-> d, class |-> "demo", nfiles |-> 0] : d \in DemoIds}

VARIABLES proj, env
vars == <<proj, env>>

Init == proj \in Generated \cup Demos /\ env = BaseEnv(proj.nfiles)

Budget == IF proj.nfiles <= FullPermFiles THEN proj.nfiles * proj.nfiles ELSE SwapBudget
RepsOf(e) == IF proj.class = "demo" THEN DemoReps ELSE IF Deviations(e) = 0 THEN Reps ELSE DevReps
Allowed(f) == Deviations(f) <= MaxDev

Step(f) == env' = f /\ UNCHANGED proj

NewProcess      == /\ env.rep < RepsOf(env)
                   /\ LET f == [env EXCEPT !.rep = env.rep + 1] IN NewProcessRel(env, f, RepsOf(env)) /\ Step(f)
PermuteDir      == \E i \in 1..(proj.nfiles - 1) :
                      LET f == [env EXCEPT !.order = SwapAdj(env.order, i), !.rep = 1]
                      IN PermuteDirRel(env, f, Budget) /\ Allowed(f) /\ Step(f)
ReverseDir      == /\ proj.nfiles >= 2
                   /\ LET f == [env EXCEPT !.order = RevPerm(proj.nfiles), !.rep = 1]
                      IN ReverseDirRel(env, f) /\ Allowed(f) /\ Step(f)
Shuffle         == /\ proj.class = "demo"
                   /\ LET f == [env EXCEPT !.shuf = env.shuf + 1, !.rep = 1] IN ShuffleRel(env, f, MaxShuf) /\ Step(f)
\* literal order / entrypoint placement rewrite files: generated for acceptable projects (see Determinism.tla)
PermuteLiterals == /\ proj.class = "valid"
                   /\ \E x \in LitOrders : LET f == [env EXCEPT !.lit = x, !.rep = 1]
                                           IN PermuteLiteralsRel(env, f) /\ Allowed(f) /\ Step(f)
MoveEntrypoints == /\ proj.class = "valid"
                   /\ \E x \in EpPlaces : LET f == [env EXCEPT !.ep = x, !.rep = 1]
                                          IN MoveEntrypointsRel(env, f) /\ Allowed(f) /\ Step(f)

Next == NewProcess \/ PermuteDir \/ ReverseDir \/ Shuffle \/ PermuteLiterals \/ MoveEntrypoints

Spec == Init /\ [][Next]_vars

\* one line per state; the project itself once, with its base environment
Emit == /\ PrintT(<<"RUN", ToJson([project |-> proj.id, env |-> env])>>)
        /\ (env = BaseEnv(proj.nfiles) /\ proj.class # "demo") => PrintT(<<"PROJECT", ToJson(proj)>>)
=============================================================================
