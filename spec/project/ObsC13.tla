------------------------------- MODULE ObsC13 -------------------------------
(* C13 (layer A): for every ACCEPTED program and configuration
     (1) every generated .ts artifact parses as a TypeScript module and every generated .json artifact
         parses as JSON  (syntax is the observers' verdict: swc_ecma_parser / serde_json, recorded as `parses`);
     (2) every relative import between artifacts -- static `import .. from` / `require` and dynamic
         `import(..)` -- names a file that the same compile generated: resolved against the directory of
         the importing file; with include_file_extensions_in_import_statements the specifier carries the
         file's extension, without the option it carries none and names <stem>.ts.
   An import that leaves the artifact directory (the resolver modules of the project's own sources) is
   not an import between artifacts and is not judged here.

   One record per compile:
     [id, accepted, ext (the option), adir (name of the artifact directory),
      files: << [dir: <<segments below the artifact dir's parent>>, stem, ext, parses,
                 imports: << [segs: <<"..", "Pet", ..>>, stem, ext, dyn] >>] >>]
   (python only splits the path strings at "/" and the last "."; relative = specifier starts with ".") *)
EXTENDS Naturals, Sequences, FiniteSets, TLC, Json, IOUtils

CONSTANT TraceFile
Rec == ndJsonDeserialize(TraceFile)

VARIABLE l
Init == l = 1

RECURSIVE Walk(_, _)
\* follow the segments of a relative specifier from a directory; <<"^">> = left the tree
Walk(cur, segs) ==
  IF segs = <<>> THEN cur
  ELSE LET h == Head(segs) IN
       IF h = "." THEN Walk(cur, Tail(segs))
       ELSE IF h = ".." THEN (IF cur = <<>> \/ cur = <<"^">> THEN <<"^">> ELSE Walk(SubSeq(cur, 1, Len(cur) - 1), Tail(segs)))
       ELSE Walk(Append(cur, h), Tail(segs))

BetweenArtifacts(r, f, imp) == LET t == Walk(f.dir, imp.segs) IN t # <<>> /\ t[1] = r.adir

Resolves(r, f, imp) ==
  LET t == Walk(f.dir, imp.segs) IN
  \E j \in DOMAIN r.files :
     LET g == r.files[j] IN
     /\ g.dir = t /\ g.stem = imp.stem
     /\ IF r.ext THEN imp.ext = g.ext ELSE imp.ext = "" /\ g.ext = "ts"

Fails(r) ==
  IF ~r.accepted THEN {}
  ELSE {[f |-> i, why |-> "does-not-parse", k |-> 0] : i \in {x \in DOMAIN r.files : ~r.files[x].parses}}
       \cup UNION { {[f |-> i, why |-> "unresolved-import", k |-> k]
                      : k \in {y \in DOMAIN r.files[i].imports : BetweenArtifacts(r, r.files[i], r.files[i].imports[y])
                                                                  /\ ~Resolves(r, r.files[i], r.files[i].imports[y])}}
                    : i \in DOMAIN r.files }

SetToSeq(S) == LET RECURSIVE F(_) F(X) == IF X = {} THEN <<>> ELSE LET x == CHOOSE y \in X : TRUE IN <<x>> \o F(X \ {x}) IN F(S)

Next == /\ l <= Len(Rec)
        /\ l' = l + 1
        /\ LET r == Rec[l] fs == Fails(Rec[l])
           IN IF fs = {} THEN TRUE ELSE PrintT(<<"BAD", ToJson([id |-> r.id, fails |-> SetToSeq(fs)])>>)

Spec == Init /\ [][Next]_l

AllConsumed == TLCGet("stats").diameter = Len(Rec) + 1
=============================================================================
