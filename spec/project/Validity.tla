------------------------------ MODULE Validity ------------------------------
(* C16 reference semantics: a type checker for the generated iso subset, written from the property
   statement and the GraphQL specification (June 2018, section 5 "Validation"), NOT from the compiler.

   One predicate per rule named in the property statement; Broken(P) is the set of rule tags a
   program violates and Valid(P) == Broken(P) = {}:

     "undef_field"       a selection names a field that is not defined on the parent type      (5.3.1)
     "obj_no_sels"       a field of object/interface/union type (or a client pointer, or an
                         asType refinement) is selected without a selection set                (5.3.3)
     "scalar_with_sels"  a scalar/enum field (or a client field) is selected with one          (5.3.3)
     "undef_arg"         an argument that the field does not declare                           (5.4.1)
     "missing_arg"       a required argument (non-null type, no default value) is omitted      (5.4.2.1)
     "undecl_var"        a variable is used that the enclosing declaration does not declare    (5.8.3)
     "unused_var"        a declared variable is not used anywhere in the declaration           (5.8.4)
     "type"              a value or variable whose type is incompatible with the position:
                         literals (5.6.1), input object fields incl. nested (5.6.2, 5.6.4),
                         variables (5.8.5 IsVariableUsageAllowed / AreTypesCompatible), through
                         list and non-null wrappers, enum positions, and arguments passed to a
                         client field that declares variables ("client-field parameters")
     "dup_name"          two selections of one selection set have the same response name
                         (alias, or name when there is no alias) -- as the property states it

   iso conventions (the only things taken from the implementation; each is a documented language
   convention, not a validation outcome):
     * a client field / pointer declaration `field T.f($v: Ty = d) { .. }` is selected by name on T
       like a server field; the variables it declares are its argument definitions (type, default);
       a client field is selected like a scalar, a client pointer like an object (child type `to`);
     * on an interface / union T, `asX { .. }` (X a concrete member of T) is a type refinement,
       selected like an object field of type X without arguments;
     * variables are declared per declaration (there are no operations in the source language), so
       "declared"/"used" are relative to the enclosing client field / pointer declaration;
     * a selection of a client field marked `@loadable` may omit required arguments (they can be
       supplied when the field is loaded at run time);
     * `__typename` is selectable like a scalar on every composite type and `__link` likewise.

   The schema is data (spec/project/<SchemaFile>); the program is the abstract program of
   IsoProgram.tla.  InSubset(P) states the boundary of the language subset this checker models. *)
EXTENDS IsoProgram

CONSTANT SchemaFile

VS == JsonDeserialize(SchemaFile)
VT == VS.types
VNames == DOMAIN VT
BuiltinScalars == {"ID", "String", "Int", "Float", "Boolean"}

Range(s) == {s[i] : i \in DOMAIN s}
EmptyFn == [x \in {} |-> 0]

VKind(n) == IF n \in BuiltinScalars THEN "scalar" ELSE IF n \in VNames THEN VT[n].kind ELSE "undefined"
Composite(n) == VKind(n) \in {"object", "interface", "union"}
HasF(n) == VKind(n) \in {"object", "interface"}
IsInputType(n) == VKind(n) \in {"scalar", "enum", "input"}

\* concrete members of an abstract type
Members(T) == IF VKind(T) = "union" THEN Range(VT[T].members)
              ELSE IF VKind(T) = "interface" THEN {n \in VNames : VT[n].kind = "object" /\ T \in Range(VT[n].implements)}
              ELSE {}

RespName(s) == IF s.alias # "" THEN s.alias ELSE s.name
IsLoadable(s) == \E i \in DOMAIN s.dirs : s.dirs[i].name = "loadable"

\* ---- selectables -----------------------------------------------------------------------------
ClientDecls(P) == {i \in DOMAIN P.decls : P.decls[i].k \in {"field", "pointer"}}
DeclsOn(P, T, name) == {i \in ClientDecls(P) : P.decls[i].on = T /\ P.decls[i].name = name}

ArgDefsServer(T, f) == LET a == VT[T].fields[f].args
                       IN [n \in DOMAIN a |-> [type |-> a[n].type, hasdef |-> "default" \in DOMAIN a[n]]]
ArgDefsClient(d) == LET vs == d.vars
                    IN [n \in {vs[i].name : i \in DOMAIN vs} |->
                          LET v == vs[CHOOSE i \in DOMAIN vs : vs[i].name = n]
                          IN [type |-> v.type, hasdef |-> "default" \in DOMAIN v]]

NoSelectable == [kind |-> "none", linked |-> FALSE, child |-> "", args |-> EmptyFn]

Lookup(P, T, name) ==
  IF HasF(T) /\ name \in DOMAIN VT[T].fields
    THEN LET b == BaseName(VT[T].fields[name].type)
         IN [kind |-> "server", linked |-> Composite(b), child |-> b, args |-> ArgDefsServer(T, name)]
  ELSE IF DeclsOn(P, T, name) # {}
    THEN LET d == P.decls[CHOOSE i \in DeclsOn(P, T, name) : TRUE]
         IN IF d.k = "pointer"
              THEN [kind |-> "pointer", linked |-> TRUE, child |-> d.to, args |-> ArgDefsClient(d)]
              ELSE [kind |-> "client", linked |-> FALSE, child |-> "", args |-> ArgDefsClient(d)]
  ELSE IF \E X \in Members(T) : name = "as" \o X
    THEN [kind |-> "refine", linked |-> TRUE, child |-> CHOOSE X \in Members(T) : name = "as" \o X, args |-> EmptyFn]
  ELSE IF name \in {"__typename", "__link"} /\ Composite(T)
    THEN [kind |-> "meta", linked |-> FALSE, child |-> "", args |-> EmptyFn]
  ELSE NoSelectable

\* ---- types -----------------------------------------------------------------------------------
RECURSIVE Compat(_, _)
\* GraphQL AreTypesCompatible(variableType, locationType)
Compat(v, l) ==
  IF l.k = "nonnull" THEN v.k = "nonnull" /\ Compat(v.of, l.of)
  ELSE IF v.k = "nonnull" THEN Compat(v.of, l)
  ELSE IF l.k = "list" THEN v.k = "list" /\ Compat(v.of, l.of)
  ELSE IF v.k = "list" THEN FALSE
  ELSE v.n = l.n

\* GraphQL IsVariableUsageAllowed(variableDefinition, variableUsage)
VarUsageAllowed(vd, locTy, locHasDefault) ==
  LET hasNonNullDefault == "default" \in DOMAIN vd /\ vd.default.t # "null"
  IN IF locTy.k = "nonnull" /\ vd.type.k # "nonnull"
       THEN (hasNonNullDefault \/ locHasDefault) /\ Compat(vd.type, locTy.of)
       ELSE Compat(vd.type, locTy)

VarNames(vars) == {vars[i].name : i \in DOMAIN vars}
VarDefOf(vars, n) == vars[CHOOSE i \in DOMAIN vars : vars[i].name = n]

RECURSIVE VarsInValue(_)
VarsInValue(v) == IF v.t = "var" THEN {v.n}
                  ELSE IF v.t = "obj" THEN UNION {VarsInValue(v.fields[j][2]) : j \in DOMAIN v.fields}
                  ELSE {}

CustomScalar(n) == VKind(n) = "scalar" /\ n \notin BuiltinScalars      \* any literal is accepted (not validated)
LiteralFits(v, n) ==
  CASE v.t = "int"  -> n \in {"Int", "Float", "ID"} \/ CustomScalar(n)
    [] v.t = "str"  -> n \in {"String", "ID"} \/ CustomScalar(n)
    [] v.t = "bool" -> n = "Boolean" \/ CustomScalar(n)
    [] v.t = "enum" -> VKind(n) = "enum" /\ v.v \in Range(VT[n].values)
    [] OTHER -> FALSE

RECURSIVE ValBroken(_, _, _, _)
\* rule tags broken by value v in a position of type ty (locHasDefault: the argument / input field has a default)
ValBroken(v, ty, locHasDefault, vars) ==
  IF v.t = "var" THEN
     IF v.n \notin VarNames(vars) THEN {"undecl_var"}
     ELSE IF VarUsageAllowed(VarDefOf(vars, v.n), ty, locHasDefault) THEN {} ELSE {"type"}
  ELSE IF v.t = "null" THEN (IF ty.k = "nonnull" THEN {"type"} ELSE {})
  ELSE LET t == IF ty.k = "nonnull" THEN ty.of ELSE ty IN
    IF t.k = "list" THEN ValBroken(v, t.of, FALSE, vars)         \* list input coercion of a single item (3.11)
    ELSE IF v.t = "obj" THEN
       IF VKind(t.n) # "input" THEN {"type"} \cup (IF VarsInValue(v) \subseteq VarNames(vars) THEN {} ELSE {"undecl_var"})
       ELSE LET I == VT[t.n].fields
                given == {v.fields[j][1] : j \in DOMAIN v.fields}
            IN (IF given \subseteq DOMAIN I THEN {} ELSE {"type"})
               \cup (IF \E f \in DOMAIN I : I[f].type.k = "nonnull" /\ "default" \notin DOMAIN I[f] /\ f \notin given
                       THEN {"type"} ELSE {})
               \cup UNION { IF v.fields[j][1] \in DOMAIN I
                              THEN ValBroken(v.fields[j][2], I[v.fields[j][1]].type, "default" \in DOMAIN I[v.fields[j][1]], vars)
                              ELSE (IF VarsInValue(v.fields[j][2]) \subseteq VarNames(vars) THEN {} ELSE {"undecl_var"})
                            : j \in DOMAIN v.fields }
    ELSE IF LiteralFits(v, t.n) THEN {} ELSE {"type"}

\* ---- selections ------------------------------------------------------------------------------
Required(def) == def.type.k = "nonnull" /\ ~def.hasdef

ArgsBroken(s, defs, vars) ==
  LET given == {s.args[i][1] : i \in DOMAIN s.args}
  IN (IF given \subseteq DOMAIN defs THEN {} ELSE {"undef_arg"})
     \cup (IF ~IsLoadable(s) /\ \E n \in DOMAIN defs : Required(defs[n]) /\ n \notin given THEN {"missing_arg"} ELSE {})
     \cup UNION { IF s.args[i][1] \in DOMAIN defs
                    THEN ValBroken(s.args[i][2], defs[s.args[i][1]].type, defs[s.args[i][1]].hasdef, vars)
                    ELSE (IF VarsInValue(s.args[i][2]) \subseteq VarNames(vars) THEN {} ELSE {"undecl_var"})
                  : i \in DOMAIN s.args }

DupBroken(sels) == IF \E i, j \in DOMAIN sels : i < j /\ RespName(sels[i]) = RespName(sels[j]) THEN {"dup_name"} ELSE {}

RECURSIVE SelsBroken(_, _, _, _)
RECURSIVE SelBroken(_, _, _, _)
SelsBroken(P, vars, T, sels) == DupBroken(sels) \cup UNION {SelBroken(P, vars, T, sels[i]) : i \in DOMAIN sels}
SelBroken(P, vars, T, s) ==
  LET lk == Lookup(P, T, s.name)
  IN IF lk.kind = "none"
       THEN {"undef_field"} \cup (IF \A i \in DOMAIN s.args : VarsInValue(s.args[i][2]) \subseteq VarNames(vars) THEN {} ELSE {"undecl_var"})
       ELSE (IF lk.linked /\ ~IsLinkedSel(s) THEN {"obj_no_sels"} ELSE {})
            \cup (IF ~lk.linked /\ IsLinkedSel(s) THEN {"scalar_with_sels"} ELSE {})
            \cup ArgsBroken(s, lk.args, vars)
            \cup (IF lk.linked /\ IsLinkedSel(s) THEN SelsBroken(P, vars, lk.child, s.sels) ELSE {})

RECURSIVE UsedVars(_)
\* syntactic: every $v that occurs anywhere in the selections of the declaration
UsedVars(sels) == UNION { UNION {VarsInValue(sels[i].args[a][2]) : a \in DOMAIN sels[i].args}
                          \cup (IF IsLinkedSel(sels[i]) THEN UsedVars(sels[i].sels) ELSE {})
                          : i \in DOMAIN sels }

DeclBroken(P, d) == SelsBroken(P, d.vars, d.on, d.sels)
                    \cup (IF VarNames(d.vars) \subseteq UsedVars(d.sels) THEN {} ELSE {"unused_var"})

Broken(P) == UNION {DeclBroken(P, P.decls[i]) : i \in ClientDecls(P)}
Valid(P) == Broken(P) = {}

Rules == {"undef_field", "obj_no_sels", "scalar_with_sels", "undef_arg", "missing_arg", "undecl_var",
          "unused_var", "type", "dup_name"}

\* ---- boundary of the modelled subset ---------------------------------------------------------
(* What Validity decides (and the property is claimed for).  Outside of it the checker is silent:
     - declarations are client fields / pointers on object types of the schema and entrypoints on
       Query / Mutation that name a declared client field; names of declarations are unique per type
       and do not shadow a server field; variable names are unique per declaration and their types
       are scalar / enum / input types of the schema;
     - selections carry no directive except @loadable on a client field;
     - values are $var, integer (within i32), string, true/false, null and {..} objects (the iso
       literal syntax has no enum, list or float literals); a scalar / object literal is never
       written where a list is expected (GraphQL list input coercion is not exercised);
     - no duplicate argument names, no duplicate input object field names;
     - the generated extension fields (exposeField) and __refetch are not selected.               *)
RECURSIVE TypeOk(_)
TypeOk(t) == IF t.k = "named" THEN IsInputType(t.n) ELSE TypeOk(t.of)

UnknownType == [k |-> "unknown"]
RECURSIVE ValueInSubset(_, _)
\* ty = UnknownType when the position's type is unknown (undefined argument / input field)
ValueInSubset(v, ty) ==
  /\ v.t \in {"var", "int", "str", "bool", "null", "obj"}
  /\ LET t == IF ty.k = "nonnull" THEN ty.of ELSE ty IN
     /\ v.t \in {"int", "str", "bool", "obj"} => t.k # "list"
     /\ v.t = "obj" =>
          /\ \A i, j \in DOMAIN v.fields : i # j => v.fields[i][1] # v.fields[j][1]
          /\ \A j \in DOMAIN v.fields :
               ValueInSubset(v.fields[j][2],
                  IF t.k = "named" /\ VKind(t.n) = "input" /\ v.fields[j][1] \in DOMAIN VT[t.n].fields
                    THEN VT[t.n].fields[v.fields[j][1]].type ELSE UnknownType)

RECURSIVE SelsInSubset(_, _, _)
SelsInSubset(P, T, sels) ==
  \A i \in DOMAIN sels :
    LET s == sels[i] lk == Lookup(P, T, s.name) IN
    /\ \A a, b \in DOMAIN s.args : a # b => s.args[a][1] # s.args[b][1]
    /\ \A a \in DOMAIN s.args : ValueInSubset(s.args[a][2], IF s.args[a][1] \in DOMAIN lk.args THEN lk.args[s.args[a][1]].type ELSE UnknownType)
    /\ \A x \in DOMAIN s.dirs : s.dirs[x].name = "loadable" /\ lk.kind = "client" /\ s.dirs[x].args = <<>>
    /\ s.name \notin {"feed", "refetchPet", "__refetch"}
    /\ (IsLinkedSel(s) /\ lk.linked) => SelsInSubset(P, lk.child, s.sels)

InSubset(P) ==
  /\ \A i \in DOMAIN P.decls :
       LET d == P.decls[i] IN
       IF d.k = "entrypoint"
         THEN d.on \in {"Query", "Mutation"} /\ \E j \in ClientDecls(P) : P.decls[j].k = "field" /\ P.decls[j].on = d.on /\ P.decls[j].name = d.name
         ELSE /\ VKind(d.on) = "object"
              /\ d.name \notin DOMAIN VT[d.on].fields
              /\ \A j \in ClientDecls(P) : (j # i /\ P.decls[j].on = d.on) => P.decls[j].name # d.name
              /\ \A a, b \in DOMAIN d.vars : a # b => d.vars[a].name # d.vars[b].name
              /\ \A a \in DOMAIN d.vars : TypeOk(d.vars[a].type)
              /\ d.k = "pointer" => VKind(d.to) = "object"
              /\ SelsInSubset(P, d.on, d.sels)
=============================================================================
