------------------------------- MODULE ObsC24 -------------------------------
(* C24 (layer A): for every client field, client pointer and entrypoint literal of an ACCEPTED
   program, the generated iso.ts has an overload for it, and the first overload whose literal
   pattern matches that literal's text is the one for the same declaration.

   record: [id, outcome,
            M        |-> [ws |-> <<code points of WhitespaceCharacter>>, strip |-> BOOLEAN, parts |-> template],
            overloads|-> << [pattern |-> <<code points>>, kind |-> "IdentityWithParam" | "IdentityWithParamComponent"
                                                                   | "typeof", name |-> "Query__Foo__param" | "entrypoint_Query__Foo"], .. >>
                         (the iso overloads without body, in file order),
            literals |-> << [k |-> "field" | "pointer" | "entrypoint", on, name, component |-> BOOLEAN,
                             text |-> <<code points between the back-ticks>>], .. >> ]

   An overload BELONGS to a declaration when its result type is the one iso.ts builds from that
   declaration's own generated types:  IdentityWithParam<On__Name__param> (field, pointer),
   IdentityWithParamComponent<On__Name__param> (@component), typeof entrypoint_On__Name.          *)
EXTENDS HeaderMatch, TLC, Json, IOUtils

Rec == ndJsonDeserialize(IOEnv.TRACE)

VARIABLE l
Init == l = 1

Range(s) == {s[i] : i \in DOMAIN s}

Expected(d) ==
  IF d.k = "entrypoint" THEN [kind |-> "typeof", name |-> "entrypoint_" \o d.on \o "__" \o d.name]
  ELSE [kind |-> IF d.k = "field" /\ d.component THEN "IdentityWithParamComponent" ELSE "IdentityWithParam",
        name |-> d.on \o "__" \o d.name \o "__param"]

Owner(o) == [kind |-> o.kind, name |-> o.name]

Matcher(r) == [ws |-> Range(r.M.ws), strip |-> r.M.strip, parts |-> r.M.parts]
Patterns(r) == [i \in DOMAIN r.overloads |-> r.overloads[i].pattern]

\* "" when the literal resolves to its own overload
WhyLit(r, d) ==
  LET i == FirstMatch(Matcher(r), Patterns(r), d.text) IN
  IF ~\E j \in DOMAIN r.overloads : Owner(r.overloads[j]) = Expected(d) THEN "no-overload"
  ELSE IF i = 0 THEN "no-match"
  ELSE IF Owner(r.overloads[i]) # Expected(d) THEN "wrong-overload"
  ELSE ""

Bad(r) == {j \in DOMAIN r.literals : WhyLit(r, r.literals[j]) # ""}

Next == /\ l <= Len(Rec)
        /\ l' = l + 1
        /\ LET r == Rec[l] IN
           IF r.outcome # "ok" \/ Bad(r) = {} THEN TRUE
           ELSE \A j \in Bad(r) :
                  LET d == r.literals[j]
                      i == FirstMatch(Matcher(r), Patterns(r), d.text)
                  IN PrintT(<<"BAD", ToJson([id |-> r.id, why |-> WhyLit(r, d), lit |-> j,
                                              decl |-> d.k \o " " \o d.on \o "." \o d.name,
                                              chosen |-> IF i = 0 THEN "none" ELSE r.overloads[i].name])>>)

Spec == Init /\ [][Next]_l

AllConsumed == TLCGet("stats").diameter = Len(Rec) + 1
=============================================================================
