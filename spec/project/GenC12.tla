------------------------------ MODULE GenC12 ------------------------------
(* Generator for C12: the STATES are (field, argument list) cases over the abstract value universe of
   Keys.tla, and pairs of cases on the same field for which the MODEL (Keys.tla, layer B) predicts that the
   layer-A statement fails (equal keys for different arguments, different keys for the same arguments).

   For every case TLC prints the program pieces (renderer format), the alias / runtime key the model
   predicts, and the layer-A verdicts on the model (legal name, compiler key = runtime key).  The driver
   compiles every case in a tiny program (+ all cases of one field together in one selection set), reads
   the real alias from the generated operation, runs the real TypeScript key functions on the generated
   normalization AST, and ObsC12.tla judges layer A on those observations.                            *)
EXTENDS Keys, IsoProgram, Randomization

CONSTANTS UnitSet,      \* "small" | "full"
          MaxLen,       \* maximal number of units in an enumerated string
          NGood         \* number of randomly chosen pairs for which the model predicts NO failure

\* ---- names as text -------------------------------------------------------------------------------------
nPets == <<112, 101, 116, 115>>         nFirst == <<102, 105, 114, 115, 116>>     nAfter == <<97, 102, 116, 101, 114>>
nFilter == <<102, 105, 108, 116, 101, 114>>   nName == <<110, 97, 109, 101>>      nMinWeight == <<109, 105, 110, 87, 101, 105, 103, 104, 116>>
nKind == <<107, 105, 110, 100>>         nNested == <<110, 101, 115, 116, 101, 100>>   nWeight == <<119, 101, 105, 103, 104, 116>>
nUnit == <<117, 110, 105, 116>>         nScore == <<115, 99, 111, 114, 101>>      nRound == <<114, 111, 117, 110, 100>>
nScale == <<115, 99, 97, 108, 101>>     nUser == <<117, 115, 101, 114>>           nId == <<105, 100>>


\* ---- values -------------------------------------------------------------------------------------------
Units == IF UnitSet = "small"
         THEN {uA, u7, uUnder, uSpace, uDot, uDash, uLatin, uEmoji, uEscN, uEscSur}
         ELSE {uA, uZ, u7, uUnder, uSpace, uDot, uDash, uLatin, uCjk, uEmoji, uEscN, uEscBs, uEscU, uEscSur}
\* one unit per character class (pairs are enumerated over these)
ClassUnits == {uA, u7, uUnder, uSpace, uLatin, uEscN}

RECURSIVE SeqsUpTo(_, _)
SeqsUpTo(S, n) == IF n = 0 THEN {<<>>} ELSE LET r == SeqsUpTo(S, n - 1) IN r \cup {<<x>> \o s : x \in S, s \in {q \in r : Len(q) = n - 1}}

MStr(units) == [t |-> "str", units |-> units]
MInt(text, cps, jscps, cls) == [t |-> "int", text |-> text, cps |-> cps, jscps |-> jscps, cls |-> cls]
MVar(n, ncps) == [t |-> "var", n |-> n, ncps |-> ncps]
MBool(b) == [t |-> "bool", v |-> b]
MNull == [t |-> "null"]
MObj(fs) == [t |-> "obj", fields |-> fs]

i0  == MInt("0", <<48>>, <<48>>, "int-nonneg")
i3  == MInt("3", <<51>>, <<51>>, "int-nonneg")
i12 == MInt("12", <<49, 50>>, <<49, 50>>, "int-nonneg")
iM1 == MInt("-1", <<45, 49>>, <<45, 49>>, "int-negative")
iM0 == MInt("-0", <<48>>, <<48>>, "int-negative-zero")                  \* parsed to the i64 0, printed as 0
iBig == MInt("9007199254740993", <<57,48,48,55,49,57,57,50,53,52,55,52,48,57,57,51>>,
            <<57,48,48,55,49,57,57,50,53,52,55,52,48,57,57,50>>, "int-beyond-2^53")   \* JavaScript reads ...992
Ints == {i0, i3, i12, iM1, iM0, iBig}

sX == MStr(<<uA>>)
word(c) == Unit("word", <<c>>, <<c>>, <<c>>)
\* "a____first___l_3" : the text of a second argument inside a string
sInject == MStr(<<uA, uUnder, uUnder, uUnder, uUnder>> \o [i \in 1..5 |-> word(nFirst[i])] \o <<uUnder, uUnder, uUnder, word(108), uUnder, word(51)>>)
\* "a_minWeight__l_3" : the text of a second input-object field inside a string
sInjectObj == MStr(<<uA, uUnder>> \o [i \in 1..9 |-> word(nMinWeight[i])] \o <<uUnder, uUnder, word(108), uUnder, word(51)>>)

A(name, ncps, v) == <<name, ncps, v>>
Case(on, f, fcps, args, vars) == [on |-> on, f |-> f, fcps |-> fcps, args |-> args, vars |-> vars]

Strings == {MStr(u) : u \in SeqsUpTo(Units, MaxLen)} \cup {sInject, sInjectObj}
PairStrings == {MStr(u) : u \in SeqsUpTo(ClassUnits, 2)} \cup {sInject, sInjectObj}
FewStrings == {MStr(<<>>), sX, MStr(<<uSpace>>), MStr(<<uUnder>>), MStr(<<uA, uSpace, u7>>), MStr(<<uA, uUnder, u7>>), MStr(<<uLatin>>), MStr(<<uEscN>>), sInjectObj}

vI == MVar("i", <<105>>)   vS == MVar("s", <<115>>)   vW == MVar("w", <<119>>)   vB == MVar("b", <<98>>)
vLong == MVar("my_var_2", <<109, 121, 95, 118, 97, 114, 95, 50>>)
tInt == Named("Int")  tStr == Named("String")  tBool == Named("Boolean")  tID == Named("ID")

CasesFor(strs, few) ==
     {Case("Query", "pets", nPets, <<A("after", nAfter, s)>>, <<>>) : s \in strs}
\cup {Case("Pet", "weight", nWeight, <<A("unit", nUnit, s)>>, <<>>) : s \in few}
\cup {Case("Query", "pets", nPets, <<A("first", nFirst, i)>>, <<>>) : i \in Ints}
\cup {Case("Query", "pets", nPets, <<A("first", nFirst, MNull)>>, <<>>),
      Case("Query", "pets", nPets, <<A("first", nFirst, vI)>>, <<VarDef("i", tInt)>>),
      Case("Query", "pets", nPets, <<A("first", nFirst, vLong)>>, <<VarDef("my_var_2", tInt)>>),
      Case("Query", "pets", nPets, <<A("after", nAfter, vS)>>, <<VarDef("s", tStr)>>),
      Case("Query", "pets", nPets, <<A("after", nAfter, MNull)>>, <<>>),
      Case("Query", "pets", nPets, <<>>, <<>>),
      Case("User", "score", nScore, <<A("round", nRound, MBool(TRUE))>>, <<>>),
      Case("User", "score", nScore, <<A("round", nRound, MBool(FALSE))>>, <<>>),
      Case("User", "score", nScore, <<A("round", nRound, MNull)>>, <<>>),
      Case("User", "score", nScore, <<A("round", nRound, vB)>>, <<VarDef("b", tBool)>>),
      Case("User", "score", nScore, <<A("scale", nScale, i3)>>, <<>>),
      Case("User", "score", nScore, <<A("scale", nScale, iM1)>>, <<>>),
      Case("User", "score", nScore, <<A("scale", nScale, i3), A("round", nRound, MBool(TRUE))>>, <<>>),
      Case("User", "score", nScore, <<A("round", nRound, MBool(TRUE)), A("scale", nScale, i3)>>, <<>>),
      Case("Query", "user", nUser, <<A("id", nId, i3)>>, <<>>),
      Case("Query", "user", nUser, <<A("id", nId, MStr(<<word(51)>>))>>, <<>>),
      Case("Query", "pets", nPets, <<A("filter", nFilter, MObj(<<A("minWeight", nMinWeight, vW)>>))>>, <<VarDef("w", tInt)>>),
      Case("Query", "pets", nPets, <<A("filter", nFilter, MObj(<<A("kind", nKind, MNull)>>))>>, <<>>),
      Case("Query", "pets", nPets, <<A("filter", nFilter, MObj(<<>>))>>, <<>>) }
\cup {Case("Query", "pets", nPets, <<A("filter", nFilter, MObj(<<A("name", nName, s)>>))>>, <<>>) : s \in few}
\cup {Case("Query", "pets", nPets, <<A("filter", nFilter, MObj(<<A("nested", nNested, MObj(<<A("name", nName, s)>>))>>))>>, <<>>) : s \in {sX, MStr(<<uSpace>>)}}
\cup {Case("Query", "pets", nPets, <<A("filter", nFilter, MObj(<<A("minWeight", nMinWeight, i)>>))>>, <<>>) : i \in {i3, iM1}}
\cup {Case("Query", "pets", nPets, <<A("filter", nFilter, MObj(<<A("name", nName, sX), A("minWeight", nMinWeight, i3)>>))>>, <<>>),
      Case("Query", "pets", nPets, <<A("filter", nFilter, MObj(<<A("minWeight", nMinWeight, i3), A("name", nName, sX)>>))>>, <<>>),
      Case("Query", "pets", nPets, <<A("after", nAfter, sX), A("first", nFirst, i3)>>, <<>>),
      Case("Query", "pets", nPets, <<A("first", nFirst, i3), A("after", nAfter, sX)>>, <<>>),
      Case("Query", "pets", nPets, <<A("first", nFirst, iM1), A("after", nAfter, MStr(<<uSpace>>))>>, <<>>) }

Cases     == CasesFor(Strings, FewStrings)
PairCases == CasesFor(PairStrings, FewStrings)

\* ---- model verdicts ------------------------------------------------------------------------------------
Alias(c) == CompilerAlias(c.fcps, c.args)
RKey(c)  == RuntimeKey(c.fcps, c.args)
Classes(c) == UNION {ValueClasses(c.args[i][3]) : i \in DOMAIN c.args} \cup (IF Len(c.args) >= 2 THEN {"two-args"} ELSE {})

\* coarse tags used to group findings
Coarse(x) == CASE x \in {"str-ascii-nonword", "str-bmp-nonascii"} -> "str-nonword"
               [] x \in {"str-escape", "str-escape-non-bmp"} -> "str-escape"
               [] OTHER -> x
\* plain value classes carry no tag (a finding on plain values gets the bare signature)
Plain == {"str-word", "str-empty", "int-nonneg", "var", "bool", "null"}
Feats(c) == {Coarse(x) : x \in Classes(c)} \ Plain

IsLinkedF(c) == c.f \in {"pets", "user"}
SubSel(c) == IF c.f = "pets" THEN <<Scalar("nickname")>> ELSE <<Scalar("name")>>
SelOf(c, alias) == LET args == [i \in DOMAIN c.args |-> <<c.args[i][1], ProgValue(c.args[i][3])>>]
                   IN IF IsLinkedF(c) THEN LinkedA(c.f, alias, args, SubSel(c)) ELSE ScalarA(c.f, alias, args)
WrapT(T, sels) == CASE T = "Query" -> sels [] T = "User" -> <<Linked("me", sels)>> [] T = "Pet" -> <<Linked("topPet", sels)>>
EP == Entrypoint("Query", "Home")
TinyProg(c) == [decls |-> << Component("Query", "Home", c.vars, WrapT(c.on, <<SelOf(c, "")>>)), EP >>, feats |-> Feats(c)]
MergeVars(a, b) == a \o SelectSeq(b, LAMBDA v : \A i \in DOMAIN a : a[i].name # v.name)
PairProg(a, b) == [decls |-> << Component("Query", "Home", MergeVars(a.vars, b.vars), WrapT(a.on, <<SelOf(a, "ra"), SelOf(b, "rb")>>)), EP >>,
                   feats |-> Feats(a) \cup Feats(b)]

Out(c) == [f |-> c.f, nargs |-> Len(c.args), on |-> c.on,
           args |-> [i \in DOMAIN c.args |-> <<c.args[i][1], ProgValue(c.args[i][3])>>],
           alias |-> Alias(c), rkey |-> RKey(c),
           legal |-> IsName(Alias(c)), agree |-> Alias(c) = RKey(c)]

\* pairs on one field for which the model predicts a layer-A failure of "same key <=> same field and arguments"
SameField(a, b) == a.on = b.on /\ a.f = b.f
BadPair(a, b) == /\ SameField(a, b) /\ a # b
                 /\ (Alias(a) = Alias(b)) # SameArgs(a.args, b.args)
GoodPair(a, b) == SameField(a, b) /\ a # b /\ ~BadPair(a, b)
PairKind(a, b) == IF Alias(a) = Alias(b) THEN "model-predicts-equal-keys-for-different-arguments"
                  ELSE "model-predicts-different-keys-for-the-same-arguments"
PairOut(x, kind) == [k |-> "pair", kind |-> kind, prog |-> PairProg(x[1], x[2]), a |-> Out(x[1]), b |-> Out(x[2]),
                     sameargs |-> SameArgs(x[1].args, x[2].args)]

VARIABLE st
Init == \/ st \in {[k |-> "case", prog |-> TinyProg(c), a |-> Out(c)] : c \in Cases}
        \/ st \in {PairOut(x, PairKind(x[1], x[2])) : x \in {y \in PairCases \X PairCases : BadPair(y[1], y[2])}}
        \/ st \in {PairOut(x, "model-predicts-no-failure")
                   : x \in RandomSubset(NGood, {y \in PairCases \X PairCases : GoodPair(y[1], y[2])})}
Next == UNCHANGED st
Spec == Init /\ [][Next]_st

Emit == PrintT(<<"PROGRAM", ToJson(st)>>)
=============================================================================
