------------------------------- MODULE ObsC25 -------------------------------
(* C25 (layer A) evaluated on one record per entrypoint artifact of a real compile:
     [id, key ("Query/Home"), bundles (key -> bundle, see Refetch.tla), expose (@exposeField table),
      prog (the abstract program; absent for the checked-in demos), declared (BOOLEAN: an `entrypoint`
      declaration of the program, as opposed to an entrypoint generated for a loadably selected field)]
   For every refetchable selection that the runtime can reach from the entrypoint through any chain of
   client fields (Found = the walk of Refetch.tla over the recorded reader ASTs, composing the index
   lists exactly as read.ts does), the selected refetch query exists and is the one generated for that
   field at that position (no problems); and — when the abstract program is known — the selections found
   are exactly the ones the program contains (Expected).                                            *)
EXTENDS Refetch, IOUtils

Rec == ndJsonDeserialize(IOEnv.TRACE)

VARIABLE l
Init == l = 1

Ctx(r) == [E |-> r.bundles[r.key], bundles |-> r.bundles, expose |-> r.expose, schemaKnown |-> Has(r, "prog"),
           pointerTo |-> IF Has(r, "prog") THEN PointerTargets(r.prog) ELSE << >>]

Proj(f) == [path |-> f.path, kind |-> f.kind, name |-> f.name, on |-> f.on]

Judge(r) ==
  LET found == Found(Ctx(r))
      bad == {f \in found : f.problems # {}}
      E == r.bundles[r.key]
      expd == IF Has(r, "prog") THEN Expected(r.prog, E.on, E.name, r.expose) ELSE {}
      got == {Proj(f) : f \in found}
  IN [bad |-> {[path |-> f.path, kind |-> f.kind, name |-> f.name, on |-> f.on, sel |-> f.sel, problems |-> f.problems] : f \in bad},
      missing |-> IF Has(r, "prog") THEN expd \ got ELSE {},
      extra |-> IF Has(r, "prog") THEN got \ expd ELSE {},
      n |-> Cardinality(found),
      kinds |-> {f.kind : f \in found},
      positions |-> Cardinality({f \in found : f.kind = "imperative" /\ f.problems = {}})]

Next == /\ l <= Len(Rec)
        /\ l' = l + 1
        /\ LET r == Rec[l]
               j == Judge(r)
           IN /\ PrintT(<<"STAT", ToJson([id |-> r.id, key |-> r.key, n |-> j.n, kinds |-> j.kinds])>>)
              /\ IF j.bad = {} /\ j.missing = {} /\ j.extra = {} THEN TRUE
                 ELSE PrintT(<<"BAD", ToJson([id |-> r.id, key |-> r.key, bad |-> j.bad, missing |-> j.missing, extra |-> j.extra])>>)

Spec == Init /\ [][Next]_l

AllConsumed == TLCGet("stats").diameter = Len(Rec) + 1
=============================================================================
