------------------------------ MODULE GenC09 ------------------------------
(* Generator for C09 / C11 (and the base programs of C15): the STATES are iso programs over schema1.

   A program = one *case* (a field selection with an argument list drawn from the value classes the
   property names: literals, variables, null, booleans, negative integers, strings with apostrophes /
   backslashes / non-ASCII / non-BMP characters, input objects with variables nested inside) placed
   in one *mode* (where the selection stands: directly in the entrypoint's field, in a client field, in a
   client field selected @loadable, next to __refetch, under a type refinement of an abstract field,
   under a client pointer, next to an @exposeField mutation / refetch field).
   Family "value": Cases x Modes.   Family "pair": two selections of one field with different arguments
   in one selection set (fields-in-set-can-merge).   Family "shape": subsets of structural features.
   Family "combo" (thorough): two cases in two modes in one program.

   Every program carries `feats`: the tags of the value classes and of the mode it exercises (used to
   group findings; "plain" things carry no tag).                                                     *)
EXTENDS IsoProgram

CONSTANT Family

\* ---- strings (code points; 57344 = U+E000 stands for ONE raw backslash in the source text) ----------
sX       == <<120>>
sSpace   == <<97, 32, 98>>            \* a b
sUnder   == <<97, 95, 98>>            \* a_b
sDot     == <<97, 46, 98>>            \* a.b
sDash    == <<45, 49>>                \* -1
sApos    == <<105, 116, 39, 115>>     \* it's
sBsPair  == <<97, 92, 98>>            \* a\b in JavaScript terms = a\\b in the text the compiler reads
sRawN    == <<97, 57344, 110, 98>>    \* a\nb in the text the compiler reads (a JavaScript escape)
sLatin   == <<233>>                   \* e-acute
sEmoji   == <<128512>>                \* non-BMP
sEmpty   == <<>>
sNull    == <<110, 117, 108, 108>>    \* null
sHash    == <<35, 120>>               \* #x
sBsPairX == <<97, 92, 120>>           \* a\\x in the text the compiler reads
sEscQuote == <<97, 57344, 34, 98>>    \* a\"b in the text the compiler reads (an escaped quote; the iso lexer accepts it)
sEscSlash == <<97, 57344, 47, 98>>    \* a\/b
sEscU    == <<57344, 117, 48, 48, 101, 57>>                                  \* \u00e9
sEscSurr == <<57344, 117, 68, 56, 51, 68, 57344, 117, 68, 69, 48, 48>>      \* \uD83D\uDE00 (a non-BMP character, escaped)

StrCases == { <<sX, {}>>, <<sSpace, {"str-nonword"}>>, <<sDot, {"str-nonword"}>>, <<sDash, {"str-nonword"}>>,
              <<sApos, {"str-apostrophe"}>>, <<sBsPair, {"str-backslash-pair"}>>, <<sRawN, {"str-backslash-n"}>>,
              <<sLatin, {"str-nonascii"}>>, <<sEmoji, {"str-nonbmp"}>>, <<sEmpty, {"str-empty"}>>, <<sHash, {"str-nonword"}>>,
              <<sBsPairX, {"str-backslash-pair-x"}>>, <<sEscQuote, {"str-escaped-quote"}>>, <<sEscSlash, {"str-escaped-slash"}>>,
              <<sEscU, {"str-unicode-escape"}>> }
\* sEmoji (rejected by the iso lexer: string characters stop at U+FFFF) stays as evidence of that; sEscSurr is only
\* used by C12 (swc's projection of surrogate escapes is lossy, Node evaluates the real artifact there).

tInt == Named("Int")   tStr == Named("String")   tID == Named("ID")   tFloat == Named("Float")   tBool == Named("Boolean")

\* ---- cases ------------------------------------------------------------------------------------------
C(on, f, args, vars, tags) == [on |-> on, f |-> f, args |-> args, vars |-> vars, tags |-> tags]
A1(k, v) == << <<k, v>> >>
A2(k1, v1, k2, v2) == << <<k1, v1>>, <<k2, v2>> >>
O1(k, v) == ObjV(<< <<k, v>> >>)

QueryCases ==
  { C("Query", "pets", A1("first", IntV("3")), <<>>, {}),
    C("Query", "pets", A1("first", IntV("0")), <<>>, {}),
    C("Query", "pets", A1("first", IntV("-1")), <<>>, {"int-neg"}),
    C("Query", "pets", A1("first", NullV), <<>>, {"null-lit"}),
    C("Query", "pets", A1("first", Var("i")), <<VarDef("i", tInt)>>, {"var"}),
    C("Query", "pets", A1("first", Var("i")), <<VarDef("i", NonNull(tInt))>>, {"var"}),
    C("Query", "pets", A1("first", Var("i")), <<VarDefD("i", tInt, IntV("5"))>>, {"var", "var-default"}),
    C("Query", "pets", A1("first", Var("i")), <<VarDefD("i", tInt, IntV("-2"))>>, {"var", "var-default", "int-neg-default"}),
    C("Query", "pets", A1("after", Var("s")), <<VarDef("s", tStr)>>, {"var"}),
    C("Query", "pets", A1("after", Var("s")), <<VarDefD("s", tStr, StrV(sApos))>>, {"var", "var-default", "str-apostrophe-default"}),
    C("Query", "pets", A1("after", NullV), <<>>, {"null-lit"}),
    C("Query", "pets", A2("first", IntV("3"), "after", StrV(sX)), <<>>, {"two-args"}),
    C("Query", "pets", A2("after", StrV(sX), "first", IntV("3")), <<>>, {"two-args"}),
    C("Query", "pets", A2("first", Var("i"), "after", Var("s")), <<VarDef("i", tInt), VarDef("s", tStr)>>, {"var", "two-args"}),
    C("Query", "pets", A1("filter", O1("name", StrV(sX))), <<>>, {"obj"}),
    C("Query", "pets", A1("filter", O1("name", StrV(sApos))), <<>>, {"obj", "str-apostrophe"}),
    C("Query", "pets", A1("filter", O1("minWeight", IntV("1"))), <<>>, {"obj"}),
    C("Query", "pets", A1("filter", O1("minWeight", IntV("-1"))), <<>>, {"obj", "int-neg"}),
    C("Query", "pets", A1("filter", O1("kind", NullV)), <<>>, {"obj", "null-lit"}),
    C("Query", "pets", A1("filter", ObjV(<<>>)), <<>>, {"obj-empty"}),
    C("Query", "pets", A1("filter", ObjV(<< <<"name", StrV(sX)>>, <<"minWeight", IntV("2")>> >>)), <<>>, {"obj"}),
    C("Query", "pets", A1("filter", O1("nested", O1("name", StrV(sX)))), <<>>, {"obj", "obj-nested"}),
    C("Query", "pets", A1("filter", O1("minWeight", Var("w"))), <<VarDef("w", tInt)>>, {"obj", "var-in-obj"}),
    C("Query", "pets", A1("filter", O1("name", Var("s"))), <<VarDef("s", tStr)>>, {"obj", "var-in-obj"}),
    C("Query", "pets", A1("filter", O1("nested", O1("minWeight", Var("w")))), <<VarDef("w", tInt)>>, {"obj", "obj-nested", "var-in-obj"}),
    C("Query", "pets", A2("first", Var("w"), "filter", O1("minWeight", Var("w"))), <<VarDef("w", tInt)>>, {"obj", "var", "var-in-obj-and-direct"}),
    C("Query", "pets", A1("filter", Var("f")), <<VarDef("f", Named("PetFilter"))>>, {"var", "var-input-object"}),
    C("Query", "user", A1("id", StrV(sX)), <<>>, {}),
    C("Query", "user", A1("id", IntV("1")), <<>>, {"id-int-lit"}),
    C("Query", "user", A1("id", Var("id")), <<VarDef("id", NonNull(tID))>>, {"var"}),
    C("Query", "user", A1("id", Var("uid")), <<VarDef("uid", NonNull(tID))>>, {"var"}),
    C("Query", "node", A1("id", Var("nid")), <<VarDef("nid", NonNull(tID))>>, {"var", "abstract-field"}),
    C("Query", "node", A1("id", StrV(sSpace)), <<>>, {"abstract-field", "str-nonword"}),
    C("Query", "search", A1("text", StrV(sX)), <<>>, {"abstract-field"}),
    C("Query", "search", A1("text", Var("t")), <<VarDef("t", NonNull(tStr))>>, {"var", "abstract-field"}),
    C("Query", "search", A1("text", Var("t")), <<VarDefD("t", tStr, StrV(sX))>>, {"var", "abstract-field", "var-default"}) }
  \cup { C("Query", "pets", A1("after", StrV(sc[1])), <<>>, sc[2]) : sc \in StrCases }

UserCases ==
  { C("User", "score", A1("scale", IntV("2")), <<>>, {}),
    C("User", "score", A1("scale", IntV("-2")), <<>>, {"int-neg"}),
    C("User", "score", A1("scale", Var("f")), <<VarDef("f", tFloat)>>, {"var"}),
    C("User", "score", A1("round", BoolV(TRUE)), <<>>, {"bool"}),
    C("User", "score", A1("round", BoolV(FALSE)), <<>>, {"bool"}),
    C("User", "score", A1("round", Var("b")), <<VarDef("b", tBool)>>, {"var"}),
    C("User", "score", A2("scale", NullV, "round", NullV), <<>>, {"null-lit", "two-args"}),
    C("User", "pets", A2("first", IntV("2"), "kind", Var("k")), <<VarDef("k", Named("PetKind"))>>, {"var", "enum-var", "two-args"}),
    C("User", "pets", A1("kind", NullV), <<>>, {"null-lit"}),
    C("User", "pets", A1("first", IntV("-1")), <<>>, {"int-neg"}) }

PetCases ==
  { C("Pet", "weight", A1("unit", Var("u")), <<VarDef("u", tStr)>>, {"var"}),
    C("Pet", "weight", A1("unit", NullV), <<>>, {"null-lit"}) }
  \cup { C("Pet", "weight", A1("unit", StrV(sc[1])), <<>>, sc[2]) : sc \in StrCases }

Cases == QueryCases \cup UserCases \cup PetCases

\* ---- selections --------------------------------------------------------------------------------------
SubFor(base) == CASE base = "Pet" -> <<Scalar("nickname")>>
                  [] base = "User" -> <<Scalar("name")>>
                  [] base = "Node" -> <<Scalar("id")>>
                  [] base = "SearchResult" -> <<Scalar("__typename")>>
                  [] OTHER -> <<Scalar("id")>>

IsLinkedField(on, f) == LET b == BaseName(FieldDef(on, f).type) IN HasFields(b) \/ (b \in TypeNames /\ Types[b].kind = "union")

SelA(on, f, alias, args) ==
  IF IsLinkedField(on, f) THEN LinkedA(f, alias, args, SubFor(BaseName(FieldDef(on, f).type))) ELSE ScalarA(f, alias, args)
CaseSel(c) == SelA(c.on, c.f, "", c.args)

\* how a selection on type T is reached from Query
Wrap(T, sels) == CASE T = "Query" -> sels
                   [] T = "User"  -> <<Linked("me", sels)>>
                   [] T = "Pet"   -> <<Linked("topPet", sels)>>

PassArgs(vars) == [i \in DOMAIN vars |-> <<vars[i].name, Var(vars[i].name)>>]
Home(vars, sels) == Component("Query", "Home", vars, sels)
EP == Entrypoint("Query", "Home")
NidVar == VarDef("nid", NonNull(tID))

Modes(T) == CASE T = "Query" -> {"direct", "client"}
              [] T = "User"  -> {"direct", "client", "loadable", "refetch", "abstract"}
              [] T = "Pet"   -> {"direct", "client", "loadable", "refetch", "abstract", "pointer", "pointer-abstract", "feed", "refetchpet"}

Decls(T, sel, vars, mode) ==
  CASE mode = "direct"   -> << Home(vars, Wrap(T, <<sel>>)), EP >>
    [] mode = "client"   -> << Field(T, "Inner", vars, <<sel>>),
                               Home(vars, Wrap(T, <<ScalarA("Inner", "", PassArgs(vars))>>)), EP >>
    [] mode = "loadable" -> << Field(T, "Inner", vars, <<sel>>),
                               Home(vars, Wrap(T, <<WithDir(ScalarA("Inner", "", PassArgs(vars)), "loadable")>>)), EP >>
    [] mode = "refetch"  -> << Home(vars, Wrap(T, <<Scalar("__refetch"), sel>>)), EP >>
    [] mode = "abstract" -> << Home(<<NidVar>> \o vars,
                                    <<LinkedA("node", "", A1("id", Var("nid")), <<Linked(IF T = "Pet" THEN "asPet" ELSE "asUser", <<sel>>)>>)>>), EP >>
    [] mode = "pointer"  -> << Pointer("User", "favPet", "Pet", <<Linked("bestPet", <<Scalar("__link")>>)>>),
                               Home(vars, <<Linked("me", <<Linked("favPet", <<sel>>)>>)>>), EP >>
    [] mode = "pointer-abstract" ->
                            << Pointer("User", "favNode", "Node", <<Linked("bestPet", <<Scalar("__link")>>)>>),
                               Home(vars, <<Linked("me", <<Linked("favNode", <<Linked("asPet", <<sel>>)>>)>>)>>), EP >>
    [] mode = "feed"     -> << Home(vars, Wrap(T, <<Scalar("feed"), sel>>)), EP >>
    [] mode = "refetchpet" -> << Home(vars, Wrap(T, <<Scalar("refetchPet"), sel>>)), EP >>

ModeTag(mode) == CASE mode = "direct" -> {}
                   [] mode = "pointer-abstract" -> {"mode-pointer", "pointer-to-abstract-type"}
                   [] OTHER -> {"mode-" \o mode}
Prog(decls, feats) == [decls |-> decls, feats |-> feats]

ValueProgramsF == UNION { { Prog(Decls(c.on, CaseSel(c), c.vars, m), c.tags \cup ModeTag(m)) : m \in Modes(c.on) } : c \in Cases }

\* ---- pairs: two selections of the same field, different (or equal) arguments, one selection set ------
PairArgs ==
  { <<"Query", "pets", A1("after", StrV(sSpace)), A1("after", StrV(sUnder)), {"pair-str-collide"}>>,
    <<"Query", "pets", A1("after", StrV(sSpace)), A1("after", StrV(sDot)), {"pair-str-collide"}>>,
    <<"Query", "pets", A1("after", StrV(sLatin)), A1("after", StrV(<<95>>)), {"pair-str-collide", "str-nonascii"}>>,
    <<"Query", "pets", A1("after", StrV(sX)), A1("after", StrV(sX)), {"pair-equal"}>>,
    <<"Query", "pets", A1("after", StrV(sX)), A1("after", StrV(<<121>>)), {"pair-distinct"}>>,
    <<"Query", "pets", A1("after", StrV(sNull)), A1("after", NullV), {"pair-distinct", "null-lit"}>>,
    <<"Query", "pets", A1("first", IntV("1")), A1("first", IntV("2")), {"pair-distinct"}>>,
    <<"Query", "pets", A1("first", IntV("1")), A1("first", Var("i")), {"pair-distinct", "var"}>>,
    <<"Query", "pets", A1("first", IntV("1")), <<>>, {"pair-distinct"}>>,
    <<"Query", "pets", A2("first", IntV("1"), "after", StrV(sX)), A2("after", StrV(sX), "first", IntV("1")), {"pair-arg-order"}>>,
    <<"Query", "pets", A1("filter", O1("name", StrV(sX))), A1("filter", O1("name", StrV(<<121>>))), {"pair-distinct", "obj"}>>,
    <<"Query", "pets", A1("filter", O1("name", StrV(sSpace))), A1("filter", O1("name", StrV(sUnder))), {"pair-str-collide", "obj"}>>,
    <<"Query", "user", A1("id", IntV("1")), A1("id", StrV(<<49>>)), {"pair-distinct", "id-int-lit"}>>,
    <<"User", "score", A1("round", BoolV(TRUE)), A1("round", BoolV(FALSE)), {"pair-distinct", "bool"}>>,
    <<"Pet", "weight", A1("unit", StrV(sSpace)), A1("unit", StrV(sUnder)), {"pair-str-collide"}>>,
    <<"Pet", "weight", A1("unit", StrV(sX)), <<>>, {"pair-distinct"}>> }

PairVars(p) == IF \E i \in DOMAIN p[4] : p[4][i][2] = Var("i") THEN <<VarDef("i", tInt)>> ELSE <<>>
PairSel2(p) == LET s == SelA(p[1], p[2], "b", p[4])
               IN IF IsLinkedSel(s) /\ BaseName(FieldDef(p[1], p[2]).type) = "Pet" THEN [s EXCEPT !.sels = <<Scalar("kind")>>] ELSE s
PairModes(T) == IF T = "Query" THEN {"direct", "client"} ELSE {"direct", "client", "refetch"}
PairDecls(p, m) ==
  LET T == p[1]  s1 == SelA(p[1], p[2], "a", p[3])  s2 == PairSel2(p)  vars == PairVars(p) IN
  CASE m = "direct"  -> << Home(vars, Wrap(T, <<s1, s2>>)), EP >>
    [] m = "client"  -> << Field(T, "Inner", <<>>, <<s1>>),
                           Home(vars, Wrap(T, <<Scalar("Inner"), s2>>)), EP >>
    [] m = "refetch" -> << Home(vars, Wrap(T, <<Scalar("__refetch"), s1, s2>>)), EP >>
PairPrograms == UNION { { Prog(PairDecls(p, m), p[5] \cup ModeTag(m)) : m \in PairModes(p[1]) } : p \in PairArgs }

\* ---- shapes: subsets of structural features in one program -------------------------------------------
ShapeFeatures == <<"typename", "refine-node", "refine-search", "pointer", "loadable", "refetch", "feed", "refetchpet",
                   "list", "nested-client", "client-var-literal", "client-var-renamed">>
Has(fs, x) == x \in fs
ShapeDecls(fs) ==
  LET tagSels == <<Scalar("nickname")>> \o (IF Has(fs, "client-var-literal") \/ Has(fs, "client-var-renamed")
                                          THEN <<ScalarA("weight", "", A1("unit", Var("u")))>> ELSE <<>>)
      tagVars == IF Has(fs, "client-var-literal") \/ Has(fs, "client-var-renamed") THEN <<VarDef("u", tStr)>> ELSE <<>>
      tagUse  == IF Has(fs, "client-var-renamed") THEN ScalarA("Tag", "", A1("u", Var("unit")))
                 ELSE IF Has(fs, "client-var-literal") THEN ScalarA("Tag", "", A1("u", StrV(<<107, 103>>)))
                 ELSE Scalar("Tag")
      petSels == <<Scalar("kind")>>
                 \o (IF Has(fs, "nested-client") THEN <<tagUse>> ELSE <<>>)
                 \o (IF Has(fs, "loadable") THEN <<WithDir(IF Has(fs, "nested-client") THEN [tagUse EXCEPT !.alias = "LTag"] ELSE tagUse, "loadable")>> ELSE <<>>)
                 \o (IF Has(fs, "refetch") THEN <<Scalar("__refetch")>> ELSE <<>>)
                 \o (IF Has(fs, "feed") THEN <<Scalar("feed")>> ELSE <<>>)
                 \o (IF Has(fs, "refetchpet") THEN <<Scalar("refetchPet")>> ELSE <<>>)
                 \o (IF Has(fs, "typename") THEN <<Scalar("__typename")>> ELSE <<>>)
      needTag == Has(fs, "nested-client") \/ Has(fs, "loadable")
      homeVars == (IF Has(fs, "refine-node") THEN <<NidVar>> ELSE <<>>)
                  \o (IF Has(fs, "refine-search") THEN <<VarDef("t", NonNull(tStr))>> ELSE <<>>)
                  \o (IF Has(fs, "client-var-renamed") /\ needTag THEN <<VarDef("unit", tStr)>> ELSE <<>>)
      homeSels == <<Linked("topPet", petSels)>>
                  \o (IF Has(fs, "refine-node")
                      THEN <<LinkedA("node", "", A1("id", Var("nid")),
                                     (IF Has(fs, "typename") THEN <<Scalar("__typename")>> ELSE <<>>)
                                     \o <<Linked("asPet", petSels), Linked("asUser", <<Scalar("name")>>)>>)>> ELSE <<>>)
                  \o (IF Has(fs, "refine-search")
                      THEN <<LinkedA("search", "", A1("text", Var("t")),
                                     <<Linked("asUser", <<Scalar("name")>>), Linked("asPet", petSels)>>)>> ELSE <<>>)
                  \o (IF Has(fs, "pointer") THEN <<Linked("me", <<Linked("favPet", petSels)>>)>> ELSE <<>>)
                  \o (IF Has(fs, "list") THEN <<Linked("me", <<Linked("friends", <<Scalar("name"), Linked("bestPet", petSels)>>)>>)>> ELSE <<>>)
  IN (IF needTag THEN <<Field("Pet", "Tag", tagVars, tagSels)>> ELSE <<>>)
     \o (IF Has(fs, "pointer") THEN <<Pointer("User", "favPet", "Pet", <<Linked("bestPet", <<Scalar("__link")>>)>>)>> ELSE <<>>)
     \o << Home(homeVars, homeSels), EP >>

\* "pointer" and "list" both select `me`: isograph wants one selection per reader name, so not both.
ShapeOK(fs) == /\ ~(Has(fs, "pointer") /\ Has(fs, "list"))
               /\ ~(Has(fs, "client-var-literal") /\ Has(fs, "client-var-renamed"))
               /\ ((Has(fs, "client-var-literal") \/ Has(fs, "client-var-renamed")) => (Has(fs, "nested-client") \/ Has(fs, "loadable")))
ShapePrograms(maxN) == { Prog(ShapeDecls(fs), {"shape-" \o x : x \in fs}) : fs \in {g \in SUBSET {ShapeFeatures[i] : i \in DOMAIN ShapeFeatures} : Cardinality(g) <= maxN /\ ShapeOK(g)} }

\* ---- combos (thorough): two cases of different types in one program ----------------------------------
DistinctVarNames(c1, c2) == \A i \in DOMAIN c1.vars : \A j \in DOMAIN c2.vars : c1.vars[i].name # c2.vars[j].name
ComboPairs == {cc \in QueryCases \X (UserCases \cup PetCases) : DistinctVarNames(cc[1], cc[2])}
ComboPrograms ==
  { LET c1 == cc[1]  c2 == cc[2] IN Prog(<< Home(c1.vars \o c2.vars, Wrap(c1.on, <<CaseSel(c1)>>) \o Wrap(c2.on, <<Scalar("__refetch"), CaseSel(c2)>>)), EP >>,
         c1.tags \cup c2.tags \cup {"combo"})
    : cc \in ComboPairs }

\* ---- special programs: empty selection sets, mutation entrypoints ------------------------------------
tFeedIn == NonNull(Named("FeedInput"))
MutEP(name) == Entrypoint("Mutation", name)
SpecialPrograms ==
  { Prog(<< Component("Query", "Home", <<>>, <<>>), EP >>, {"empty-root-selection"}),
    Prog(<< Field("FeedResult", "Nothing", <<>>, <<>>),
            Component("Mutation", "DoFeed", <<VarDef("i", tFeedIn)>>, <<LinkedA("feedPet", "", A1("input", Var("i")), <<Scalar("Nothing")>>)>>),
            MutEP("DoFeed") >>, {"empty-linked-selection"}),
    Prog(<< Component("Mutation", "DoFeed", <<VarDef("i", tFeedIn)>>,
                      <<LinkedA("feedPet", "", A1("input", Var("i")), <<Scalar("ok"), Linked("pet", <<Scalar("nickname")>>)>>)>>),
            MutEP("DoFeed") >>, {"mutation-entrypoint", "var"}),
    Prog(<< Component("Mutation", "DoFeed", <<VarDef("p", NonNull(tID))>>,
                      <<LinkedA("feedPet", "", A1("input", ObjV(<< <<"petId", Var("p")>>, <<"amount", IntV("2")>> >>)), <<Scalar("ok")>>)>>),
            MutEP("DoFeed") >>, {"mutation-entrypoint", "obj", "var-in-obj"}),
    Prog(<< Component("Mutation", "DoFeed", <<>>,
                      <<LinkedA("feedPet", "", A1("input", ObjV(<< <<"petId", StrV(sX)>> >>)), <<Scalar("ok")>>)>>),
            MutEP("DoFeed") >>, {"mutation-entrypoint", "obj"}),
    Prog(<< Component("Mutation", "Rename", <<VarDef("id", NonNull(tID))>>,
                      <<LinkedA("setName", "", A2("id", Var("id"), "name", StrV(sX)), <<Scalar("name")>>)>>),
            MutEP("Rename") >>, {"mutation-entrypoint", "var", "two-args"}),
    Prog(<< Field("User", "A", <<>>, <<Scalar("name")>>), Field("User", "B", <<>>, <<Scalar("age"), Scalar("A")>>),
            Home(<<>>, <<Linked("me", <<Scalar("A"), Scalar("B"), Scalar("name")>>)>>), EP,
            Component("Query", "Other", <<>>, <<Linked("me", <<Scalar("B")>>)>>), Entrypoint("Query", "Other") >>, {"two-entrypoints"}) }

\* ---- selection sets whose members all print nothing (client pointers, client fields without selections) ----
\* (added after seeded/C11-query-text-typename-fallback-for-pointer-only-sets: the merged selection map of such a set is
\* not empty, yet neither printer prints anything for it; on id-less concrete types nothing is added automatically)
InvOrder == <<"emptyfield", "ptr", "ptr2">>
InvDecl(T, k) == CASE k = "emptyfield" -> Field(T, "Nothing", <<>>, <<>>)
                   [] k = "ptr"        -> Pointer(T, "aPet", "Pet", <<>>)
                   [] k = "ptr2"       -> Pointer(T, "bPet", "Pet", <<Scalar("Nothing")>>)
InvSel(k) == CASE k = "emptyfield" -> Scalar("Nothing")
               [] k = "ptr"        -> Linked("aPet", <<Scalar("nickname")>>)
               [] k = "ptr2"       -> Linked("bPet", <<Scalar("kind")>>)
InvKinds(S) == SelectSeq(InvOrder, LAMBDA k : k \in S \/ (k = "emptyfield" /\ "ptr2" \in S))
InvDecls(T, S) == [i \in 1..Len(InvKinds(S)) |-> InvDecl(T, InvKinds(S)[i])]
InvSels(S) == LET ks == SelectSeq(InvOrder, LAMBDA k : k \in S) IN [i \in 1..Len(ks) |-> InvSel(ks[i])]
InvisiblePrograms ==
  UNION { { Prog(InvDecls("Query", S) \o << Home(<<>>, InvSels(S)), EP >>, {"invisible-root"} \cup {"inv-" \o k : k \in S}),
            Prog(InvDecls("FeedResult", S)
                 \o << Component("Mutation", "DoFeed", <<VarDef("i", NonNull(Named("FeedInput")))>>,
                                 <<LinkedA("feedPet", "", A1("input", Var("i")), InvSels(S))>>),
                       Entrypoint("Mutation", "DoFeed") >>, {"invisible-linked"} \cup {"inv-" \o k : k \in S}) }
          : S \in (SUBSET {"emptyfield", "ptr", "ptr2"}) \ {{}} }

\* ---- list-typed variables (added after a breaker's remark: the outer `!` of a non-null list variable was dropped from the
\*      operation header; schema1 had no list-typed argument at all) -----------------------------------------------------
tIds  == NonNull(ListOf(NonNull(tID)))            \* [ID!]!
tTags == ListOf(NonNull(tStr))                    \* [String!]
tGrid == ListOf(NonNull(ListOf(NonNull(tInt))))   \* [[Int!]!]
ListSels(a, b, c) == << LinkedA("byIds", "", A1("ids", a), <<Scalar("nickname")>>),
                        LinkedA("byTags", "", A2("tags", b, "grid", c), <<Scalar("kind")>>) >>
ListPrograms ==
  { Prog(<< Component("Query", "Home", <<VarDef("a", tIds), VarDef("b", tTags), VarDef("c", tGrid)>>, ListSels(Var("a"), Var("b"), Var("c"))), EP >>,
         {"list-variables"}),
    Prog(<< Field("Query", "Inner", <<VarDef("x", tIds), VarDef("y", tTags), VarDef("z", tGrid)>>, ListSels(Var("x"), Var("y"), Var("z"))),
            Component("Query", "Home", <<VarDef("a", tIds), VarDef("b", tTags), VarDef("c", tGrid)>>,
                      << ScalarA("Inner", "", << <<"x", Var("a")>>, <<"y", Var("b")>>, <<"z", Var("c")>> >>) >>), EP >>,
         {"list-variables", "through-client-field"}),
    Prog(<< Component("Query", "Home", <<VarDef("a", tIds)>>,
                      << LinkedA("byIds", "", A1("ids", Var("a")), <<Scalar("nickname"), Scalar("__refetch")>>) >>), EP >>,
         {"list-variables", "refetch"}),
    \* near misses: item / list nullability of the variable weaker than the argument's (the compiler must reject them; if it
    \* accepts one, the operation it prints violates IsVariableUsageAllowed) -- seeded/C09b-list-item-nullability-not-compared
    Prog(<< Component("Query", "Home", <<VarDef("b", ListOf(tStr))>>, << LinkedA("byTags", "", A1("tags", Var("b")), <<Scalar("kind")>>) >>), EP >>,
         {"list-variables", "weaker-item"}),
    Prog(<< Component("Query", "Home", <<VarDef("a", NonNull(ListOf(tID)))>>, << LinkedA("byIds", "", A1("ids", Var("a")), <<Scalar("kind")>>) >>), EP >>,
         {"list-variables", "weaker-item-nonnull-list"}),
    Prog(<< Component("Query", "Home", <<VarDef("a", ListOf(NonNull(tID)))>>, << LinkedA("byIds", "", A1("ids", Var("a")), <<Scalar("kind")>>) >>), EP >>,
         {"list-variables", "weaker-list"}),
    Prog(<< Component("Query", "Home", <<VarDef("c", ListOf(NonNull(ListOf(tInt))))>>, << LinkedA("byTags", "", A1("grid", Var("c")), <<Scalar("kind")>>) >>), EP >>,
         {"list-variables", "weaker-inner-item"}) }

Programs == CASE Family = "value"  -> ValueProgramsF
              [] Family = "pair"   -> PairPrograms
              [] Family = "shape2" -> ShapePrograms(2)
              [] Family = "shape3" -> ShapePrograms(3)
              [] Family = "shape4" -> ShapePrograms(4)
              [] Family = "combo"  -> ComboPrograms
              [] Family = "special" -> SpecialPrograms \cup InvisiblePrograms \cup ListPrograms
              [] Family = "quick"  -> ValueProgramsF \cup PairPrograms \cup ShapePrograms(2) \cup SpecialPrograms \cup InvisiblePrograms \cup ListPrograms
              [] Family = "thorough" -> ValueProgramsF \cup PairPrograms \cup ShapePrograms(4) \cup ComboPrograms \cup SpecialPrograms \cup InvisiblePrograms \cup ListPrograms

VARIABLE prog
Init == prog \in Programs
Next == UNCHANGED prog
Spec == Init /\ [][Next]_prog

Emit == PrintT(<<"PROGRAM", ToJson(prog)>>)
=============================================================================
