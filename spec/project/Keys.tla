-------------------------------- MODULE Keys --------------------------------
(* C12, design level (layer B): what the compiler writes as the response key of a field selection and
   what the TypeScript runtime computes from the normalization AST node, over an ABSTRACT value universe.

     CompilerAlias(field, args)  transcribes  get_aliased_mutation_field_name + to_alias_str_chunk
                                 (crates/isograph_schema/src/create_merged_selection_set.rs,
                                  crates/isograph_lang_types/src/declarations/selection_argument.rs)
     RuntimeKey(field, args)     transcribes  getNetworkResponseKey + getArgumentValueChunk
                                 (libs/isograph-react/src/core/cache.ts; /\W/g acts per UTF-16 code unit, on the
                                  JavaScript VALUE of the string literal in the normalization AST artifact)

   Text is a sequence of code points (TLC strings are opaque).  A string literal is a sequence of *units*;
   a unit is a character class with
       prog : code points to put into the program for the trusted renderer (57344 = one raw backslash;
              92 is doubled by the renderer so that the source text contains two)
       raw  : the characters the COMPILER reads between the quotes (it does not process escapes)
       js   : the UTF-16 code units of the VALUE JavaScript gives to the same characters inside "..."
   Model values: [t |-> "var", n, ncps] | [t |-> "int", text, cps, jscps] | [t |-> "bool", v] | [t |-> "null"]
               | [t |-> "str", units] | [t |-> "obj", fields : << <<name, namecps, value>> >>]
   The layer-A properties are evaluated (a) on this model for every enumerated case (predictions, printed by
   GenC12) and (b) on the observations of the real compiler + the real TypeScript functions (ObsC12). *)
EXTENDS Naturals, Sequences, FiniteSets, TLC

\* ---- characters ------------------------------------------------------------------------------------
IsWordCp(c) == c = 95 \/ (c >= 48 /\ c <= 57) \/ (c >= 65 /\ c <= 90) \/ (c >= 97 /\ c <= 122)
Unit(cls, prog, raw, js) == [cls |-> cls, prog |-> prog, raw |-> raw, js |-> js]

uA      == Unit("word", <<97>>, <<97>>, <<97>>)
uZ      == Unit("word", <<90>>, <<90>>, <<90>>)
u7      == Unit("word", <<55>>, <<55>>, <<55>>)
uUnder  == Unit("underscore", <<95>>, <<95>>, <<95>>)
uSpace  == Unit("ascii-nonword", <<32>>, <<32>>, <<32>>)
uDot    == Unit("ascii-nonword", <<46>>, <<46>>, <<46>>)
uDash   == Unit("ascii-nonword", <<45>>, <<45>>, <<45>>)
uLatin  == Unit("bmp-nonascii", <<233>>, <<233>>, <<233>>)
uCjk    == Unit("bmp-nonascii", <<20013>>, <<20013>>, <<20013>>)
uEmoji  == Unit("non-bmp", <<128512>>, <<128512>>, <<55357, 56832>>)
uEscN   == Unit("escape", <<57344, 110>>, <<92, 110>>, <<10>>)                                   \* \n
uEscBs  == Unit("escape", <<92>>, <<92, 92>>, <<92>>)                                            \* \\
uEscU   == Unit("escape", <<57344, 117, 48, 48, 101, 57>>, <<92, 117, 48, 48, 101, 57>>, <<233>>) \* é
uEscSur == Unit("escape-non-bmp", <<57344, 117, 68, 56, 51, 68, 57344, 117, 68, 69, 48, 48>>,
                <<92, 117, 68, 56, 51, 68, 92, 117, 68, 69, 48, 48>>, <<55357, 56832>>)          \* 😀

RECURSIVE Flat(_)
Flat(ss) == IF ss = <<>> THEN <<>> ELSE Head(ss) \o Flat(Tail(ss))
WordMap(cps) == [i \in DOMAIN cps |-> IF IsWordCp(cps[i]) THEN cps[i] ELSE 95]

RawOf(units)  == Flat([i \in DOMAIN units |-> units[i].raw])
JsOf(units)   == Flat([i \in DOMAIN units |-> units[i].js])
ProgOf(units) == Flat([i \in DOMAIN units |-> units[i].prog])

\* ---- fixed pieces of text ---------------------------------------------------------------------------
c4  == <<95, 95, 95, 95>>      \* ____  FIRST_SPLIT_KEY
c3  == <<95, 95, 95>>          \* ___   SECOND_SPLIT_KEY
c2  == <<95, 95>>              \* __    THIRD_SPLIT_KEY
cV  == <<118, 95>>             \* v_
cL  == <<108, 95>>             \* l_
cS  == <<115, 95>>             \* s_
cO  == <<111, 95>>             \* o_
cC  == <<95, 99>>              \* _c
cTrue == <<116, 114, 117, 101>>    cFalse == <<102, 97, 108, 115, 101>>    cNull == <<110, 117, 108, 108>>

RECURSIVE Join(_, _)
Join(parts, sep) == IF parts = <<>> THEN <<>> ELSE IF Len(parts) = 1 THEN parts[1] ELSE parts[1] \o sep \o Join(Tail(parts), sep)

\* ---- the compiler's alias (Rust) -----------------------------------------------------------------------
RECURSIVE RustChunk(_)
RustChunk(v) ==
  CASE v.t = "var"  -> cV \o v.ncps
    [] v.t = "int"  -> cL \o v.cps                         \* i64 Display
    [] v.t = "bool" -> cL \o (IF v.v THEN cTrue ELSE cFalse)
    [] v.t = "null" -> cL \o cNull
    [] v.t = "str"  -> cS \o WordMap(RawOf(v.units))        \* per char of the text between the quotes
    [] v.t = "obj"  -> cO \o Join([i \in DOMAIN v.fields |-> v.fields[i][2] \o c2 \o RustChunk(v.fields[i][3])], <<95>>) \o cC

CompilerAlias(fieldCps, args) ==       \* args : << <<name, namecps, value>> >>;  no arguments -> no alias, the key is the field name
  fieldCps \o Flat([i \in DOMAIN args |-> c4 \o args[i][2] \o c3 \o RustChunk(args[i][3])])

\* ---- the runtime's key (TypeScript) ----------------------------------------------------------------
RECURSIVE TsChunk(_)
TsChunk(v) ==
  CASE v.t = "var"  -> cV \o v.ncps
    [] v.t = "int"  -> cL \o v.jscps                       \* 'l_' + <JavaScript number parsed from the artifact>
    [] v.t = "bool" -> cL \o (IF v.v THEN cTrue ELSE cFalse)
    [] v.t = "null" -> cL \o cNull
    [] v.t = "str"  -> cS \o WordMap(JsOf(v.units))         \* per UTF-16 unit of the JavaScript value
    [] v.t = "obj"  -> cO \o Join([i \in DOMAIN v.fields |-> v.fields[i][2] \o c2 \o TsChunk(v.fields[i][3])], <<95>>) \o cC

RuntimeKey(fieldCps, args) ==
  fieldCps \o Flat([i \in DOMAIN args |-> c4 \o args[i][2] \o c3 \o TsChunk(args[i][3])])

\* ---- layer A on the model ---------------------------------------------------------------------------
IsNameStart(c) == c = 95 \/ (c >= 65 /\ c <= 90) \/ (c >= 97 /\ c <= 122)
IsNameChar(c)  == IsNameStart(c) \/ (c >= 48 /\ c <= 57)
IsName(cps) == Len(cps) >= 1 /\ IsNameStart(cps[1]) /\ \A i \in DOMAIN cps : IsNameChar(cps[i])

\* the same arguments: same names with the same VALUES (the value of a string is what the server receives;
\* at design level two string literals are the same iff their units are the same; argument order is irrelevant)
RECURSIVE SameValue(_, _)
SameValue(a, b) ==
  /\ a.t = b.t
  /\ CASE a.t = "var"  -> a.n = b.n
       [] a.t = "int"  -> a.cps = b.cps               \* the same number (-0 and 0 are one value)
       [] a.t = "bool" -> a.v = b.v
       [] a.t = "null" -> TRUE
       [] a.t = "str"  -> a.units = b.units
       [] a.t = "obj"  -> /\ Len(a.fields) = Len(b.fields)
                          /\ \A i \in DOMAIN a.fields : \E j \in DOMAIN b.fields :
                                a.fields[i][1] = b.fields[j][1] /\ SameValue(a.fields[i][3], b.fields[j][3])
SameArgs(x, y) == /\ Len(x) = Len(y)
                  /\ \A i \in DOMAIN x : \E j \in DOMAIN y : x[i][1] = y[j][1] /\ SameValue(x[i][3], y[j][3])

\* renderer format of a model value
RECURSIVE ProgValue(_)
ProgValue(v) ==
  CASE v.t = "var"  -> [t |-> "var", n |-> v.n]
    [] v.t = "int"  -> [t |-> "int", v |-> v.text]
    [] v.t = "bool" -> [t |-> "bool", v |-> v.v]
    [] v.t = "null" -> [t |-> "null"]
    [] v.t = "str"  -> [t |-> "str", cps |-> ProgOf(v.units)]
    [] v.t = "obj"  -> [t |-> "obj", fields |-> [i \in DOMAIN v.fields |-> <<v.fields[i][1], ProgValue(v.fields[i][3])>>]]

RECURSIVE ValueClasses(_)
ValueClasses(v) ==
  CASE v.t = "str" -> {"str-" \o v.units[i].cls : i \in DOMAIN v.units} \cup (IF v.units = <<>> THEN {"str-empty"} ELSE {})
    [] v.t = "obj" -> {"obj"} \cup UNION {ValueClasses(v.fields[i][3]) : i \in DOMAIN v.fields}
    [] v.t = "int" -> {v.cls}
    [] OTHER -> {v.t}
=============================================================================
