------------------------------ MODULE GenC25 ------------------------------
(* Generator for C25: the STATES are programs in which ONE client field containing refetchable
   selections (imperatively loaded fields `__refetch`, the @exposeField fields `feed` / `refetchPet`
   of schema1, `@loadable` selections, client pointers) is reused under several parents, at different
   depths, with different arguments, by two entrypoints.

     Pet.Inner            leaf component: nickname + a choice of imperatively loaded fields
     User.favPet          client pointer to Pet (optionally with a refetchable selection of its own)
     User.Card($n, $m)    the reused component: an ordered choice of `CardOptions`
     Query.Home($id, $k)  entrypoint 1: an ordered choice of 1..MaxUses `HomeOptions` (uses of Card / Inner)
     Query.Other          entrypoint 2: Card and Inner two levels deeper, other arguments            *)
EXTENDS IsoProgram

CONSTANTS MaxCard,     \* max number of selections of Card
          MaxUses,     \* max number of uses in Home
          InnerChoice, \* subset of 1..Len(InnerVariants)
          CardChoice,  \* subset of DOMAIN CardOptions
          HomeChoice   \* subset of DOMAIN HomeOptions

Loadable(sel) == WithDir(sel, "loadable")

InnerVariants ==
  << <<Scalar("nickname"), Scalar("__refetch")>>,
     <<Scalar("feed"), Scalar("nickname")>>,
     <<Scalar("nickname"), Scalar("feed"), Scalar("__refetch")>>,
     <<Scalar("refetchPet"), Scalar("kind"), Scalar("__refetch")>> >>

N == Var("n")
M == Var("m")
CardOptions ==
  << Linked("bestPet", <<Scalar("Inner")>>),                                                 \* 1
     LinkedA("pets", "", << <<"first", N>> >>, <<Scalar("Inner")>>),                          \* 2
     LinkedA("pets", "q", << <<"first", M>> >>, <<Scalar("kind"), Scalar("__refetch")>>),     \* 3
     Scalar("__refetch"),                                                                   \* 4
     LinkedA("bestPet", "lp", <<>>, <<Loadable(ScalarA("Inner", "L", <<>>))>>),               \* 5
     LinkedA("bestPet", "bp6", <<>>, <<Linked("mate", <<Scalar("nickname"), Scalar("Inner")>>)>>),    \* 6
     LinkedA("bestPet", "bp7", <<>>, <<LinkedA("mate", "m2", <<>>, <<Scalar("kind")>>)>>),        \* 7
     LinkedA("pets", "r", << <<"first", IntV("2")>> >>, <<Scalar("feed")>>),                   \* 8
     Linked("favPet", <<Scalar("nickname"), Scalar("Inner")>>),                               \* 9  pointer User -> Pet
     LinkedA("favPet", "fp2", <<>>, <<Scalar("kind")>>) >>                                     \* 10 same pointer, other alias

UsesPointer(cs) == \E i \in DOMAIN cs : cs[i].alias \in {"bp6", "bp7"}
RECURSIVE UsesVarIn(_, _)
UsesVarIn(sels, v) == \E i \in DOMAIN sels : (\E j \in DOMAIN sels[i].args : sels[i].args[j][2] = v)
                                              \/ (IsLinkedSel(sels[i]) /\ UsesVarIn(sels[i].sels, v))

CardVars(cs) == (IF UsesVarIn(cs, N) THEN <<VarDef("n", Named("Int"))>> ELSE <<>>)
                \o (IF UsesVarIn(cs, M) THEN <<VarDef("m", Named("Int"))>> ELSE <<>>)

\* a use of Card with argument values a (for n) and b (for m); only declared variables are passed
CardUse(alias, cs, a, b) ==
  ScalarA("Card", alias, (IF UsesVarIn(cs, N) THEN << <<"n", a>> >> ELSE <<>>) \o (IF UsesVarIn(cs, M) THEN << <<"m", b>> >> ELSE <<>>))

K == Var("k")
ID == Var("id")
HomeOptions(cs) ==
  << Linked("me", <<CardUse("", cs, IntV("1"), IntV("2"))>>),                                             \* 1
     LinkedA("me", "me2", <<>>, <<CardUse("", cs, K, IntV("1"))>>),                                        \* 2
     LinkedA("user", "", << <<"id", ID>> >>, <<CardUse("", cs, IntV("2"), IntV("1")), CardUse("c2", cs, IntV("3"), K)>>),  \* 3
     LinkedA("node", "", << <<"id", ID>> >>, <<Linked("asUser", <<CardUse("", cs, IntV("5"), IntV("2"))>>)>>),  \* 4
     Linked("topPet", <<Scalar("Inner")>>),                                                                \* 5
     LinkedA("pets", "", << <<"first", IntV("1")>> >>, <<Scalar("Inner"), Linked("owner", <<CardUse("", cs, IntV("7"), IntV("6"))>>)>>),  \* 6
     LinkedA("me", "me7", <<>>, <<Linked("favPet", <<Scalar("nickname"), Scalar("Inner")>>), LinkedA("favPet", "f2", <<>>, <<Scalar("kind")>>)>>) >>  \* 7

HomeVars(hs) == (IF UsesVarIn(hs, ID) THEN <<VarDef("id", NonNull(Named("ID")))>> ELSE <<>>)
                \o (IF UsesVarIn(hs, K) THEN <<VarDef("k", Named("Int"))>> ELSE <<>>)

OtherSels(cs) ==
  << Linked("me", <<Linked("friends", <<CardUse("", cs, IntV("5"), IntV("4"))>>)>>),
     Linked("topPet", <<Linked("owner", <<CardUse("", cs, IntV("1"), IntV("1")), Linked("bestPet", <<Scalar("Inner")>>)>>)>>) >>

\* Pet.mate goes from Pet to Pet, User.favPet from User to Pet (the pinned compiler used to panic on a pointer with
\* different parent and target types selected inside a nested client field; repaired in /repo by 7b2e4b0).
PointerVariants ==
  << Pointer("Pet", "mate", "Pet", <<Linked("owner", <<Linked("bestPet", <<Scalar("id")>>)>>)>>),
     Pointer("Pet", "mate", "Pet", <<Linked("owner", <<Linked("bestPet", <<Scalar("id"), Scalar("__refetch")>>)>>)>>) >>
FavPet == Pointer("User", "favPet", "Pet", <<Linked("bestPet", <<Scalar("id")>>)>>)

Range(t) == {t[i] : i \in DOMAIN t}
BoundedSubSeqs(s, idx, max) == {t \in SubSeqs(idx) : Len(t) >= 1 /\ Len(t) <= max}
Pick(s, t) == [i \in DOMAIN t |-> s[t[i]]]
RECURSIVE SeqOfSet(_)
SeqOfSet(S) == IF S = {} THEN <<>> ELSE LET m == CHOOSE x \in S : \A y \in S : x <= y IN <<m>> \o SeqOfSet(S \ {m})

Programs ==
  { Program(<< Component("Pet", "Inner", <<>>, InnerVariants[iv]) >>
            \o (IF UsesPointer(Pick(CardOptions, ct)) THEN <<PointerVariants[pv]>> ELSE <<>>)
            \o (IF 7 \in Range(ht) \/ (\E i \in DOMAIN ct : ct[i] \in {9, 10}) THEN <<FavPet>> ELSE <<>>)
            \o << Component("User", "Card", CardVars(Pick(CardOptions, ct)), Pick(CardOptions, ct)),
                  Component("Query", "Home", HomeVars(Pick(HomeOptions(Pick(CardOptions, ct)), ht)),
                            Pick(HomeOptions(Pick(CardOptions, ct)), ht)),
                  Component("Query", "Other", <<>>, OtherSels(Pick(CardOptions, ct))),
                  Entrypoint("Query", "Home"),
                  Entrypoint("Query", "Other") >>)
    : iv \in InnerChoice,
      ct \in BoundedSubSeqs(CardOptions, SeqOfSet(CardChoice), MaxCard),
      ht \in BoundedSubSeqs(HomeOptions(<<>>), SeqOfSet(HomeChoice), MaxUses),
      pv \in DOMAIN PointerVariants }

VARIABLE prog
Init == prog \in Programs
Next == UNCHANGED prog
Spec == Init /\ [][Next]_prog

Emit == PrintT(<<"PROGRAM", ToJson(prog)>>)
=============================================================================
