------------------------------ MODULE Persisted ------------------------------
(* C26 - persisted document ids match the documents they name (layer A).

   A case is ONE program compiled twice with the same configuration except for
   options.persisted_documents: off (the artifacts send the operation text) and on
   ({file?, algorithm, include_extra_info}: the artifacts send an operation id and the compiler
   writes a persisted documents file  id -> document).

   case = [ off  |-> << [path, kind, tokens] >>    every artifact of the non-persisted build whose default export
                                                   carries networkRequestInfo.operation: kind = "Operation",
                                                   tokens = token sequence of the text it sends
            on   |-> << [path, kind, id] >>        the same for the persisted build: kind = "PersistedOperation"
                                                   and the operationId it sends (id = "" when it sends none)
            file |-> [present, entries |-> << [id, tokens, hash_ok] >>]
                                                   the persisted documents file, entry by entry in file order;
                                                   hash_ok: the OBSERVER recomputed the configured hash
                                                   (md5 / sha256, python hashlib) of the recorded document
                                                   text and it equals the key (trusted base) ]

   The statement, clause by clause:
     (a) every operation id an artifact sends is a key of the file and equals the configured hash of
         the document recorded under it                      -> SendsRecordedIds, HashesMatch
     (b) that document is the operation the non-persisted build would send, up to insignificant
         whitespace (equal token sequences; commas are insignificant in GraphQL)  -> SameDocuments
     (c) the file records exactly the operations the artifacts reference         -> ExactlyReferenced
   Tokens are produced by a GraphQL tokeniser in the driver (trusted base).                      *)
EXTENDS Naturals, Sequences, FiniteSets

Range(s) == {s[i] : i \in DOMAIN s}

SentIds(c)  == {c.on[i].id : i \in DOMAIN c.on}
Keys(c)     == {c.file.entries[i].id : i \in DOMAIN c.file.entries}
Entry(c, k) == c.file.entries[CHOOSE i \in DOMAIN c.file.entries : c.file.entries[i].id = k]
Paths(s)    == {s[i].path : i \in DOMAIN s}
OffOf(c, p) == c.off[CHOOSE j \in DOMAIN c.off : c.off[j].path = p]

FilePresent(c)       == c.file.present
KeysUnique(c)        == \A i, j \in DOMAIN c.file.entries : c.file.entries[i].id = c.file.entries[j].id => i = j
SendsIds(c)          == \A i \in DOMAIN c.on : c.on[i].kind = "PersistedOperation" /\ c.on[i].id # ""
SendsRecordedIds(c)  == \A i \in DOMAIN c.on : c.on[i].id \in Keys(c)
HashesMatch(c)       == \A i \in DOMAIN c.file.entries : c.file.entries[i].hash_ok
SameSenders(c)       == Paths(c.on) = Paths(c.off)
SameDocuments(c)     == \A i \in DOMAIN c.on :
                           (c.on[i].id \in Keys(c) /\ c.on[i].path \in Paths(c.off))
                              => Entry(c, c.on[i].id).tokens = OffOf(c, c.on[i].path).tokens
ExactlyReferenced(c) == Keys(c) = SentIds(c)

\* first clause that fails, "" when the case satisfies the property
Why(c) ==
  IF ~FilePresent(c) THEN "missing-file"
  ELSE IF ~KeysUnique(c) THEN "duplicate-id"
  ELSE IF ~SendsIds(c) THEN "sends-no-id"
  ELSE IF ~SendsRecordedIds(c) THEN "sends-unrecorded-id"
  ELSE IF ~HashesMatch(c) THEN "hash-mismatch"
  ELSE IF ~SameSenders(c) THEN "senders-differ"
  ELSE IF ~SameDocuments(c) THEN "document-differs"
  ELSE IF ~ExactlyReferenced(c) THEN "unreferenced-document"
  ELSE ""

Holds(c) == /\ FilePresent(c) /\ KeysUnique(c) /\ SendsIds(c) /\ SendsRecordedIds(c) /\ HashesMatch(c)
            /\ SameSenders(c) /\ SameDocuments(c) /\ ExactlyReferenced(c)
=============================================================================
