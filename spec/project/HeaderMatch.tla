---------------------------- MODULE HeaderMatch ----------------------------
(* C24 - the TypeScript semantics that the generated iso.ts relies on, over texts given as
   sequences of code points.

   iso.ts declares, in this order,

       type WhitespaceCharacter = ' ' | '\t' | '\n';
       type Whitespace<In> = In extends `${WhitespaceCharacter}${infer In}` ? Whitespace<In> : In;
       type MatchesWhitespaceAndString<TString extends string, T> =
              Whitespace<T> extends `${TString}${string}` ? T : never;
       export function iso<T>(param: T & MatchesWhitespaceAndString<'field Query.Foo', T>): ...;     (overload 1)
       export function iso<T>(param: T & MatchesWhitespaceAndString<'entrypoint Query.Foo', T>): ...; (overload 2) ...

   and a call  iso(`...text...`)  is typed by overload resolution.  What is modelled:

   (1) Cook        the type of a template literal without substitutions is the string literal type of
                   its template value (TV); the TV of <CR><LF> and of a lone <CR> is <LF>
                   (ECMA-262, Static Semantics: TV). Header texts contain no escape sequences.
   (2) Strip       Whitespace<T> removes leading characters of the WhitespaceCharacter union, and
                   nothing else (the union is OBSERVED in iso.ts and passed in as `ws`).
   (3) Matches     `S extends <template>`: a template is a sequence of parts, each a literal string or
                   a `${string}` placeholder, which matches any (possibly empty) string.
                   `${TString}${string}` is therefore a PREFIX test.  The parts are OBSERVED in
                   iso.ts ([t |-> "param"] stands for the overload's own pattern string).
   (4) Accepts     the parameter type T & (cond ? T : never) accepts the argument iff cond holds.
   (5) FirstMatch  overload resolution picks the first overload, in declaration order, whose
                   parameter accepts the argument (no overload is generic in anything but T, so the
                   subtype pass and the assignability pass of the checker agree).
   Not modelled (assumed): that T is inferred as the literal type of the argument.              *)
EXTENDS Naturals, Sequences, FiniteSets

CR == 13
LF == 10

RECURSIVE Cook(_)
Cook(t) == IF t = <<>> THEN <<>>
           ELSE IF Head(t) = CR
                THEN IF Len(t) >= 2 /\ t[2] = LF THEN <<LF>> \o Cook(SubSeq(t, 3, Len(t)))
                                                  ELSE <<LF>> \o Cook(Tail(t))
                ELSE <<Head(t)>> \o Cook(Tail(t))

RECURSIVE Strip(_, _)
Strip(ws, t) == IF t # <<>> /\ Head(t) \in ws THEN Strip(ws, Tail(t)) ELSE t

IsPrefix(p, t) == Len(p) <= Len(t) /\ SubSeq(t, 1, Len(p)) = p
Drop(t, n) == SubSeq(t, n + 1, Len(t))

\* parts: << [t |-> "lit", cps |-> <<..>>] | [t |-> "any"] , ... >>
RECURSIVE Matches(_, _)
Matches(parts, t) ==
  IF parts = <<>> THEN t = <<>>
  ELSE LET h == Head(parts) IN
       IF h.t = "lit" THEN IsPrefix(h.cps, t) /\ Matches(Tail(parts), Drop(t, Len(h.cps)))
       ELSE \E k \in 0..Len(t) : Matches(Tail(parts), Drop(t, k))

\* the template of the conditional type with the overload's pattern substituted for TString
Instantiate(parts, pattern) ==
  [i \in DOMAIN parts |-> IF parts[i].t = "param" THEN [t |-> "lit", cps |-> pattern] ELSE parts[i]]

\* M = [ws |-> set of code points, strip |-> BOOLEAN, parts |-> template of MatchesWhitespaceAndString]
Accepts(M, pattern, text) ==
  LET tv == Cook(text)
      s  == IF M.strip THEN Strip(M.ws, tv) ELSE tv
  IN Matches(Instantiate(M.parts, pattern), s)

\* index of the overload chosen for the literal text; 0 = no overload accepts it
FirstMatch(M, patterns, text) ==
  IF \E i \in DOMAIN patterns : Accepts(M, patterns[i], text)
  THEN CHOOSE i \in DOMAIN patterns : /\ Accepts(M, patterns[i], text)
                                      /\ \A j \in 1..(i - 1) : ~Accepts(M, patterns[j], text)
  ELSE 0
=============================================================================
