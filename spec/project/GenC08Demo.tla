----------------------------- MODULE GenC08Demo -----------------------------
(* C08, thorough tier: token-level mutations of the checked-in demo projects.  The iso literals of a
   demo are tokenised by the driver (python, dumb); this specification chooses WHAT to mutate: a state is
   a sequence of 1 .. MaxEdits edit descriptors [lit, op, pos, tok]:

       delete      remove token pos of literal lit            duplicate   repeat it
       swap        exchange tokens pos and pos + 1            replace     put pool token tok in its place
       insert      insert pool token tok before it            truncate    cut the literal after token pos

   (pos is taken modulo the literal's token count by the driver).  Run with -simulate: every step draws
   one fresh random state (RandomElement, seeded by -seed), printed as <<"MUTATION", [edits]>>. *)
EXTENDS Naturals, Sequences, TLC, Json

CONSTANTS NLit,       \* number of iso literals in the demo
          MaxTok,     \* maximal number of tokens of a literal
          NPool,      \* size of the replacement token pool
          MaxEdits

Ops == <<"delete", "duplicate", "swap", "replace", "insert", "truncate">>

Draw(k) == [i \in 1 .. RandomElement(1 .. MaxEdits) |->      \* (the parameter only keeps TLC from caching one draw)
           [lit |-> RandomElement(1 .. NLit), op |-> Ops[RandomElement(DOMAIN Ops)], pos |-> RandomElement(1 .. MaxTok), tok |-> RandomElement(1 .. NPool)]]

VARIABLES m, n
Init == m = Draw(0) /\ n = 0
Next == m' = Draw(n) /\ n' = n + 1
Spec == Init /\ [][Next]_<<m, n>>

Emit == PrintT(<<"MUTATION", ToJson([edits |-> m, n |-> n])>>)
=============================================================================
