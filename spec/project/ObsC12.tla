------------------------------- MODULE ObsC12 -------------------------------
(* C12 (layer A) on observations of the real compiler and the real TypeScript runtime functions:
     within any selection set of a generated operation
       (1) two field selections get the same response key exactly when they select the same field with the
           same arguments (GraphQL arguments are an unordered set of name/value pairs),
       (2) every response key is a legal GraphQL Name,
       (3) the key the compiler wrote into the operation is the key the runtime computes from the
           normalization AST node when it reads the response (getNetworkResponseKey, executed under Node):
           every operation field has a normalization node with the same field name and that key, and every
           normalization node's key is the key of an operation field of that name.

   One record per compiled program:
     [id, pairs : << [path, op : [readable, selections], norm : [ok, selections]] >>, pred]
       op.selections : operation tree of the text Node evaluated (format of gql.rs; `key_cps` = response key;
                       read by a tolerant reader that accepts any characters in the alias position)
       norm.selections : normalization AST nodes [kind, fieldName, nargs, rkey_ok, rkey_cps, selections] / [kind, type, selections]
       pred : [has, f, alias, rkey]  what Keys.tla (layer B) predicts for the field named f (tiny programs)
   BAD lines carry layer-A failures; DRIFT lines carry disagreements with the layer-B prediction.        *)
EXTENDS Artifacts

Rec == ndJsonDeserialize(IOEnv.TRACE)

Fields(sels) == {i \in DOMAIN sels : sels[i].t = "field"}
\* the same value: input-object fields are an unordered set (GraphQL: "may be provided in any syntactic order")
RECURSIVE SameOpValue(_, _)
SameOpValue(a, b) ==
  /\ a.t = b.t
  /\ CASE a.t = "obj"  -> /\ Len(a.fields) = Len(b.fields)
                          /\ \A i \in DOMAIN a.fields : \E j \in DOMAIN b.fields :
                                a.fields[i][1] = b.fields[j][1] /\ SameOpValue(a.fields[i][2], b.fields[j][2])
       [] a.t = "list" -> Len(a.items) = Len(b.items) /\ \A i \in DOMAIN a.items : SameOpValue(a.items[i], b.items[i])
       [] OTHER -> OpVal(a) = OpVal(b)
SameFieldAndArgs(a, b) == /\ a.name = b.name /\ Len(a.args) = Len(b.args)
                          /\ \A i \in DOMAIN a.args : \E j \in DOMAIN b.args : a.args[i][1] = b.args[j][1] /\ SameOpValue(a.args[i][2], b.args[j][2])
KeyNodes(ns) == {i \in DOMAIN ns : ns[i].kind \in {"Scalar", "Linked"}}

RECURSIVE SetErrs(_, _, _)
SetErrs(os, ns, haveNorm) ==
  LET F == Fields(os)  N == KeyNodes(ns) IN
       {E("response-key-is-not-a-graphql-name", os[i].name) : i \in {j \in F : ~IsGraphQLName(os[j].key_cps)}}
  \cup {E("same-response-key-for-different-field-or-arguments", os[x[1]].name)
        : x \in {y \in F \X F : y[1] < y[2] /\ os[y[1]].key_cps = os[y[2]].key_cps /\ ~SameFieldAndArgs(os[y[1]], os[y[2]])}}
  \cup {E("different-response-keys-for-the-same-field-and-arguments", os[x[1]].name)
        : x \in {y \in F \X F : y[1] < y[2] /\ os[y[1]].key_cps # os[y[2]].key_cps /\ SameFieldAndArgs(os[y[1]], os[y[2]])}}
  \cup (IF ~haveNorm THEN {} ELSE
             {E("runtime-key-function-failed", ns[i].fieldName) : i \in {j \in N : ~ns[j].rkey_ok}}
        \cup {E("compiler-key-and-runtime-key-disagree", os[i].name)
              : i \in {j \in F : \A m \in N : ~(ns[m].fieldName = os[j].name /\ ns[m].rkey_cps = os[j].key_cps)}}
        \cup {E("compiler-key-and-runtime-key-disagree", ns[i].fieldName)
              : i \in {j \in N : ns[j].rkey_ok /\ \A m \in F : ~(os[m].name = ns[j].fieldName /\ os[m].key_cps = ns[j].rkey_cps)}})
  \cup UNION { IF os[i].t = "field" THEN
                 LET ms == {m \in N : ns[m].kind = "Linked" /\ ns[m].fieldName = os[i].name /\ ns[m].rkey_cps = os[i].key_cps} IN
                 IF Len(os[i].selections) = 0 THEN {}
                 ELSE IF ~haveNorm \/ ms = {} THEN SetErrs(os[i].selections, <<>>, FALSE)
                 ELSE UNION {SetErrs(os[i].selections, ns[m].selections, TRUE) : m \in ms}
               ELSE IF os[i].t = "inline" THEN
                 LET ms == {m \in DOMAIN ns : ns[m].kind = "InlineFragment" /\ ns[m].type = os[i].on} IN
                 IF ~haveNorm \/ ms = {} THEN SetErrs(os[i].selections, <<>>, FALSE)     \* a missing counterpart is C11's finding
                 ELSE UNION {SetErrs(os[i].selections, ns[m].selections, TRUE) : m \in ms}
               ELSE {} : i \in DOMAIN os }

PairErrsC12(pr) ==
  IF ~pr.op.readable THEN {}      \* counted by the driver as unreadable (C09's subject); no key can be observed
  ELSE SetErrs(pr.op.selections, IF pr.norm.ok THEN pr.norm.selections ELSE <<>>, pr.norm.ok)

\* ---- layer B conformance (drift) ---------------------------------------------------------------------
RECURSIVE OpFieldsNamed(_, _)
OpFieldsNamed(sels, f) ==
  UNION { IF sels[i].t = "field" THEN (IF sels[i].name = f THEN {sels[i].key_cps} ELSE {}) \cup OpFieldsNamed(sels[i].selections, f)
          ELSE IF sels[i].t = "inline" THEN OpFieldsNamed(sels[i].selections, f) ELSE {} : i \in DOMAIN sels }
RECURSIVE NormKeysNamed(_, _)
NormKeysNamed(ns, f) ==
  UNION { (IF ns[i].kind \in {"Scalar", "Linked"} /\ ns[i].fieldName = f THEN {ns[i].rkey_cps} ELSE {}) \cup NormKeysNamed(ns[i].selections, f)
          : i \in DOMAIN ns }

Drift(r) ==
  IF ~r.pred.has THEN {}
  ELSE UNION { LET pr == r.pairs[i] IN
               (IF pr.op.readable /\ OpFieldsNamed(pr.op.selections, r.pred.f) # {r.pred.alias}
                THEN {E("compiler-alias-differs-from-Keys.CompilerAlias", r.pred.f)} ELSE {})
          \cup (IF pr.norm.ok /\ NormKeysNamed(pr.norm.selections, r.pred.f) # {r.pred.rkey}
                THEN {E("runtime-key-differs-from-Keys.RuntimeKey", r.pred.f)} ELSE {})
             : i \in {j \in DOMAIN r.pairs : r.pairs[j].main} }

VARIABLE l
Init == l = 1

BadPairs(r) == { [path |-> r.pairs[i].path, errs |-> PairErrsC12(r.pairs[i])]
                 : i \in {j \in DOMAIN r.pairs : PairErrsC12(r.pairs[j]) # {}} }

Next == /\ l <= Len(Rec)
        /\ l' = l + 1
        /\ LET r == Rec[l]  b == BadPairs(Rec[l])  d == Drift(Rec[l])
           IN /\ (IF b = {} THEN TRUE ELSE PrintT(<<"BAD", ToJson([id |-> r.id, bad |-> b])>>))
              /\ (IF d = {} THEN TRUE ELSE PrintT(<<"DRIFT", ToJson([id |-> r.id, drift |-> d])>>))

Spec == Init /\ [][Next]_l

AllConsumed == TLCGet("stats").diameter = Len(Rec) + 1
=============================================================================
