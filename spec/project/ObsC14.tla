------------------------------- MODULE ObsC14 -------------------------------
(* C14, impl -> spec: the runs of the real compiler (one record per (project, environment) state of
   GenC14, each executed in a fresh OS process) are validated against layer A of Determinism.tla.

   record: [id, project, env |-> [rep, order, shuf, lit, ep], enum, outcome, arts, diags]

   Every record is compared with the FIRST record of the same project (outcome, artifacts) and with
   the first record of the same project that was compiled from the very same files (same lit / ep:
   everything, diagnostics in printed order).  Equality with the first is equality among all.   *)
EXTENDS Determinism, Json, IOUtils

Rec == ndJsonDeserialize(IOEnv.TRACE)

VARIABLES l, firstOf, firstSame
vars == <<l, firstOf, firstSame>>

Init == l = 1 /\ firstOf = <<>> /\ firstSame = <<>>

Report(r, o, d) == PrintT(<<"BAD", ToJson([id |-> r.id, project |-> r.project, against |-> o.id,
                                             aspect |-> d.aspect, what |-> d.what])>>)

Judge(r, o) == LET d == Difference(r, o) IN IF SameOutput(r, o) THEN TRUE ELSE Report(r, o, d)

Next == /\ l <= Len(Rec)
        /\ l' = l + 1
        /\ LET r  == Rec[l]
               kp == r.project
               ks == <<r.project, r.env.lit, r.env.ep>>
           IN /\ firstOf' = IF kp \in DOMAIN firstOf THEN firstOf ELSE (kp :> l) @@ firstOf
              /\ firstSame' = IF ks \in DOMAIN firstSame THEN firstSame ELSE (ks :> l) @@ firstSame
              /\ IF ks \in DOMAIN firstSame THEN Judge(r, Rec[firstSame[ks]])
                 ELSE IF kp \in DOMAIN firstOf THEN Judge(r, Rec[firstOf[kp]])
                 ELSE TRUE

Spec == Init /\ [][Next]_vars

AllConsumed == TLCGet("stats").diameter = Len(Rec) + 1
=============================================================================
