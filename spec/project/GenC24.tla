------------------------------- MODULE GenC24 -------------------------------
(* C24, generator 1 (names): the STATES are programs over schema_c24.json (types Query, Foo, FooBar,
   Foo_ - names that are prefixes of one another) whose client field names are prefixes of one
   another too (Fo / Foo / Foo_ / FooBar / FooBarBaz).  Header whitespace is canonical here
   (GenC24ws.tla varies it).  The transitions are edits of one feature of the program:

     qn   set of client field names declared on Query                         (AddName)
     km   how they are declared: all `field`, all `@component`, alternating    (SetKind)
     ep   entrypoints for them: all / none                                     (SetEntrypoints)
     ot   another type on which the SAME names are declared as well            (SetOtherType)
     pn   name of a client pointer on Query (not one of qn)                    (SetPointer)
     opt  options.no_babel_transform                                           (SetOption)

   At most MaxDims of km, ep, ot, pn, opt differ from their defaults at once (guard Dims' <= MaxDims).                     *)
EXTENDS IsoProgram

CONSTANTS MaxNames, MaxDims

Names == << "Fo", "Foo", "Foo_", "FooBar", "FooBarBaz" >>
NameSet == {Names[i] : i \in DOMAIN Names}
OtherTypes == {"Foo", "FooBar", "Foo_"}
Index(n) == CHOOSE i \in DOMAIN Names : Names[i] = n

VARIABLES qn, km, ep, ot, pn, opt
vars == <<qn, km, ep, ot, pn, opt>>

Dims == (IF km # "field" THEN 1 ELSE 0) + (IF ep # "all" THEN 1 ELSE 0) + (IF ot # "none" THEN 1 ELSE 0)
        + (IF pn # "none" THEN 1 ELSE 0) + (IF opt # "std" THEN 1 ELSE 0)

Init == /\ qn \in {{n} : n \in NameSet}
        /\ km = "field" /\ ep = "all" /\ ot = "none" /\ pn = "none" /\ opt = "std"

AddName        == /\ Cardinality(qn) < MaxNames
                  /\ \E n \in NameSet \ (qn \cup {pn}) : qn' = qn \cup {n}
                  /\ UNCHANGED <<km, ep, ot, pn, opt>>
SetKind        == /\ \E k \in {"field", "component", "mixed"} \ {km} : km' = k
                  /\ UNCHANGED <<qn, ep, ot, pn, opt>>
                  /\ Dims' <= MaxDims
SetEntrypoints == /\ \E e \in {"all", "none"} \ {ep} : ep' = e
                  /\ UNCHANGED <<qn, km, ot, pn, opt>>
                  /\ Dims' <= MaxDims
SetOtherType   == /\ \E t \in (OtherTypes \cup {"none"}) \ {ot} : ot' = t
                  /\ UNCHANGED <<qn, km, ep, pn, opt>>
                  /\ Dims' <= MaxDims
SetPointer     == /\ \E n \in ((NameSet \ qn) \cup {"none"}) \ {pn} : pn' = n
                  /\ UNCHANGED <<qn, km, ep, ot, opt>>
                  /\ Dims' <= MaxDims
SetOption      == /\ \E o \in {"std", "nobabel"} \ {opt} : opt' = o
                  /\ UNCHANGED <<qn, km, ep, ot, pn>>
                  /\ Dims' <= MaxDims

Next == AddName \/ SetKind \/ SetEntrypoints \/ SetOtherType \/ SetPointer \/ SetOption
Spec == Init /\ [][Next]_vars


\* ---- the program of a state -----------------------------------------------------------------
Ordered(S) == SelectSeq(Names, LAMBDA n : n \in S)
IsComponent(n) == km = "component" \/ (km = "mixed" /\ Index(n) % 2 = 0)
QDecl(n) == IF IsComponent(n) THEN Component("Query", n, <<>>, <<Scalar("x")>>)
            ELSE Field("Query", n, <<>>, <<Scalar("x")>>)
Map(s, Op(_)) == [i \in DOMAIN s |-> Op(s[i])]
ODecl(n) == Field(ot, n, <<>>, <<Scalar("x")>>)
EDecl(n) == Entrypoint("Query", n)
PDecl == Pointer("Query", pn, "Foo", << Linked("foo", <<Scalar("__link")>>) >>)

Decls == Map(Ordered(qn), QDecl)
         \o (IF ot = "none" THEN <<>> ELSE Map(Ordered(qn), ODecl))
         \o (IF pn = "none" THEN <<>> ELSE <<PDecl>>)
         \o (IF ep = "all" THEN Map(Ordered(qn), EDecl) ELSE <<>>)

Prog == [decls |-> Decls, opt |-> opt]
Emit == PrintT(<<"PROGRAM", ToJson(Prog)>>)
=============================================================================
