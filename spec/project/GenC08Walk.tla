----------------------------- MODULE GenC08Walk -----------------------------
(* C08, thorough tier: random EDIT WALKS.  The states are programs (GenC16's well-typed base programs
   to start from), every transition is one edit:

     * any BreakRule candidate edit of GenC16 (without the single-fault guard: faults accumulate),
     * AddField      append a server field of the selection set's type (scalar, or linked with an
                     empty selection set that later edits fill),
     * SelectClient  append a selection of a declared client field / pointer of the selection set's
                     type -- this is the edit that closes cycles (a field selecting itself, A -> B -> A),
     * Direct        put @loadable / @updatable on a selection,
     * Delete        remove a selection,
     * OddValue      replace an argument value by a value of an odd class (integer beyond i64, strings
                     with apostrophe / backslash / non-BMP, deep object).

   Run with `-simulate num=N -depth D`; every visited state is printed as <<"PROGRAM", [prog, depth]>>.
   Nothing predicts the outcome (C08 accepts ok and diagnostics). *)
EXTENDS GenC16

OddValues == << IntV("99999999999999999999"), IntV("-9223372036854775809"), StrV(<<105, 39, 115>>), StrV(<<92>>), StrV(<<128512>>),
                ObjV(<<A("nested", ObjV(<<A("nested", ObjV(<<>>))>>))>>), Var("zz") >>

X(op, p, i, k, an) == [op |-> op, p |-> p, i |-> i, k |-> k, an |-> an]

SetTypeAt(P, d, pp) == IF pp = <<>> THEN d.on ELSE Lookup(P, ParentTypeAt(P, d.on, d.sels, pp), GetAt(d.sels, pp).name).child

XDescs(P, di) ==
  LET d == P.decls[di] IN
  UNION { LET T == SetTypeAt(P, d, pp) IN
            { X("add_field", pp, 0, 0, f) : f \in (IF HasF(T) THEN DOMAIN VT[T].fields ELSE {}) }
            \cup { X("select_client", pp, 0, k, "") : k \in {i \in ClientDecls(P) : P.decls[i].on = T} }
            \cup { X("delete", pp, i, 0, "") : i \in DOMAIN GetSet(d.sels, pp) }
          : pp \in SelSetPaths(d.sels) }
  \cup UNION { { X("direct", p, 0, k, "") : k \in 1 .. 2 }
               \cup { X("odd_value", p, i, k, "") : i \in DOMAIN GetAt(d.sels, p).args, k \in DOMAIN OddValues }
               : p \in PathsIn(d.sels) }

XApply(P, di, x) ==
  LET d == P.decls[di] IN
  IF x.op \in {"add_field", "select_client", "delete"} THEN
    LET set == GetSet(d.sels, x.p)
        T == SetTypeAt(P, d, x.p)
        new == CASE x.op = "add_field" -> Append(set, IF Composite(BaseName(VT[T].fields[x.an].type)) THEN Linked(x.an, <<>>) ELSE Scalar(x.an))
                 [] x.op = "select_client" -> Append(set, IF P.decls[x.k].k = "pointer" THEN Linked(P.decls[x.k].name, <<Scalar("id")>>) ELSE Scalar(P.decls[x.k].name))
                 [] x.op = "delete" -> RemoveIdx(set, x.i)
    IN [P EXCEPT !.decls[di].sels = PutSet(d.sels, x.p, new)]
  ELSE
    LET s == GetAt(d.sels, x.p)
        new == IF x.op = "direct" THEN WithDir(s, IF x.k = 1 THEN "loadable" ELSE "updatable")
               ELSE [s EXCEPT !.args[x.i] = <<s.args[x.i][1], OddValues[x.k]>>]
    IN [P EXCEPT !.decls[di].sels = SetAt(d.sels, x.p, new)]

VARIABLE depth
wvars == <<prog, rule, shape, units, depth>>

WInit == Init /\ Len(units) = 1 /\ depth = 0

\* ONE random successor per step (TLC's simulator would otherwise enumerate -- and print -- every successor):
\* the declaration, the family and the edit are drawn with RandomElement (seeded by -seed).
BreakEdit == \E di \in {RandomElement(ClientDecls(prog))} :
               LET cands == Descs(prog.decls[di], DOMAIN prog.decls[di].sels)
               IN /\ cands # {}
                  /\ \E e \in {RandomElement(cands)} : prog' = Apply(prog, di, e).prog
                  /\ rule' = "walk" /\ shape' = [base |-> FALSE] /\ depth' = depth + 1 /\ UNCHANGED units
GrowEdit == \E di \in {RandomElement(ClientDecls(prog))} :
               LET cands == XDescs(prog, di)
               IN /\ cands # {}
                  /\ \E x \in {RandomElement(cands)} : prog' = XApply(prog, di, x)
                  /\ rule' = "walk" /\ shape' = [base |-> FALSE] /\ depth' = depth + 1 /\ UNCHANGED units

WNext == \E c \in {RandomElement(1 .. 3)} : IF c = 1 THEN BreakEdit ELSE GrowEdit
WSpec == WInit /\ [][WNext]_wvars

WEmit == PrintT(<<"PROGRAM", ToJson([prog |-> prog, depth |-> depth, units |-> UnitIds(units)])>>)
=============================================================================
