----------------------------- MODULE Operation -----------------------------
(* GraphQL validation (June 2018 specification, section 5) as TLA+ predicates over
     * an operation tree, as projected by the independent parser harness/h_compile/src/gql.rs
         [ok, kind, name, vars : <<[name, type, default?]>>, directives, selections : <<sel>>]
         sel   = [t |-> "field", alias, name, key, args : << <<name, value>> >>, directives, selections]
               | [t |-> "inline", on, directives, selections] | [t |-> "spread", name, directives]
         value = [t |-> "var", n] | [t |-> "int", v] | [t |-> "float", v] | [t |-> "str", cps] | [t |-> "bool", v]
               | [t |-> "null"] | [t |-> "enum", v] | [t |-> "list", items] | [t |-> "obj", fields : << <<k, v>> >>]
     * a schema given as data (the format of schema1.json), read from the file named by the
       environment variable SCHEMA (so that the same predicates serve schema1 and the demo schemas).

   Written from the specification text, not from the compiler.  OpErrs(op) is the set of rule
   violations [why, at]; the operation is valid iff the set is empty.

   Not modelled (stated in docs/project_pb.md): Int literal range (32 bit), custom-scalar literal
   coercion (any literal accepted), directives other than @skip/@include (any other is reported),
   fragment definitions (the projection accepts exactly one operation and no fragment definitions, so a
   spread is always undefined), subscriptions' single root field.                                      *)
EXTENDS Naturals, Sequences, FiniteSets, TLC, Json, IOUtils

OSchema == JsonDeserialize(IOEnv.SCHEMA)
OT  == OSchema.types
OTN == DOMAIN OT

Builtin == {"ID", "String", "Int", "Float", "Boolean"}
Rng(s) == {s[i] : i \in DOMAIN s}

KindOf(n) == IF n \in Builtin THEN "scalar" ELSE IF n \in OTN THEN OT[n].kind ELSE "undefined"
IsLeafK(k)      == k \in {"scalar", "enum"}
IsCompositeK(k) == k \in {"object", "interface", "union"}
IsInputK(k)     == k \in {"scalar", "enum", "input"}

RootType(kind) ==
  IF "roots" \in DOMAIN OSchema /\ kind \in DOMAIN OSchema.roots THEN OSchema.roots[kind]
  ELSE CASE kind = "query" -> "Query" [] kind = "mutation" -> "Mutation" [] kind = "subscription" -> "Subscription"
         [] OTHER -> "?"

RECURSIVE TBase(_)
TBase(t) == IF t.k = "named" THEN t.n ELSE TBase(t.of)

\* the object types a composite type can be at run time
Possible(n) ==
  CASE KindOf(n) = "object"    -> {n}
    [] KindOf(n) = "interface" -> {o \in OTN : OT[o].kind = "object" /\ n \in Rng(OT[o].implements)}
    [] KindOf(n) = "union"     -> Rng(OT[n].members)
    [] OTHER -> {}

HasFieldsK(k) == k \in {"object", "interface"}
FieldDefined(p, f) == HasFieldsK(KindOf(p)) /\ f \in DOMAIN OT[p].fields
FDef(p, f) == OT[p].fields[f]

E(why, at) == [why |-> why, at |-> at]
HasDefault(d) == "default" \in DOMAIN d

\* ---------------------------------------------------------------------------------------------
\* 5.8.5 All Variable Usages are Allowed
RECURSIVE TypesCompatible(_, _)
TypesCompatible(v, l) ==
  IF l.k = "nonnull" THEN v.k = "nonnull" /\ TypesCompatible(v.of, l.of)
  ELSE IF v.k = "nonnull" THEN TypesCompatible(v.of, l)
  ELSE IF l.k = "list" THEN v.k = "list" /\ TypesCompatible(v.of, l.of)
  ELSE IF v.k = "list" THEN FALSE
  ELSE v.n = l.n

VarUsageAllowed(d, locType, locHasDefault) ==
  IF locType.k = "nonnull" /\ d.type.k # "nonnull"
  THEN LET hasNonNullDefault == HasDefault(d) /\ d.default.t # "null"
       IN (hasNonNullDefault \/ locHasDefault) /\ TypesCompatible(d.type, locType.of)
  ELSE TypesCompatible(d.type, locType)

VarDecls(vars, n) == {i \in DOMAIN vars : vars[i].name = n}

\* `ctx` says where the value stands: "arg" (directly an argument), "obj" (inside an input object), "list"
VarUseErrs(n, ty, locHasDefault, vars, ctx) ==
  IF VarDecls(vars, n) = {}
  THEN {E(CASE ctx = "obj"  -> "variable-nested-in-input-object-not-declared"
            [] ctx = "list" -> "variable-nested-in-list-not-declared"
            [] OTHER        -> "variable-not-declared", n)}
  ELSE LET d == vars[CHOOSE i \in VarDecls(vars, n) : \A j \in VarDecls(vars, n) : i <= j]
       IN IF VarUsageAllowed(d, ty, locHasDefault) THEN {} ELSE {E("variable-type-incompatible-with-position", n)}

\* ---------------------------------------------------------------------------------------------
\* 5.6 Values of correct type, input object field names / uniqueness / required fields
RECURSIVE ValueErrs(_, _, _, _, _)
ValueErrs(v, ty, locHasDefault, vars, ctx) ==
  IF v.t = "var" THEN VarUseErrs(v.n, ty, locHasDefault, vars, ctx)
  ELSE IF ty.k = "nonnull" THEN
         IF v.t = "null" THEN {E("null-for-non-null-type", "")} ELSE ValueErrs(v, ty.of, FALSE, vars, ctx)
  ELSE IF v.t = "null" THEN {}
  ELSE IF ty.k = "list" THEN
         IF v.t = "list" THEN UNION {ValueErrs(v.items[i], ty.of, FALSE, vars, "list") : i \in DOMAIN v.items}
         ELSE ValueErrs(v, ty.of, FALSE, vars, ctx)
  ELSE LET n == ty.n  k == KindOf(ty.n) IN
       CASE n = "Int"     -> IF v.t = "int" THEN {} ELSE {E("literal-type-mismatch", "Int")}
         [] n = "Float"   -> IF v.t \in {"int", "float"} THEN {} ELSE {E("literal-type-mismatch", "Float")}
         [] n = "String"  -> IF v.t = "str" THEN {} ELSE {E("literal-type-mismatch", "String")}
         [] n = "Boolean" -> IF v.t = "bool" THEN {} ELSE {E("literal-type-mismatch", "Boolean")}
         [] n = "ID"      -> IF v.t \in {"str", "int"} THEN {} ELSE {E("literal-type-mismatch", "ID")}
         [] k = "scalar" /\ n \notin Builtin -> {}                            \* custom scalar: literal not judged
         [] k = "enum"    -> IF v.t = "enum" /\ v.v \in Rng(OT[n].values) THEN {} ELSE {E("literal-type-mismatch", n)}
         [] k = "input"   ->
              IF v.t # "obj" THEN {E("literal-type-mismatch", n)}
              ELSE LET fs == v.fields  defs == OT[n].fields
                       names == {fs[i][1] : i \in DOMAIN fs}
                   IN    {E("input-field-undefined", fs[i][1]) : i \in {j \in DOMAIN fs : fs[j][1] \notin DOMAIN defs}}
                    \cup {E("input-field-duplicate", fs[i][1]) : i \in {j \in DOMAIN fs : \E h \in DOMAIN fs : h < j /\ fs[h][1] = fs[j][1]}}
                    \cup {E("required-input-field-missing", f) : f \in {g \in DOMAIN defs : defs[g].type.k = "nonnull" /\ ~HasDefault(defs[g]) /\ g \notin names}}
                    \cup UNION {ValueErrs(fs[i][2], defs[fs[i][1]].type, HasDefault(defs[fs[i][1]]), vars, "obj")
                                : i \in {j \in DOMAIN fs : fs[j][1] \in DOMAIN defs}}
         [] OTHER -> {E("position-type-is-not-an-input-type", n)}

\* 5.4 Arguments: names defined, unique, required ones present, values of the right type
ArgErrs(args, defs, vars, at) ==
  LET names == {args[i][1] : i \in DOMAIN args} IN
       {E("argument-undefined", args[i][1]) : i \in {j \in DOMAIN args : args[j][1] \notin DOMAIN defs}}
  \cup {E("argument-duplicate", args[i][1]) : i \in {j \in DOMAIN args : \E h \in DOMAIN args : h < j /\ args[h][1] = args[j][1]}}
  \cup {E("required-argument-missing", a) : a \in {b \in DOMAIN defs : defs[b].type.k = "nonnull" /\ ~HasDefault(defs[b]) /\ b \notin names}}
  \cup UNION {ValueErrs(args[i][2], defs[args[i][1]].type, HasDefault(defs[args[i][1]]), vars, "arg")
              : i \in {j \in DOMAIN args : args[j][1] \in DOMAIN defs}}

\* directives: only @skip(if: Boolean!) / @include(if: Boolean!) are known to an executable document
IfArg == [if |-> [type |-> [k |-> "nonnull", of |-> [k |-> "named", n |-> "Boolean"]]]]
DirectiveErrs(ds, vars) ==
  UNION { IF ds[i].name \in {"skip", "include"} THEN ArgErrs(ds[i].args, IfArg, vars, ds[i].name)
          ELSE {E("directive-undefined", ds[i].name)} : i \in DOMAIN ds }

\* ---------------------------------------------------------------------------------------------
\* 5.3.1 field selections on objects/interfaces/unions, 5.3.3 leaf field selections, 5.5.1.3 / 5.5.2.3 fragments
RECURSIVE SelErrs(_, _, _)
OneSelErrs(s, p, vars) ==
  CASE s.t = "field" ->
         DirectiveErrs(s.directives, vars) \cup
         ( IF s.name = "__typename" /\ IsCompositeK(KindOf(p)) THEN
                (IF Len(s.args) > 0 THEN {E("argument-undefined", "__typename")} ELSE {})
           \cup (IF Len(s.selections) > 0 THEN {E("leaf-field-with-selection", "__typename")} ELSE {})
           ELSE IF ~FieldDefined(p, s.name) THEN {E("field-undefined-on-type", s.name)}
           ELSE LET fd == FDef(p, s.name)  base == TBase(fd.type)  bk == KindOf(base) IN
                     ArgErrs(s.args, fd.args, vars, s.name)
                \cup (CASE IsLeafK(bk) -> IF Len(s.selections) > 0 THEN {E("leaf-field-with-selection", s.name)} ELSE {}
                        [] IsCompositeK(bk) -> IF Len(s.selections) = 0 THEN {E("composite-field-without-selection", s.name)}
                                               ELSE SelErrs(s.selections, base, vars)
                        [] OTHER -> {E("field-type-undefined", base)}) )
    [] s.t = "inline" ->
         LET cond == IF s.on = "" THEN p ELSE s.on IN
              DirectiveErrs(s.directives, vars)
         \cup (IF ~IsCompositeK(KindOf(cond)) THEN {E("fragment-on-non-composite-or-undefined-type", cond)}
               ELSE    (IF Possible(cond) \cap Possible(p) = {} THEN {E("fragment-type-condition-not-applicable", cond)} ELSE {})
                  \cup (IF Len(s.selections) = 0 THEN {E("empty-selection-set", cond)} ELSE SelErrs(s.selections, cond, vars)))
    [] OTHER -> {E("fragment-spread-undefined", s.name)}

SelErrs(sels, p, vars) == UNION {OneSelErrs(sels[i], p, vars) : i \in DOMAIN sels}

\* ---------------------------------------------------------------------------------------------
\* 5.3.2 Field Selection Merging
Undef == [k |-> "undefined"]
TypenameType == [k |-> "nonnull", of |-> [k |-> "named", n |-> "String"]]
MkField(s, p) == [key |-> s.key, name |-> s.name, args |-> s.args, sels |-> s.selections, parent |-> p,
                  ty |-> IF s.name = "__typename" THEN TypenameType
                         ELSE IF FieldDefined(p, s.name) THEN FDef(p, s.name).type ELSE Undef]

RECURSIVE Collect(_, _)
Collect(sels, p) ==
  UNION { CASE sels[i].t = "field"  -> {MkField(sels[i], p)}
            [] sels[i].t = "inline" -> Collect(sels[i].selections, IF sels[i].on = "" THEN p ELSE sels[i].on)
            [] OTHER -> {} : i \in DOMAIN sels }

Sub(f) == IF f.ty.k = "undefined" THEN {}
          ELSE IF IsCompositeK(KindOf(TBase(f.ty))) THEN Collect(f.sels, TBase(f.ty)) ELSE {}

RECURSIVE ShapeT(_, _)
ShapeT(a, b) ==
  IF a.k = "undefined" \/ b.k = "undefined" THEN TRUE               \* judged by field-undefined-on-type
  ELSE IF a.k = "nonnull" \/ b.k = "nonnull" THEN a.k = b.k /\ ShapeT(a.of, b.of)
  ELSE IF a.k = "list" \/ b.k = "list" THEN a.k = b.k /\ ShapeT(a.of, b.of)
  ELSE IF IsLeafK(KindOf(a.n)) \/ IsLeafK(KindOf(b.n)) THEN a.n = b.n
  ELSE TRUE

RECURSIVE SameShape(_, _)
SameShape(a, b) ==
  /\ ShapeT(a.ty, b.ty)
  /\ LET m == Sub(a) \cup Sub(b) IN \A x \in m : \A y \in m : x.key = y.key => SameShape(x, y)

\* canonical argument values: one record shape for both sides so that TLC can compare them
CV(t, s, c, f) == [t |-> t, s |-> s, c |-> c, f |-> f]

RECURSIVE OpVal(_)
OpVal(v) ==
  CASE v.t = "var"   -> CV("var", v.n, <<>>, <<>>)
    [] v.t = "int"   -> CV("num", v.v, <<>>, <<>>)
    [] v.t = "float" -> CV("num", v.v, <<>>, <<>>)
    [] v.t = "str"   -> CV("str", "", v.cps, <<>>)
    [] v.t = "bool"  -> CV("bool", IF v.v THEN "true" ELSE "false", <<>>, <<>>)
    [] v.t = "null"  -> CV("null", "", <<>>, <<>>)
    [] v.t = "enum"  -> CV("enum", v.v, <<>>, <<>>)
    [] v.t = "list"  -> CV("list", "", <<>>, [i \in DOMAIN v.items |-> <<"", OpVal(v.items[i])>>])
    [] v.t = "obj"   -> CV("obj", "", <<>>, [i \in DOMAIN v.fields |-> <<v.fields[i][1], OpVal(v.fields[i][2])>>])

ArgSet(args) == {<<args[i][1], OpVal(args[i][2])>> : i \in DOMAIN args}

RECURSIVE MergeErrs(_)
MergeErrs(fs) ==
  UNION { IF a.key # b.key THEN {}
          ELSE   (IF SameShape(a, b) THEN {} ELSE {E("fields-conflict-response-shape", a.key)})
            \cup (IF a.parent = b.parent \/ KindOf(a.parent) # "object" \/ KindOf(b.parent) # "object"
                  THEN   (IF a.name # b.name THEN {E("fields-conflict-different-fields-same-response-name", a.key)} ELSE {})
                    \cup (IF a.name = b.name /\ ArgSet(a.args) # ArgSet(b.args)
                          THEN {E("fields-conflict-different-arguments-same-response-name", a.key)} ELSE {})
                    \cup MergeErrs(Sub(a) \cup Sub(b))
                  ELSE {})
          : a \in fs, b \in fs }

\* ---------------------------------------------------------------------------------------------
\* 5.8 Variables: unique, input types, defaults of the right type, all used declared (above), all declared used
RECURSIVE ValueVars(_)
ValueVars(v) ==
  CASE v.t = "var"  -> {v.n}
    [] v.t = "list" -> UNION {ValueVars(v.items[i]) : i \in DOMAIN v.items}
    [] v.t = "obj"  -> UNION {ValueVars(v.fields[i][2]) : i \in DOMAIN v.fields}
    [] OTHER -> {}
ArgsVars(args) == UNION {ValueVars(args[i][2]) : i \in DOMAIN args}
DirVars(ds) == UNION {ArgsVars(ds[i].args) : i \in DOMAIN ds}
RECURSIVE UsedVars(_)
UsedVars(sels) ==
  UNION { CASE sels[i].t = "field"  -> ArgsVars(sels[i].args) \cup DirVars(sels[i].directives) \cup UsedVars(sels[i].selections)
            [] sels[i].t = "inline" -> DirVars(sels[i].directives) \cup UsedVars(sels[i].selections)
            [] OTHER -> DirVars(sels[i].directives) : i \in DOMAIN sels }

VarDefErrs(op) ==
  LET vars == op.vars IN
       {E("variable-declared-twice", vars[i].name) : i \in {j \in DOMAIN vars : \E h \in DOMAIN vars : h < j /\ vars[h].name = vars[j].name}}
  \cup {E("variable-type-is-not-an-input-type", vars[i].name) : i \in {j \in DOMAIN vars : ~IsInputK(KindOf(TBase(vars[j].type)))}}
  \cup UNION {ValueErrs(vars[i].default, vars[i].type, FALSE, <<>>, "default")
              : i \in {j \in DOMAIN vars : HasDefault(vars[j]) /\ IsInputK(KindOf(TBase(vars[j].type)))}}
  \cup {E("variable-declared-but-not-used", vars[i].name)
        : i \in {j \in DOMAIN vars : vars[j].name \notin (UsedVars(op.selections) \cup DirVars(op.directives))}}

\* ---------------------------------------------------------------------------------------------
OpErrs(op) ==
  IF ~op.ok THEN {E(IF op.error = "default export is not a string literal"
                      THEN "operation-artifact-is-not-a-javascript-string-literal"
                      ELSE "operation-is-not-graphql-syntax", op.error)}
  ELSE LET root == RootType(op.kind) IN
       IF KindOf(root) # "object" THEN {E("root-operation-type-undefined", op.kind)}
       ELSE    VarDefErrs(op)
          \cup DirectiveErrs(op.directives, op.vars)
          \cup SelErrs(op.selections, root, op.vars)
          \cup MergeErrs(Collect(op.selections, root))

ValidOperation(op) == OpErrs(op) = {}
=============================================================================
