------------------------------ MODULE GenC27 ------------------------------
(* Generator for C27 over schema_c27.json (schema1 + nested-list / nullable-list fields): the STATES are programs.
     User.Badge            eager client field (typed by its output type where selected)
     User.bff              client pointer to User
     User.Card             component: an ordered choice of 1..MaxCard of `CardOptions` — aliases, nested linked
                           fields, lists of non-null, nullable lists, lists of lists, client fields (plain, aliased,
                           @loadable, imperatively loaded), a client pointer
     Query.Home($id)       entrypoint: one of `HomeVariants` — concrete, interface (asUser / asPet refinements), union,
                           list-of-interface positions                                                      *)
EXTENDS IsoProgram

CONSTANTS MaxCard, CardChoice, HomeChoice

Loadable(sel) == WithDir(sel, "loadable")

CardOptions ==
  << Scalar("name"),                                                                   \* 1  String!
     ScalarA("age", "years", <<>>),                                                    \* 2  Int (alias)
     Scalar("matrix"),                                                                 \* 3  [[Int!]!]!
     Scalar("optMatrix"),                                                              \* 4  [[Int]]
     Scalar("optTags"),                                                                \* 5  [String]
     ScalarA("score", "s2", << <<"scale", IntV("2")>> >>),                              \* 6  Float (args + alias)
     Linked("bestPet", <<Scalar("nickname"), ScalarA("tags", "t", <<>>), Scalar("aliases")>>),          \* 7  Pet
     LinkedA("pets", "somePets", << <<"first", IntV("1")>> >>, <<Scalar("kind"), Linked("owner", <<Scalar("name")>>)>>),  \* 8  [Pet!]!
     Linked("friends", <<Scalar("name"), Linked("bestPet", <<Scalar("id")>>)>>),          \* 9  [User]
     Linked("grid", <<Scalar("nickname")>>),                                            \* 10 [[Pet]]
     LinkedA("gridNN", "g2", <<>>, <<Scalar("kind"), Scalar("Tag")>>),                    \* 11 [[Pet!]]!  (with a client field inside)
     Linked("petsOpt", <<Scalar("id")>>),                                               \* 12 [Pet]!
     Linked("rivals", <<ScalarA("name", "n", <<>>)>>),                                    \* 13 [User!]
     Scalar("Badge"),                                                                  \* 14 client field
     ScalarA("Badge", "b2", <<>>),                                                      \* 15 client field, alias
     Loadable(ScalarA("Badge", "lb", <<>>)),                                            \* 16 client field, @loadable
     Scalar("__refetch"),                                                              \* 17 imperatively loaded
     LinkedA("bff", "fav", <<>>, <<Scalar("name"), Linked("bestPet", <<Scalar("nickname")>>)>>),    \* 18 client pointer User -> User
     Linked("favPet", <<Scalar("nickname"), Linked("owner", <<Scalar("age")>>)>>) >>               \* 19 client pointer User -> Pet

Uses(cs, name) == \E i \in DOMAIN cs : cs[i].name = name
RECURSIVE UsesDeep(_, _)
UsesDeep(sels, name) == \E i \in DOMAIN sels : sels[i].name = name \/ (IsLinkedSel(sels[i]) /\ UsesDeep(sels[i].sels, name))

HomeVariants ==
  << << Linked("me", <<Scalar("Card"), ScalarA("name", "myName", <<>>)>>) >>,                                       \* 1
     << LinkedA("node", "n", << <<"id", Var("id")>> >>,
                <<Scalar("id"), Linked("asUser", <<Scalar("Card")>>), Linked("asPet", <<Scalar("nickname")>>)>>) >>,  \* 2
     << LinkedA("search", "", << <<"text", StrV(<<120>>)>> >>,
                <<Linked("asUser", <<Scalar("Card"), Scalar("age")>>), Linked("asPet", <<Scalar("kind")>>)>>) >>,   \* 3
     << Linked("users", <<Scalar("Card")>>),
        LinkedA("nodes", "", << <<"ids", Var("ids")>> >>, <<Linked("asUser", <<Scalar("name")>>)>>) >> >>              \* 4

HomeVars(h) == (IF h = 2 THEN <<VarDef("id", NonNull(Named("ID")))>> ELSE <<>>)
               \o (IF h = 4 THEN <<VarDef("ids", NonNull(ListOf(NonNull(Named("ID")))))>> ELSE <<>>)

RECURSIVE SeqOfSet(_)
SeqOfSet(S) == IF S = {} THEN <<>> ELSE LET m == CHOOSE x \in S : \A y \in S : x <= y IN <<m>> \o SeqOfSet(S \ {m})
Pick(s, t) == [i \in DOMAIN t |-> s[t[i]]]

Programs ==
  { LET cs == Pick(CardOptions, ct) IN
    Program((IF Uses(cs, "Badge") THEN <<Field("User", "Badge", <<>>, <<Scalar("name"), Scalar("age")>>)>> ELSE <<>>)
            \o (IF UsesDeep(cs, "Tag") THEN <<Field("Pet", "Tag", <<>>, <<Scalar("tags")>>)>> ELSE <<>>)
            \o (IF Uses(cs, "bff") THEN <<Pointer("User", "bff", "User", <<Linked("friends", <<Scalar("id")>>)>>)>> ELSE <<>>)
            \o (IF Uses(cs, "favPet") THEN <<Pointer("User", "favPet", "Pet", <<Linked("bestPet", <<Scalar("id")>>)>>)>> ELSE <<>>)
            \o << Component("User", "Card", <<>>, cs),
                  Component("Query", "Home", HomeVars(h), HomeVariants[h]),
                  Entrypoint("Query", "Home") >>)
    : ct \in {t \in SubSeqs(SeqOfSet(CardChoice)) : Len(t) >= 1 /\ Len(t) <= MaxCard}, h \in HomeChoice }

\* every list / non-null wrapper combination up to two list levels, over an object type (wp0..wp11: [Pet] .. [[Pet!]!]!) and
\* a scalar (wi0..wi11) -- added after seeded/C27-fast-path-drops-inner-list-wrappers, which is wrong only for [[T!]!]! /
\* [[T]!]! of OBJECT type; the hand-picked fields above had [[Pet]] and [[Pet!]]! only.  Two programs: all object
\* wrappers, all scalar wrappers (aliases on every second one).
WrapNames(pre) == [i \in 1..12 |-> pre \o ToString(i - 1)]
WrapperPrograms ==
  { Program(<< Component("User", "Card", <<>>,
                         [i \in 1..12 |-> IF i % 2 = 0 THEN LinkedA(WrapNames("wp")[i], "a" \o ToString(i), <<>>, <<Scalar("nickname")>>)
                                                        ELSE Linked(WrapNames("wp")[i], <<Scalar("nickname")>>)]),
               Component("Query", "Home", <<>>, HomeVariants[1]), Entrypoint("Query", "Home") >>),
    Program(<< Component("User", "Card", <<>>,
                         [i \in 1..12 |-> IF i % 2 = 0 THEN ScalarA(WrapNames("wi")[i], "b" \o ToString(i), <<>>) ELSE Scalar(WrapNames("wi")[i])]),
               Component("Query", "Home", <<>>, HomeVariants[1]), Entrypoint("Query", "Home") >>) }

VARIABLE prog
Init == prog \in Programs \cup WrapperPrograms
Next == UNCHANGED prog
Spec == Init /\ [][Next]_prog

Emit == PrintT(<<"PROGRAM", ToJson(prog)>>)
=============================================================================
