------------------------------ MODULE GenC15 ------------------------------
(* C15: merged operations are independent of how selections are arranged.

   STATES are pairs (base program, current program); TRANSITIONS are the edits the property names:
     Permute                  swap two adjacent selections of one selection set (generates every reordering)
     DuplicateUnderAlias      repeat a selection of a selection set under a fresh reader alias
     ExtractIntoClientField   move a contiguous range of selections into a NEW client field on the same type
                              (declaring and passing through the variables it uses) selected at the same place
     InlineClientField        replace a (non-loadable) client field selection by that field's selections, with the
                              field's parameters substituted by the supplied arguments (or defaults, or null)

   Needs(p, e) is DEFINED as the set of (path, field, substituted arguments) tuples that the readers reachable
   from entrypoint e need; TLC checks (invariant NeedsPreserved) that every edit preserves it, for every
   entrypoint.  Each reachable state is printed; the driver compiles base and current program with the real
   compiler and ObsC15.tla compares the generated operations / normalization ASTs.

   Universe (stated restriction): schema1; server fields, client fields with parameters and defaults, nested
   client fields, client pointers, @loadable selections, __refetch and @exposeField fields; no type refinements
   (asX).  Edits are applied inside `field` declarations only.                                          *)
EXTENDS IsoProgram

CONSTANTS MaxEdits,       \* length of the edit sequences
          BaseNames       \* which base programs

tInt == Named("Int")  tStr == Named("String")
A1(k, v) == << <<k, v>> >>

\* ---- base programs ---------------------------------------------------------------------------------------
EP == Entrypoint("Query", "Home")
Base(b) ==
  CASE b = "B1" -> << Component("User", "Card", <<>>, <<Scalar("name"), Scalar("age"), Linked("bestPet", <<Scalar("nickname")>>)>>),
                      Component("Query", "Home", <<>>, << Linked("me", <<Scalar("Card"), Scalar("name")>>),
                                                          LinkedA("pets", "", A1("first", IntV("3")), <<Scalar("nickname"), Scalar("kind")>>) >>), EP >>
    [] b = "B2" -> << Component("Query", "Home", <<VarDef("n", tInt), VarDef("u", tStr)>>,
                                << Linked("me", << LinkedA("pets", "", A1("first", Var("n")), <<Scalar("nickname"), ScalarA("weight", "", A1("unit", Var("u")))>>),
                                                   ScalarA("score", "", A1("round", BoolV(TRUE))) >>),
                                   Linked("topPet", <<ScalarA("weight", "", A1("unit", Var("u")))>>) >>), EP >>
    [] b = "B3" -> << Field("Pet", "Tag", <<>>, <<Scalar("nickname"), Scalar("kind")>>),
                      Component("Query", "Home", <<>>, << Linked("topPet", << Scalar("__refetch"), WithDir(Scalar("Tag"), "loadable"), Scalar("nickname"),
                                                                              Linked("owner", <<Scalar("name")>>) >>) >>), EP >>
    [] b = "B4" -> << Field("User", "Card", <<VarDefD("n", tInt, IntV("2"))>>, <<LinkedA("pets", "", A1("first", Var("n")), <<Scalar("nickname")>>), Scalar("name")>>),
                      Component("Query", "Home", <<VarDef("m", tInt)>>,
                                << Linked("me", <<ScalarA("Card", "", A1("n", Var("m"))), ScalarA("Card", "c2", <<>>), Scalar("age")>>) >>), EP >>
    [] b = "B5" -> << Field("User", "A", <<>>, <<Scalar("name")>>), Field("User", "B", <<>>, <<Scalar("age"), Scalar("A")>>),
                      Component("Query", "Home", <<>>, << Linked("me", <<Scalar("B"), Scalar("A"), Linked("friends", <<Scalar("A")>>)>>) >>), EP >>
    [] b = "B6" -> << Pointer("User", "favPet", "Pet", <<Linked("bestPet", <<Scalar("__link")>>)>>),
                      Component("Query", "Home", <<>>, << Linked("me", <<Linked("favPet", <<Scalar("nickname")>>), Scalar("name")>>),
                                                          Linked("topPet", <<Scalar("feed"), Scalar("nickname")>>) >>), EP >>
    [] b = "B7" -> << Field("Pet", "W", <<VarDef("u", tStr)>>, <<ScalarA("weight", "", A1("unit", Var("u"))), Scalar("kind")>>),
                      Component("Query", "Home", <<VarDef("x", tStr)>>,
                                << Linked("topPet", <<ScalarA("W", "", A1("u", StrV(<<107, 103>>))), ScalarA("W", "w2", A1("u", Var("x"))), Scalar("__refetch")>>),
                                   LinkedA("pets", "", A1("filter", ObjV(<< <<"name", StrV(<<120>>)>> >>)), <<ScalarA("W", "", A1("u", Var("x")))>>) >>), EP >>
    [] b = "B8" -> << Field("User", "P", <<>>, <<Linked("bestPet", <<Scalar("nickname"), Linked("owner", <<Scalar("age")>>)>>)>>),
                      Component("Query", "Home", <<>>, << Linked("me", <<Scalar("P"), Linked("bestPet", <<Scalar("kind"), Linked("owner", <<Scalar("name")>>)>>), Scalar("name")>>) >>), EP >>

BaseProg(b) == [decls |-> Base(b)]

\* ---- navigation -----------------------------------------------------------------------------------------
RECURSIVE SetAt(_, _)
SetAt(sels, p) == IF p = <<>> THEN sels ELSE SetAt(sels[Head(p)].sels, Tail(p))
RECURSIVE PutAt(_, _, _)
PutAt(sels, p, new) ==
  IF p = <<>> THEN new
  ELSE LET i == Head(p) IN [sels EXCEPT ![i] = [sels[i] EXCEPT !.sels = PutAt(sels[i].sels, Tail(p), new)]]
RECURSIVE Paths(_)
Paths(sels) == {<<>>} \cup UNION { {<<i>> \o q : q \in Paths(sels[i].sels)} : i \in {j \in DOMAIN sels : IsLinkedSel(sels[j])} }

DeclIdx(prog, T, name) == {i \in DOMAIN prog.decls : prog.decls[i].k \in {"field", "pointer"} /\ prog.decls[i].on = T /\ prog.decls[i].name = name}
ClientDecl(prog, T, name) == prog.decls[CHOOSE i \in DeclIdx(prog, T, name) : TRUE]
IsClient(prog, T, name) == DeclIdx(prog, T, name) # {}
TargetType(prog, T, name) == IF name \in FieldsOf(T) THEN BaseName(FieldDef(T, name).type) ELSE ClientDecl(prog, T, name).to
RECURSIVE TypeAt(_, _, _, _)
TypeAt(prog, T, sels, p) == IF p = <<>> THEN T ELSE TypeAt(prog, TargetType(prog, T, sels[Head(p)].name), sels[Head(p)].sels, Tail(p))
HasDir(s, d) == \E i \in DOMAIN s.dirs : s.dirs[i].name = d
Builtins == {"__typename", "__refetch", "__link", "feed", "refetchPet"}

\* ---- variables / substitution ---------------------------------------------------------------------------
RECURSIVE SubstV(_, _)
SubstV(v, env) ==
  CASE v.t = "var" -> IF v.n \in DOMAIN env THEN env[v.n] ELSE v
    [] v.t = "obj" -> [v EXCEPT !.fields = [i \in DOMAIN v.fields |-> <<v.fields[i][1], SubstV(v.fields[i][2], env)>>]]
    [] OTHER -> v
SubstArgs(args, env) == [i \in DOMAIN args |-> <<args[i][1], SubstV(args[i][2], env)>>]
RECURSIVE SubstSels(_, _)
SubstSels(sels, env) ==
  [i \in DOMAIN sels |-> IF IsLinkedSel(sels[i])
                         THEN [sels[i] EXCEPT !.args = SubstArgs(sels[i].args, env), !.sels = SubstSels(sels[i].sels, env)]
                         ELSE [sels[i] EXCEPT !.args = SubstArgs(sels[i].args, env)]]

\* the values a client field's parameters take at a selection of it: the argument, else the default, else null
EnvFor(cf, args, env) ==
  [n \in {cf.vars[i].name : i \in DOMAIN cf.vars} |->
     LET given == {j \in DOMAIN args : args[j][1] = n}
         vd == cf.vars[CHOOSE i \in DOMAIN cf.vars : cf.vars[i].name = n]
     IN IF given # {} THEN SubstV(args[CHOOSE j \in given : TRUE][2], env)
        ELSE IF "default" \in DOMAIN vd THEN vd.default ELSE NullV]

RECURSIVE ValueVarNames(_)
ValueVarNames(v) == CASE v.t = "var" -> {v.n}
                      [] v.t = "obj" -> UNION {ValueVarNames(v.fields[i][2]) : i \in DOMAIN v.fields}
                      [] OTHER -> {}
RECURSIVE SelsVarNames(_)
SelsVarNames(sels) ==
  UNION { UNION {ValueVarNames(sels[i].args[j][2]) : j \in DOMAIN sels[i].args}
          \cup (IF IsLinkedSel(sels[i]) THEN SelsVarNames(sels[i].sels) ELSE {}) : i \in DOMAIN sels }

\* ---- Needs ---------------------------------------------------------------------------------------------
RECURSIVE NeedsOf(_, _, _, _, _)
NeedSel(prog, T, s, env, path) ==
  IF s.name \in FieldsOf(T) THEN
       LET a == SubstArgs(s.args, env) IN
       IF IsLinkedSel(s) THEN {<<path, s.name, a>>} \cup NeedsOf(prog, BaseName(FieldDef(T, s.name).type), s.sels, env, Append(path, <<s.name, a>>))
       ELSE {<<path, s.name, a>>}
  ELSE IF s.name \in Builtins THEN {<<path, s.name, <<>> >>}
  ELSE IF HasDir(s, "loadable") THEN {<<path, "loadable:" \o s.name, SubstArgs(s.args, env)>>}
  ELSE LET cf == ClientDecl(prog, T, s.name) IN
       IF cf.k = "field" THEN NeedsOf(prog, T, cf.sels, EnvFor(cf, s.args, env), path)
       ELSE {<<path, "pointer:" \o s.name, <<>> >>}
            \cup NeedsOf(prog, T, cf.sels, <<>>, path)
            \cup NeedsOf(prog, cf.to, s.sels, env, Append(path, <<"pointer:" \o s.name, <<>> >>))
NeedsOf(prog, T, sels, env, path) == UNION {NeedSel(prog, T, sels[i], env, path) : i \in DOMAIN sels}

Entrypoints(prog) == {i \in DOMAIN prog.decls : prog.decls[i].k = "entrypoint"}
Needs(prog, e) == LET ep == prog.decls[e]  f == ClientDecl(prog, ep.on, ep.name) IN NeedsOf(prog, ep.on, f.sels, <<>>, <<>>)
EpKey(prog, e) == <<prog.decls[e].on, prog.decls[e].name>>
AllNeeds(prog) == {<<EpKey(prog, e), Needs(prog, e)>> : e \in Entrypoints(prog)}

\* ---- edits ---------------------------------------------------------------------------------------------
VARIABLES base, cur, n, hist

SetDecl(prog, d, sels) == [prog EXCEPT !.decls[d].sels = sels]
Editable(prog) == {d \in DOMAIN prog.decls : prog.decls[d].k = "field"}
Fresh(prefix) == prefix \o ToString(n + 1)

PermuteAt(d, p, i) ==
  LET top == cur.decls[d].sels  set == SetAt(top, p)
      swapped == [set EXCEPT ![i] = set[i + 1], ![i + 1] = set[i]]
  IN SetDecl(cur, d, PutAt(top, p, swapped))

DupAt(d, p, i) ==
  LET top == cur.decls[d].sels  set == SetAt(top, p)
  IN SetDecl(cur, d, PutAt(top, p, Append(set, [set[i] EXCEPT !.alias = Fresh("dup")])))

ExtractAt(d, p, i, j) ==
  LET dec == cur.decls[d]  top == dec.sels  set == SetAt(top, p)
      T == TypeAt(cur, dec.on, top, p)
      moved == SubSeq(set, i, j)
      used == SelsVarNames(moved)
      vars == SelectSeq(dec.vars, LAMBDA v : v.name \in used)
      name == Fresh("Ext")
      newDecl == Field(T, name, vars, moved)
      call == ScalarA(name, "", [k \in DOMAIN vars |-> <<vars[k].name, Var(vars[k].name)>>])
      newSet == SubSeq(set, 1, i - 1) \o <<call>> \o SubSeq(set, j + 1, Len(set))
      edited == SetDecl(cur, d, PutAt(top, p, newSet))
  IN [edited EXCEPT !.decls = <<newDecl>> \o @]

Inlinable(T, s) == /\ ~IsLinkedSel(s) /\ s.name \notin FieldsOf(T) /\ s.name \notin Builtins /\ s.dirs = <<>>
                   /\ IsClient(cur, T, s.name) /\ ClientDecl(cur, T, s.name).k = "field"
InlineAt(d, p, i) ==
  LET dec == cur.decls[d]  top == dec.sels  set == SetAt(top, p)
      T == TypeAt(cur, dec.on, top, p)
      cf == ClientDecl(cur, T, set[i].name)
      body == SubstSels(cf.sels, EnvFor(cf, set[i].args, <<>>))
      aliased == [k \in DOMAIN body |-> [body[k] EXCEPT !.alias = Fresh("inl") \o "x" \o ToString(k)]]
      newSet == SubSeq(set, 1, i - 1) \o aliased \o SubSeq(set, i + 1, Len(set))
  IN SetDecl(cur, d, PutAt(top, p, newSet))

Step(name, prog) == /\ cur' = prog /\ n' = n + 1 /\ hist' = Append(hist, name) /\ UNCHANGED base

Permute ==
  n < MaxEdits /\ \E d \in Editable(cur) : \E p \in Paths(cur.decls[d].sels) :
    \E i \in 1..(Len(SetAt(cur.decls[d].sels, p)) - 1) : Step("permute", PermuteAt(d, p, i))
DuplicateUnderAlias ==
  n < MaxEdits /\ \E d \in Editable(cur) : \E p \in Paths(cur.decls[d].sels) :
    \E i \in DOMAIN SetAt(cur.decls[d].sels, p) : Step("duplicate", DupAt(d, p, i))
ExtractIntoClientField ==
  n < MaxEdits /\ \E d \in Editable(cur) : \E p \in Paths(cur.decls[d].sels) :
    LET set == SetAt(cur.decls[d].sels, p) IN
    \E i \in DOMAIN set : \E j \in i..Len(set) :
       /\ \A k \in i..j : set[k].name # "__link"
       /\ Step("extract", ExtractAt(d, p, i, j))
InlineClientField ==
  n < MaxEdits /\ \E d \in Editable(cur) : \E p \in Paths(cur.decls[d].sels) :
    LET set == SetAt(cur.decls[d].sels, p)  T == TypeAt(cur, cur.decls[d].on, cur.decls[d].sels, p) IN
    \E i \in DOMAIN set : Inlinable(T, set[i]) /\ Step("inline", InlineAt(d, p, i))

Init == /\ base \in BaseNames /\ cur = BaseProg(base) /\ n = 0 /\ hist = <<>>
Next == Permute \/ DuplicateUnderAlias \/ ExtractIntoClientField \/ InlineClientField
vars == <<base, cur, n, hist>>
Spec == Init /\ [][Next]_vars

\* the model-level theorem: every edit preserves what every entrypoint needs
NeedsPreserved == AllNeeds(cur) = AllNeeds(BaseProg(base))

Emit == PrintT(<<"PROGRAM", ToJson([base |-> base, edits |-> hist, prog |-> [decls |-> cur.decls, feats |-> {"edit-" \o hist[i] : i \in DOMAIN hist} \cup {"base-" \o base}]])>>)
=============================================================================
