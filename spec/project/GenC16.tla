------------------------------- MODULE GenC16 -------------------------------
(* C16 generator.  The STATES of this specification are programs; the TRANSITIONS are edits.

   Init   = every base program of the feature model: a fixed plain scaffold (client fields with
            variables Pet.Tag, User.Card, a pointer User.fav, the component Query.Home + entrypoint)
            plus a choice of feature UNITS (one unit, or two when UnitMode = "pairs").  A unit adds
            variables and selections to Query.Home and / or declarations of its own and exercises one
            feature of the language subset (every value kind of the iso syntax: $var, int, string,
            bool, null, nested object; list / non-null wrappers; defaults; enum positions; client-field
            parameters; refinements; @loadable; pointers).  Every base program is well typed
            according to Validity.tla (checked here: invariant TagSound).
   Next   = BreakRule(r): ONE edit that breaks exactly one rule r of the property statement, at every
            applicable position of the mutable declarations (single-fault mutants).  Candidates that
            would break no rule or more than one are not transitions (guard Broken(p') = {r}).

   Each state is printed as <<"PROGRAM", [prog, rule, shape, units]>>; rule = "none" for base programs.
   The expected verdict is NOT taken from the tag: ObsC16.tla re-evaluates Valid(prog) on the record. *)
EXTENDS Validity

CONSTANTS UnitMode,      \* "single": scaffold alone + one unit;  "pairs": additionally every pair of units
          UnitFilter     \* {} = all units, otherwise the set of unit ids to use

A(n, v) == <<n, v>>
Str(c) == StrV(<<c>>)
Nick == <<Scalar("nickname")>>
Name == <<Scalar("name")>>
Id == <<Scalar("id")>>
TInt == Named("Int")
TString == Named("String")
ListNN(n) == ListOf(NonNull(Named(n)))             \* [n!]
U(id, vars, sels, decls) == [id |-> id, vars |-> vars, sels |-> sels, decls |-> decls]

\* ---- scaffold (plain constructs only) -----------------------------------------------------------
Tag == Field("Pet", "Tag", <<VarDef("unit", TString), VarDef("n", NonNull(TInt))>>,
             << Scalar("nickname"),
                ScalarA("weight", "", <<A("unit", Var("unit"))>>),
                Linked("owner", <<LinkedA("pets", "", <<A("first", Var("n"))>>, Id)>>) >>)
Card == Component("User", "Card", <<VarDef("first", TInt), VarDef("kind", Named("PetKind"))>>,
             << Scalar("name"),
                LinkedA("pets", "", <<A("first", Var("first")), A("kind", Var("kind"))>>,
                        <<ScalarA("Tag", "", <<A("unit", Str(107)), A("n", IntV("3"))>>)>>) >>)
Fav == Pointer("User", "fav", "Pet", <<Linked("bestPet", <<Scalar("__link")>>)>>)
Scaffold == <<Tag, Card, Fav>>

FeedDecls(name, vars, input) ==
  << Field("Mutation", name, vars, <<LinkedA("feedPet", "", <<A("input", input)>>, <<Scalar("ok"), Linked("pet", Nick)>>)>>),
     Entrypoint("Mutation", name) >>

Units == <<
  U("int-literal", <<>>, <<LinkedA("pets", "a1", <<A("first", IntV("3"))>>, Nick)>>, <<>>),
  U("negative-int-and-string", <<>>, <<LinkedA("pets", "a2", <<A("first", IntV("-1")), A("after", Str(120))>>, Nick)>>, <<>>),
  U("null-literals", <<>>, <<LinkedA("pets", "a3", <<A("first", NullV), A("filter", NullV)>>, Nick)>>, <<>>),
  U("bool-and-int-as-float", <<>>, <<LinkedA("me", "a4", <<>>, <<ScalarA("score", "", <<A("scale", IntV("2")), A("round", BoolV(TRUE))>>)>>)>>, <<>>),
  U("string-as-id", <<>>, <<LinkedA("user", "a5", <<A("id", Str(117))>>, Name)>>, <<>>),
  U("int-as-id", <<>>, <<LinkedA("user", "a6", <<A("id", IntV("7"))>>, Name)>>, <<>>),
  U("var-nonnull-id", <<VarDef("id7", NonNull(Named("ID")))>>, <<LinkedA("user", "a7", <<A("id", Var("id7"))>>, Name)>>, <<>>),
  U("var-nonnull-in-nullable-position", <<VarDef("n8", NonNull(TInt))>>, <<LinkedA("pets", "a8", <<A("first", Var("n8"))>>, Nick)>>, <<>>),
  U("var-nullable", <<VarDef("n9", TInt), VarDef("s9", TString)>>,
    <<LinkedA("pets", "a9", <<A("first", Var("n9")), A("after", Var("s9"))>>, Nick)>>, <<>>),
  U("object-literal", <<>>,
    <<LinkedA("pets", "a10", <<A("filter", ObjV(<<A("name", Str(120)), A("minWeight", IntV("3")), A("kind", NullV)>>))>>, Nick)>>, <<>>),
  U("nested-object-with-variable", <<VarDef("w11", TInt)>>,
    <<LinkedA("pets", "a11", <<A("filter", ObjV(<<A("nested", ObjV(<<A("minWeight", Var("w11")),
                                                                       A("nested", ObjV(<<A("name", Str(121))>>))>>))>>))>>, Nick)>>, <<>>),
  U("var-of-recursive-input-object-type", <<VarDef("f12", Named("PetFilter"))>>,
    <<LinkedA("pets", "a12", <<A("filter", Var("f12"))>>, Nick)>>, <<>>),
  U("list-var-exact-nonnull", <<VarDef("ids13", NonNull(ListNN("ID")))>>,
    <<LinkedA("byIds", "a13", <<A("ids", Var("ids13"))>>, Nick)>>, <<>>),
  U("list-var-exact-nullable", <<VarDef("i14", NonNull(ListNN("ID"))), VarDef("n14", ListNN("Int"))>>,
    <<LinkedA("byIds", "a14", <<A("ids", Var("i14")), A("nums", Var("n14"))>>, Nick)>>, <<>>),
  U("list-var-nonnull-item-in-nullable-item-position", <<VarDef("i15", NonNull(ListNN("ID"))), VarDef("t15", ListNN("String"))>>,
    <<LinkedA("byIds", "a15", <<A("ids", Var("i15")), A("tags", Var("t15"))>>, Nick)>>, <<>>),
  U("list-var-nonnull-list-in-nullable-position", <<VarDef("i16", NonNull(ListNN("ID"))), VarDef("t16", NonNull(ListOf(TString)))>>,
    <<LinkedA("byIds", "a16", <<A("ids", Var("i16")), A("tags", Var("t16"))>>, Nick)>>, <<>>),
  U("nested-list-var", <<VarDef("m17", ListOf(ListNN("Int")))>>, <<ScalarA("matrix", "a17", <<A("m", Var("m17"))>>)>>, <<>>),
  U("argument-default-omitted", <<>>, <<LinkedA("top", "a18", <<>>, Nick)>>, <<>>),
  U("argument-default-overridden", <<>>, <<LinkedA("top", "a19", <<A("n", IntV("5"))>>, Nick)>>, <<>>),
  U("var-with-default-in-nonnull-position", <<VarDefD("n20", TInt, IntV("3"))>>, <<LinkedA("top", "a20", <<A("n", Var("n20"))>>, Nick)>>, <<>>),
  U("var-nullable-in-nonnull-position-with-default", <<VarDef("n21", TInt)>>, <<LinkedA("top", "a21", <<A("n", Var("n21"))>>, Nick)>>, <<>>),
  U("refine-interface", <<VarDef("id22", NonNull(Named("ID")))>>,
    <<LinkedA("node", "a22", <<A("id", Var("id22"))>>, <<Linked("asPet", Nick), Linked("asUser", Name)>>)>>, <<>>),
  U("refine-union", <<>>, <<LinkedA("search", "a23", <<A("text", Str(113))>>, <<Linked("asUser", Name), Linked("asPet", Nick)>>)>>, <<>>),
  U("client-field-args-literals", <<>>, <<LinkedA("me", "a24", <<>>, <<ScalarA("Card", "", <<A("first", IntV("2")), A("kind", NullV)>>)>>)>>, <<>>),
  U("client-field-args-vars", <<VarDef("n25", TInt), VarDef("k25", Named("PetKind"))>>,
    <<LinkedA("me", "a25", <<>>, <<ScalarA("Card", "", <<A("first", Var("n25")), A("kind", Var("k25"))>>)>>)>>, <<>>),
  U("client-field-required-arg-literal", <<>>, <<LinkedA("topPet", "a26", <<>>, <<ScalarA("Tag", "", <<A("unit", Str(107)), A("n", IntV("3"))>>)>>)>>, <<>>),
  U("client-field-required-arg-var", <<VarDef("n27", NonNull(TInt))>>, <<LinkedA("topPet", "a27", <<>>, <<ScalarA("Tag", "", <<A("n", Var("n27"))>>)>>)>>, <<>>),
  U("loadable-omits-required-arg", <<>>, <<LinkedA("topPet", "a28", <<>>, <<WithDir(Scalar("Tag"), "loadable")>>)>>, <<>>),
  U("pointer", <<>>, <<LinkedA("me", "a29", <<>>, <<Linked("fav", Nick)>>)>>, <<>>),
  U("enum-vars", <<VarDef("k30", Named("PetKind")), VarDef("j30", NonNull(Named("PetKind")))>>,
    <<LinkedA("me", "a30", <<>>, <<LinkedA("pets", "p1", <<A("kind", Var("k30"))>>, Id), LinkedA("pets", "p2", <<A("kind", Var("j30"))>>, Id)>>)>>, <<>>),
  U("required-arg-on-scalar-field", <<>>, <<LinkedA("me", "a31", <<>>, <<ScalarA("greeting", "", <<A("lang", Str(101))>>)>>)>>, <<>>),
  U("mutation-input-object-literal", <<>>, <<>>,
    FeedDecls("Feed1", <<VarDef("id", NonNull(Named("ID")))>>, ObjV(<<A("petId", Var("id")), A("amount", IntV("2")), A("mode", Str(109))>>))),
  U("input-field-with-default-omitted", <<>>, <<>>,
    FeedDecls("Feed2", <<VarDef("id", NonNull(Named("ID")))>>, ObjV(<<A("petId", Var("id"))>>))),
  U("var-of-input-object-type", <<>>, <<>>, FeedDecls("Feed3", <<VarDef("in", NonNull(Named("FeedInput")))>>, Var("in"))),
  U("typename-and-same-field-under-two-aliases", <<>>,
    <<LinkedA("me", "a35", <<>>, <<Scalar("__typename"), ScalarA("name", "n1", <<>>), ScalarA("name", "n2", <<>>)>>)>>, <<>>),
  U("list-var-in-input-object-field", <<VarDef("k36", ListNN("PetKind"))>>,
    <<LinkedA("pets", "a36", <<A("filter", ObjV(<<A("kinds", Var("k36"))>>))>>, Nick)>>, <<>>),
  U("client-field-variables-with-defaults", <<>>, <<LinkedA("topPet", "a37", <<>>, <<Scalar("Dflt"), ScalarA("Dflt", "d2", <<A("u", NullV)>>)>>)>>,
    << Field("Pet", "Dflt", <<VarDefD("u", TString, Str(107)), VarDefD("r", NonNull(TInt), IntV("1"))>>,
             << ScalarA("weight", "", <<A("unit", Var("u"))>>), Linked("owner", <<LinkedA("pets", "", <<A("first", Var("r"))>>, Id)>>) >>) >>)
>>

UnitIdx == {i \in DOMAIN Units : UnitFilter = {} \/ Units[i].id \in UnitFilter}
Choices == {<<>>} \cup {<<i>> : i \in UnitIdx}
           \cup (IF UnitMode = "pairs" THEN {<<x[1], x[2]>> : x \in {y \in UnitIdx \X UnitIdx : y[1] < y[2]}} ELSE {})

RECURSIVE Cat(_, _)
Cat(us, f) == IF us = <<>> THEN <<>> ELSE (IF f = "vars" THEN Units[Head(us)].vars ELSE IF f = "sels" THEN Units[Head(us)].sels ELSE Units[Head(us)].decls) \o Cat(Tail(us), f)

Build(us) == Program(Scaffold \o Cat(us, "decls")
                     \o << Component("Query", "Home", Cat(us, "vars"), <<Linked("me", Name)>> \o Cat(us, "sels")),
                           Entrypoint("Query", "Home") >>)
UnitIds(us) == [i \in DOMAIN us |-> Units[us[i]].id]

\* ---- positions -----------------------------------------------------------------------------------
RECURSIVE PathsIn(_)
PathsIn(sels) == UNION { {<<i>>} \cup (IF IsLinkedSel(sels[i]) THEN {<<i>> \o p : p \in PathsIn(sels[i].sels)} ELSE {}) : i \in DOMAIN sels }
RECURSIVE GetAt(_, _)
GetAt(sels, p) == IF Len(p) = 1 THEN sels[p[1]] ELSE GetAt(sels[p[1]].sels, Tail(p))
RECURSIVE SetAt(_, _, _)
SetAt(sels, p, x) == IF Len(p) = 1 THEN [sels EXCEPT ![p[1]] = x]
                     ELSE [sels EXCEPT ![p[1]] = [sels[p[1]] EXCEPT !.sels = SetAt(sels[p[1]].sels, Tail(p), x)]]
RECURSIVE ParentTypeAt(_, _, _, _)
ParentTypeAt(P, T, sels, p) == IF Len(p) = 1 THEN T ELSE ParentTypeAt(P, Lookup(P, T, sels[p[1]].name).child, sels[p[1]].sels, Tail(p))

\* selection sets are addressed by the path of their parent selection (<<>> = the declaration's own)
SelSetPaths(sels) == {<<>>} \cup {p \in PathsIn(sels) : IsLinkedSel(GetAt(sels, p))}
GetSet(sels, pp) == IF pp = <<>> THEN sels ELSE GetAt(sels, pp).sels
PutSet(sels, pp, new) == IF pp = <<>> THEN new ELSE SetAt(sels, pp, [GetAt(sels, pp) EXCEPT !.sels = new])

Drop(r, f) == [g \in DOMAIN r \ {f} |-> r[g]]
RemoveIdx(s, i) == SubSeq(s, 1, i - 1) \o SubSeq(s, i + 1, Len(s))

\* paths into a value: <<>> is the value itself, <<j>> \o q goes into the j-th field of an object
RECURSIVE ValPaths(_)
ValPaths(v) == {<<>>} \cup (IF v.t = "obj" THEN UNION {{<<j>> \o q : q \in ValPaths(v.fields[j][2])} : j \in DOMAIN v.fields} ELSE {})
RECURSIVE ValAt(_, _)
ValAt(v, q) == IF q = <<>> THEN v ELSE ValAt(v.fields[q[1]][2], Tail(q))
RECURSIVE ValPut(_, _, _)
ValPut(v, q, x) == IF q = <<>> THEN x
                   ELSE [v EXCEPT !.fields = [v.fields EXCEPT ![q[1]] = <<v.fields[q[1]][1], ValPut(v.fields[q[1]][2], Tail(q), x)>>]]
\* the declared type of the position q inside value v which sits in a position of type ty
RECURSIVE PosType(_, _, _)
PosType(v, ty, q) ==
  IF q = <<>> THEN ty
  ELSE LET t == IF ty.k = "nonnull" THEN ty.of ELSE ty
           f == v.fields[q[1]][1]
       IN IF t.k = "named" /\ VKind(t.n) = "input" /\ f \in DOMAIN VT[t.n].fields
            THEN PosType(v.fields[q[1]][2], VT[t.n].fields[f].type, Tail(q)) ELSE UnknownType

\* ---- BreakRule edits -----------------------------------------------------------------------------
(* An edit is described by a small descriptor (so that TLC handles sets of descriptors, never sets of
   programs); Apply turns a descriptor into [rule, shape, prog]. *)
AltSeq == << IntV("1"), Str(115), BoolV(TRUE), NullV, ObjV(<<A("name", Str(115))>>), ObjV(<<>>) >>
AltName == << "int", "str", "bool", "null", "obj", "empty-obj" >>

RECURSIVE TypeVariants(_)
\* near-miss types for a variable declaration: drop a non-null, wrap in / unwrap a list, change the
\* named type, make the item type nullable
TypeVariants(t) ==
  IF t.k = "nonnull" THEN {t.of} \cup {NonNull(x) : x \in {y \in TypeVariants(t.of) : y.k # "nonnull"}}
  ELSE IF t.k = "list" THEN {t.of, ListOf(t)} \cup {ListOf(x) : x \in TypeVariants(t.of)}
  ELSE {ListOf(t), Named(IF t.n = "Int" THEN "String" ELSE "Int")}

E(op, p, i, q, k, an, ty) == [op |-> op, p |-> p, i |-> i, q |-> q, k |-> k, an |-> an, ty |-> ty]

SelDescs(d, first) ==
  UNION { LET s == GetAt(d.sels, p) IN
            { E("undef_field", p, 0, <<>>, 0, "", TInt) }
            \cup (IF IsLinkedSel(s) THEN { E("obj_no_sels", p, 0, <<>>, 0, "", TInt) } ELSE { E("scalar_with_sels", p, 0, <<>>, 0, "", TInt) })
            \cup { E("undef_arg", p, 0, <<>>, 0, an, TInt) : an \in {"bogus", "id"} \ {s.args[i][1] : i \in DOMAIN s.args} }
            \cup { E("missing_arg", p, i, <<>>, 0, "", TInt) : i \in DOMAIN s.args }
            \cup UNION { UNION { { E("type_alt", p, i, q, k, "", TInt) : k \in {x \in DOMAIN AltSeq : AltSeq[x].t # ValAt(s.args[i][2], q).t} }
                                 \cup (IF ValAt(s.args[i][2], q).t = "obj"
                                         THEN { E("type_obj_extra", p, i, q, 0, "", TInt) }
                                              \cup { E("type_obj_drop", p, i, q, j, "", TInt) : j \in DOMAIN ValAt(s.args[i][2], q).fields }
                                         ELSE {})
                                 : q \in ValPaths(s.args[i][2]) } : i \in DOMAIN s.args }
          : p \in {x \in PathsIn(d.sels) : x[1] \in first} }

DupDescs(d, first) ==
  UNION { LET set == GetSet(d.sels, pp) IN
            LET ok == IF pp = <<>> THEN first ELSE DOMAIN set IN
            { E("dup_alias", pp, x[1], <<>>, x[2], "", TInt) : x \in {y \in (DOMAIN set) \X ok : y[1] # y[2]} }
            \cup { E("dup_copy", pp, i, <<>>, 0, "", TInt) : i \in ok }
          : pp \in {x \in SelSetPaths(d.sels) : x = <<>> \/ x[1] \in first} }

VarDescs(d, first) ==
  (IF first = DOMAIN d.sels THEN { E("unused_var", <<>>, 0, <<>>, 0, "", ty) : ty \in {TInt, NonNull(Named("ID")), ListNN("String"), Named("PetFilter")} } ELSE {})
  \cup { E("undecl_var", <<>>, i, <<>>, 0, "", TInt) : i \in DOMAIN d.vars }
  \cup UNION { { E("var_type", <<>>, i, <<>>, 0, "", nt) : nt \in TypeVariants(d.vars[i].type) } : i \in DOMAIN d.vars }

Descs(d, first) == SelDescs(d, first) \cup DupDescs(d, first) \cup VarDescs(d, first)

\* an edit that deletes the only use of a variable also deletes its declaration (it stays ONE fault)
Prune(P, di) == [P EXCEPT !.decls[di].vars = SelectSeq(@, LAMBDA v : v.name \in UsedVars(P.decls[di].sels))]

Apply(P, di, e) ==
  LET d == P.decls[di]
      dkind == IF d.k = "pointer" THEN "pointer" ELSE IF d.component THEN "component" ELSE "field" IN
  IF e.op \in {"unused_var", "undecl_var", "var_type"} THEN
    CASE e.op = "unused_var" -> [rule |-> "unused_var", shape |-> [decl |-> dkind, type |-> e.ty],
                                 prog |-> [P EXCEPT !.decls[di].vars = Append(@, VarDef("zz", e.ty))]]
      [] e.op = "undecl_var" -> [rule |-> "undecl_var", shape |-> [decl |-> dkind, type |-> d.vars[e.i].type],
                                 prog |-> [P EXCEPT !.decls[di].vars = RemoveIdx(@, e.i)]]
      [] e.op = "var_type"   -> [rule |-> "type", shape |-> [var |-> d.vars[e.i].type, now |-> e.ty, hasdefault |-> "default" \in DOMAIN d.vars[e.i]],
                                 prog |-> [P EXCEPT !.decls[di].vars[e.i].type = e.ty]]
  ELSE IF e.op \in {"dup_alias", "dup_copy"} THEN
    LET set == GetSet(d.sels, e.p)
        put(new) == [P EXCEPT !.decls[di].sels = PutSet(d.sels, e.p, new)] IN
    IF e.op = "dup_alias"
      THEN [rule |-> "dup_name", shape |-> [how |-> IF set[e.i].alias = "" THEN "alias-equals-name" ELSE "alias-equals-alias", depth |-> Len(e.p)],
            prog |-> put([set EXCEPT ![e.k] = [set[e.k] EXCEPT !.alias = RespName(set[e.i])]])]
      ELSE [rule |-> "dup_name", shape |-> [how |-> "verbatim-duplicate", depth |-> Len(e.p)], prog |-> put(Append(set, set[e.i]))]
  ELSE
    LET s == GetAt(d.sels, e.p)
        T == ParentTypeAt(P, d.on, d.sels, e.p)
        lk == Lookup(P, T, s.name)
        put(x) == Prune([P EXCEPT !.decls[di].sels = SetAt(d.sels, e.p, x)], di) IN
    CASE e.op = "undef_field" -> [rule |-> "undef_field", shape |-> [on |-> lk.kind, linked |-> IsLinkedSel(s)], prog |-> put([s EXCEPT !.name = "nope"])]
      [] e.op = "obj_no_sels" -> [rule |-> "obj_no_sels", shape |-> [on |-> lk.kind], prog |-> put(Drop(s, "sels"))]
      [] e.op = "scalar_with_sels" -> [rule |-> "scalar_with_sels", shape |-> [on |-> lk.kind],
                                       prog |-> put([f \in DOMAIN s \cup {"sels"} |-> IF f = "sels" THEN Id ELSE s[f]])]
      [] e.op = "undef_arg" -> [rule |-> "undef_arg", shape |-> [on |-> lk.kind, linked |-> lk.linked, arg |-> e.an],
                                prog |-> put([s EXCEPT !.args = Append(@, A(e.an, IntV("1")))])]
      [] e.op = "missing_arg" -> [rule |-> "missing_arg", shape |-> [on |-> lk.kind, linked |-> lk.linked], prog |-> put([s EXCEPT !.args = RemoveIdx(@, e.i)])]
      [] OTHER ->
          LET an == s.args[e.i][1]
              ty == IF an \in DOMAIN lk.args THEN PosType(s.args[e.i][2], lk.args[an].type, e.q) ELSE UnknownType
              old == ValAt(s.args[e.i][2], e.q)
              putv(x) == put([s EXCEPT !.args[e.i] = <<an, ValPut(s.args[e.i][2], e.q, x)>>])
              sh(now) == [pos |-> ty, on |-> lk.kind, nested |-> Len(e.q), was |-> old.t, now |-> now] IN
          CASE e.op = "type_alt" -> [rule |-> "type", shape |-> sh(AltName[e.k]), prog |-> putv(AltSeq[e.k])]
            [] e.op = "type_obj_extra" -> [rule |-> "type", shape |-> sh("obj-with-undefined-field"), prog |-> putv([old EXCEPT !.fields = Append(@, A("bogus", IntV("1")))])]
            [] e.op = "type_obj_drop" -> [rule |-> "type", shape |-> sh("obj-without-required-field"), prog |-> putv([old EXCEPT !.fields = RemoveIdx(@, e.k)])]

\* ---- the state machine ---------------------------------------------------------------------------
VARIABLES prog, rule, shape, units
vars == <<prog, rule, shape, units>>

Init == /\ units \in Choices
        /\ prog = Build(units)
        /\ rule = "none"
        /\ shape = [base |-> TRUE]

\* which declarations are edited: everything for the scaffold-only program, otherwise the unit's own
\* declarations and Query.Home (the scaffold's mutants would only repeat)
Mutable(P, us) == IF us = <<>> THEN ClientDecls(P) ELSE {i \in ClientDecls(P) : i > Len(Scaffold)}

\* in Query.Home of a program with a unit only the unit's selections are edited (the first selection is scaffold)
First(P, us, di) == IF us # <<>> /\ di = Len(P.decls) - 1 THEN 2 .. Len(P.decls[di].sels) ELSE DOMAIN P.decls[di].sels

BreakRule(r) ==
  /\ rule = "none"
  /\ Len(units) <= 1
  /\ \E di \in Mutable(prog, units) : \E e \in Descs(prog.decls[di], First(prog, units, di)) :
        LET c == Apply(prog, di, e) IN
        /\ c.rule = r
        /\ InSubset(c.prog)
        /\ Broken(c.prog) = {r}
        /\ prog' = c.prog /\ rule' = r /\ shape' = c.shape
  /\ UNCHANGED units

BreakUndefField == BreakRule("undef_field")
BreakObjNoSels == BreakRule("obj_no_sels")
BreakScalarWithSels == BreakRule("scalar_with_sels")
BreakUndefArg == BreakRule("undef_arg")
BreakMissingArg == BreakRule("missing_arg")
BreakUndeclVar == BreakRule("undecl_var")
BreakUnusedVar == BreakRule("unused_var")
BreakType == BreakRule("type")
BreakDupName == BreakRule("dup_name")
Next == \/ BreakUndefField \/ BreakObjNoSels \/ BreakScalarWithSels \/ BreakUndefArg \/ BreakMissingArg
        \/ BreakUndeclVar \/ BreakUnusedVar \/ BreakType \/ BreakDupName
Spec == Init /\ [][Next]_vars

\* every generated program is inside the modelled subset, base programs are valid, mutants break exactly their rule
TagSound == /\ InSubset(prog)
            /\ rule = "none" => Broken(prog) = {}
            /\ rule # "none" => Broken(prog) = {rule}

Emit == PrintT(<<"PROGRAM", ToJson([prog |-> prog, rule |-> rule, shape |-> shape, units |-> UnitIds(units)])>>)
=============================================================================
